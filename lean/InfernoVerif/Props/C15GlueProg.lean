import InfernoVerif.Gen.LifecycleProg
import InfernoVerif.Model.Lifecycle
import InfernoVerif.Lemmas.Lifecycle
/-!
# Glue: the code-shaped lifecycle machine IS the pool / trainer bookkeeping code in /repo's source

`Gen/LifecycleProg.lean` is regenerated on every run by `harness/progtx_lifecycle.py` from the *whole bodies* of
`Observable.monitors`, `Observable.add_monitor`, `MonitorPool.monitors` / `named_monitors` / `pool` /
`add_observed` / `get_observed` / `del_observed` / `add_monitor` / `get_monitor` / `del_monitor`
(`inferno/observe/pooling.py`) and `CellTrainer.monitors` / `named_monitors` / `cells` / `named_cells` / `add_cell` /
`del_cell` / `add_monitor` / `get_monitor` / `del_monitor` / `train` / `clear` / `update` (`inferno/learn/base.py`):
membership tests with their exception classes, the `unique` / existing-monitor cascade, the alias loop with its
`continue`s and `break`, the `_tags` comparison, the `shared` set, the `any(… is target …)` test, the loops over
the pool's `monitors`, the comprehensions of the listings are kept; Python / torch / inferno primitives are the
functions of `Gen/LifecyclePrelude.lean`.

The theorems below state, method by method, that running the regenerated program in a world `w : LW` (everything
outside the running trainer `w.st`, the identity `w.me` of the trainer, its own containers and its pool's) and
mapping the result through the abstraction `toM` is exactly the corresponding case of the hand-written machine
`Lifecycle.stepCore` (`Model/Lifecycle.lean`) on trainer `w.me` — `lift` — and, with the reference counting `gc`
that CPython runs when the method has returned, of `Lifecycle.step` — `liftS`, the `…_step` / `…_model`
corollaries —, the machine `Props/C15.lean` / `Props/C15b.lean` are about.  An exception corresponds to `Out.err`
and the world AT THE RAISE must be the model's state (for a realignment error inside `add_monitor(unique=True)`:
after the existing entry was erased).  A change to a method body (a flipped membership test, a dropped
deregistration, the `shared` / `any` guard of the D17 repair, the basis test of the D36 repair, `break` /
`continue` exchanged, `found` not updated, the wrong dictionary written, `unique` ignored, register / deregister
exchanged in `train`) changes the generated text and the corresponding theorem stops checking.

Main theorems: `gen_obs_add_monitor`, `gen_pool`, `gen_pool_monitors`, `gen_pool_named_monitors`,
`gen_add_observed`, `gen_get_observed`, `gen_get_monitor`, `gen_obs_monitors`, `gen_del_observed`,
`gen_pool_add_monitor` (unique, pooled and aliased paths), `gen_pool_del_monitor`; `gen_add_cell` (+
`gen_register_cell`), `gen_del_cell`, `gen_add_monitor`, `gen_del_monitor`, `gen_train`, `gen_clear`, the listings
`gen_monitors`, `gen_named_monitors`, `gen_cells`, `gen_named_cells`, and `gen_update`.

What the abstraction forgets / what is assumed (not papered over):
* the model keeps ONE `cells` list per trainer for `CellTrainer.cells_` and `MonitorPool.observed_`, and ONE
  `training` flag for the trainer and its pool.  The world keeps them apart; `toM` reads the POOL's (`observed_`,
  `poolTraining`), the theorems about `CellTrainer` methods assume `Coh w` (`cells_ = observed_`, `training =
  poolTraining`) and `gen_add_cell` / `gen_del_cell` / `gen_train` prove it is preserved.  `aux_states_` is not in
  the model: `toM` drops it (`gen_named_cells` says what `cells` / `named_cells` pair each cell with).
* `(w.st.trainers w.me).alive = true`: a method runs on an object somebody holds (the `.noref` outputs of
  `stepCore` are the harness's, not the library's).
* `w.st.layerFilter = true` in every theorem through `Observable.add_monitor`: the CURRENT code skips observables
  of another layer (repair D36); the model's `layerFilter = false` is the old code.
* `gen_pool_del_monitor` / `gen_del_monitor` assume the group names of `monitors_` are distinct (it is a
  dictionary): the model's `dropEmptyGroup` filters all groups of that name, `del monitors_[n]` removes the entry.
* the constructor passed to `add_monitor` carries the GHOST owner: the theorems are about `⟨w.me, prepend, reads⟩`.
  `gen_add_monitor` is about user-added monitors (`reads = []`, as `Op.addMonitor`); `gen_pool_add_monitor` is for
  any `reads` (the calls `register_cell` of the shipped trainers makes: `addTemplate`).
* `gen_add_cell` assumes the cell has an updater and the required parameters (the model's cells are updatable);
  `Op.registerCell` is `add_cell` followed by the trainer kind's `add_monitor` calls, which live in
  `learn/trainers/*.py` and are not regenerated: `gen_register_cell` states the split, each `addMonitor` of
  `addTemplate` is `gen_pool_add_monitor`.  NOT proved: the composition as one program (it needs frame facts of
  `MonitorPool_add_monitor`'s result world: `me`, `observed_`, `layerFilter`, distinct group names preserved).
* the model has no `update` operation: `gen_update` states what the regenerated body does.
* layers are never collected (`Observable___basis` is never `None`, `Monitor_register` never raises), generators
  are evaluated when created, the order of a cell's weak dictionary is not modelled (`gen_obs_monitors` is about
  lookups) — see the prelude.
`ofM` / `toM_ofM` / `ofM_coh` show every model state (with trainer `t` loaded) is the image of a coherent world.
-/

set_option linter.unusedSimpArgs false
set_option linter.unusedVariables false
namespace InfernoVerif.Gen.LifecycleProg
open InfernoVerif.Lifecycle InfernoVerif.Gen.LifecyclePrelude

/-! ## Dictionaries -/

/-- `k in d` is `(lookup d k).isSome` (the model reads dictionaries with `lookup`) -/
theorem contains_eq_lookup {V : Type} (d : List (Nat × V)) (k : Nat) :
    dict_contains d k = (lookup d k).isSome := by
  induction d with
  | nil => rfl
  | cons e rest ih =>
    simp only [dict_contains, lookup, List.any_cons, List.find?_cons] at ih ⊢
    cases h : e.1 == k <;> simp [h, ih]

/-- `d[k]` succeeds with the value `lookup` finds -/
theorem getitem_of_lookup {σ V : Type} (w : σ) (d : List (Nat × V)) (k : Nat) (v : V) (h : lookup d k = some v) :
    dict_getitem w d k = .ok v := by
  simp [dict_getitem, h]


/-! ## Observable -/

/-- the alias loop of `Observable.add_monitor` as a function of the pool list -/
def aliasLoop (st : State) (cell mname : Nat) (ft : Nat × Path) :
    List (Nat × List (Nat × Nat)) → Option Nat → Option Nat
  | [], found => found
  | e :: rest, found =>
    if cellLayer st e.1 != cellLayer st cell then aliasLoop st cell mname ft rest found
    else match lookup e.2 mname with
      | none => aliasLoop st cell mname ft rest found
      | some mid =>
        if (st.mons mid).tags = some ft.1 ∧ (st.mons mid).path = ft.2 then
          if e.1 = cell then some mid else aliasLoop st cell mname ft rest (some mid)
        else aliasLoop st cell mname ft rest found


/-- a `foldlM` whose body never raises is a `foldl` -/
theorem foldlM_ok {ε α β : Type} (f : β → α → Except ε β) (g : β → α → β) (h : ∀ b a, f b a = .ok (g b a))
    (l : List α) (b : β) : l.foldlM f b = .ok (l.foldl g b) := by
  induction l generalizing b with
  | nil => rfl
  | cons a l ih => simp only [List.foldlM_cons, List.foldl_cons, h, bind, Except.bind, ih]

/-- one iteration of the alias loop on the carry `(found, brk_)` -/
def aliasStep (st : State) (cell mname : Nat) (ft : Nat × Path) (c : Option Nat × Bool)
    (e : Nat × List (Nat × Nat)) : Option Nat × Bool :=
  if c.2 then c else
  if cellLayer st e.1 != cellLayer st cell then (c.1, false) else
  match lookup e.2 mname with
  | none => (c.1, false)
  | some mid =>
    if (st.mons mid).tags = some ft.1 ∧ (st.mons mid).path = ft.2 then (some mid, decide (e.1 = cell))
    else (c.1, false)

/-- after a `break` the remaining iterations change nothing -/
theorem aliasStep_done (st : State) (cell mname : Nat) (ft : Nat × Path) (l : List (Nat × List (Nat × Nat)))
    (f : Option Nat) : l.foldl (aliasStep st cell mname ft) (f, true) = (f, true) := by
  induction l with
  | nil => rfl
  | cons e l ih => simp [aliasStep, ih]

/-- folding `aliasStep` from `(found, false)` computes `aliasLoop` -/
theorem aliasStep_fold (st : State) (cell mname : Nat) (ft : Nat × Path) (l : List (Nat × List (Nat × Nat)))
    (f : Option Nat) : (l.foldl (aliasStep st cell mname ft) (f, false)).1 = aliasLoop st cell mname ft l f := by
  induction l generalizing f with
  | nil => rfl
  | cons e l ih =>
    simp only [List.foldl_cons, aliasLoop, aliasStep, Bool.false_eq_true, if_false]
    split
    · exact ih f
    · cases hl : lookup e.2 mname with
      | none => exact ih f
      | some mid =>
        simp only
        split
        · by_cases he : e.1 = cell
          · simp [he, aliasStep_done]
          · simp [he, ih]
        · exact ih f

/-- what `Observable.add_monitor` obtains: a new monitor (no pool given, or no alias in the pool) or the alias -/
def obsObtain (st : State) (cell mname : Nat) (c : Ctor) (pool : Option (List (Nat × List (Nat × Nat))))
    (tags : Nat) (path : Path) : State × Nat :=
  match pool with
  | none => newMonitor st c.owner c.prepend path none c.reads cell
  | some p =>
    match aliasLoop st cell mname (tags, path) p none with
    | some mid => (st, mid)
    | none => newMonitor st c.owner c.prepend path (some tags) c.reads cell

/-- `constructor(attr, self.__basis())` is the model's `newMonitor` without tags -/
theorem ctor_call (o : OW) (c : Ctor) (path : Path) :
    MonitorConstructor_call o c path (Observable___basis o o.me) =
      .ok (⟨(newMonitor o.st c.owner c.prepend path none c.reads o.me).1, o.me⟩,
           (newMonitor o.st c.owner c.prepend path none c.reads o.me).2) := by
  simp [MonitorConstructor_call, Observable___basis, newMonitor]

/-- constructing and then setting `_tags` is the model's `newMonitor` with tags -/
theorem set_tags_new (st : State) (cell : Nat) (c : Ctor) (path : Path) (tags : Nat) :
    Monitor_set_tags ⟨(newMonitor st c.owner c.prepend path none c.reads cell).1, cell⟩
        st.nMons (tags, path) =
      .ok ⟨(newMonitor st c.owner c.prepend path (some tags) c.reads cell).1, cell⟩ := by
  simp only [Monitor_set_tags, newMonitor, registerMon, setMon]
  simp
  funext i
  by_cases h : i = st.nMons <;> simp [h]


/-- **gen_obs_add_monitor**: the regenerated `Observable.add_monitor` — a realignment error is raised with nothing
changed; otherwise the monitor `obsObtain` describes (new: no pool / no alias; else the alias the loop finds) is
written to the cell's weak dictionary (`writeCellMon`) and returned -/
theorem gen_obs_add_monitor (o : OW) (mname : Nat) (sel : AttrSel) (c : Ctor)
    (pool : Option (List (Nat × List (Nat × Nat)))) (tags : Nat) :
    Observable_add_monitor o mname sel c pool tags =
      match realign o.st o.me sel with
      | .error e => .error (e, o)
      | .ok path =>
        .ok (⟨writeCellMon (obsObtain o.st o.me mname c pool tags path).1 o.me mname
                (obsObtain o.st o.me mname c pool tags path).2, o.me⟩,
             (obsObtain o.st o.me mname c pool tags path).2) := by
  unfold Observable_add_monitor
  simp only [Observable_realign_attribute]
  cases hr : realign o.st o.me sel with
  | error e => rfl
  | ok path =>
    simp only [bind, Except.bind, pure, Except.pure]
    cases pool with
    | none =>
      simp only [ctor_call, obsObtain, Observable___monitors_setitem]
    | some p =>
      simp only
      rw [foldlM_ok (g := aliasStep o.st o.me mname (tags, path))]
      · simp only [obsObtain]
        have hf := aliasStep_fold o.st o.me mname (tags, path) p none
        cases hfa : aliasLoop o.st o.me mname (tags, path) p none with
        | none =>
          rw [hfa] at hf
          simp only [hf, ctor_call, tags_with_attr, set_tags_new, Observable___monitors_setitem, newMonitor_snd]
        | some mid =>
          rw [hfa] at hf
          simp only [hf, Observable___monitors_setitem]
      · intro cc e
        obtain ⟨f, b⟩ := cc
        cases b
        · simp only [aliasStep, Observable___basis, Bool.false_eq_true, if_false, Option.isNone_some, Bool.false_or,
            tags_with_attr, id]
          by_cases hl : cellLayer o.st e.1 = cellLayer o.st o.me
          · simp only [hl, ne_eq, not_true_eq_false, decide_false, Bool.false_eq_true, if_false, bne_self_eq_false,
              contains_eq_lookup]
            cases hm : lookup e.2 mname with
            | none => simp
            | some mid =>
              simp only [getitem_of_lookup _ _ _ _ hm, Option.isSome_some, Bool.not_true, Bool.false_eq_true, if_false,
                Monitor_tags_eq, decide_eq_true_eq]
              by_cases ht : (o.st.mons mid).tags = some tags ∧ (o.st.mons mid).path = path
              · by_cases he : e.1 = o.me <;> simp [ht, he]
              · simp [ht]
          · simp [hl]
        · simp [aliasStep]


/-! ## Abstraction -/

/-- the containers of the running trainer as the model's `Trainer` record: `cells` is the pool's `observed_`
(kept in step with `cells_`: `Coh`), `training` the pool's flag (kept in step with the trainer's: `Coh`) -/
def selfTrainer (w : LW) : Trainer :=
  ⟨(w.st.trainers w.me).kind, (w.st.trainers w.me).alive, w.poolTraining, w.observed_, w.monitors_⟩

/-- abstraction: world of the regenerated programs → state of the hand-written machine -/
def toM (w : LW) : State := setTrainer w.st w.me (selfTrainer w)

/-- result of a regenerated method → (state, output) of `stepCore`; an exception carries the world at the raise -/
def lift {α : Type} : Except (Err × LW) (LW × α) → State × Out
  | .ok (w', _) => (toM w', .ok)
  | .error (e, w') => (toM w', .err e)

/-- … of `step`: reference counting (`gc`) runs when the method has returned -/
def liftS {α : Type} (x : Except (Err × LW) (LW × α)) : State × Out := (gc (lift x).1, (lift x).2)

/-- the trainer's own containers agree with its pool's -/
structure Coh (w : LW) : Prop where
  cells : w.cells_ = w.observed_
  training : w.training = w.poolTraining

/-- the abstraction's record of the running trainer -/
@[simp] theorem toM_trainer (w : LW) : (toM w).trainers w.me = selfTrainer w := by simp [toM]

/-- overwriting a trainer record twice -/
theorem setTrainer_setTrainer (s : State) (t : Nat) (A B : Trainer) :
    setTrainer (setTrainer s t A) t B = setTrainer s t B := by
  simp only [setTrainer]
  congr 1
  funext i
  by_cases h : i = t <;> simp [h]

/-! ## Listings of the pool -/

/-- the regenerated `MonitorPool.monitors` is the model's `distinctMids` (distinct monitors in order of first
occurrence) -/
theorem gen_pool_monitors (w : LW) :
    MonitorPool_monitors w = .ok (w, distinctMids ((toM w).trainers w.me)) := by
  simp [MonitorPool_monitors, distinctMids, poolMids, selfTrainer, unique_ids, chain_from_iterable, dict_values,
    pure, Except.pure, List.flatMap_def, Function.comp_def]

/-- the regenerated `MonitorPool.named_monitors` is the model's `namedMonitors` -/
theorem gen_pool_named_monitors (w : LW) :
    MonitorPool_named_monitors w = .ok (w, namedMonitors ((toM w).trainers w.me)) := by
  simp [MonitorPool_named_monitors, namedMonitors, selfTrainer, chain_from_iterable, dict_items,
    pure, Except.pure, List.flatMap_def, Function.comp_def]

/-- `MonitorPool.pool` as a function: observables in `observed_` order that have a group, with (a copy of) it -/
def poolOf (groups : List (Nat × List (Nat × Nat))) : List (Nat × Nat) → List (Nat × List (Nat × Nat))
  | [] => []
  | e :: rest =>
    match lookup groups e.1 with
    | some g => (e.2, g) :: poolOf groups rest
    | none => poolOf groups rest

/-- the generator of `MonitorPool.pool` never raises (its `monitors_[oname]` is guarded by `oname in monitors_`)
and yields `poolOf` -/
theorem mapE_pool (w : LW) (groups : List (Nat × List (Nat × Nat))) (obs : List (Nat × Nat)) :
    mapE (fun e => (do pure (e.2, (dict_copy (← dict_getitem w groups e.1))) : Except (Err × LW) _))
      (obs.filter (fun e => dict_contains groups e.1)) = .ok (poolOf groups obs) := by
  induction obs with
  | nil => rfl
  | cons e rest ih =>
    simp only [List.filter_cons, contains_eq_lookup, poolOf, bind, Except.bind, pure, Except.pure] at ih ⊢
    cases hl : lookup groups e.1 with
    | none => simpa using ih
    | some g =>
      simp only [Option.isSome_some, if_true, mapE, getitem_of_lookup _ _ _ _ hl, dict_copy]
      simp only [dict_copy] at ih
      rw [ih]

/-- the regenerated `MonitorPool.pool` is `poolOf` and changes nothing -/
theorem gen_pool (w : LW) : MonitorPool_pool w = .ok (w, poolOf w.monitors_ w.observed_) := by
  simp only [MonitorPool_pool, dict_items]
  rw [mapE_pool]
  rfl

/-- the alias loop over `MonitorPool.pool` is the model's alias search `findAlias` -/
theorem aliasLoop_pool (s : State) (T : Trainer) (cell mname tags : Nat) (path : Path) (hf : s.layerFilter = true)
    (obs : List (Nat × Nat)) (found : Option Nat) :
    aliasLoop s cell mname (tags, path) (poolOf T.groups obs) found =
      findAlias.go s T cell mname tags path obs found := by
  induction obs generalizing found with
  | nil => simp [poolOf, aliasLoop, findAlias.go]
  | cons e rest ih =>
    obtain ⟨oname, ocell⟩ := e
    simp only [poolOf, findAlias.go, hf, Bool.true_and]
    cases hg : lookup T.groups oname with
    | none =>
      simp only [ih]
      split <;> rfl
    | some g =>
      simp only [aliasLoop]
      split
      · exact ih found
      · cases hm : lookup g mname with
        | none => exact ih found
        | some mid =>
          simp only
          split
          · split
            · rfl
            · exact ih (some mid)
          · exact ih found


/-! ## toM commutes with what the monitor primitives do to the rest of the world -/

/-- `Hook.deregister` does not touch trainer records -/
theorem deregisterMon_setTrainer (s : State) (t : Nat) (T : Trainer) (m : Nat) :
    deregisterMon (setTrainer s t T) m = setTrainer (deregisterMon s m) t T := rfl

/-- `Monitor.register` does not touch trainer records -/
theorem registerMon_setTrainer (s : State) (t : Nat) (T : Trainer) (m : Nat) :
    registerMon (setTrainer s t T) m = setTrainer (registerMon s m) t T := by
  simp only [registerMon, setTrainer_mons]
  split <;> rfl

/-- the deregistration loop of `del_observed` does not touch trainer records -/
theorem deregisterUnshared_setTrainer (t : Nat) (T : Trainer) (sh : List Nat) (g : List (Nat × Nat)) (s : State) :
    deregisterUnshared (setTrainer s t T) sh g = setTrainer (deregisterUnshared s sh g) t T := by
  induction g generalizing s with
  | nil => rfl
  | cons e rest ih =>
    simp only [deregisterUnshared_cons]
    split
    · exact ih s
    · rw [deregisterMon_setTrainer, ih]

/-- removing an absent key changes nothing -/
theorem filter_key_ne_self {V : Type} (d : List (Nat × V)) (k : Nat) (h : dict_contains d k = false) :
    d.filter (fun e => e.1 != k) = d := by
  induction d with
  | nil => rfl
  | cons e rest ih =>
    simp only [dict_contains, List.any_cons, Bool.or_eq_false_iff] at h
    have h1 : (e.1 != k) = true := by simp [bne, h.1]
    rw [List.filter_cons, h1, if_pos rfl, ih (by simpa [dict_contains] using h.2)]

/-! ## MonitorPool.del_observed -/

/-- the world after `MonitorPool.del_observed(n)` -/
def delObservedW (w : LW) (n : Nat) : LW :=
  { w with
    st := match lookup w.monitors_ n with
      | some g => deregisterUnshared w.st (otherMids (selfTrainer w) n) g
      | none => w.st,
    monitors_ := w.monitors_.filter (fun e => e.1 != n),
    observed_ := w.observed_.filter (fun e => e.1 != n) }

/-- the loop of `del_observed` over `monitors_[name].values()` is the model's `deregisterUnshared` -/
theorem dereg_loop (sh : List Nat) (g : List (Nat × Nat)) (w : LW) :
    (g.map (·.2)).foldl (fun w e => if sh.contains e then w else Monitor_deregister w e) w =
      { w with st := deregisterUnshared w.st sh g } := by
  induction g generalizing w with
  | nil => rfl
  | cons e rest ih =>
    simp only [List.map_cons, List.foldl_cons, deregisterUnshared_cons]
    split
    · exact ih w
    · rw [ih]; rfl

/-- the regenerated `MonitorPool.del_observed` never raises and produces `delObservedW` -/
theorem del_observed_eq (w : LW) (n : Nat) : MonitorPool_del_observed w n = .ok (delObservedW w n, ()) := by
  unfold MonitorPool_del_observed
  simp only [contains_eq_lookup]
  cases hl : lookup w.monitors_ n with
  | none =>
    have hc : dict_contains w.monitors_ n = false := by simp [contains_eq_lookup, hl]
    simp only [Option.isSome_none, Bool.false_eq_true, if_false, bind, Except.bind, pure, Except.pure, delObservedW, hl,
      filter_key_ne_self _ _ hc]
    cases ho : lookup w.observed_ n with
    | none =>
      have hc' : dict_contains w.observed_ n = false := by simp [contains_eq_lookup, ho]
      simp [filter_key_ne_self _ _ hc']
    | some c =>
      simp [dict_delitem, contains_eq_lookup, ho]
  | some g =>
    simp only [Option.isSome_some, if_true, bind, Except.bind, pure, Except.pure, getitem_of_lookup _ _ _ _ hl]
    rw [foldlM_ok (g := fun w' e => if (otherMids (selfTrainer w) n).contains e then w' else Monitor_deregister w' e)]
    · simp only [dict_values, dereg_loop, dict_delitem, contains_eq_lookup, hl, Option.isSome_some, if_true, delObservedW]
      cases ho : lookup w.observed_ n with
      | none =>
        have hc' : dict_contains w.observed_ n = false := by simp [contains_eq_lookup, ho]
        simp [filter_key_ne_self _ _ hc']
      | some c => simp
    · intro b a
      have : (((dict_items w.monitors_).filter (fun e1_ => decide (e1_.1 ≠ n))).flatMap
          (fun e1_ => (dict_values e1_.2).map (fun e2_ => id e2_))) = otherMids (selfTrainer w) n := by
        simp [otherMids, selfTrainer, dict_items, dict_values, bne, Function.comp_def, Bool.beq_eq_decide_eq]
      rw [this]
      cases hc : (otherMids (selfTrainer w) n).contains a <;>
        simp only [hc, set_contains, id, pure, Except.pure, Bool.not_true, Bool.not_false, Bool.false_eq_true, if_true,
          if_false]


/-- the abstraction of `delObservedW` is the model's `delObserved` followed by `dropCell` -/
theorem toM_delObservedW (w : LW) (n : Nat) :
    toM (delObservedW w n) = dropCell (delObserved (toM w) w.me n) w.me n := by
  simp only [delObserved, toM_trainer]
  cases hl : lookup w.monitors_ n with
  | none =>
    have : lookup (selfTrainer w).groups n = none := hl
    simp only [this, dropCell, toM_trainer, delObservedW, hl]
    have hc : dict_contains w.monitors_ n = false := by simp [contains_eq_lookup, hl]
    simp only [toM, selfTrainer, setTrainer_setTrainer, filter_key_ne_self _ _ hc]
  | some g =>
    have : lookup (selfTrainer w).groups n = some g := hl
    simp only [this, dropCell, dropGroup, delObservedW, hl]
    simp only [toM, deregisterUnshared_setTrainer, setTrainer_setTrainer, setTrainer_trainers_self, selfTrainer,
      deregisterUnshared_trainers]


/-- **gen_del_observed**: the regenerated `MonitorPool.del_observed` is the model's `delObserved` (deregister the
group's monitors no surviving group aliases, drop the group) followed by `dropCell` (the name leaves `observed_`) -/
theorem gen_del_observed (w : LW) (n : Nat) :
    lift (MonitorPool_del_observed w n) = (dropCell (delObserved (toM w) w.me n) w.me n, .ok) := by
  rw [del_observed_eq, lift, toM_delObservedW]

/-! ## MonitorPool.del_monitor -/

/-- the group of `n` after erasing entry `m` from it -/
theorem lookup_groupsErase_self (gs : List (Nat × List (Nat × Nat))) (n m : Nat) (g : List (Nat × Nat))
    (h : lookup gs n = some g) : lookup (groupsErase gs n m) n = some (g.filter (fun e => e.1 != m)) := by
  induction gs with
  | nil => simp [lookup] at h
  | cons e rest ih =>
    simp only [lookup, List.find?_cons, groupsErase, List.map_cons] at h ih ⊢
    cases he : e.1 == n
    · simp only [he, Bool.false_eq_true, if_false] at h ⊢
      exact ih h
    · simp only [he, if_true, Option.map_some, Option.some.injEq] at h ⊢
      simp [he, h]

/-- erasing an entry keeps the group names -/
theorem keys_groupsErase (gs : List (Nat × List (Nat × Nat))) (n m : Nat) :
    (groupsErase gs n m).map (·.1) = gs.map (·.1) := by
  simp only [groupsErase, List.map_map]
  congr 1
  funext g
  simp only [Function.comp]
  split <;> rfl

/-- `if not len(monitors_[n]): del monitors_[n]` is the model's `dropEmptyGroup` filter when group names are distinct -/
theorem dropEmpty_eq (gs : List (Nat × List (Nat × Nat))) (n : Nat) (g : List (Nat × Nat))
    (hk : (gs.map (·.1)).Nodup) (hl : lookup gs n = some g) :
    (if g.length = 0 then gs.filter (fun e => e.1 != n) else gs) =
      gs.filter (fun g' => !(g'.1 == n && g'.2.isEmpty)) := by
  induction gs with
  | nil => simp [lookup] at hl
  | cons e rest ih =>
    obtain ⟨k, gg⟩ := e
    simp only [List.map_cons, List.nodup_cons] at hk
    simp only [lookup, List.find?_cons] at hl
    cases he : k == n
    · simp only [he, Bool.false_eq_true, if_false] at hl
      have := ih hk.2 hl
      have hb : (k != n) = true := by simp [bne, he]
      simp only [List.filter_cons, hb, he, if_true, Bool.false_and, Bool.not_false]
      split
      · rename_i h0; simp only [h0, if_true] at this; rw [this]
      · rename_i h0; simp only [h0, if_false] at this; rw [← this]
    · simp only [he, if_true, Option.map_some, Option.some.injEq] at hl
      have hn : k = n := by simpa using he
      have hc : dict_contains rest n = false := by
        simp only [dict_contains, List.any_eq_false]
        intro x hx hxn
        have : x.1 = n := by simpa using hxn
        exact hk.1 (by rw [hn, ← this]; exact List.mem_map_of_mem hx)
      have hr : rest.filter (fun g' => !(g'.1 == n && g'.2.isEmpty)) = rest := by
        apply List.filter_eq_self.2
        intro x hx
        have : (x.1 == n) = false := by
          simp only [dict_contains, List.any_eq_false] at hc
          simpa using hc x hx
        simp [this]
      have hb : (k != n) = false := by simp [bne, he]
      simp only [List.filter_cons, hb, he, Bool.false_eq_true, if_false, Bool.true_and, hr,
        filter_key_ne_self _ _ hc]
      subst hl
      cases gg <;> simp



/-- `any(m is target for g in monitors_.values() for m in g.values())` is membership in the pool's monitor list -/
theorem any_is_target (gs : List (Nat × List (Nat × Nat))) (target : Nat) :
    py_any ((dict_values gs).flatMap (fun e1_ => (dict_values e1_).map (fun e2_ => decide (e2_ = target)))) =
      (gMids gs).contains target := by
  simp only [py_any, dict_values, gMids, List.contains_eq_any_beq, List.any_flatMap, List.any_map, Function.comp_def,
    id, beq_iff_eq]
  congr 1
  funext g
  congr 1
  funext e
  simp [eq_comm, Bool.beq_eq_decide_eq]

/-- **gen_pool_del_monitor**: the regenerated `MonitorPool.del_monitor` is the `.delMonitor` case of
`Lifecycle.stepCore`: the three `AttributeError`s, the entry dropped, the monitor deregistered unless another
entry of the pool aliases it, the emptied group removed (`monitors_` has unique keys: it is a dictionary) -/
theorem gen_pool_del_monitor (w : LW) (n mname : Nat) (hal : (w.st.trainers w.me).alive = true)
    (hk : (w.monitors_.map (·.1)).Nodup) :
    lift (MonitorPool_del_monitor w n mname) = stepCore (toM w) (.delMonitor w.me n mname) := by
  simp only [stepCore, toM_trainer]
  have ha : (selfTrainer w).alive = true := hal
  simp only [ha, Bool.not_true, Bool.false_eq_true, if_false]
  unfold MonitorPool_del_monitor
  simp only [contains_eq_lookup]
  cases hl : lookup w.monitors_ n with
  | none =>
    have : lookup (selfTrainer w).groups n = none := hl
    simp [this, lift, throw, throwThe, MonadExceptOf.throw]
  | some g =>
    have hg : lookup (selfTrainer w).groups n = some g := hl
    simp only [hg]
    cases ho : lookup w.observed_ n with
    | none =>
      have : lookup (selfTrainer w).cells n = none := ho
      simp [this, lift, throw, throwThe, MonadExceptOf.throw]
    | some c =>
      have hc : lookup (selfTrainer w).cells n = some c := ho
      simp only [hc, Option.isSome_some, Bool.not_true, Bool.or_self, Bool.false_eq_true, if_false, Option.isNone_some,
        bind, Except.bind, getitem_of_lookup _ _ _ _ hl]
      cases hm : lookup g mname with
      | none => simp [lift, throw, throwThe, MonadExceptOf.throw]
      | some mid =>
        have hcg : dict_contains g mname = true := by simp [contains_eq_lookup, hm]
        have hl1 := lookup_groupsErase_self w.monitors_ n mname g hl
        have hk1 : ((groupsErase w.monitors_ n mname).map (·.1)).Nodup := by rw [keys_groupsErase]; exact hk
        have hde := dropEmpty_eq _ n _ hk1 hl1
        simp only [Option.isSome_some, Bool.not_true, Bool.false_eq_true, if_false, getitem_of_lookup _ _ _ _ hm,
          dict_delitem2, hl, hcg, if_true, pure, Except.pure, any_is_target]
        have he : (w.monitors_.map fun g => if (g.1 == n) = true then (g.1, g.2.filter fun e => e.1 != mname) else g)
            = groupsErase w.monitors_ n mname := rfl
        simp only [he]
        simp only [delEntry, dropEmptyGroup, deregIfUnaliased, eraseEntry, toM_trainer, setTrainer_trainers_self,
          poolMids_eq]
        have hsg : (selfTrainer w).groups = w.monitors_ := rfl
        simp only [hsg]
        cases hcon : (gMids (groupsErase w.monitors_ n mname)).contains mid
        · simp only [Bool.not_false, if_true, Bool.false_eq_true, if_false, Monitor_deregister,
            getitem_of_lookup _ _ _ _ hl1]
          simp only [deregisterMon_trainers, setTrainer_trainers_self, deregisterMon_setTrainer, setTrainer_setTrainer,
            ← hde]
          by_cases h0 : (g.filter (fun e => e.1 != mname)).length = 0
          · simp [h0, dict_delitem, contains_eq_lookup, hl1, lift, toM, selfTrainer, setTrainer_setTrainer,
              deregisterMon_setTrainer]
          · simp [h0, lift, toM, selfTrainer, setTrainer_setTrainer, deregisterMon_setTrainer]
        · simp only [Bool.not_true, Bool.false_eq_true, if_false, if_true, getitem_of_lookup _ _ _ _ hl1]
          simp only [setTrainer_trainers_self, setTrainer_setTrainer, ← hde]
          by_cases h0 : (g.filter (fun e => e.1 != mname)).length = 0
          · simp [h0, dict_delitem, contains_eq_lookup, hl1, lift, toM, selfTrainer, setTrainer_setTrainer]
          · simp [h0, lift, toM, selfTrainer, setTrainer_setTrainer]


/-! ## MonitorPool.add_monitor -/

/-- realignment reads the topology only -/
theorem realign_setTrainer (s : State) (t : Nat) (T : Trainer) (cell : Nat) (sel : AttrSel) :
    realign (setTrainer s t T) cell sel = realign s cell sel := by
  cases sel <;> rfl

/-- constructing a monitor does not touch trainer records -/
theorem newMonitor_setTrainer (s : State) (t : Nat) (T : Trainer) (o : Nat) (pp : Bool) (path : Path)
    (tags : Option Nat) (reads : List Nat) (cell : Nat) :
    newMonitor (setTrainer s t T) o pp path tags reads cell =
      (setTrainer (newMonitor s o pp path tags reads cell).1 t T, (newMonitor s o pp path tags reads cell).2) := by
  simp only [newMonitor]
  rw [show (setMon { setTrainer s t T with nMons := (setTrainer s t T).nMons + 1 } (setTrainer s t T).nMons
        ⟨o, true, none, pp, path, tags, reads, cell, 0, 0, cellLayer (setTrainer s t T) cell⟩) =
      setTrainer (setMon { s with nMons := s.nMons + 1 } s.nMons
        ⟨o, true, none, pp, path, tags, reads, cell, 0, 0, cellLayer s cell⟩) t T from rfl]
  rw [registerMon_setTrainer]
  rfl

/-- the alias loop reads monitors and topology only -/
theorem aliasLoop_setTrainer (s : State) (t : Nat) (T : Trainer) (cell mname : Nat) (ft : Nat × Path)
    (l : List (Nat × List (Nat × Nat))) (found : Option Nat) :
    aliasLoop (setTrainer s t T) cell mname ft l found = aliasLoop s cell mname ft l found := by
  induction l generalizing found with
  | nil => rfl
  | cons e rest ih =>
    simp only [aliasLoop, ih]
    rfl

/-- updating the entries of an absent key changes nothing -/
theorem map_key_ne_self {V : Type} (d : List (Nat × V)) (k : Nat) (f : Nat × V → Nat × V)
    (h : d.any (fun e => e.1 == k) = false) : d.map (fun g => if g.1 == k then f g else g) = d := by
  induction d with
  | nil => rfl
  | cons e rest ih =>
    simp only [List.any_cons, Bool.or_eq_false_iff] at h
    simp only [List.map_cons, h.1, Bool.false_eq_true, if_false, ih h.2]

/-- "create the group if missing, then `monitors_[n][m] = mid`" is the model's `groupsInsert` -/
theorem groupsInsert_eq (gs : List (Nat × List (Nat × Nat))) (n m mid : Nat) :
    (if (!dict_contains gs n) = true then dict_setitem gs n ([] : List (Nat × Nat)) else gs).map
        (fun g => if g.1 == n then (g.1, dict_setitem g.2 m mid) else g) = groupsInsert gs n m mid := by
  simp only [groupsInsert, dict_contains, dict_setitem]
  rcases Bool.eq_false_or_eq_true (gs.any (fun e => e.1 == n)) with h | h
  · simp only [h, Bool.not_true, Bool.false_eq_true, if_false, if_true]
  · simp only [h, Bool.not_false, if_true, Bool.false_eq_true, if_false, List.map_append, List.map_cons, List.map_nil,
      beq_self_eq_true, List.any_nil, List.nil_append]
    rw [map_key_ne_self gs n _ h]

/-- `get_observed` of a known name -/
theorem get_observed_eq (w : LW) (n c : Nat) (h : lookup w.observed_ n = some c) :
    MonitorPool_get_observed w n = .ok (w, c) := by
  simp [MonitorPool_get_observed, contains_eq_lookup, h, getitem_of_lookup _ _ _ _ h, bind, Except.bind, pure,
    Except.pure]


/-- what `Observable.add_monitor` obtains, called from the pool, is the model's `obtainMonitor` -/
theorem obsObtain_pool (w : LW) (cell mname : Nat) (prepend : Bool) (reads : List Nat) (unique : Bool) (tags : Nat)
    (path : Path) (hf : w.st.layerFilter = true) :
    obtainMonitor (toM w) w.me cell mname unique prepend tags path reads =
      (setTrainer (obsObtain w.st cell mname ⟨w.me, prepend, reads⟩
          (if unique then none else some (poolOf w.monitors_ w.observed_)) tags path).1 w.me (selfTrainer w),
        (obsObtain w.st cell mname ⟨w.me, prepend, reads⟩
          (if unique then none else some (poolOf w.monitors_ w.observed_)) tags path).2) := by
  cases unique
  · simp only [obtainMonitor, Bool.false_eq_true, if_false, obsObtain, findAlias, toM_trainer]
    have := aliasLoop_pool (toM w) (selfTrainer w) cell mname tags path hf (selfTrainer w).cells none
    rw [← this]
    have h2 : aliasLoop (toM w) cell mname (tags, path) (poolOf (selfTrainer w).groups (selfTrainer w).cells) none =
        aliasLoop w.st cell mname (tags, path) (poolOf w.monitors_ w.observed_) none := aliasLoop_setTrainer _ _ _ _ _ _ _ _
    rw [h2]
    cases aliasLoop w.st cell mname (tags, path) (poolOf w.monitors_ w.observed_) none with
    | none => simp only [toM, newMonitor_setTrainer]
    | some mid => rfl
  · simp only [obtainMonitor, if_true, obsObtain, toM, newMonitor_setTrainer]


/-- `if n not in monitors_: monitors_[n] = ModuleDict()` then `monitors_[n][m] = mid` never raises and is
`groupsInsert` -/
theorem ensure_set {σ : Type} (w' : σ) (gs : List (Nat × List (Nat × Nat))) (n m mid : Nat) :
    dict_setitem2 w' (if (!dict_contains gs n) = true then dict_setitem gs n ([] : List (Nat × Nat)) else gs) n m mid =
      .ok (groupsInsert gs n m mid) := by
  have hc : dict_contains (if (!dict_contains gs n) = true then dict_setitem gs n ([] : List (Nat × Nat)) else gs) n
      = true := by
    rcases Bool.eq_false_or_eq_true (dict_contains gs n) with h | h
    · simp [h]
    · have h' : gs.any (fun e => e.1 == n) = false := h
      simp [h, dict_setitem, h', dict_contains]
  simp only [dict_setitem2, hc, if_true, groupsInsert_eq]

/-- writing a cell's weak dictionary does not touch trainer records -/
@[simp] theorem writeCellMon_trainers (s : State) (c m mid : Nat) : (writeCellMon s c m mid).trainers = s.trainers := rfl

/-- `Observable.add_monitor` does not touch trainer records -/
theorem obsObtain_trainers (st : State) (cell mname : Nat) (c : Ctor) (pool : Option (List (Nat × List (Nat × Nat))))
    (tags : Nat) (path : Path) : (obsObtain st cell mname c pool tags path).1.trainers = st.trainers := by
  unfold obsObtain
  split
  · simp
  · split <;> simp

/-- writing a cell's weak dictionary commutes with overwriting a trainer record -/
theorem writeCellMon_setTrainer (s : State) (t : Nat) (T : Trainer) (c m mid : Nat) :
    writeCellMon (setTrainer s t T) c m mid = setTrainer (writeCellMon s c m mid) t T := rfl

/-- the model's `addMonitorTail` on the abstraction, in terms of the world's components -/
theorem tail_eq (w : LW) (st1 : State) (n mname mid cell : Nat) :
    addMonitorTail (setTrainer st1 w.me (selfTrainer w)) w.me n mname mid cell =
      setTrainer (if w.poolTraining then writeCellMon st1 cell mname mid
                  else deregisterMon (writeCellMon st1 cell mname mid) mid) w.me
        { selfTrainer w with groups := groupsInsert w.monitors_ n mname mid } := by
  simp only [addMonitorTail, poolInsert, deregIfEval, writeCellMon_setTrainer, setTrainer_trainers_self]
  have ht : (selfTrainer w).training = w.poolTraining := rfl
  have hgs : (selfTrainer w).groups = w.monitors_ := rfl
  rcases Bool.eq_false_or_eq_true w.poolTraining with hpt | hpt
  · simp only [ht, hpt, if_true, setTrainer_trainers_self, setTrainer_setTrainer, hgs]
  · simp only [ht, hpt, Bool.false_eq_true, if_false, deregisterMon_setTrainer, setTrainer_trainers_self,
      setTrainer_setTrainer, hgs]

/-- `MonitorPool.add_monitor` when the pool has no entry `(n, mname)` (so nothing is returned early or erased) -/
theorem add_monitor_fresh (w : LW) (n mname : Nat) (sel : AttrSel) (prepend : Bool) (reads : List Nat)
    (unique : Bool) (tags : Nat) (cell : Nat) (ho : lookup w.observed_ n = some cell)
    (hn : rgetitem2 w.monitors_ n mname = none) (hf : w.st.layerFilter = true) :
    lift (MonitorPool_add_monitor w n mname sel ⟨w.me, prepend, reads⟩ unique tags) =
      match realign w.st cell sel with
      | .error e => (toM w, .err e)
      | .ok path =>
        (addMonitorTail (obtainMonitor (toM w) w.me cell mname unique prepend tags path reads).1 w.me n mname
          (obtainMonitor (toM w) w.me cell mname unique prepend tags path reads).2 cell, .ok) := by
  unfold MonitorPool_add_monitor
  simp only [contains_eq_lookup, ho, hn, Option.isSome_some, Bool.not_true, Bool.false_eq_true, if_false,
    get_observed_eq w n cell ho, gen_pool, bind, Except.bind, pure, Except.pure]
  have hp : (if unique = true then (Except.ok none : Except (Err × LW) _)
      else Except.ok (some (poolOf w.monitors_ w.observed_))) =
      Except.ok (if unique then none else some (poolOf w.monitors_ w.observed_)) := by cases unique <;> rfl
  simp only [hp, gen_obs_add_monitor, obsWorld]
  cases hr : realign w.st cell sel with
  | error e => simp [viaObs, lift]
  | ok path =>
    simp only [viaObs, obsObtain_pool w cell mname prepend reads unique tags path hf]
    have htr := obsObtain_trainers w.st cell mname ⟨w.me, prepend, reads⟩
      (if unique then none else some (poolOf w.monitors_ w.observed_)) tags path
    revert htr
    generalize obsObtain w.st cell mname _ _ tags path = r
    obtain ⟨st1, mid⟩ := r
    intro htr
    simp only at htr
    simp only [tail_eq, ← contains_eq_lookup]
    rcases Bool.eq_false_or_eq_true w.poolTraining with hpt | hpt
    · simp only [hpt, Bool.not_true, Bool.false_eq_true, if_false, if_true]
      rcases Bool.eq_false_or_eq_true (dict_contains w.monitors_ n) with hcn | hcn
      · have := ensure_set (σ := LW) (gs := w.monitors_) (n := n) (m := mname) (mid := mid)
        simp only [hcn, Bool.not_true, Bool.false_eq_true, if_false] at this
        simp only [hcn, Bool.not_true, Bool.false_eq_true, if_false, this, lift, toM, selfTrainer, hpt,
          writeCellMon_trainers, deregisterMon_trainers, htr]
      · have := ensure_set (σ := LW) (gs := w.monitors_) (n := n) (m := mname) (mid := mid)
        simp only [hcn, Bool.not_false, if_true] at this
        simp only [hcn, Bool.not_false, if_true, this, lift, toM, selfTrainer, hpt,
          writeCellMon_trainers, deregisterMon_trainers, htr]
    · simp only [hpt, Bool.not_false, if_true, Bool.false_eq_true, if_false, Monitor_deregister]
      rcases Bool.eq_false_or_eq_true (dict_contains w.monitors_ n) with hcn | hcn
      · have := ensure_set (σ := LW) (gs := w.monitors_) (n := n) (m := mname) (mid := mid)
        simp only [hcn, Bool.not_true, Bool.false_eq_true, if_false] at this
        simp only [hcn, Bool.not_true, Bool.false_eq_true, if_false, this, lift, toM, selfTrainer, hpt,
          writeCellMon_trainers, deregisterMon_trainers, htr]
      · have := ensure_set (σ := LW) (gs := w.monitors_) (n := n) (m := mname) (mid := mid)
        simp only [hcn, Bool.not_false, if_true] at this
        simp only [hcn, Bool.not_false, if_true, this, lift, toM, selfTrainer, hpt,
          writeCellMon_trainers, deregisterMon_trainers, htr]


/-- a removed key is absent -/
theorem lookup_filter_ne_self {V : Type} (d : List (Nat × V)) (k : Nat) :
    lookup (d.filter (fun e => e.1 != k)) k = none := by
  induction d with
  | nil => rfl
  | cons e rest ih =>
    rcases Bool.eq_false_or_eq_true (e.1 == k) with h | h
    · have hb : (e.1 != k) = false := by simp [bne, h]
      simp only [List.filter_cons, hb, Bool.false_eq_true, if_false, ih]
    · have hb : (e.1 != k) = true := by simp [bne, h]
      simp only [List.filter_cons, hb, if_true]
      simp only [lookup, List.find?_cons, h] at ih ⊢
      exact ih

/-- **gen_pool_add_monitor**: the regenerated `MonitorPool.add_monitor` (with `Observable.add_monitor`,
`MonitorPool.pool`, `MonitorPool.get_observed` inside) is the model's `addMonitor`: `AttributeError` for an unknown
observable, the existing monitor returned unless `unique`, the existing entry erased if `unique`, realignment
errors raised after that erasure, a new monitor (`unique`, or no alias in the pool) or the LAST alias in pool
order up to the observable itself — observables of another layer skipped (`layerFilter`, the repair D36) —, the
write to the cell's weak dictionary, deregistration when the pool is not training, insertion into the pool -/
theorem gen_pool_add_monitor (w : LW) (n mname : Nat) (sel : AttrSel) (prepend : Bool) (reads : List Nat)
    (unique : Bool) (tags : Nat) (hf : w.st.layerFilter = true) :
    lift (MonitorPool_add_monitor w n mname sel ⟨w.me, prepend, reads⟩ unique tags) =
      addMonitor (toM w) w.me n mname sel unique prepend tags reads := by
  simp only [addMonitor, toM_trainer]
  have hcs : (selfTrainer w).cells = w.observed_ := rfl
  have hgs : (selfTrainer w).groups = w.monitors_ := rfl
  simp only [hcs, hgs]
  cases ho : lookup w.observed_ n with
  | none =>
    unfold MonitorPool_add_monitor
    simp [contains_eq_lookup, ho, lift, throw, throwThe, MonadExceptOf.throw]
  | some cell =>
    simp only
    have hrg : (lookup w.monitors_ n).bind (lookup · mname) = rgetitem2 w.monitors_ n mname := rfl
    simp only [hrg]
    cases hn : rgetitem2 w.monitors_ n mname with
    | none =>
      have he : eraseExisting (toM w) w.me n mname = toM w := by
        simp only [eraseExisting, toM_trainer, hgs, hrg, hn, Option.isSome_none, Bool.false_eq_true, if_false]
      simp only [Option.isSome_none, Bool.false_and, Bool.false_eq_true, if_false, he]
      rw [add_monitor_fresh w n mname sel prepend reads unique tags cell ho hn hf]
      have : realign (toM w) cell sel = realign w.st cell sel := realign_setTrainer _ _ _ _ _
      rw [this]
      cases realign w.st cell sel <;> rfl
    | some m0 =>
      cases unique
      · unfold MonitorPool_add_monitor
        simp [contains_eq_lookup, ho, hn, lift, pure, Except.pure]
      · simp only [Option.isSome_some, Bool.not_true, Bool.and_false, Bool.false_eq_true, if_false]
        -- the group of `n` and the erased dictionary
        obtain ⟨g, hg, hm0⟩ : ∃ g, lookup w.monitors_ n = some g ∧ lookup g mname = some m0 := by
          simp only [rgetitem2] at hn
          cases hg : lookup w.monitors_ n with
          | none => simp [hg] at hn
          | some g => exact ⟨g, rfl, by simpa [hg] using hn⟩
        have hcg : dict_contains g mname = true := by simp [contains_eq_lookup, hm0]
        let w1 : LW := { w with monitors_ := groupsErase w.monitors_ n mname }
        have hn1 : rgetitem2 w1.monitors_ n mname = none := by
          show (lookup (groupsErase w.monitors_ n mname) n).bind (lookup · mname) = none
          rw [lookup_groupsErase_self _ _ _ _ hg]
          exact lookup_filter_ne_self g mname
        have he : eraseExisting (toM w) w.me n mname = toM w1 := by
          simp only [eraseExisting, toM_trainer, hgs, hrg, hn, Option.isSome_some, if_true]
          simp only [w1, toM, selfTrainer, setTrainer_setTrainer]
        have h2 := add_monitor_fresh w1 n mname sel prepend reads true tags cell ho hn1 hf
        have hr1 : realign (toM w1) cell sel = realign w.st cell sel := realign_setTrainer _ _ _ _ _
        rw [he, hr1]
        have hd : dict_delitem2 w w.monitors_ n mname = .ok (groupsErase w.monitors_ n mname) := by
          simp only [dict_delitem2, hg, hcg, if_true]
          rfl
        unfold MonitorPool_add_monitor at h2 ⊢
        simp only [w1] at h2 hn1
        simp only [contains_eq_lookup, ho, hn, hn1, hd, Option.isSome_some, Bool.not_true, Bool.false_eq_true, if_false,
          if_true, bind, Except.bind, pure, Except.pure] at h2 ⊢
        exact h2


/-! ## The remaining pool methods -/

/-- the regenerated `MonitorPool.add_observed`: `RuntimeError` (nothing changed) when the name is an observable
or still has a group, otherwise the observable goes to the end of `observed_` -/
theorem gen_add_observed (w : LW) (n c : Nat) :
    MonitorPool_add_observed w n c =
      if (lookup w.observed_ n).isSome || (lookup w.monitors_ n).isSome then .error (.RuntimeError, w)
      else .ok ({ w with observed_ := w.observed_ ++ [(n, c)] }, c) := by
  unfold MonitorPool_add_observed
  simp only [contains_eq_lookup]
  cases ho : (lookup w.observed_ n).isSome
  · cases hm : (lookup w.monitors_ n).isSome
    · have : w.observed_.any (fun e => e.1 == n) = false := by
        have := contains_eq_lookup w.observed_ n; rw [ho] at this; exact this
      simp [dict_setitem, this, pure, Except.pure]
    · simp [throw, throwThe, MonadExceptOf.throw]
  · simp [throw, throwThe, MonadExceptOf.throw]

/-- the regenerated `MonitorPool.get_observed`: the observable, `KeyError` for an unknown name -/
theorem gen_get_observed (w : LW) (n : Nat) :
    MonitorPool_get_observed w n =
      match lookup w.observed_ n with
      | some c => .ok (w, c)
      | none => .error (.KeyError, w) := by
  cases h : lookup w.observed_ n with
  | some c => exact get_observed_eq w n c h
  | none => simp [MonitorPool_get_observed, contains_eq_lookup, h, throw, throwThe, MonadExceptOf.throw]

/-- the regenerated `MonitorPool.get_monitor` reads the model's `groups` -/
theorem gen_get_monitor (w : LW) (n m : Nat) :
    MonitorPool_get_monitor w n m =
      .ok (w, (lookup ((toM w).trainers w.me).groups n).bind (lookup · m)) := by
  simp [MonitorPool_get_monitor, rgetitem2, selfTrainer, pure, Except.pure]

/-- the regenerated `Observable.monitors` is the model's view of the cell's weak dictionary (`getCellMon`) -/
theorem gen_obs_monitors (o : OW) :
    ∃ d, Observable_monitors o = .ok (o, d) ∧ ∀ r, lookup d r = getCellMon o.st.cellMons o.me r := by
  refine ⟨_, rfl, fun r => ?_⟩
  simp only [MapAccessor, Observable___monitors, getCellMon, lookup]
  induction o.st.cellMons with
  | nil => rfl
  | cons e rest ih =>
    rcases Bool.eq_false_or_eq_true (e.1 == o.me) with h | h
    · simp only [List.filter_cons, h, if_true, List.map_cons, List.find?_cons, Bool.true_and]
      cases e.2.1 == r
      · simpa using ih
      · simp
    · simp only [List.filter_cons, h, Bool.false_eq_true, if_false, List.find?_cons, Bool.false_and]
      exact ih

/-! ## CellTrainer -/

/-- writing a trainer record back changes nothing -/
theorem setTrainer_self (s : State) (t : Nat) : setTrainer s t (s.trainers t) = s := by
  simp only [setTrainer]
  have : (fun i => if i = t then s.trainers t else s.trainers i) = s.trainers := by
    funext i; by_cases h : i = t <;> simp [h]
  rw [this]

/-- **gen_del_cell**: the regenerated `CellTrainer.del_cell` (with `MonitorPool.del_observed` inside) is the
`.delCell` case of `Lifecycle.stepCore`, and keeps the trainer's containers in step with the pool's -/
theorem gen_del_cell (w : LW) (n : Nat) (hal : (w.st.trainers w.me).alive = true) (hc : Coh w) :
    lift (CellTrainer_del_cell w n) = stepCore (toM w) (.delCell w.me n) ∧
      ∀ w' u, CellTrainer_del_cell w n = .ok (w', u) → Coh w' := by
  have ha : (selfTrainer w).alive = true := hal
  have hcs : (selfTrainer w).cells = w.cells_ := hc.cells.symm
  simp only [stepCore, toM_trainer, ha, Bool.not_true, Bool.false_eq_true, if_false, hcs]
  unfold CellTrainer_del_cell
  simp only [contains_eq_lookup, del_observed_eq, bind, Except.bind, pure, Except.pure]
  cases hl : lookup w.cells_ n with
  | none => simp [lift, throw, throwThe, MonadExceptOf.throw]
  | some c =>
    have hcc : dict_contains w.cells_ n = true := by simp [contains_eq_lookup, hl]
    have hcells : (delObservedW w n).cells_ = w.cells_ := rfl
    simp only [Option.isSome_some, Bool.not_true, Bool.false_eq_true, if_false, Option.isNone_some]
    cases ha : (lookup (delObservedW w n).aux_states_ n).isSome
    · simp only [Bool.false_eq_true, if_false, dict_delitem, hcells, hcc, if_true, lift]
      refine ⟨by rw [← toM_delObservedW]; rfl, ?_⟩
      intro w' u h
      injection h with h; injection h with h; subst h
      exact ⟨by simp [delObservedW, hc.cells], hc.training⟩
    · have hca : dict_contains (delObservedW w n).aux_states_ n = true := by rw [contains_eq_lookup]; exact ha
      simp only [if_true, dict_delitem, hca, hcells, hcc, lift]
      refine ⟨by rw [← toM_delObservedW]; rfl, ?_⟩
      intro w' u h
      injection h with h; injection h with h; subst h
      exact ⟨by simp [delObservedW, hc.cells], hc.training⟩

/-- **gen_add_monitor**: the regenerated `CellTrainer.add_monitor` (a user-added monitor: nothing read through
`cell.monitors`) is the `.addMonitor` case of `Lifecycle.stepCore` -/
theorem gen_add_monitor (w : LW) (n mname : Nat) (sel : AttrSel) (unique prepend : Bool) (tags : Nat)
    (hal : (w.st.trainers w.me).alive = true) (hc : Coh w) (hf : w.st.layerFilter = true) :
    lift (CellTrainer_add_monitor w n mname sel ⟨w.me, prepend, []⟩ unique tags) =
      stepCore (toM w) (.addMonitor w.me n mname sel unique prepend tags) := by
  have ha : (selfTrainer w).alive = true := hal
  simp only [stepCore, toM_trainer, ha, Bool.not_true, Bool.false_eq_true, if_false]
  unfold CellTrainer_add_monitor
  simp only [contains_eq_lookup, hc.cells]
  cases hl : lookup w.observed_ n with
  | none =>
    have : lookup (selfTrainer w).cells n = none := hl
    simp [addMonitor, this, lift, throw, throwThe, MonadExceptOf.throw]
  | some c =>
    simp only [Option.isSome_some, Bool.not_true, Bool.false_eq_true, if_false]
    exact gen_pool_add_monitor w n mname sel prepend [] unique tags hf

/-- **gen_del_monitor**: the regenerated `CellTrainer.del_monitor` is the `.delMonitor` case of
`Lifecycle.stepCore` -/
theorem gen_del_monitor (w : LW) (n mname : Nat) (hal : (w.st.trainers w.me).alive = true)
    (hk : (w.monitors_.map (·.1)).Nodup) :
    lift (CellTrainer_del_monitor w n mname) = stepCore (toM w) (.delMonitor w.me n mname) := by
  rw [← gen_pool_del_monitor w n mname hal hk]
  unfold CellTrainer_del_monitor
  cases MonitorPool_del_monitor w n mname with
  | error e => rfl
  | ok r => rfl


/-! ### train / clear -/

/-- the register / deregister loop of `train` does not touch trainer records -/
theorem setAll_setTrainer (t : Nat) (T : Trainer) (mode : Bool) (l : List Nat) (s : State) :
    setAll (setTrainer s t T) mode l = setTrainer (setAll s mode l) t T := by
  induction l generalizing s with
  | nil => rfl
  | cons m rest ih =>
    simp only [setAll_cons]
    cases mode
    · simp only [Bool.false_eq_true, if_false, deregisterMon_setTrainer, ih]
    · simp only [if_true, registerMon_setTrainer, ih]

/-- the register / deregister loop of `train` keeps the trainer records -/
@[simp] theorem setAll_trainers (mode : Bool) (l : List Nat) (s : State) : (setAll s mode l).trainers = s.trainers := by
  induction l generalizing s with
  | nil => rfl
  | cons m rest ih =>
    simp only [setAll_cons]
    cases mode <;> simp [ih]

/-- the loop `for monitor in pool.monitors: monitor.register()` is the model's `setAll … true` -/
theorem register_loop (l : List Nat) (w : LW) :
    l.foldl (fun w m => Monitor_register w m) w = { w with st := setAll w.st true l } := by
  induction l generalizing w with
  | nil => rfl
  | cons m rest ih => simp only [List.foldl_cons, setAll_cons, if_true, ih]; rfl

/-- the loop `for monitor in pool.monitors: monitor.deregister()` is the model's `setAll … false` -/
theorem deregister_loop (l : List Nat) (w : LW) :
    l.foldl (fun w m => Monitor_deregister w m) w = { w with st := setAll w.st false l } := by
  induction l generalizing w with
  | nil => rfl
  | cons m rest ih => simp only [List.foldl_cons, setAll_cons, Bool.false_eq_true, if_false, ih]; rfl

/-- **gen_train**: the regenerated `CellTrainer.train(mode)` is the `.trainerTrain` case of `Lifecycle.stepCore`:
the flag (of the trainer and, through `Module.train`, of its pool), then `register()` / `deregister()` of every
distinct monitor of the pool in `monitors` order -/
theorem gen_train (w : LW) (mode : Bool) (hal : (w.st.trainers w.me).alive = true) :
    lift (CellTrainer_train w mode) = stepCore (toM w) (.trainerTrain w.me mode) ∧
      ∀ w' u, CellTrainer_train w mode = .ok (w', u) → (Coh w → Coh w') := by
  have ha : (selfTrainer w).alive = true := hal
  have hstep : stepCore (toM w) (.trainerTrain w.me mode) =
      (setAll (setTrainer (toM w) w.me { selfTrainer w with training := mode }) mode (distinctMids (selfTrainer w)),
        .ok) := by
    simp only [stepCore, toM_trainer]
    rw [if_neg (by simp [ha])]
  rw [hstep]
  unfold CellTrainer_train
  simp only [gen_pool_monitors, bind, Except.bind, pure, Except.pure]
  have hm : (toM (Module_train w mode)).trainers (Module_train w mode).me = { selfTrainer w with training := mode } := by
    simp [toM, Module_train, selfTrainer]
  have hd : distinctMids { selfTrainer w with training := mode } = distinctMids (selfTrainer w) := rfl
  have hs : setTrainer (toM w) w.me { selfTrainer w with training := mode } = toM (Module_train w mode) := by
    simp [toM, Module_train, selfTrainer, setTrainer_setTrainer]
  rw [hs]
  cases mode
  · simp only [Bool.false_eq_true, if_false, hm, hd]
    rw [foldlM_ok (g := fun w m => Monitor_deregister w m) (h := fun _ _ => rfl)]
    simp only [deregister_loop, lift]
    refine ⟨?_, ?_⟩
    · simp only [toM, setAll_setTrainer, selfTrainer, setAll_trainers]
    · intro w' u h hc
      injection h with h; injection h with h; subst h
      exact ⟨hc.cells, rfl⟩
  · simp only [if_true, hm, hd]
    rw [foldlM_ok (g := fun w m => Monitor_register w m) (h := fun _ _ => rfl)]
    simp only [register_loop, lift]
    refine ⟨?_, ?_⟩
    · simp only [toM, setAll_setTrainer, selfTrainer, setAll_trainers]
    · intro w' u h hc
      injection h with h; injection h with h; subst h
      exact ⟨hc.cells, rfl⟩


/-- `monitor.clear()` on a monitor record -/
def cleared (m : Monitor) : Monitor := { m with count := 0, expected := 0 }

/-- the loop `for monitor in pool.monitors: monitor.clear()` clears exactly the listed monitors -/
theorem clear_loop (l : List Nat) (w : LW) :
    l.foldl (fun w m => Monitor_clear w m) w =
      { w with st := { w.st with mons := fun mid => if l.contains mid then cleared (w.st.mons mid) else w.st.mons mid } } := by
  induction l generalizing w with
  | nil => simp
  | cons m rest ih =>
    rw [List.foldl_cons, ih]
    simp only [Monitor_clear, setMon]
    congr 2
    funext mid
    by_cases h1 : mid = m
    · subst h1
      by_cases h2 : rest.contains mid = true
      · simp [h2, cleared]
      · simp [h2, cleared]
    · have : (m == mid) = false := beq_eq_false_iff_ne.2 (fun h => h1 h.symm)
      by_cases h2 : rest.contains mid = true
      · simp [h1, h2, cleared, List.contains_cons, this]
      · simp [h1, h2, cleared, List.contains_cons, this]

/-- **gen_clear**: the regenerated `CellTrainer.clear` is the `.clear` case of `Lifecycle.stepCore`: every monitor
of the pool starts counting again -/
theorem gen_clear (w : LW) (hal : (w.st.trainers w.me).alive = true) :
    lift (CellTrainer_clear w) = stepCore (toM w) (.clear w.me) := by
  have ha : (selfTrainer w).alive = true := hal
  simp only [stepCore, toM_trainer, ha, Bool.not_true, Bool.false_eq_true, if_false]
  unfold CellTrainer_clear
  simp only [gen_pool_monitors, bind, Except.bind, pure, Except.pure]
  rw [foldlM_ok (g := fun w m => Monitor_clear w m) (h := fun _ _ => rfl)]
  simp only [clear_loop, lift, toM, clearMons, setTrainer_trainers_self, selfTrainer, toM_trainer]
  simp only [setTrainer]
  congr 2
  funext mid
  have : (distinctMids ⟨(w.st.trainers w.me).kind, (w.st.trainers w.me).alive, w.poolTraining, w.observed_,
      w.monitors_⟩).contains mid = (poolMids ⟨(w.st.trainers w.me).kind, (w.st.trainers w.me).alive, w.poolTraining,
      w.observed_, w.monitors_⟩).contains mid := by
    rw [Bool.eq_iff_iff, List.contains_iff_mem, List.contains_iff_mem]
    exact List.mem_eraseDups
  rw [this]
  rfl


/-! ### add_cell -/

/-- a loop whose every iteration returns its carry unchanged -/
theorem foldlM_fix {ε α β : Type} (f : β → α → Except ε β) (b : β) (l : List α) (h : ∀ a ∈ l, f b a = .ok b) :
    l.foldlM f b = .ok b := by
  induction l with
  | nil => rfl
  | cons a rest ih =>
    simp only [List.foldlM_cons, h a (List.mem_cons_self), bind, Except.bind]
    exact ih (fun q hq => h q (List.mem_cons_of_mem _ hq))

/-- the model's `delObserved` keeps `cells` -/
theorem delObserved_cells (s : State) (t n : Nat) :
    ((delObserved s t n).trainers t).cells = (s.trainers t).cells := by
  unfold delObserved
  split
  · rfl
  · simp [dropGroup, deregisterUnshared_trainers]

/-- a key appended to a dictionary that lacked it -/
theorem lookup_append_new {V : Type} (d : List (Nat × V)) (k : Nat) (v : V) (h : lookup d k = none) :
    lookup (d ++ [(k, v)]) k = some v := by
  induction d with
  | nil => simp [lookup]
  | cons e rest ih =>
    simp only [lookup, List.find?_cons, List.cons_append] at h ih ⊢
    cases he : e.1 == k
    · simp only [he, Bool.false_eq_true, if_false] at h ⊢; exact ih h
    · simp [he] at h

/-- appending to `observed_` is the model's `addCellEntry` -/
theorem toM_addObs (w1 : LW) (n c : Nat) (cs aux : List (Nat × Nat)) :
    toM { w1 with observed_ := w1.observed_ ++ [(n, c)], cells_ := cs, aux_states_ := aux } =
      addCellEntry (toM w1) w1.me n c := by
  simp [toM, addCellEntry, selfTrainer, setTrainer_setTrainer]

/-- **gen_add_cell**: the regenerated `CellTrainer.add_cell` (with `MonitorPool.del_observed` and
`MonitorPool.add_observed` inside) on an updatable cell that has the required parameters: `ValueError` with nothing
changed for a name already in use, otherwise the model's `delObserved` then `addCellEntry` — the first half of the
`.registerCell` case of `Lifecycle.stepCore` (`gen_register_cell`) —; the containers stay in step -/
theorem gen_add_cell (w : LW) (n c : Nat) (state : Option Nat) (params : Option (List Nat)) (hc : Coh w)
    (hu : (Cell_updater w c).isSome = true)
    (hp : ∀ ps, params = some ps → ∀ p ∈ ps, Updater_hasattr w (Cell_updater w c) p = true) :
    lift (CellTrainer_add_cell w n c state params) =
      (if (lookup ((toM w).trainers w.me).cells n).isSome then (toM w, .err .ValueError)
       else (addCellEntry (delObserved (toM w) w.me n) w.me n c, .ok)) ∧
      ∀ w' u, CellTrainer_add_cell w n c state params = .ok (w', u) → Coh w' := by
  have hcs : (selfTrainer w).cells = w.cells_ := hc.cells.symm
  simp only [toM_trainer, hcs]
  unfold CellTrainer_add_cell
  simp only [contains_eq_lookup, hu, Bool.not_true, Bool.false_eq_true, if_false]
  cases hl : lookup w.cells_ n with
  | some c0 => simp [lift, throw, throwThe, MonadExceptOf.throw]
  | none =>
    simp only [Option.isSome_none, Bool.false_eq_true, if_false]
    have hloop : (do
        if (optseq_truthy params) then
          let self ← ((← optseq_iter w params)).foldlM (fun self e1_ => (do
              if (!(Updater_hasattr self (Cell_updater self c) e1_)) then
                throw (Err.RuntimeError, self)
              else
                pure self
              : Except (Err × LW) _)) w
          pure self
        else
          pure w
        : Except (Err × LW) _) = .ok w := by
      cases params with
      | none => rfl
      | some ps =>
        simp only [optseq_iter, bind, Except.bind, pure, Except.pure]
        rw [foldlM_fix _ w ps (fun p hpm => by simp [hp ps rfl p hpm])]
        split <;> rfl
    rw [hloop]
    simp only [bind, Except.bind, pure, Except.pure, del_observed_eq]
    -- after del_observed neither `observed_` nor `monitors_` has the name
    have ho0 : dict_contains w.observed_ n = false := by rw [← hc.cells, contains_eq_lookup, hl]; rfl
    have hobs : (delObservedW w n).observed_ = w.observed_ := by
      simp only [delObservedW]; exact filter_key_ne_self _ _ ho0
    have hmon : lookup (delObservedW w n).monitors_ n = none := lookup_filter_ne_self _ _
    have hobs' : lookup (delObservedW w n).observed_ n = none := by rw [hobs, ← hc.cells]; exact hl
    have hany : w.cells_.any (fun e => e.1 == n) = false := by
      have := contains_eq_lookup w.cells_ n; rw [hl] at this; exact this
    have hto : toM (delObservedW w n) = delObserved (toM w) w.me n := by
      rw [toM_delObservedW]
      simp only [dropCell, delObserved_cells, toM_trainer]
      have : (selfTrainer w).cells.filter (fun e => e.1 != n) = ((delObserved (toM w) w.me n).trainers w.me).cells := by
        rw [delObserved_cells, toM_trainer]; exact filter_key_ne_self _ _ ho0
      rw [this]
      exact setTrainer_self _ _
    have hcells : (delObservedW w n).cells_ = w.cells_ := rfl
    have hme : (delObservedW w n).me = w.me := rfl
    have hpt : (delObservedW w n).poolTraining = w.poolTraining := rfl
    have htr : (delObservedW w n).training = w.training := rfl
    have hget : ∀ (σ : Type) (x : σ), getitem x (w.cells_ ++ [(n, c)]) n = .ok c := fun σ x => by
      simp [getitem, dict_getitem, lookup_append_new _ _ _ hl]
    have hset : dict_setitem w.cells_ n c = w.cells_ ++ [(n, c)] := by simp [dict_setitem, hany]
    rcases Bool.eq_false_or_eq_true (lookup (delObservedW w n).aux_states_ n).isSome with hx | hx
    · have hca : dict_contains (delObservedW w n).aux_states_ n = true := by rw [contains_eq_lookup]; exact hx
      cases state <;>
      · simp only [hx, if_true, dict_delitem, hca, gen_add_observed, hobs', hmon, Option.isSome_none, Bool.or_self,
          Bool.false_eq_true, if_false, hcells, hset, hget, lift]
        refine ⟨by rw [← hto]; exact congrArg (·, Out.ok) (toM_addObs (delObservedW w n) n c _ _), ?_⟩
        intro w' u h
        injection h with h; injection h with h; subst h
        exact ⟨by simp [hobs, hc.cells], by simp [hpt, htr, hc.training]⟩
    · cases state <;>
      · simp only [hx, Bool.false_eq_true, if_false, gen_add_observed, hobs', hmon, Option.isSome_none, Bool.or_self,
          hcells, hset, hget, lift]
        refine ⟨by rw [← hto]; exact congrArg (·, Out.ok) (toM_addObs (delObservedW w n) n c _ _), ?_⟩
        intro w' u h
        injection h with h; injection h with h; subst h
        exact ⟨by simp [hobs, hc.cells], by simp [hpt, htr, hc.training]⟩


/-- **gen_register_cell**: the `.registerCell` case of `Lifecycle.stepCore` is the regenerated
`CellTrainer.add_cell` followed by the trainer kind's `add_monitor` calls (`addTemplate`, a fold of the model's
`addMonitor`, each of which is a regenerated `MonitorPool.add_monitor`: `gen_pool_add_monitor`) -/
theorem gen_register_cell (w : LW) (n c v : Nat) (state : Option Nat) (params : Option (List Nat))
    (hal : (w.st.trainers w.me).alive = true) (hlt : c < w.st.topo.length) (hc : Coh w)
    (hu : (Cell_updater w c).isSome = true)
    (hp : ∀ ps, params = some ps → ∀ p ∈ ps, Updater_hasattr w (Cell_updater w c) p = true) :
    stepCore (toM w) (.registerCell w.me n c v) =
      match lift (CellTrainer_add_cell w n c state params) with
      | (s', .ok) => (addTemplate s' w.me n (template ((toM w).trainers w.me).kind v), .ok)
      | r => r := by
  rw [(gen_add_cell w n c state params hc hu hp).1]
  have ha : (selfTrainer w).alive = true := hal
  have hlt' : ¬ c ≥ (toM w).topo.length := by show ¬ c ≥ w.st.topo.length; omega
  simp only [stepCore, toM_trainer, ha, Bool.not_true, Bool.false_eq_true, if_false, hlt']
  cases (lookup (selfTrainer w).cells n).isSome <;> rfl

/-! ### Listings -/

/-- the regenerated `CellTrainer.monitors` is the model's `distinctMids` -/
theorem gen_monitors (w : LW) : CellTrainer_monitors w = .ok (w, distinctMids ((toM w).trainers w.me)) := by
  simp only [CellTrainer_monitors, gen_pool_monitors, bind, Except.bind, pure, Except.pure]

/-- the regenerated `CellTrainer.named_monitors` is the model's `namedMonitors` -/
theorem gen_named_monitors (w : LW) :
    CellTrainer_named_monitors w = .ok (w, namedMonitors ((toM w).trainers w.me)) := by
  simp only [CellTrainer_named_monitors, gen_pool_named_monitors, bind, Except.bind, pure, Except.pure]

/-- the regenerated `CellTrainer.named_cells` lists the model's `cellsListing` (name, cell), each with the
auxiliary state stored under the name (not modelled) -/
theorem gen_named_cells (w : LW) (hc : Coh w) :
    ∃ l, CellTrainer_named_cells w = .ok (w, l) ∧
      l.map (fun e => (e.1, e.2.1)) = cellsListing ((toM w).trainers w.me) ∧
      ∀ e ∈ l, e.2.2 = lookup w.aux_states_ e.1 := by
  refine ⟨_, rfl, ?_, ?_⟩
  · simp [dict_items, cellsListing, selfTrainer, hc.cells, Function.comp_def]
  · intro e he
    simp only [dict_items, List.mem_map] at he
    obtain ⟨x, -, rfl⟩ := he
    rfl

/-- the regenerated `CellTrainer.cells` lists the cells of the model's `cellsListing`, in order -/
theorem gen_cells (w : LW) (hc : Coh w) :
    ∃ l, CellTrainer_cells w = .ok (w, l) ∧ l.map (·.1) = (cellsListing ((toM w).trainers w.me)).map (·.2) := by
  refine ⟨_, rfl, ?_⟩
  simp [dict_items, cellsListing, selfTrainer, hc.cells, Function.comp_def]

/-! ### update -/

/-- the loop of `update` over updaters none of which is `None` calls each and never raises -/
theorem update_loop (w : LW) (l : List (Option Nat)) (acc : List Nat) (h : ∀ x ∈ l, x.isSome = true) :
    l.foldlM (fun c4_ e3_ => (do
        let self := c4_.1
        let updater_calls := c4_.2
        let updater_calls := updater_calls ++ [(← Updater_call self e3_)]
        pure (self, updater_calls)
        : Except (Err × LW) _)) (w, acc) = .ok (w, acc ++ l.filterMap id) := by
  induction l generalizing acc with
  | nil => simp [pure, Except.pure]
  | cons x rest ih =>
    cases x with
    | none => simp at h
    | some u =>
      simp only [List.foldlM_cons, Updater_call, bind, Except.bind, pure, Except.pure] at ih ⊢
      rw [ih _ (fun y hy => h y (List.mem_cons_of_mem _ hy))]
      simp

/-- **gen_update** (the model has no `update` operation; D16 regression): the regenerated `CellTrainer.update`
never raises, leaves the world unchanged and calls each distinct updater of the listed cells exactly once, in
order of first occurrence (`cell.updater` read from the FIRST component of the `(cell, state)` pairs of `cells`) -/
theorem gen_update (w : LW) :
    ∃ us, CellTrainer_update w = .ok (w, us) ∧
      us.map some = ((w.cells_.map (fun e => w.env.updaterOf e.2)).filter (·.isSome)).eraseDups := by
  unfold CellTrainer_update
  have hcells : CellTrainer_cells w = .ok (w, (dict_items w.cells_).map
      (fun e1_ => (e1_.2, ModuleDict_getattr w.aux_states_ e1_.1))) := rfl
  simp only [hcells, bind, Except.bind, pure, Except.pure]
  have hl : (unique_opt_ids ((((dict_items w.cells_).map
        (fun e1_ => (e1_.2, ModuleDict_getattr w.aux_states_ e1_.1))).map
        (fun x1_ => Cell_updater w x1_.1)).filter (fun x2_ => x2_.isSome))) =
      ((w.cells_.map (fun e => w.env.updaterOf e.2)).filter (·.isSome)).eraseDups := by
    simp [unique_opt_ids, dict_items, Cell_updater, Function.comp_def]
  rw [hl]
  have hall : ∀ x ∈ ((w.cells_.map (fun e => w.env.updaterOf e.2)).filter (·.isSome)).eraseDups, x.isSome = true := by
    intro x hx
    rw [List.mem_eraseDups, List.mem_filter] at hx
    exact hx.2
  have := update_loop w _ [] hall
  simp only [bind, Except.bind, pure, Except.pure] at this
  rw [this]
  refine ⟨_, rfl, ?_⟩
  generalize ((w.cells_.map (fun e => w.env.updaterOf e.2)).filter (·.isSome)).eraseDups = l at hall
  induction l with
  | nil => rfl
  | cons x rest ih =>
    cases x with
    | none => simp at hall
    | some u =>
      simp only [List.nil_append, List.filterMap_cons, id, List.map_cons] at ih ⊢
      rw [ih (fun y hy => hall y (List.mem_cons_of_mem _ hy))]

/-! ## The same with reference counting: `Lifecycle.step` -/

/-- from `stepCore` to `step`: reference counting runs after the method -/
theorem liftS_eq {α : Type} (x : Except (Err × LW) (LW × α)) (s : State) (op : Op) (h : lift x = stepCore s op) :
    liftS x = step s op := by
  simp only [liftS, step, h]

/-- `gen_del_cell` for `Lifecycle.step` -/
theorem gen_del_cell_step (w : LW) (n : Nat) (hal : (w.st.trainers w.me).alive = true) (hc : Coh w) :
    liftS (CellTrainer_del_cell w n) = step (toM w) (.delCell w.me n) :=
  liftS_eq _ _ _ (gen_del_cell w n hal hc).1

/-- `gen_add_monitor` for `Lifecycle.step` -/
theorem gen_add_monitor_step (w : LW) (n mname : Nat) (sel : AttrSel) (unique prepend : Bool) (tags : Nat)
    (hal : (w.st.trainers w.me).alive = true) (hc : Coh w) (hf : w.st.layerFilter = true) :
    liftS (CellTrainer_add_monitor w n mname sel ⟨w.me, prepend, []⟩ unique tags) =
      step (toM w) (.addMonitor w.me n mname sel unique prepend tags) :=
  liftS_eq _ _ _ (gen_add_monitor w n mname sel unique prepend tags hal hc hf)

/-- `gen_del_monitor` for `Lifecycle.step` -/
theorem gen_del_monitor_step (w : LW) (n mname : Nat) (hal : (w.st.trainers w.me).alive = true)
    (hk : (w.monitors_.map (·.1)).Nodup) :
    liftS (CellTrainer_del_monitor w n mname) = step (toM w) (.delMonitor w.me n mname) :=
  liftS_eq _ _ _ (gen_del_monitor w n mname hal hk)

/-- `gen_train` for `Lifecycle.step` -/
theorem gen_train_step (w : LW) (mode : Bool) (hal : (w.st.trainers w.me).alive = true) :
    liftS (CellTrainer_train w mode) = step (toM w) (.trainerTrain w.me mode) :=
  liftS_eq _ _ _ (gen_train w mode hal).1

/-- `gen_clear` for `Lifecycle.step` -/
theorem gen_clear_step (w : LW) (hal : (w.st.trainers w.me).alive = true) :
    liftS (CellTrainer_clear w) = step (toM w) (.clear w.me) :=
  liftS_eq _ _ _ (gen_clear w hal)


/-! ## Every model state is the abstraction of a coherent world -/

/-- a model state with trainer `t` loaded as `self` (no auxiliary states) -/
def ofM (s : State) (env : Env) (t : Nat) : LW :=
  ⟨s, env, t, (s.trainers t).training, (s.trainers t).cells, [], (s.trainers t).training, (s.trainers t).groups,
    (s.trainers t).cells⟩

/-- every model state is the abstraction of a world (so the method theorems cover every model state) -/
theorem toM_ofM (s : State) (env : Env) (t : Nat) : toM (ofM s env t) = s := setTrainer_self s t

/-- … and that world is coherent -/
theorem ofM_coh (s : State) (env : Env) (t : Nat) : Coh (ofM s env t) := ⟨rfl, rfl⟩

/-- `gen_add_monitor_step` over a model state: `CellTrainer.add_monitor` of trainer `t` -/
theorem gen_add_monitor_model (s : State) (env : Env) (t n mname : Nat) (sel : AttrSel) (unique prepend : Bool)
    (tags : Nat) (hal : (s.trainers t).alive = true) (hf : s.layerFilter = true) :
    liftS (CellTrainer_add_monitor (ofM s env t) n mname sel ⟨t, prepend, []⟩ unique tags) =
      step s (.addMonitor t n mname sel unique prepend tags) := by
  have := gen_add_monitor_step (ofM s env t) n mname sel unique prepend tags hal (ofM_coh s env t) hf
  rwa [toM_ofM] at this

/-- `gen_del_cell_step` over a model state -/
theorem gen_del_cell_model (s : State) (env : Env) (t n : Nat) (hal : (s.trainers t).alive = true) :
    liftS (CellTrainer_del_cell (ofM s env t) n) = step s (.delCell t n) := by
  have := gen_del_cell_step (ofM s env t) n hal (ofM_coh s env t)
  rwa [toM_ofM] at this

/-- `gen_del_monitor_step` over a model state (the pool's groups have distinct names) -/
theorem gen_del_monitor_model (s : State) (env : Env) (t n mname : Nat) (hal : (s.trainers t).alive = true)
    (hk : ((s.trainers t).groups.map (·.1)).Nodup) :
    liftS (CellTrainer_del_monitor (ofM s env t) n mname) = step s (.delMonitor t n mname) := by
  have := gen_del_monitor_step (ofM s env t) n mname hal hk
  rwa [toM_ofM] at this

/-- `gen_train_step` over a model state -/
theorem gen_train_model (s : State) (env : Env) (t : Nat) (mode : Bool) (hal : (s.trainers t).alive = true) :
    liftS (CellTrainer_train (ofM s env t) mode) = step s (.trainerTrain t mode) := by
  have := gen_train_step (ofM s env t) mode hal
  rwa [toM_ofM] at this

/-- `gen_clear_step` over a model state -/
theorem gen_clear_model (s : State) (env : Env) (t : Nat) (hal : (s.trainers t).alive = true) :
    liftS (CellTrainer_clear (ofM s env t)) = step s (.clear t) := by
  have := gen_clear_step (ofM s env t) hal
  rwa [toM_ofM] at this

/-! ## Non-vacuity: the regenerated programs run -/

/-- one layer, two cells sharing neuron 0 (connections 0 and 1); one trainer; every cell has updater 0 -/
def exState : State := (stepCore (init [(0, 0, 0), (0, 1, 0)]) (.newTrainer 0)).1
/-- every cell has updater 0, which has every attribute -/
def exEnv : Env := ⟨fun _ => some 0, fun _ _ => true⟩
/-- trainer 0 of `exState` loaded -/
def exWorld : LW := ofM exState exEnv 0

/-- two cells added, the same pooled monitor name on the shared neuron for both, a unique monitor, eval mode -/
def exRun : Except (Err × LW) (LW × Unit) := do
  let r ← CellTrainer_add_cell exWorld 10 0 none (some [5])
  let r ← CellTrainer_add_cell r.1 11 1 (some 4) none
  let r ← CellTrainer_add_monitor r.1 10 7 (.neuron 0) ⟨0, true, []⟩ false 3
  let r ← CellTrainer_add_monitor r.1 11 7 (.neuron 0) ⟨0, true, []⟩ false 3
  let r ← CellTrainer_add_monitor r.1 11 8 (.neuron 0) ⟨0, false, []⟩ true 3
  CellTrainer_train r.1 false

/-- the final world of `exRun` (the empty world if it raised) -/
def exFinal : LW := match exRun with
  | .ok (w, _) => w
  | .error (_, w) => { w with monitors_ := [], cells_ := [] }

example : exFinal.monitors_ = [(10, [(7, 0)]), (11, [(7, 0), (8, 1)])] := by decide
example : exFinal.st.post = [] := by decide
example : exFinal.cells_ = [(10, 0), (11, 1)] ∧ exFinal.observed_ = [(10, 0), (11, 1)] := by decide
example : exFinal.aux_states_ = [(11, 4)] := by decide
example : exFinal.st.nMons = 2 ∧ (exFinal.st.mons 0).handle = none ∧ (exFinal.st.mons 0).tags = some 3 ∧
    (exFinal.st.mons 1).tags = none := by decide

example : (match exRun with
    | .ok (w, _) => (match CellTrainer_train w true with
        | .ok (w, _) => w.st.post
        | .error _ => [])
    | .error _ => []) = [(2, 0), (3, 1)] := by decide

example : (match CellTrainer_add_cell exWorld 10 0 none none with
    | .ok (w, _) => (lift (CellTrainer_add_cell w 10 1 none none)).2
    | .error _ => .ok) = .err .ValueError := by decide

example : (lift (CellTrainer_add_monitor exWorld 10 7 (.neuron 0) ⟨0, true, []⟩ false 3)).2 = .err .AttributeError := by
  decide

end InfernoVerif.Gen.LifecycleProg
