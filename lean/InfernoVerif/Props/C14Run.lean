import InfernoVerif.Props.C14GlueProg
import InfernoVerif.Props.C14
/-!
# C14, closing the loop: the setter programs regenerated from /repo reach the constructor's state over EVERY setter sequence

`Props/C14GlueProg.lean` proves, setter by setter, that one run of a method body REGENERATED from
`inferno/neural/mixins.py`, `inferno/observe/reducers/base.py` and `inferno/neural/base.py` (`Gen/ConfigProg.lean`) on a
well-formed object, seen through the abstractions `toSyn` / `toNeu` / `toRed` / `toConn`, is one step of the hand-written
component machines `Config.Synapse.step` / `Neuron.step` / `Reducer.step` / `Conn.step` (`Model/Config.lean`).
`Props/C14.lean` proves the property about these machines: `setters_reach_constructor` (every finite sequence of valid
setter calls from a constructed component ends in the state the constructor builds for the configuration last
assigned) and `setter_frame`.  This file supplies the missing links and composes everything, once per component kind
(namespaces `Syn`, `Neu`, `Red`, `Con`; the same names in each):

* a generated state BETWEEN operations (`GSyn` / `GNeu` / `GRed` / `GCon`): the module object the programs act on
  (`Obj τ`, for a connection `ConnW τ`) next to the tags the abstractions of the glue file take as parameters — the dtype
  `module.to` last set, and for a neuron the step time of the concrete class.  `abs` is the glue file's abstraction at
  these tags (`Option`-valued for reducers and connections, exactly as `toRed` / `toConn` are: a reducer with one record, a
  connection with a submodule registered as `synapse_`).
* `genExec` dispatches the machines' operation alphabet `Config.COp` to the regenerated setter it names and returns the
  NEW generated state and the output; on an exception the object AT THE RAISE (as `outcome` of the glue theorems
  prescribes) and `Out.err e`.  `gen_step_eq`: one dispatched operation, abstracted, is one step of the hand-written
  machine — from the per-method glue theorems.
* `gen_step_wf`: the regenerated programs PRESERVE the well-formedness hypotheses of the glue theorems (`SynWF`,
  `BatchWF`, `RedWF`; for a connection: a `SynWF` object is registered as `synapse_`), returning or raising, so the
  hypotheses hold along a whole execution.  (The `…_wf` halves of the glue theorems; for `inplace` and the tag operations
  the object's registered names and attribute heap are untouched.)
* `genRun` / `SupRun` fold `genExec` / the domain over an operation list (`runOf`, `supRunOf`; the run-level lift of a
  one-step simulation is proved once, generically: `run_lift`).  `gen_run_eq`: equality with the hand-written machine over
  every supported list, outputs included, refused values and re-assignments of the stored value included.
* `gen_run_refines` — the CAPSTONE, per kind and (`ConfigProg.gen_run_refines`) for all four kinds together, composed
  with `Config.*_setters_reach_constructor`: for EVERY finite sequence of valid setter calls supported along the run,
  started on a well-formed object whose configuration view is what the constructor builds for `c`, the regenerated
  setters return every time, the object they leave has the configuration view — reported values, every internal record's
  dt / duration / inclusive / `recordsz`, every batch dimension — that the constructor builds for the configuration in
  which each attribute holds the value last assigned, and it is again well formed.  `gen_step_frame` transports
  `setter_frame` (one assignment leaves every other reported attribute alone); `Syn.gen_run_getters` /
  `Con.gen_run_getters` state the capstone through the regenerated GETTERS (`InfernoSynapse_dt`, `Connection_delayedby`,
  …): what they return after the run is the configuration last assigned.

MIXED RUN — which parts of `genExec` are NOT regenerated text (said explicitly):
* `COp.setDtype` (`module.to(dtype)`, torch's) on every kind and `COp.setDt` on a NEURON (the `dt` property lives in the
  concrete neuron classes, not among the translated methods) are THE MODEL'S: `genExec` applies the clause of
  `Config.*.step` to the tag (`⟨g.obj, d⟩`; `if T.pos v = false then ValueError else dt := v`); the object is untouched.
* `COp.setSynapse cfg` runs the regenerated `Connection.synapse.setter`, but the synapse OBJECT assigned is `mk cfg`, a
  parameter of the run: the constructors of the concrete synapse classes are not translated.  The domain demands that
  `mk cfg` is a well-formed synapse whose configuration view is `Synapse.construct T cfg` (what `gen_batch_init`,
  `gen_delayed_init`, `gen_add_delayed`, `gen_add_batched` of the glue file establish step by step).  The dtype tag of
  the connection becomes `cfg.dtype` (the dtype is the synapse's).
* `COp.setDelay` / `COp.setInplace` on a CONNECTION are `connection.synapse.delay = v` / `connection.synapse.inplace = b`
  (`Connection` has no such properties of its own; this is how `Config.Conn.step` and `harness/corr/c14.py` read them):
  `viaSynapse` = the regenerated getter `Connection_synapse`, the prelude's `moduleCall`, the regenerated synapse setter
  — literally the composition the generated `Connection.dt.setter` / `batchsz.setter` consist of (`conn_set_dt_via`,
  `conn_set_batchsz_via`, by `rfl`: a change to those generated bodies breaks these two theorems).
Everything else (`dt`, `delay`, `batchsz`, `inplace`, `duration` setters of synapses, neurons, reducers, connections) is a
regenerated method body.

Domain (`Sup g op`, evaluated at the CURRENT state):
* where a setter ENTERS ITS LOOP (value valid and different from the stored one) every registered tensor accepts the new
  value: `RecsAccept` / `BatchAccept` of the glue file at the current object.  This is weaker than the hypotheses of the
  glue theorems, which demand acceptance unconditionally — that would exclude every refused value on a component with
  records (`Record.step` answers `ValueError` for it); the two exits that do not enter the loop (validation refuses;
  value already stored) are proved here by unfolding the generated definitions (`setterPattern_refused` / `_same`,
  `set_batchsz_refused` / `_same`, then the `*_w` forms of the glue theorems).  Acceptance is a genuine hypothesis, not a
  consequence of well-formedness: a record may refuse a size (`strict` constraints, a parameter), the programs then leave
  the records visited so far changed (`gen_temporal_setter_raise`) and `Model/Config.lean` has no such partial state;
* `setSynapse cfg`: the condition on `mk cfg` above;
* operations the component kind does not have (where the machine answers `Out.unsupported`: `duration` / `synapse` on a
  synapse, `delay` / `duration` / `inplace` / `synapse` on a neuron, `delay` / `batchsz` / `synapse` on a reducer,
  `duration` on a connection) are excluded: there is no method to run.
The capstone additionally has the hypothesis of `setters_reach_constructor` (`validOp`: the value passes the setter's
own validation); `gen_run_eq` does not.  `ClearOK C` is the glue file's assumption on the subclass's `clear()`.
`supB` / `supRunBOf` are executable forms of the domain (`*_sound`) used by the non-vacuity examples at the end: a
synapse, a neuron with two `ShapedTensor`s, a reducer, and a connection whose synapse is replaced in mid-run, each run by
the regenerated programs at exact rational times.

Nothing resisted: there is no unproved statement.  Core tactics only (the imports bring in what `Props/C14.lean` and the
glue file import).
-/
set_option linter.unusedSimpArgs false
set_option linter.unusedVariables false
set_option linter.unusedSectionVars false
namespace InfernoVerif.Gen.ConfigProg
open InfernoVerif.Ring (Err Elem)
open InfernoVerif.Shaped InfernoVerif.Gen.ConfigPrelude
open InfernoVerif.Gen.RecordPrelude (RecT)
open InfernoVerif.Record (TimeOps recSize)
open InfernoVerif.Config (RecCfg BatchM DelayM COp)

/-! ## Operation sequences, generically -/
section Generic
variable {G M O K : Type}

/-- fold of a one-step function over an operation list, collecting the outputs -/
def runOf (exec : G → O → G × Config.Out) (g : G) : List O → G × List Config.Out
  | [] => (g, [])
  | op :: ops => ((runOf exec (exec g op).1 ops).1, (exec g op).2 :: (runOf exec (exec g op).1 ops).2)

/-- a domain predicate along a run: every operation is in the domain at the state reached so far -/
def supRunOf (exec : G → O → G × Config.Out) (Sup : G → O → Prop) (g : G) : List O → Prop
  | [] => True
  | op :: ops => Sup g op ∧ supRunOf exec Sup (exec g op).1 ops

/-- the state component of `runOf` is the left fold of the step's state component (the form of `Config.*.run`) -/
theorem runOf_fst (step : M → O → M × Config.Out) (m : M) (ops : List O) :
    (runOf step m ops).1 = ops.foldl (fun s op => (step s op).1) m := by
  induction ops generalizing m with
  | nil => rfl
  | cons op ops ih => simp only [runOf, List.foldl_cons]; exact ih _

/-- run-level lift of a one-step simulation -/
theorem run_lift (abs : G → Option M) (exec : G → O → G × Config.Out) (step : M → O → M × Config.Out)
    (WF : G → Prop) (Sup : G → O → Prop)
    (hstep : ∀ g m op, WF g → abs g = some m → Sup g op →
      abs (exec g op).1 = some (step m op).1 ∧ (exec g op).2 = (step m op).2 ∧ WF (exec g op).1)
    (ops : List O) (g : G) (m : M) (h : WF g) (ha : abs g = some m) (hs : supRunOf exec Sup g ops) :
    abs (runOf exec g ops).1 = some (runOf step m ops).1 ∧ (runOf exec g ops).2 = (runOf step m ops).2 ∧
      WF (runOf exec g ops).1 := by
  induction ops generalizing g m with
  | nil => exact ⟨ha, rfl, h⟩
  | cons op ops ih =>
    obtain ⟨hs1, hs2⟩ := hs
    obtain ⟨e1, e2, e3⟩ := hstep g m op h ha hs1
    obtain ⟨i1, i2, i3⟩ := ih (exec g op).1 (step m op).1 e3 e1 hs2
    exact ⟨i1, by simp only [runOf, e2, i2], i3⟩

/-- a run of valid assignments from a constructed state returns `unit` every time -/
theorem outs_unit (step : M → O → M × Config.Out) (construct : K → M) (assign : K → O → K) (valid : O → Bool)
    (h1 : ∀ c op, valid op = true → step (construct c) op = (construct (assign c op), .unit))
    (ops : List O) (c : K) (hv : ∀ op ∈ ops, valid op = true) :
    (runOf step (construct c) ops).2 = ops.map (fun _ => Config.Out.unit) := by
  induction ops generalizing c with
  | nil => rfl
  | cons op ops ih =>
    have e := h1 c op (hv op (List.mem_cons_self ..))
    simp only [runOf, e, List.map_cons]
    rw [ih (assign c op) (fun o ho => hv o (List.mem_cons_of_mem _ ho))]

end Generic

variable {τ : Type} {α : Type}

/-! ## Running one regenerated method -/

/-- run one regenerated method to its end: the state it leaves — on an exception the state AT THE RAISE, as the
`outcome` of the glue theorems prescribes — and the converted output -/
def exec1 {σ : Type} : Except (Err × σ) (σ × α) → σ × Config.Out
  | .ok (s, _) => (s, .unit)
  | .error (e, s) => (s, .err e)

/-- `outcome` of the glue theorems is `exec1` followed by the abstraction of the state -/
theorem outcome_exec1 {σ μ : Type} (abs : σ → μ) (p : Except (Err × σ) (σ × α)) :
    outcome abs p = (abs (exec1 p).1, (exec1 p).2) := by
  cases p with
  | ok r => rfl
  | error r => rfl

/-- `outState` of the glue theorems is the state component of `exec1` -/
theorem outState_exec1 {σ : Type} (p : Except (Err × σ) (σ × α)) : outState p = (exec1 p).1 := by
  cases p with
  | ok r => rfl
  | error r => rfl

variable [DecidableEq τ]

/-! ## The two exits of a setter that do not enter its loop -/

/-- a temporal setter given a value its validation refuses: `ValueError`, the object as it was -/
theorem setterPattern_refused (C : Ctx τ) (o : Obj τ) (ok : τ → Bool) (v cur : τ) (names : List String)
    (op : τ → Record.Op τ) (store : Obj τ → τ → Obj τ) (h : ok v = false) :
    setterPattern C o (if ok v then .ok v else .error .ValueError) cur names op store = .error (.ValueError, o) := by
  simp [setterPattern, h, raising, bind, Except.bind]

/-- a temporal setter given the value already stored: returns, the object as it was -/
theorem setterPattern_same (C : Ctx τ) (o : Obj τ) (ok : τ → Bool) (v cur : τ) (names : List String)
    (op : τ → Record.Op τ) (store : Obj τ → τ → Obj τ) (h : ok v = true) (he : v = cur) :
    setterPattern C o (if ok v then .ok v else .error .ValueError) cur names op store = .ok (o, ()) := by
  subst he; simp [setterPattern, h, raising, bind, Except.bind, pure, Except.pure]

/-- the `batchsz` setter given a non-positive value: `ValueError`, the object as it was -/
theorem set_batchsz_refused (C : Ctx τ) (o : Obj τ) (v : Int) (h : v ≤ 0) :
    BatchMixin_set_batchsz C o v = .error (.ValueError, o) := by
  rw [set_batchsz_shape]
  have : ¬ 0 < v := by omega
  simp [argtest_gt_int, this, raising, bind, Except.bind]

/-- the `batchsz` setter given the batch size already stored: returns, the object as it was -/
theorem set_batchsz_same (C : Ctx τ) (o : Obj τ) (v : Int) (h : 0 < v) (he : v = o.BatchMixin__batch_size) :
    BatchMixin_set_batchsz C o v = .ok (o, ()) := by
  rw [set_batchsz_shape]
  rw [he] at h; simp [argtest_gt_int, h, he, raising, bind, Except.bind, pure, Except.pure]

/-! ## The per-method glue theorems with acceptance demanded only where the loop is entered -/

/-- `DelayedMixin.dt.setter` seen from the whole synapse (`delayed_set_dt_synapse` of the glue file), the acceptance
hypothesis only for a valid value different from the stored one -/
theorem delayed_set_dt_synapse_w (C : Ctx τ) (dtype : Config.DType) (o : Obj τ) (hwf : SynWF o) (v : τ)
    (hacc : C.T.pos v = true → v ≠ o.DelayedMixin__step_time →
      RecsAccept C.T o.attrs o.DelayedMixin__constrained (.setDt v)) :
    outcome (toSyn dtype) (DelayedMixin_set_dt C o v) = (toSyn dtype o).step C.T (.setDt v) ∧
    SynWF (outState (DelayedMixin_set_dt C o v)) := by
  by_cases hv : C.T.pos v = true
  · by_cases he : v = o.DelayedMixin__step_time
    · rw [delayed_set_dt_shape, setterPattern_same C o C.T.pos v _ _ _ _ hv he]
      subst he
      simp [outcome, outState, toSyn, Config.Synapse.step, DelayM.setDt, hv, toDelayM, hwf]
    · exact delayed_set_dt_synapse C dtype o hwf v (hacc hv he)
  · simp only [Bool.not_eq_true] at hv
    rw [delayed_set_dt_shape, setterPattern_refused C o C.T.pos v _ _ _ _ hv]
    simp [outcome, outState, toSyn, Config.Synapse.step, DelayM.setDt, hv, hwf]

/-- `DelayedMixin.delay.setter` seen from the whole synapse, acceptance only where the loop is entered -/
theorem delayed_set_delay_synapse_w (C : Ctx τ) (dtype : Config.DType) (o : Obj τ) (hwf : SynWF o) (v : τ)
    (hacc : C.T.nonneg v = true → v ≠ o.DelayedMixin__delay →
      RecsAccept C.T o.attrs o.DelayedMixin__constrained (.setDur v)) :
    outcome (toSyn dtype) (DelayedMixin_set_delay C o v) = (toSyn dtype o).step C.T (.setDelay v) ∧
    SynWF (outState (DelayedMixin_set_delay C o v)) := by
  by_cases hv : C.T.nonneg v = true
  · by_cases he : v = o.DelayedMixin__delay
    · rw [delayed_set_delay_shape, setterPattern_same C o C.T.nonneg v _ _ _ _ hv he]
      subst he
      simp [outcome, outState, toSyn, Config.Synapse.step, DelayM.setDelay, hv, toDelayM, hwf]
    · exact delayed_set_delay_synapse C dtype o hwf v (hacc hv he)
  · simp only [Bool.not_eq_true] at hv
    rw [delayed_set_delay_shape, setterPattern_refused C o C.T.nonneg v _ _ _ _ hv]
    simp [outcome, outState, toSyn, Config.Synapse.step, DelayM.setDelay, hv, hwf]

/-- `BatchMixin.batchsz.setter` seen from the whole synapse (`gen_synapse_set_batchsz`), acceptance only where the
loop is entered -/
theorem synapse_set_batchsz_w (C : Ctx τ) (dtype : Config.DType) (o : Obj τ) (hwf : SynWF o) (v : Int)
    (hacc : 0 < v → v ≠ o.BatchMixin__batch_size → BatchAccept C.T o v) :
    outcome (toSyn dtype) (BatchMixin_set_batchsz C o v) = (toSyn dtype o).step C.T (.setBatch v) ∧
    SynWF (outState (BatchMixin_set_batchsz C o v)) := by
  have hpos := hwf.2.1
  by_cases hv : 0 < v
  · by_cases he : v = o.BatchMixin__batch_size
    · have hv' : ¬ v ≤ 0 := by omega
      rw [set_batchsz_same C o v hv he]
      subst he
      simp [outcome, outState, toSyn, Config.Synapse.step, BatchM.set, hv', toBatchM, hwf]
    · exact gen_synapse_set_batchsz C dtype o hwf v (hacc hv he)
  · have hv' : v ≤ 0 := by omega
    rw [set_batchsz_refused C o v hv']
    simp [outcome, outState, toSyn, Config.Synapse.step, BatchM.set, hv', hwf]

/-- `BatchMixin.batchsz.setter` seen from the batch part alone (`gen_set_batchsz`, `set_batchsz_wf`), acceptance only
where the loop is entered -/
theorem set_batchsz_w (C : Ctx τ) (o : Obj τ) (hwf : BatchWF o) (v : Int)
    (hacc : 0 < v → v ≠ o.BatchMixin__batch_size → BatchAccept C.T o v) :
    outcome toBatchM (BatchMixin_set_batchsz C o v) = modelOutcome (toBatchM o) ((toBatchM o).set v) ∧
    BatchWF (outState (BatchMixin_set_batchsz C o v)) := by
  have hpos := hwf.1
  by_cases hv : 0 < v
  · by_cases he : v = o.BatchMixin__batch_size
    · have hp' : ¬ o.BatchMixin__batch_size ≤ 0 := by omega
      rw [set_batchsz_same C o v hv he]
      simp [BatchM.set, hp', he, toBatchM, outcome, modelOutcome, outState, hwf]
    · exact ⟨gen_set_batchsz C o hwf v (hacc hv he), set_batchsz_wf C o hwf v (hacc hv he)⟩
  · have hv' : v ≤ 0 := by omega
    rw [set_batchsz_refused C o v hv']
    simp [BatchM.set, hv', outcome, modelOutcome, outState, hwf]


/-- the body `<mixin setter>; self.clear()` of `InfernoSynapse.dt.setter` with the weak acceptance hypothesis -/
theorem synapse_set_dt_w (C : Ctx τ) (hc : ClearOK C) (dtype : Config.DType) (o : Obj τ) (hwf : SynWF o) (v : τ)
    (hacc : C.T.pos v = true → v ≠ o.DelayedMixin__step_time →
      RecsAccept C.T o.attrs o.DelayedMixin__constrained (.setDt v)) :
    outcome (toSyn dtype) (InfernoSynapse_set_dt C o v) = (toSyn dtype o).step C.T (.setDt v) ∧
    SynWF (outState (InfernoSynapse_set_dt C o v)) := by
  obtain ⟨a, b⟩ := delayed_set_dt_synapse_w C dtype o hwf v hacc
  obtain ⟨c, d, _⟩ := outcome_thenClear C hc (toSyn dtype) (toSyn_views dtype) (DelayedMixin_set_dt C o v)
  exact ⟨c.trans a, d b⟩

/-- the body of `InfernoSynapse.delay.setter` with the weak acceptance hypothesis -/
theorem synapse_set_delay_w (C : Ctx τ) (hc : ClearOK C) (dtype : Config.DType) (o : Obj τ) (hwf : SynWF o) (v : τ)
    (hacc : C.T.nonneg v = true → v ≠ o.DelayedMixin__delay →
      RecsAccept C.T o.attrs o.DelayedMixin__constrained (.setDur v)) :
    outcome (toSyn dtype) (InfernoSynapse_set_delay C o v) = (toSyn dtype o).step C.T (.setDelay v) ∧
    SynWF (outState (InfernoSynapse_set_delay C o v)) := by
  obtain ⟨a, b⟩ := delayed_set_delay_synapse_w C dtype o hwf v hacc
  obtain ⟨c, d, _⟩ := outcome_thenClear C hc (toSyn dtype) (toSyn_views dtype) (DelayedMixin_set_delay C o v)
  exact ⟨c.trans a, d b⟩

/-! ## Synapses -/

/-- generated state of a synapse between operations: the module object and the dtype `module.to` last set (a tag: no
translated method reads or writes it) -/
structure GSyn (τ : Type) where
  obj   : Obj τ
  dtype : Config.DType

namespace Syn

/-- abstraction: generated state → `Config.Synapse` (`toSyn` of the glue file) -/
def abs (g : GSyn τ) : Config.Synapse τ := toSyn g.dtype g.obj

/-- well-formedness: the hypothesis `SynWF` of the glue theorems -/
def GWF (g : GSyn τ) : Prop := SynWF g.obj

/-- put the object a regenerated method left back next to the dtype tag -/
def onObj (g : GSyn τ) (r : Obj τ × Config.Out) : GSyn τ × Config.Out := (⟨r.1, g.dtype⟩, r.2)

/-- dispatch of `COp` to the regenerated setter it names (MIXED RUN: `setDtype` is the model's — the tag is replaced) -/
def genExec (C : Ctx τ) (g : GSyn τ) : COp τ → GSyn τ × Config.Out
  | .setDt v => onObj g (exec1 (InfernoSynapse_set_dt C g.obj v))
  | .setDelay v => onObj g (exec1 (InfernoSynapse_set_delay C g.obj v))
  | .setBatch v => onObj g (exec1 (BatchMixin_set_batchsz C g.obj v))
  | .setInplace b => onObj g (exec1 (InfernoSynapse_set_inplace C g.obj b))
  | .setDtype d => (⟨g.obj, d⟩, .unit)
  | .setDuration _ => (g, .unsupported)
  | .setSynapse _ => (g, .unsupported)

/-- the domain, evaluated at the current state: where a setter enters its loop, every registered tensor accepts the
new value; no `duration` / `synapse` property on a synapse -/
def Sup (C : Ctx τ) (g : GSyn τ) : COp τ → Prop
  | .setDt v => C.T.pos v = true → v ≠ g.obj.DelayedMixin__step_time →
      RecsAccept C.T g.obj.attrs g.obj.DelayedMixin__constrained (.setDt v)
  | .setDelay v => C.T.nonneg v = true → v ≠ g.obj.DelayedMixin__delay →
      RecsAccept C.T g.obj.attrs g.obj.DelayedMixin__constrained (.setDur v)
  | .setBatch v => 0 < v → v ≠ g.obj.BatchMixin__batch_size → BatchAccept C.T g.obj v
  | .setInplace _ => True
  | .setDtype _ => True
  | .setDuration _ => False
  | .setSynapse _ => False

/-- one dispatched operation, abstracted, is one step of `Config.Synapse.step`, and well-formedness is kept -/
theorem gen_step (C : Ctx τ) (hc : ClearOK C) (g : GSyn τ) (h : GWF g) (op : COp τ) (hs : Sup C g op) :
    (abs (genExec C g op).1, (genExec C g op).2) = (abs g).step C.T op ∧ GWF (genExec C g op).1 := by
  cases op with
  | setDt v =>
    obtain ⟨a, b⟩ := synapse_set_dt_w C hc g.dtype g.obj h v hs
    rw [outcome_exec1] at a; rw [outState_exec1] at b
    exact ⟨a, b⟩
  | setDelay v =>
    obtain ⟨a, b⟩ := synapse_set_delay_w C hc g.dtype g.obj h v hs
    rw [outcome_exec1] at a; rw [outState_exec1] at b
    exact ⟨a, b⟩
  | setBatch v =>
    obtain ⟨a, b⟩ := synapse_set_batchsz_w C g.dtype g.obj h v hs
    rw [outcome_exec1] at a; rw [outState_exec1] at b
    exact ⟨a, b⟩
  | setInplace b =>
    have a := gen_synapse_set_inplace C g.dtype g.obj b
    rw [outcome_exec1] at a
    exact ⟨a, h⟩
  | setDtype d => exact ⟨rfl, h⟩
  | setDuration v => exact hs.elim
  | setSynapse c => exact hs.elim

end Syn


/-! ## Neurons -/

/-- the body `<mixin setter>; self.clear()` of `InfernoNeuron.batchsz.setter` (`gen_neuron_set_batchsz`) with the weak
acceptance hypothesis -/
theorem neuron_set_batchsz_w (C : Ctx τ) (hc : ClearOK C) (dt : τ) (dtype : Config.DType) (o : Obj τ)
    (hwf : BatchWF o) (v : Int) (hacc : 0 < v → v ≠ o.BatchMixin__batch_size → BatchAccept C.T o v) :
    outcome (toNeu dt dtype) (InfernoNeuron_set_batchsz C o v) = (toNeu dt dtype o).step C.T (.setBatch v) ∧
    BatchWF (outState (InfernoNeuron_set_batchsz C o v)) := by
  obtain ⟨a, w⟩ := set_batchsz_w C o hwf v hacc
  obtain ⟨c, _, d⟩ := outcome_thenClear C hc (toNeu dt dtype)
    (fun w w' _ h2 _ => by simp [toNeu, h2]) (BatchMixin_set_batchsz C o v)
  refine ⟨c.trans ?_, d w⟩
  simp only [Config.Neuron.step, toNeu]
  cases hp : BatchMixin_set_batchsz C o v with
  | ok r =>
    obtain ⟨s, u⟩ := r
    rw [hp] at a
    cases hm : (toBatchM o).set v with
    | ok b => rw [hm] at a; simp only [outcome, modelOutcome, Prod.mk.injEq] at a ⊢; simp [toNeu, a.1]
    | error e => rw [hm] at a; simp [outcome, modelOutcome] at a
  | error r =>
    obtain ⟨e, s⟩ := r
    rw [hp] at a
    cases hm : (toBatchM o).set v with
    | ok b => rw [hm] at a; simp [outcome, modelOutcome] at a
    | error e' => rw [hm] at a; simp only [outcome, modelOutcome, Prod.mk.injEq] at a ⊢; simp [toNeu, a.1, a.2]

/-- generated state of a neuron between operations: the module object, the step time (kept by the concrete neuron class:
its `dt` property is not among the translated methods) and the dtype tag -/
structure GNeu (τ : Type) where
  obj   : Obj τ
  dt    : τ
  dtype : Config.DType

namespace Neu

/-- abstraction: generated state → `Config.Neuron` (`toNeu` of the glue file) -/
def abs (g : GNeu τ) : Config.Neuron τ := toNeu g.dt g.dtype g.obj

/-- well-formedness: the hypothesis `BatchWF` of the glue theorem -/
def GWF (g : GNeu τ) : Prop := BatchWF g.obj

/-- dispatch of `COp` (MIXED RUN: `setDt` and `setDtype` are the model's — the clause of `Config.Neuron.step` on the two
tags; `setBatch` is the regenerated `InfernoNeuron.batchsz.setter`) -/
def genExec (C : Ctx τ) (g : GNeu τ) : COp τ → GNeu τ × Config.Out
  | .setDt v => if C.T.pos v = false then (g, .err .ValueError) else ({ g with dt := v }, .unit)
  | .setBatch v => (⟨(exec1 (InfernoNeuron_set_batchsz C g.obj v)).1, g.dt, g.dtype⟩,
      (exec1 (InfernoNeuron_set_batchsz C g.obj v)).2)
  | .setDtype d => ({ g with dtype := d }, .unit)
  | .setDelay _ => (g, .unsupported)
  | .setDuration _ => (g, .unsupported)
  | .setInplace _ => (g, .unsupported)
  | .setSynapse _ => (g, .unsupported)

/-- the domain, evaluated at the current state -/
def Sup (C : Ctx τ) (g : GNeu τ) : COp τ → Prop
  | .setDt _ => True
  | .setBatch v => 0 < v → v ≠ g.obj.BatchMixin__batch_size → BatchAccept C.T g.obj v
  | .setDtype _ => True
  | .setDelay _ => False
  | .setDuration _ => False
  | .setInplace _ => False
  | .setSynapse _ => False

/-- one dispatched operation, abstracted, is one step of `Config.Neuron.step`, and well-formedness is kept -/
theorem gen_step (C : Ctx τ) (hc : ClearOK C) (g : GNeu τ) (h : GWF g) (op : COp τ) (hs : Sup C g op) :
    (abs (genExec C g op).1, (genExec C g op).2) = (abs g).step C.T op ∧ GWF (genExec C g op).1 := by
  cases op with
  | setDt v =>
    refine ⟨?_, ?_⟩
    · simp only [genExec, Config.Neuron.step, abs, toNeu]; split <;> rfl
    · simp only [genExec]; split <;> exact h
  | setBatch v =>
    obtain ⟨a, b⟩ := neuron_set_batchsz_w C hc g.dt g.dtype g.obj h v hs
    rw [outcome_exec1] at a; rw [outState_exec1] at b
    exact ⟨a, b⟩
  | setDtype d => exact ⟨rfl, h⟩
  | setDelay v => exact hs.elim
  | setDuration v => exact hs.elim
  | setInplace b => exact hs.elim
  | setSynapse c => exact hs.elim

end Neu

/-! ## Reducers -/

/-- what `toRed` reads off a reducer object with one record -/
theorem toRed_fields (dtype : Config.DType) (o : Obj τ) (r : Config.Reducer τ) (h : toRed dtype o = some r) :
    r.dt = o.RecordReducer__step_time ∧ r.duration = o.RecordReducer__duration ∧
    r.incl = o.RecordReducer__inclusive ∧ r.inplace = o.RecordReducer__inplace ∧ r.dtype = dtype ∧
    redRecs o = [r.data] := by
  unfold toRed at h
  split at h
  · rename_i c hc
    simp only [Option.some.injEq] at h
    subst h
    exact ⟨rfl, rfl, rfl, rfl, rfl, hc⟩
  · cases h

/-- `module.to(dtype)` only changes the tag -/
theorem toRed_dtype (dtype d : Config.DType) (o : Obj τ) (r : Config.Reducer τ) (h : toRed dtype o = some r) :
    toRed d o = some { r with dtype := d } := by
  obtain ⟨h1, h2, h3, h4, h5, h6⟩ := toRed_fields dtype o r h
  obtain ⟨a, b, c, e, f, k⟩ := r
  simp only at h1 h2 h3 h4 h5 h6
  subst h1 h2 h3 h4 h5
  simp [toRed, h6]

/-- `outcomeRed` of the glue theorems in terms of `exec1` -/
theorem outcomeRed_exec1 (dtype : Config.DType) (p : Except (Err × Obj τ) (Obj τ × Unit)) :
    outcomeRed dtype p = (toRed dtype (exec1 p).1).map (·, (exec1 p).2) := by
  cases p with
  | ok r => rfl
  | error r => rfl

/-- reading a pair off `Option.map (·, b)` -/
theorem map_pair_some {A B : Type} (x : Option A) (b : B) (p : A × B) (h : x.map (·, b) = some p) :
    x = some p.1 ∧ b = p.2 := by
  cases x with
  | none => simp at h
  | some a => simp only [Option.map_some, Option.some.injEq] at h; subst h; exact ⟨rfl, rfl⟩

/-- `RecordReducer.dt.setter` (`gen_reducer_set_dt`) with the weak acceptance hypothesis -/
theorem reducer_set_dt_w (C : Ctx τ) (dtype : Config.DType) (o : Obj τ) (hwf : RedWF o) (v : τ)
    (hacc : C.T.pos v = true → v ≠ o.RecordReducer__step_time →
      RecsAccept C.T o.attrs o.RecordReducer__records (.setDt v)) (r : Config.Reducer τ)
    (hr : toRed dtype o = some r) :
    outcomeRed dtype (RecordReducer_set_dt C o v) = some (r.step C.T (.setDt v)) ∧
    RedWF (outState (RecordReducer_set_dt C o v)) := by
  obtain ⟨h1, -⟩ := toRed_fields dtype o r hr
  by_cases hv : C.T.pos v = true
  · by_cases he : v = o.RecordReducer__step_time
    · rw [reducer_set_dt_shape, setterPattern_same C o C.T.pos v _ _ _ _ hv he]
      have : v = r.dt := by rw [h1]; exact he
      subst this
      simp [outcomeRed, outState, hr, Config.Reducer.step, hv, hwf]
    · exact gen_reducer_set_dt C dtype o hwf v (hacc hv he) r hr
  · simp only [Bool.not_eq_true] at hv
    rw [reducer_set_dt_shape, setterPattern_refused C o C.T.pos v _ _ _ _ hv]
    simp [outcomeRed, outState, hr, Config.Reducer.step, hv, hwf]

/-- `RecordReducer.duration.setter` (`gen_reducer_set_duration`) with the weak acceptance hypothesis -/
theorem reducer_set_duration_w (C : Ctx τ) (dtype : Config.DType) (o : Obj τ) (hwf : RedWF o) (v : τ)
    (hacc : C.T.pos v = true → v ≠ o.RecordReducer__duration →
      RecsAccept C.T o.attrs o.RecordReducer__records (.setDur v)) (r : Config.Reducer τ)
    (hr : toRed dtype o = some r) :
    outcomeRed dtype (RecordReducer_set_duration C o v) = some (r.step C.T (.setDuration v)) ∧
    RedWF (outState (RecordReducer_set_duration C o v)) := by
  obtain ⟨-, h2, -⟩ := toRed_fields dtype o r hr
  by_cases hv : C.T.pos v = true
  · by_cases he : v = o.RecordReducer__duration
    · rw [reducer_set_duration_shape, setterPattern_same C o C.T.pos v _ _ _ _ hv he]
      have : v = r.duration := by rw [h2]; exact he
      subst this
      simp [outcomeRed, outState, hr, Config.Reducer.step, hv, hwf]
    · exact gen_reducer_set_duration C dtype o hwf v (hacc hv he) r hr
  · simp only [Bool.not_eq_true] at hv
    rw [reducer_set_duration_shape, setterPattern_refused C o C.T.pos v _ _ _ _ hv]
    simp [outcomeRed, outState, hr, Config.Reducer.step, hv, hwf]

/-- generated state of a reducer between operations: the module object and the dtype tag -/
structure GRed (τ : Type) where
  obj   : Obj τ
  dtype : Config.DType

namespace Red

/-- abstraction: generated state → `Config.Reducer` (`toRed` of the glue file: defined for a reducer with exactly one
record, as `Config.Reducer` is) -/
def abs (g : GRed τ) : Option (Config.Reducer τ) := toRed g.dtype g.obj

/-- well-formedness: the hypothesis `RedWF` of the glue theorems -/
def GWF (g : GRed τ) : Prop := RedWF g.obj

/-- dispatch of `COp` to the regenerated setter it names (MIXED RUN: `setDtype` is the model's — the tag is replaced) -/
def genExec (C : Ctx τ) (g : GRed τ) : COp τ → GRed τ × Config.Out
  | .setDt v => (⟨(exec1 (RecordReducer_set_dt C g.obj v)).1, g.dtype⟩, (exec1 (RecordReducer_set_dt C g.obj v)).2)
  | .setDuration v =>
    (⟨(exec1 (RecordReducer_set_duration C g.obj v)).1, g.dtype⟩, (exec1 (RecordReducer_set_duration C g.obj v)).2)
  | .setInplace b =>
    (⟨(exec1 (RecordReducer_set_inplace C g.obj b)).1, g.dtype⟩, (exec1 (RecordReducer_set_inplace C g.obj b)).2)
  | .setDtype d => (⟨g.obj, d⟩, .unit)
  | .setDelay _ => (g, .unsupported)
  | .setBatch _ => (g, .unsupported)
  | .setSynapse _ => (g, .unsupported)

/-- the domain, evaluated at the current state -/
def Sup (C : Ctx τ) (g : GRed τ) : COp τ → Prop
  | .setDt v => C.T.pos v = true → v ≠ g.obj.RecordReducer__step_time →
      RecsAccept C.T g.obj.attrs g.obj.RecordReducer__records (.setDt v)
  | .setDuration v => C.T.pos v = true → v ≠ g.obj.RecordReducer__duration →
      RecsAccept C.T g.obj.attrs g.obj.RecordReducer__records (.setDur v)
  | .setInplace _ => True
  | .setDtype _ => True
  | .setDelay _ => False
  | .setBatch _ => False
  | .setSynapse _ => False

/-- one dispatched operation, abstracted, is one step of `Config.Reducer.step`, and well-formedness is kept -/
theorem gen_step (C : Ctx τ) (g : GRed τ) (r : Config.Reducer τ) (op : COp τ) (h : GWF g) (ha : abs g = some r)
    (hs : Sup C g op) :
    abs (genExec C g op).1 = some (r.step C.T op).1 ∧ (genExec C g op).2 = (r.step C.T op).2 ∧
      GWF (genExec C g op).1 := by
  cases op with
  | setDt v =>
    obtain ⟨a, b⟩ := reducer_set_dt_w C g.dtype g.obj h v hs r ha
    rw [outcomeRed_exec1] at a; rw [outState_exec1] at b
    obtain ⟨a1, a2⟩ := map_pair_some _ _ _ a
    exact ⟨a1, a2, b⟩
  | setDuration v =>
    obtain ⟨a, b⟩ := reducer_set_duration_w C g.dtype g.obj h v hs r ha
    rw [outcomeRed_exec1] at a; rw [outState_exec1] at b
    obtain ⟨a1, a2⟩ := map_pair_some _ _ _ a
    exact ⟨a1, a2, b⟩
  | setInplace b =>
    have a := gen_reducer_set_inplace C g.dtype g.obj b r ha
    rw [outcomeRed_exec1] at a
    obtain ⟨a1, a2⟩ := map_pair_some _ _ _ a
    exact ⟨a1, a2, h⟩
  | setDtype d => exact ⟨toRed_dtype g.dtype d g.obj r ha, rfl, h⟩
  | setDelay v => exact hs.elim
  | setBatch v => exact hs.elim
  | setSynapse c => exact hs.elim

end Red


/-! ## Connections -/

/-- `connection.synapse.<property> = value`: the expression `connection.synapse` is the regenerated getter
`Connection_synapse`, the assignment `m` a regenerated setter of the synapse, composed by the prelude's `moduleCall`
exactly as the generated `Connection.dt.setter` / `Connection.batchsz.setter` compose them (`conn_set_dt_via`,
`conn_set_batchsz_via`: by `rfl`) -/
def viaSynapse (C : Ctx τ) (w : ConnW τ) (m : Obj τ → Except (Err × Obj τ) (Obj τ × Unit)) :
    Except (Err × ConnW τ) (ConnW τ × Unit) := do
  let self := (← moduleCall w (← Connection_synapse C w).2 m).1
  pure (self, ())

/-- the generated `Connection.dt.setter` IS `self.synapse.dt = value` -/
theorem conn_set_dt_via (C : Ctx τ) (w : ConnW τ) (v : τ) :
    Connection_set_dt C w v = viaSynapse C w (fun m_ => InfernoSynapse_set_dt C m_ v) := rfl

/-- the generated `Connection.batchsz.setter` IS `self.synapse.batchsz = value` (`BatchMixin`'s along the MRO) -/
theorem conn_set_batchsz_via (C : Ctx τ) (w : ConnW τ) (v : Int) :
    Connection_set_batchsz C w v = viaSynapse C w (fun m_ => BatchMixin_set_batchsz C m_ v) := rfl

/-- a setter of the synapse run through the connection: the connection afterwards holds the synapse object the setter
left (returning or raising), everything else as before, and the output is the setter's -/
theorem viaSynapse_exec (C : Ctx τ) (dtype : Config.DType) (w : ConnW τ) (s : Obj τ)
    (hs : w.modules.lookup "synapse_" = some s) (m : Obj τ → Except (Err × Obj τ) (Obj τ × Unit)) :
    toConn dtype (exec1 (viaSynapse C w m)).1 = some ⟨toSyn dtype (exec1 (m s)).1, w.delay_present⟩ ∧
    (exec1 (viaSynapse C w m)).2 = (exec1 (m s)).2 ∧
    (exec1 (viaSynapse C w m)).1.modules.lookup "synapse_" = some (exec1 (m s)).1 := by
  have hprog : viaSynapse C w m =
      (do let self := (← moduleCall w "synapse_" m).1; pure (self, ())) := by
    simp [viaSynapse, gen_connection_synapse C w s hs, bind, Except.bind, pure, Except.pure]
  rw [hprog]
  unfold moduleCall
  rw [hs]
  cases hm : m s with
  | ok r =>
    obtain ⟨s', a⟩ := r
    simp [hm, bind, Except.bind, pure, Except.pure, exec1, toConn, lookup_replace, hs]
  | error r =>
    obtain ⟨e, s'⟩ := r
    simp [hm, bind, Except.bind, pure, Except.pure, exec1, toConn, lookup_replace, hs]

/-- the operations a connection forwards to its synapse -/
def forwarded : COp τ → Bool
  | .setSynapse _ => false
  | .setDuration _ => false
  | _ => true

/-- `Config.Conn.step` on a forwarded operation is `Config.Synapse.step` on the synapse it holds -/
theorem conn_step_forwarded (T : TimeOps τ) (c : Config.Conn τ) (op : COp τ) (hf : forwarded op = true) :
    c.step T op = (⟨(c.syn.step T op).1, c.hasDelay⟩, (c.syn.step T op).2) := by
  cases op with
  | setSynapse cfg => simp [forwarded] at hf
  | setDuration v => simp [forwarded] at hf
  | setDt v => rfl
  | setDelay v => rfl
  | setBatch v => rfl
  | setInplace b => rfl
  | setDtype d => rfl

/-- what `toConn` reads off a connection holding the synapse `s` -/
theorem toConn_of (dtype : Config.DType) (w : ConnW τ) (s : Obj τ) (hs : w.modules.lookup "synapse_" = some s) :
    toConn dtype w = some ⟨toSyn dtype s, w.delay_present⟩ := by
  simp [toConn, hs]

/-- a forwarded setter: if the setter `m` run on the synapse is the synapse's step for `op` and leaves it well formed,
then `m` run through the connection is the connection's step for `op` -/
theorem via_step (C : Ctx τ) (dtype : Config.DType) (w : ConnW τ) (s : Obj τ)
    (hs : w.modules.lookup "synapse_" = some s) (m : Obj τ → Except (Err × Obj τ) (Obj τ × Unit)) (op : COp τ)
    (c : Config.Conn τ) (ha : toConn dtype w = some c) (hf : forwarded op = true)
    (hm : (toSyn dtype (exec1 (m s)).1, (exec1 (m s)).2) = (toSyn dtype s).step C.T op)
    (hw : SynWF (exec1 (m s)).1) :
    toConn dtype (exec1 (viaSynapse C w m)).1 = some (c.step C.T op).1 ∧
    (exec1 (viaSynapse C w m)).2 = (c.step C.T op).2 ∧
    ∃ s', (exec1 (viaSynapse C w m)).1.modules.lookup "synapse_" = some s' ∧ SynWF s' := by
  obtain ⟨e1, e2, e3⟩ := viaSynapse_exec C dtype w s hs m
  rw [toConn_of dtype w s hs, Option.some.injEq] at ha
  subst ha
  rw [conn_step_forwarded C.T _ op hf]
  simp only
  rw [← hm]
  exact ⟨e1, e2, _, e3, hw⟩

/-- generated state of a connection between operations: the connection object (its `_modules`) and the dtype tag of the
synapse it holds -/
structure GCon (τ : Type) where
  conn  : ConnW τ
  dtype : Config.DType

namespace Con

/-- abstraction: generated state → `Config.Conn` (`toConn` of the glue file: defined when a submodule is registered as
`synapse_`) -/
def abs (g : GCon τ) : Option (Config.Conn τ) := toConn g.dtype g.conn

/-- well-formedness: a submodule is registered as `synapse_` and satisfies the hypothesis `SynWF` of the glue theorems -/
def GWF (g : GCon τ) : Prop := ∃ s, g.conn.modules.lookup "synapse_" = some s ∧ SynWF s

/-- put the connection a regenerated method left back next to the dtype tag -/
def onConn (g : GCon τ) (r : ConnW τ × Config.Out) : GCon τ × Config.Out := (⟨r.1, g.dtype⟩, r.2)

/-- dispatch of `COp` to the regenerated method it names.  MIXED RUN: `setDtype` is the model's (the tag is replaced);
the synapse object assigned by `setSynapse cfg` is `mk cfg` (the constructors of the concrete synapse classes are not
translated), its dtype becomes the tag; `setDelay` / `setInplace` are `connection.synapse.delay = v` /
`connection.synapse.inplace = b` (`viaSynapse`) -/
def genExec (C : Ctx τ) (mk : Config.SynCfg τ → Obj τ) (g : GCon τ) : COp τ → GCon τ × Config.Out
  | .setDt v => onConn g (exec1 (Connection_set_dt C g.conn v))
  | .setBatch v => onConn g (exec1 (Connection_set_batchsz C g.conn v))
  | .setDelay v => onConn g (exec1 (viaSynapse C g.conn (fun m_ => InfernoSynapse_set_delay C m_ v)))
  | .setInplace b => onConn g (exec1 (viaSynapse C g.conn (fun m_ => InfernoSynapse_set_inplace C m_ b)))
  | .setDtype d => (⟨g.conn, d⟩, .unit)
  | .setSynapse cfg =>
    (⟨(exec1 (Connection_set_synapse C g.conn (mk cfg))).1, cfg.dtype⟩,
      (exec1 (Connection_set_synapse C g.conn (mk cfg))).2)
  | .setDuration _ => (g, .unsupported)

/-- the domain, evaluated at the current state: a forwarded operation is in the domain of the synapse the connection
holds; the object `mk cfg` assigned by `setSynapse cfg` is a well-formed synapse whose configuration view is what the
constructor builds for `cfg`; no `duration` on a connection -/
def Sup (C : Ctx τ) (mk : Config.SynCfg τ → Obj τ) (g : GCon τ) : COp τ → Prop
  | .setSynapse cfg => toSyn cfg.dtype (mk cfg) = Config.Synapse.construct C.T cfg ∧ SynWF (mk cfg)
  | .setDuration _ => False
  | op => ∀ s, g.conn.modules.lookup "synapse_" = some s → Syn.Sup C ⟨s, g.dtype⟩ op

/-- one dispatched operation, abstracted, is one step of `Config.Conn.step`, and well-formedness is kept -/
theorem gen_step (C : Ctx τ) (hc : ClearOK C) (mk : Config.SynCfg τ → Obj τ) (g : GCon τ) (c : Config.Conn τ)
    (op : COp τ) (h : GWF g) (ha : abs g = some c) (hs : Sup C mk g op) :
    abs (genExec C mk g op).1 = some (c.step C.T op).1 ∧ (genExec C mk g op).2 = (c.step C.T op).2 ∧
      GWF (genExec C mk g op).1 := by
  obtain ⟨s, hl, hw⟩ := h
  cases op with
  | setDt v =>
    obtain ⟨a, b⟩ := Syn.gen_step C hc ⟨s, g.dtype⟩ hw (.setDt v) (hs s hl)
    simp only [genExec, conn_set_dt_via]
    exact via_step C g.dtype g.conn s hl _ (.setDt v) c ha rfl a b
  | setBatch v =>
    obtain ⟨a, b⟩ := Syn.gen_step C hc ⟨s, g.dtype⟩ hw (.setBatch v) (hs s hl)
    simp only [genExec, conn_set_batchsz_via]
    exact via_step C g.dtype g.conn s hl _ (.setBatch v) c ha rfl a b
  | setDelay v =>
    obtain ⟨a, b⟩ := Syn.gen_step C hc ⟨s, g.dtype⟩ hw (.setDelay v) (hs s hl)
    exact via_step C g.dtype g.conn s hl _ (.setDelay v) c ha rfl a b
  | setInplace b' =>
    obtain ⟨a, b⟩ := Syn.gen_step C hc ⟨s, g.dtype⟩ hw (.setInplace b') (hs s hl)
    exact via_step C g.dtype g.conn s hl _ (.setInplace b') c ha rfl a b
  | setDtype d =>
    have ha' : toConn g.dtype g.conn = some c := ha
    rw [toConn_of g.dtype g.conn s hl, Option.some.injEq] at ha'
    subst ha'
    exact ⟨toConn_of d g.conn s hl, rfl, s, hl, hw⟩
  | setSynapse cfg =>
    obtain ⟨hcfg, hwf⟩ := hs
    have ha' : toConn g.dtype g.conn = some c := ha
    rw [toConn_of g.dtype g.conn s hl, Option.some.injEq] at ha'
    subst ha'
    obtain ⟨w', e1, e2, e3, e4⟩ := gen_connection_set_synapse_any C cfg.dtype g.conn (mk cfg)
    simp only [genExec, e1, exec1, abs, Config.Conn.step]
    exact ⟨by rw [e4, hcfg], trivial, mk cfg, e2, hwf⟩
  | setDuration v => exact hs.elim

end Con


/-! ## Operation sequences: synapses -/

namespace Syn

/-- one dispatched operation of the regenerated programs, abstracted, is one step of the hand-written machine (the
`gen_synapse_set_*` glue theorems collected over the operation alphabet) -/
theorem gen_step_eq (C : Ctx τ) (hc : ClearOK C) (g : GSyn τ) (h : GWF g) (op : COp τ) (hs : Sup C g op) :
    (abs (genExec C g op).1, (genExec C g op).2) = (abs g).step C.T op := (gen_step C hc g h op hs).1

/-- the regenerated programs PRESERVE the well-formedness hypothesis of the glue theorems (returning or raising) -/
theorem gen_step_wf (C : Ctx τ) (hc : ClearOK C) (g : GSyn τ) (h : GWF g) (op : COp τ) (hs : Sup C g op) :
    GWF (genExec C g op).1 := (gen_step C hc g h op hs).2

/-- frame, on the regenerated programs: one assignment leaves every other reported attribute as it was -/
theorem gen_step_frame (C : Ctx τ) (hc : ClearOK C) (g : GSyn τ) (h : GWF g) (op : COp τ) (hs : Sup C g op) :
    Config.Report.sameExcept op.attr (abs g).report (abs (genExec C g op).1).report := by
  have e := gen_step_eq C hc g h op hs
  have f := Config.synapse_setter_frame C.T (abs g) op
  rw [← e] at f
  exact f

/-- fold of `genExec` over an operation list, collecting the outputs -/
def genRun (C : Ctx τ) : GSyn τ → List (COp τ) → GSyn τ × List Config.Out := runOf (genExec C)

/-- `Sup` along a run: every operation is supported at the state the regenerated programs have reached -/
def SupRun (C : Ctx τ) : GSyn τ → List (COp τ) → Prop := supRunOf (genExec C) (Sup C)

/-- for every operation list supported along the run — refused values and re-assignments of the stored value
included — the regenerated programs and the hand-written machine produce the same abstract final state and the same
outputs, and the final object is well formed -/
theorem gen_run_eq (C : Ctx τ) (hc : ClearOK C) (ops : List (COp τ)) (g : GSyn τ) (h : GWF g)
    (hs : SupRun C g ops) :
    (abs (genRun C g ops).1, (genRun C g ops).2) = runOf (fun s op => s.step C.T op) (abs g) ops ∧
      GWF (genRun C g ops).1 := by
  obtain ⟨a, b, c⟩ := run_lift (fun g => some (abs g)) (genExec C) (fun s op => s.step C.T op) GWF (Sup C)
    (fun g m op hw ha hsup => by
      simp only [Option.some.injEq] at ha
      subst ha
      obtain ⟨e, w⟩ := gen_step C hc g hw op hsup
      exact ⟨congrArg some (congrArg Prod.fst e), congrArg Prod.snd e, w⟩) ops g (abs g) h rfl hs
  simp only [Option.some.injEq] at a
  exact ⟨Prod.ext a b, c⟩

/-- CAPSTONE (synapses): for EVERY finite sequence of valid setter calls supported along the run, started on a
well-formed object whose configuration view is what the constructor builds for `c`, the regenerated setters return every
time and leave an object whose configuration view — reported values, every record's dt / duration / inclusive /
`recordsz`, every batch dimension — is what the constructor builds for the configuration last assigned; the object ends
well formed -/
theorem gen_run_refines (C : Ctx τ) (hc : ClearOK C) (ops : List (COp τ)) (g : GSyn τ) (c : Config.SynCfg τ)
    (h : GWF g) (h0 : abs g = Config.Synapse.construct C.T c)
    (hv : ∀ op ∈ ops, Config.SynCfg.validOp C.T op = true) (hs : SupRun C g ops) :
    abs (genRun C g ops).1 = Config.Synapse.construct C.T (ops.foldl Config.SynCfg.assign c) ∧
    (genRun C g ops).2 = ops.map (fun _ => Config.Out.unit) ∧ GWF (genRun C g ops).1 := by
  obtain ⟨e, w⟩ := gen_run_eq C hc ops g h hs
  refine ⟨?_, ?_, w⟩
  · have := congrArg Prod.fst e
    simp only at this
    rw [this, runOf_fst, h0]
    exact Config.synapse_setters_reach_constructor C.T ops c hv
  · have := congrArg Prod.snd e
    simp only at this
    rw [this, h0]
    exact outs_unit _ (Config.Synapse.construct C.T) Config.SynCfg.assign (Config.SynCfg.validOp C.T)
      (fun c op hop => Config.synapse_setter_from_constructed C.T c op hop) ops c hv

/-- what the regenerated GETTERS return after such a run is the configuration last assigned -/
theorem gen_run_getters (C : Ctx τ) (hc : ClearOK C) (ops : List (COp τ)) (g : GSyn τ) (c : Config.SynCfg τ)
    (h : GWF g) (h0 : abs g = Config.Synapse.construct C.T c)
    (hv : ∀ op ∈ ops, Config.SynCfg.validOp C.T op = true) (hs : SupRun C g ops) :
    let o := (genRun C g ops).1.obj
    let c' := ops.foldl Config.SynCfg.assign c
    InfernoSynapse_dt C o = .ok (o, c'.dt) ∧ InfernoSynapse_delay C o = .ok (o, c'.delay) ∧
    (∃ b, BatchMixin_batchsz C o = .ok (o, b) ∧ b.toNat = c'.batch) ∧
    InfernoSynapse_inplace C o = .ok (o, c'.inplace) := by
  intro o c'
  have e := (gen_run_refines C hc ops g c h h0 hv hs).1
  have r := congrArg Config.Synapse.report e
  rw [Config.synapse_reports_config] at r
  simp only [abs, gen_synapse_report, Config.Report.mk.injEq, Option.some.injEq] at r
  obtain ⟨r1, r2, r3, -, r5, -⟩ := r
  refine ⟨?_, ?_, ⟨_, rfl, r3⟩, ?_⟩
  · rw [gen_synapse_dt]; exact congrArg (fun x => Except.ok (o, x)) r1
  · rw [gen_synapse_delay]; exact congrArg (fun x => Except.ok (o, x)) r2
  · rw [gen_synapse_inplace]; exact congrArg (fun x => Except.ok (o, x)) r5

end Syn

/-! ## Operation sequences: neurons -/

namespace Neu

/-- one dispatched operation, abstracted, is one step of the hand-written machine -/
theorem gen_step_eq (C : Ctx τ) (hc : ClearOK C) (g : GNeu τ) (h : GWF g) (op : COp τ) (hs : Sup C g op) :
    (abs (genExec C g op).1, (genExec C g op).2) = (abs g).step C.T op := (gen_step C hc g h op hs).1

/-- the regenerated program PRESERVES the well-formedness hypothesis of the glue theorem -/
theorem gen_step_wf (C : Ctx τ) (hc : ClearOK C) (g : GNeu τ) (h : GWF g) (op : COp τ) (hs : Sup C g op) :
    GWF (genExec C g op).1 := (gen_step C hc g h op hs).2

/-- frame, on the regenerated programs -/
theorem gen_step_frame (C : Ctx τ) (hc : ClearOK C) (g : GNeu τ) (h : GWF g) (op : COp τ) (hs : Sup C g op) :
    Config.Report.sameExcept op.attr (abs g).report (abs (genExec C g op).1).report := by
  have e := gen_step_eq C hc g h op hs
  have f := Config.neuron_setter_frame C.T (abs g) op
  rw [← e] at f
  exact f

/-- fold of `genExec` over an operation list, collecting the outputs -/
def genRun (C : Ctx τ) : GNeu τ → List (COp τ) → GNeu τ × List Config.Out := runOf (genExec C)

/-- `Sup` along a run -/
def SupRun (C : Ctx τ) : GNeu τ → List (COp τ) → Prop := supRunOf (genExec C) (Sup C)

/-- equality with the hand-written machine over every supported operation list -/
theorem gen_run_eq (C : Ctx τ) (hc : ClearOK C) (ops : List (COp τ)) (g : GNeu τ) (h : GWF g)
    (hs : SupRun C g ops) :
    (abs (genRun C g ops).1, (genRun C g ops).2) = runOf (fun s op => s.step C.T op) (abs g) ops ∧
      GWF (genRun C g ops).1 := by
  obtain ⟨a, b, c⟩ := run_lift (fun g => some (abs g)) (genExec C) (fun s op => s.step C.T op) GWF (Sup C)
    (fun g m op hw ha hsup => by
      simp only [Option.some.injEq] at ha
      subst ha
      obtain ⟨e, w⟩ := gen_step C hc g hw op hsup
      exact ⟨congrArg some (congrArg Prod.fst e), congrArg Prod.snd e, w⟩) ops g (abs g) h rfl hs
  simp only [Option.some.injEq] at a
  exact ⟨Prod.ext a b, c⟩

/-- CAPSTONE (neurons): every supported sequence of valid setter calls from a constructed neuron reaches what the
constructor builds for the configuration last assigned -/
theorem gen_run_refines (C : Ctx τ) (hc : ClearOK C) (ops : List (COp τ)) (g : GNeu τ) (c : Config.NeuCfg τ)
    (h : GWF g) (h0 : abs g = Config.Neuron.construct c)
    (hv : ∀ op ∈ ops, Config.NeuCfg.validOp C.T op = true) (hs : SupRun C g ops) :
    abs (genRun C g ops).1 = Config.Neuron.construct (ops.foldl Config.NeuCfg.assign c) ∧
    (genRun C g ops).2 = ops.map (fun _ => Config.Out.unit) ∧ GWF (genRun C g ops).1 := by
  obtain ⟨e, w⟩ := gen_run_eq C hc ops g h hs
  refine ⟨?_, ?_, w⟩
  · have := congrArg Prod.fst e
    simp only at this
    rw [this, runOf_fst, h0]
    exact Config.neuron_setters_reach_constructor C.T ops c hv
  · have := congrArg Prod.snd e
    simp only at this
    rw [this, h0]
    exact outs_unit _ Config.Neuron.construct Config.NeuCfg.assign (Config.NeuCfg.validOp C.T)
      (fun c op hop => Config.neuron_setter_from_constructed C.T c op hop) ops c hv

end Neu

/-! ## Operation sequences: reducers -/

namespace Red

/-- one dispatched operation, abstracted, is one step of the hand-written machine -/
theorem gen_step_eq (C : Ctx τ) (g : GRed τ) (r : Config.Reducer τ) (op : COp τ) (h : GWF g) (ha : abs g = some r)
    (hs : Sup C g op) :
    (abs (genExec C g op).1, (genExec C g op).2) = (some (r.step C.T op).1, (r.step C.T op).2) := by
  obtain ⟨a, b, -⟩ := gen_step C g r op h ha hs
  rw [a, b]

/-- the regenerated programs PRESERVE the well-formedness hypothesis of the glue theorems -/
theorem gen_step_wf (C : Ctx τ) (g : GRed τ) (r : Config.Reducer τ) (op : COp τ) (h : GWF g) (ha : abs g = some r)
    (hs : Sup C g op) : GWF (genExec C g op).1 := (gen_step C g r op h ha hs).2.2

/-- frame, on the regenerated programs -/
theorem gen_step_frame (C : Ctx τ) (g : GRed τ) (r : Config.Reducer τ) (op : COp τ) (h : GWF g) (ha : abs g = some r)
    (hs : Sup C g op) :
    ∃ r', abs (genExec C g op).1 = some r' ∧ Config.Report.sameExcept op.attr r.report r'.report :=
  ⟨_, (gen_step C g r op h ha hs).1, Config.reducer_setter_frame C.T r op⟩

/-- fold of `genExec` over an operation list, collecting the outputs -/
def genRun (C : Ctx τ) : GRed τ → List (COp τ) → GRed τ × List Config.Out := runOf (genExec C)

/-- `Sup` along a run -/
def SupRun (C : Ctx τ) : GRed τ → List (COp τ) → Prop := supRunOf (genExec C) (Sup C)

/-- equality with the hand-written machine over every supported operation list -/
theorem gen_run_eq (C : Ctx τ) (ops : List (COp τ)) (g : GRed τ) (r : Config.Reducer τ) (h : GWF g)
    (ha : abs g = some r) (hs : SupRun C g ops) :
    abs (genRun C g ops).1 = some (runOf (fun s op => s.step C.T op) r ops).1 ∧
    (genRun C g ops).2 = (runOf (fun s op => s.step C.T op) r ops).2 ∧ GWF (genRun C g ops).1 :=
  run_lift abs (genExec C) (fun s op => s.step C.T op) GWF (Sup C)
    (fun g m op hw ha hsup => gen_step C g m op hw ha hsup) ops g r h ha hs

/-- CAPSTONE (reducers): every supported sequence of valid setter calls from a constructed reducer reaches what the
constructor builds for the configuration last assigned (in particular `duration` changes the duration and the record
size, not the step time: D6) -/
theorem gen_run_refines (C : Ctx τ) (ops : List (COp τ)) (g : GRed τ) (c : Config.RedCfg τ)
    (h : GWF g) (h0 : abs g = some (Config.Reducer.construct C.T c))
    (hv : ∀ op ∈ ops, Config.RedCfg.validOp C.T op = true) (hs : SupRun C g ops) :
    abs (genRun C g ops).1 = some (Config.Reducer.construct C.T (ops.foldl Config.RedCfg.assign c)) ∧
    (genRun C g ops).2 = ops.map (fun _ => Config.Out.unit) ∧ GWF (genRun C g ops).1 := by
  obtain ⟨e1, e2, w⟩ := gen_run_eq C ops g _ h h0 hs
  refine ⟨?_, ?_, w⟩
  · rw [e1, runOf_fst]
    exact congrArg some (Config.reducer_setters_reach_constructor C.T ops c hv)
  · rw [e2]
    exact outs_unit _ (Config.Reducer.construct C.T) Config.RedCfg.assign (Config.RedCfg.validOp C.T)
      (fun c op hop => Config.reducer_setter_from_constructed C.T c op hop) ops c hv

end Red

/-! ## Operation sequences: connections -/

namespace Con

/-- one dispatched operation, abstracted, is one step of the hand-written machine -/
theorem gen_step_eq (C : Ctx τ) (hc : ClearOK C) (mk : Config.SynCfg τ → Obj τ) (g : GCon τ) (c : Config.Conn τ)
    (op : COp τ) (h : GWF g) (ha : abs g = some c) (hs : Sup C mk g op) :
    (abs (genExec C mk g op).1, (genExec C mk g op).2) = (some (c.step C.T op).1, (c.step C.T op).2) := by
  obtain ⟨a, b, -⟩ := gen_step C hc mk g c op h ha hs
  rw [a, b]

/-- the regenerated programs PRESERVE the well-formedness hypothesis of the glue theorems -/
theorem gen_step_wf (C : Ctx τ) (hc : ClearOK C) (mk : Config.SynCfg τ → Obj τ) (g : GCon τ) (c : Config.Conn τ)
    (op : COp τ) (h : GWF g) (ha : abs g = some c) (hs : Sup C mk g op) : GWF (genExec C mk g op).1 :=
  (gen_step C hc mk g c op h ha hs).2.2

/-- frame, on the regenerated programs (replacing the synapse legitimately replaces every forwarded attribute) -/
theorem gen_step_frame (C : Ctx τ) (hc : ClearOK C) (mk : Config.SynCfg τ → Obj τ) (g : GCon τ) (c : Config.Conn τ)
    (op : COp τ) (h : GWF g) (ha : abs g = some c) (hs : Sup C mk g op) :
    ∃ c', abs (genExec C mk g op).1 = some c' ∧ Config.Report.sameExcept op.attr c.report c'.report :=
  ⟨_, (gen_step C hc mk g c op h ha hs).1, Config.conn_setter_frame C.T c op⟩

/-- fold of `genExec` over an operation list, collecting the outputs -/
def genRun (C : Ctx τ) (mk : Config.SynCfg τ → Obj τ) : GCon τ → List (COp τ) → GCon τ × List Config.Out :=
  runOf (genExec C mk)

/-- `Sup` along a run -/
def SupRun (C : Ctx τ) (mk : Config.SynCfg τ → Obj τ) : GCon τ → List (COp τ) → Prop :=
  supRunOf (genExec C mk) (Sup C mk)

/-- equality with the hand-written machine over every supported operation list -/
theorem gen_run_eq (C : Ctx τ) (hc : ClearOK C) (mk : Config.SynCfg τ → Obj τ) (ops : List (COp τ)) (g : GCon τ)
    (c : Config.Conn τ) (h : GWF g) (ha : abs g = some c) (hs : SupRun C mk g ops) :
    abs (genRun C mk g ops).1 = some (runOf (fun s op => s.step C.T op) c ops).1 ∧
    (genRun C mk g ops).2 = (runOf (fun s op => s.step C.T op) c ops).2 ∧ GWF (genRun C mk g ops).1 :=
  run_lift abs (genExec C mk) (fun s op => s.step C.T op) GWF (Sup C mk)
    (fun g m op hw ha hsup => gen_step C hc mk g m op hw ha hsup) ops g c h ha hs

/-- CAPSTONE (connections): every supported sequence of valid forwarded setter calls and synapse replacements from a
connection holding a constructed synapse reaches a connection holding what the constructor builds for the configuration
last assigned — in particular `connection.synapse = s` really installs `s` (D13) -/
theorem gen_run_refines (C : Ctx τ) (hc : ClearOK C) (mk : Config.SynCfg τ → Obj τ) (ops : List (COp τ))
    (g : GCon τ) (c : Config.SynCfg τ) (hd : Bool) (h : GWF g)
    (h0 : abs g = some (Config.Conn.mk (Config.Synapse.construct C.T c) hd))
    (hv : ∀ op ∈ ops, Config.connValidOp C.T op = true) (hs : SupRun C mk g ops) :
    abs (genRun C mk g ops).1 =
      some (Config.Conn.mk (Config.Synapse.construct C.T (ops.foldl Config.connAssign c)) hd) ∧
    (genRun C mk g ops).2 = ops.map (fun _ => Config.Out.unit) ∧ GWF (genRun C mk g ops).1 := by
  obtain ⟨e1, e2, w⟩ := gen_run_eq C hc mk ops g _ h h0 hs
  refine ⟨?_, ?_, w⟩
  · rw [e1, runOf_fst]
    exact congrArg some (Config.conn_setters_reach_constructor C.T ops c hd hv)
  · rw [e2]
    exact outs_unit _ (fun c => Config.Conn.mk (Config.Synapse.construct C.T c) hd) Config.connAssign
      (Config.connValidOp C.T) (fun c op hop => Config.conn_setter_from_constructed C.T c hd op hop) ops c hv

/-- what the regenerated GETTERS of the connection return after such a run is the configuration last assigned (the
synapse's delay as `delayedby` exactly when the connection has learnable delays) -/
theorem gen_run_getters (C : Ctx τ) (hc : ClearOK C) (mk : Config.SynCfg τ → Obj τ) (ops : List (COp τ))
    (g : GCon τ) (c : Config.SynCfg τ) (hd : Bool) (h : GWF g)
    (h0 : abs g = some (Config.Conn.mk (Config.Synapse.construct C.T c) hd))
    (hv : ∀ op ∈ ops, Config.connValidOp C.T op = true) (hs : SupRun C mk g ops) :
    let w := (genRun C mk g ops).1.conn
    let c' := ops.foldl Config.connAssign c
    Connection_dt C w = .ok (w, c'.dt) ∧
    Connection_delayedby C w = .ok (w, if hd then some c'.delay else none) ∧
    (∃ b, Connection_batchsz C w = .ok (w, b) ∧ b.toNat = c'.batch) := by
  intro w c'
  obtain ⟨e, -, s, hl, -⟩ := gen_run_refines C hc mk ops g c hd h h0 hv hs
  have e' : toConn (genRun C mk g ops).1.dtype w = some ⟨Config.Synapse.construct C.T c', hd⟩ := e
  rw [toConn_of _ w s hl, Option.some.injEq] at e'
  obtain ⟨r1, r2, b, r3, r4⟩ := gen_connection_report C (genRun C mk g ops).1.dtype w s hl
  rw [e', Config.conn_reports_config] at r1 r2 r4
  simp only [Option.some.injEq] at r4
  exact ⟨r1, r2, b, r3, r4.symm⟩

end Con

/-! ## The capstone, all component kinds together -/

/-- **CAPSTONE.**  The analogue of `Config.setters_reach_constructor` for the programs REGENERATED from /repo: for
synapses, neurons, reducers and connections, EVERY finite sequence of valid setter calls (supported along the run),
executed by the regenerated setter bodies on a well-formed object whose configuration view is what the constructor
builds, returns every time, ends on an object whose configuration view is what the constructor builds for the
configuration in which every attribute holds the value last assigned to it, and ends well formed. -/
theorem gen_run_refines (C : Ctx τ) (hc : ClearOK C) (mk : Config.SynCfg τ → Obj τ) :
    (∀ (ops : List (COp τ)) (g : GSyn τ) (c : Config.SynCfg τ), Syn.GWF g →
      Syn.abs g = Config.Synapse.construct C.T c → (∀ op ∈ ops, Config.SynCfg.validOp C.T op = true) →
      Syn.SupRun C g ops →
      Syn.abs (Syn.genRun C g ops).1 = Config.Synapse.construct C.T (ops.foldl Config.SynCfg.assign c) ∧
      (Syn.genRun C g ops).2 = ops.map (fun _ => Config.Out.unit) ∧ Syn.GWF (Syn.genRun C g ops).1) ∧
    (∀ (ops : List (COp τ)) (g : GNeu τ) (c : Config.NeuCfg τ), Neu.GWF g →
      Neu.abs g = Config.Neuron.construct c → (∀ op ∈ ops, Config.NeuCfg.validOp C.T op = true) →
      Neu.SupRun C g ops →
      Neu.abs (Neu.genRun C g ops).1 = Config.Neuron.construct (ops.foldl Config.NeuCfg.assign c) ∧
      (Neu.genRun C g ops).2 = ops.map (fun _ => Config.Out.unit) ∧ Neu.GWF (Neu.genRun C g ops).1) ∧
    (∀ (ops : List (COp τ)) (g : GRed τ) (c : Config.RedCfg τ), Red.GWF g →
      Red.abs g = some (Config.Reducer.construct C.T c) → (∀ op ∈ ops, Config.RedCfg.validOp C.T op = true) →
      Red.SupRun C g ops →
      Red.abs (Red.genRun C g ops).1 = some (Config.Reducer.construct C.T (ops.foldl Config.RedCfg.assign c)) ∧
      (Red.genRun C g ops).2 = ops.map (fun _ => Config.Out.unit) ∧ Red.GWF (Red.genRun C g ops).1) ∧
    (∀ (ops : List (COp τ)) (g : GCon τ) (c : Config.SynCfg τ) (hd : Bool), Con.GWF g →
      Con.abs g = some (Config.Conn.mk (Config.Synapse.construct C.T c) hd) →
      (∀ op ∈ ops, Config.connValidOp C.T op = true) → Con.SupRun C mk g ops →
      Con.abs (Con.genRun C mk g ops).1 =
        some (Config.Conn.mk (Config.Synapse.construct C.T (ops.foldl Config.connAssign c)) hd) ∧
      (Con.genRun C mk g ops).2 = ops.map (fun _ => Config.Out.unit) ∧ Con.GWF (Con.genRun C mk g ops).1) :=
  ⟨fun ops g c h h0 hv hs => Syn.gen_run_refines C hc ops g c h h0 hv hs,
   fun ops g c h h0 hv hs => Neu.gen_run_refines C hc ops g c h h0 hv hs,
   fun ops g c h h0 hv hs => Red.gen_run_refines C ops g c h h0 hv hs,
   fun ops g c hd h h0 hv hs => Con.gen_run_refines C hc mk ops g c hd h h0 hv hs⟩

/-! ## Executable form of the domain (for the examples) -/

/-- executable form of `RecsAccept` -/
def recsAcceptB (T : TimeOps τ) (attrs : List (String × Attr τ)) (names : List String) (op : Record.Op τ) : Bool :=
  names.all fun nm =>
    match attrs.lookup nm with
    | some (.record r) => decide ((Record.step T (RecordProg.toM r) op).2 = .unit)
    | _ => true

/-- the executable check implies `RecsAccept` -/
theorem recsAcceptB_sound (T : TimeOps τ) (attrs : List (String × Attr τ)) (names : List String) (op : Record.Op τ)
    (h : recsAcceptB T attrs names op = true) : RecsAccept T attrs names op := by
  intro nm hnm r hr
  have := List.all_eq_true.1 h nm hnm
  simpa [hr] using this

/-- executable form of `BatchAccept` -/
def batchAcceptB (T : TimeOps τ) (o : Obj τ) (v : Int) : Bool :=
  o.BatchMixin__constrained.all fun nm =>
    match o.attrs.lookup nm with
    | some (.record r) => decide ((Record.step T (RecordProg.toM r) (.recon 0 (some v))).2 = .unit)
    | some (.shaped s) => decide ((shStep s (.recon 0 (some v))).2 = .unit)
    | some .other => false
    | none => true

/-- the executable check implies `BatchAccept` -/
theorem batchAcceptB_sound (T : TimeOps τ) (o : Obj τ) (v : Int) (h : batchAcceptB T o v = true) :
    BatchAccept T o v := by
  intro nm hnm x hx
  have := List.all_eq_true.1 h nm hnm
  cases x with
  | record r => simpa [hx, reconOK] using this
  | shaped s => simpa [hx, reconOK] using this
  | other => simp [hx] at this

section Exec
variable {G O : Type}

/-- executable form of `supRunOf` -/
def supRunBOf (exec : G → O → G × Config.Out) (supB : G → O → Bool) (g : G) : List O → Bool
  | [] => true
  | op :: ops => supB g op && supRunBOf exec supB (exec g op).1 ops

/-- the executable check implies `supRunOf` -/
theorem supRunBOf_sound (exec : G → O → G × Config.Out) (supB : G → O → Bool) (Sup : G → O → Prop)
    (hsound : ∀ g op, supB g op = true → Sup g op) (ops : List O) (g : G)
    (h : supRunBOf exec supB g ops = true) : supRunOf exec Sup g ops := by
  induction ops generalizing g with
  | nil => trivial
  | cons op ops ih =>
    simp only [supRunBOf, Bool.and_eq_true] at h
    exact ⟨hsound g op h.1, ih _ h.2⟩

end Exec

/-- executable form of `Syn.Sup` -/
def Syn.supB (C : Ctx τ) (g : GSyn τ) : COp τ → Bool
  | .setDt v => !C.T.pos v || decide (v = g.obj.DelayedMixin__step_time) ||
      recsAcceptB C.T g.obj.attrs g.obj.DelayedMixin__constrained (.setDt v)
  | .setDelay v => !C.T.nonneg v || decide (v = g.obj.DelayedMixin__delay) ||
      recsAcceptB C.T g.obj.attrs g.obj.DelayedMixin__constrained (.setDur v)
  | .setBatch v => decide (v ≤ 0) || decide (v = g.obj.BatchMixin__batch_size) || batchAcceptB C.T g.obj v
  | .setInplace _ => true
  | .setDtype _ => true
  | .setDuration _ => false
  | .setSynapse _ => false

/-- the executable check implies `Syn.Sup` -/
theorem Syn.supB_sound (C : Ctx τ) (g : GSyn τ) (op : COp τ) (h : Syn.supB C g op = true) : Syn.Sup C g op := by
  cases op with
  | setDt v =>
    intro hv he
    simp only [Syn.supB, hv, he, Bool.not_true, decide_false, Bool.false_or] at h
    exact recsAcceptB_sound _ _ _ _ h
  | setDelay v =>
    intro hv he
    simp only [Syn.supB, hv, he, Bool.not_true, decide_false, Bool.false_or] at h
    exact recsAcceptB_sound _ _ _ _ h
  | setBatch v =>
    intro hv he
    have hv' : ¬ v ≤ 0 := by omega
    simp only [Syn.supB, hv', he, decide_false, Bool.false_or] at h
    exact batchAcceptB_sound _ _ _ h
  | setInplace b => trivial
  | setDtype d => trivial
  | setDuration v => simp [Syn.supB] at h
  | setSynapse c => simp [Syn.supB] at h

/-- executable form of `Neu.Sup` -/
def Neu.supB (C : Ctx τ) (g : GNeu τ) : COp τ → Bool
  | .setDt _ => true
  | .setBatch v => decide (v ≤ 0) || decide (v = g.obj.BatchMixin__batch_size) || batchAcceptB C.T g.obj v
  | .setDtype _ => true
  | _ => false

/-- the executable check implies `Neu.Sup` -/
theorem Neu.supB_sound (C : Ctx τ) (g : GNeu τ) (op : COp τ) (h : Neu.supB C g op = true) : Neu.Sup C g op := by
  cases op with
  | setDt v => trivial
  | setBatch v =>
    intro hv he
    have hv' : ¬ v ≤ 0 := by omega
    simp only [Neu.supB, hv', he, decide_false, Bool.false_or] at h
    exact batchAcceptB_sound _ _ _ h
  | setDtype d => trivial
  | setDelay v => simp [Neu.supB] at h
  | setDuration v => simp [Neu.supB] at h
  | setInplace b => simp [Neu.supB] at h
  | setSynapse c => simp [Neu.supB] at h

/-- executable form of `Red.Sup` -/
def Red.supB (C : Ctx τ) (g : GRed τ) : COp τ → Bool
  | .setDt v => !C.T.pos v || decide (v = g.obj.RecordReducer__step_time) ||
      recsAcceptB C.T g.obj.attrs g.obj.RecordReducer__records (.setDt v)
  | .setDuration v => !C.T.pos v || decide (v = g.obj.RecordReducer__duration) ||
      recsAcceptB C.T g.obj.attrs g.obj.RecordReducer__records (.setDur v)
  | .setInplace _ => true
  | .setDtype _ => true
  | _ => false

/-- the executable check implies `Red.Sup` -/
theorem Red.supB_sound (C : Ctx τ) (g : GRed τ) (op : COp τ) (h : Red.supB C g op = true) : Red.Sup C g op := by
  cases op with
  | setDt v =>
    intro hv he
    simp only [Red.supB, hv, he, Bool.not_true, decide_false, Bool.false_or] at h
    exact recsAcceptB_sound _ _ _ _ h
  | setDuration v =>
    intro hv he
    simp only [Red.supB, hv, he, Bool.not_true, decide_false, Bool.false_or] at h
    exact recsAcceptB_sound _ _ _ _ h
  | setInplace b => trivial
  | setDtype d => trivial
  | setDelay v => simp [Red.supB] at h
  | setBatch v => simp [Red.supB] at h
  | setSynapse c => simp [Red.supB] at h

/-- executable form of `Con.Sup`; `okB cfg` vouches for the object `mk cfg` -/
def Con.supB (C : Ctx τ) (okB : Config.SynCfg τ → Bool) (g : GCon τ) : COp τ → Bool
  | .setSynapse cfg => okB cfg
  | .setDuration _ => false
  | op =>
    match g.conn.modules.lookup "synapse_" with
    | some s => Syn.supB C ⟨s, g.dtype⟩ op
    | none => true

/-- the executable check implies `Con.Sup`, given that `okB` is sound -/
theorem Con.supB_sound (C : Ctx τ) (mk : Config.SynCfg τ → Obj τ) (okB : Config.SynCfg τ → Bool)
    (hok : ∀ cfg, okB cfg = true → toSyn cfg.dtype (mk cfg) = Config.Synapse.construct C.T cfg ∧ SynWF (mk cfg))
    (g : GCon τ) (op : COp τ) (h : Con.supB C okB g op = true) : Con.Sup C mk g op := by
  cases op with
  | setSynapse cfg => exact hok cfg h
  | setDuration v => simp [Con.supB] at h
  | setDt v => intro s hs; simp only [Con.supB, hs] at h; exact Syn.supB_sound C _ _ h
  | setDelay v => intro s hs; simp only [Con.supB, hs] at h; exact Syn.supB_sound C _ _ h
  | setBatch v => intro s hs; simp only [Con.supB, hs] at h; exact Syn.supB_sound C _ _ h
  | setInplace b => intro s hs; trivial
  | setDtype d => intro s hs; trivial


/-! ## Non-vacuity: concrete well-formed objects and operation lists inside the domain, run by the regenerated programs -/

section Examples
open InfernoVerif.Config

/-- the `clear()` of the example context of the glue file touches nothing, so it is `ClearOK` -/
theorem exC_clear : ClearOK exC := fun w => ⟨w, rfl, rfl, rfl, rfl, id, id⟩

/-- the example synapse object of the glue file (`exO`: one record `spike_`, dt 1, delay 3, batch 2) is well formed -/
theorem exO_wf : SynWF exO := by
  refine ⟨⟨by decide, ?_⟩, by decide, by decide, ?_⟩
  · intro nm hnm
    simp [exO] at hnm; subst hnm
    exact ⟨exR, rfl, 4, by decide, by decide, by simp [exR]⟩
  · intro nm hnm
    simp [exO] at hnm; subst hnm
    exact ⟨.record exR, rfl, ⟨4, by decide, by decide, by simp [exR]⟩, by decide⟩

/-- that synapse in float32 -/
def exG : GSyn Rat := ⟨exO, .f32⟩
/-- the configuration it was constructed with -/
def exCfg : SynCfg Rat := ⟨1, 1, 3, 2, false, .f32⟩

/-- valid assignments in mixed order, with a repetition of the stored value (`setDelay 2` twice, `setBatch 3` twice) -/
def exOps0 : List (COp Rat) :=
  [.setDt (1/2), .setDelay 2, .setBatch 3, .setInplace true, .setDtype .f64, .setDelay 2, .setDt 1, .setBatch 3]

/-- refused values (`dt = 0`, `batchsz = 0`, `delay < 0`, `batchsz < 0`), re-assignments of the stored values, and
accepted ones in between -/
def exOps1 : List (COp Rat) :=
  [.setDt 0, .setBatch 0, .setDelay (-1), .setDt 1, .setBatch 2, .setDelay 3, .setDt 2, .setBatch (-5), .setDelay 0]

example : Syn.abs exG = Synapse.construct Record.ratOps exCfg := by decide +kernel
example : ∀ op ∈ exOps0, SynCfg.validOp Record.ratOps op = true := by decide +kernel
example : Syn.SupRun exC exG exOps0 := supRunBOf_sound _ _ _ (Syn.supB_sound exC) _ _ (by decide +kernel)
example : Syn.SupRun exC exG exOps1 := supRunBOf_sound _ _ _ (Syn.supB_sound exC) _ _ (by decide +kernel)

/-- what the regenerated setters return on the second list -/
example : (Syn.genRun exC exG exOps1).2 =
    [.err .ValueError, .err .ValueError, .err .ValueError, .unit, .unit, .unit, .unit, .err .ValueError, .unit] := by
  decide +kernel

/-- the object the first list leaves, by evaluation: dt 1, delay 2 → three slots, batch dimension 3 -/
example : (Syn.abs (Syn.genRun exC exG exOps0).1).delayed.recs.map (·.n) = [3] ∧
    (Syn.abs (Syn.genRun exC exG exOps0).1).batched = ⟨3, [3]⟩ := by decide +kernel

/-- the capstone instantiated on the first list: the object left by the regenerated setters is what the constructor
builds for (dt 1, delay 2, batch 3, inplace, float64) -/
example : Syn.abs (Syn.genRun exC exG exOps0).1 =
    Synapse.construct Record.ratOps (exOps0.foldl SynCfg.assign exCfg) :=
  (Syn.gen_run_refines exC exC_clear exOps0 exG exCfg exO_wf (by decide +kernel) (by decide +kernel)
    (supRunBOf_sound _ _ _ (Syn.supB_sound exC) _ _ (by decide +kernel))).1
example : exOps0.foldl SynCfg.assign exCfg = ⟨1, 1, 2, 3, true, .f64⟩ := by decide +kernel

/-- `gen_run_eq` instantiated on the second list: refusals included, the regenerated setters and the machine agree -/
example : (Syn.abs (Syn.genRun exC exG exOps1).1, (Syn.genRun exC exG exOps1).2) =
    runOf (fun s op => s.step Record.ratOps op) (Syn.abs exG) exOps1 :=
  (Syn.gen_run_eq exC exC_clear exOps1 exG exO_wf
    (supRunBOf_sound _ _ _ (Syn.supB_sound exC) _ _ (by decide +kernel))).1

/-- the domain is a real restriction: a synapse has no `duration` and no `synapse` property -/
example : ¬ Syn.Sup exC exG (.setDuration 1) := fun h => h
example : ¬ Syn.Sup exC exG (.setSynapse exCfg) := fun h => h

/-! ### a neuron with two batch-constrained `ShapedTensor`s -/

/-- a neuron object: `voltage_`, `refrac_` of shape (2, 3), constrained on the batch dimension -/
def exN : Obj Rat :=
  { exO with
    BatchMixin__constrained := ["voltage_", "refrac_"],
    attrs := [("voltage_", .shaped ⟨[(0, 2)], true, false, .tensor [2, 3] [0, 0, 0, 0, 0, 0], false⟩),
              ("refrac_", .shaped ⟨[(0, 2)], true, false, .tensor [2, 3] [1, 1, 1, 1, 1, 1], false⟩)] }

/-- … with step time 1 in float32 -/
def exGN : GNeu Rat := ⟨exN, 1, .f32⟩

/-- the neuron object is well formed -/
theorem exN_wf : BatchWF exN := by
  refine ⟨by decide, by decide, ?_⟩
  intro nm hnm
  have : nm = "voltage_" ∨ nm = "refrac_" := by simpa [exN] using hnm
  rcases this with rfl | rfl
  · exact ⟨_, rfl, trivial, by decide⟩
  · exact ⟨_, rfl, trivial, by decide⟩

/-- valid assignments on a neuron (`dt` and dtype are the model's; `batchsz` runs the regenerated setter) -/
def exOpsN : List (COp Rat) := [.setBatch 4, .setDt (1/4), .setDtype .f64, .setBatch 4, .setBatch 1]

example : Neu.abs exGN = Neuron.construct ⟨2, 1, 2, .f32⟩ := by decide +kernel
example : Neu.abs (Neu.genRun exC exGN exOpsN).1 = Neuron.construct (exOpsN.foldl NeuCfg.assign ⟨2, 1, 2, .f32⟩) :=
  (Neu.gen_run_refines exC exC_clear exOpsN exGN ⟨2, 1, 2, .f32⟩ exN_wf (by decide +kernel) (by decide +kernel)
    (supRunBOf_sound _ _ _ (Neu.supB_sound exC) _ _ (by decide +kernel))).1
example : (Neu.abs (Neu.genRun exC exGN exOpsN).1).batched = ⟨1, [1, 1]⟩ := by decide +kernel

/-! ### a reducer with its record `data_` -/

/-- a `FoldReducer` object: step time 1, duration 3, inclusive, one record -/
def exD : Obj Rat :=
  { exO with
    RecordReducer__step_time := 1, RecordReducer__duration := 3, RecordReducer__inclusive := true,
    RecordReducer__records := ["data_"], attrs := [("data_", .record exR)] }

/-- … in float32 -/
def exGR : GRed Rat := ⟨exD, .f32⟩

/-- the reducer object is well formed -/
theorem exD_wf : RedWF exD := by
  refine ⟨by decide, ?_⟩
  intro nm hnm
  simp [exD] at hnm; subst hnm
  exact ⟨exR, rfl, 4, by decide, by decide, by simp [exR]⟩

/-- valid assignments on a reducer, with a repetition of the stored value -/
def exOpsR : List (COp Rat) := [.setDt (1/2), .setDuration 2, .setInplace true, .setDtype .f64, .setDuration 2]

example : Red.abs exGR = some (Reducer.construct Record.ratOps ⟨1, 3, true, false, .f32⟩) := by decide +kernel
example : Red.abs (Red.genRun exC exGR exOpsR).1 =
    some (Reducer.construct Record.ratOps (exOpsR.foldl RedCfg.assign ⟨1, 3, true, false, .f32⟩)) :=
  (Red.gen_run_refines exC exOpsR exGR ⟨1, 3, true, false, .f32⟩ exD_wf (by decide +kernel) (by decide +kernel)
    (supRunBOf_sound _ _ _ (Red.supB_sound exC) _ _ (by decide +kernel))).1
-- duration 2 at dt 1/2, inclusive: five slots; the reported step time is still 1/2 (D6)
example : (Red.abs (Red.genRun exC exGR exOpsR).1).map (fun r => (r.data.n, r.dt, r.duration)) = some (5, 1/2, 2) := by
  decide +kernel

/-! ### a connection: forwarded setters and synapse replacement -/

/-- a record as a freshly constructed synapse keeps it (storage not yet created) -/
def exRec (cfg : SynCfg Rat) : RecT Rat :=
  { dt := cfg.dt, duration := cfg.delay, inclusive := true,
    constraints := [(0, recSize Record.ratOps cfg.dt cfg.delay true), (1, cfg.batch)], strict := true,
    param := false, data := .none, pointer := 0 }

/-- the synapse object "constructed with configuration `cfg`" handed to `connection.synapse = …` in the examples: up to
two records (`spike_`, `trace_`) registered with both mixins -/
def exMk (cfg : SynCfg Rat) : Obj Rat :=
  { BatchMixin__batch_size := cfg.batch, BatchMixin__constrained := ["spike_", "trace_"].take cfg.k,
    DelayedMixin__step_time := cfg.dt, DelayedMixin__delay := cfg.delay,
    DelayedMixin__constrained := ["spike_", "trace_"].take cfg.k, InfernoSynapse__inplace := cfg.inplace,
    RecordReducer__step_time := 1, RecordReducer__duration := 0, RecordReducer__inclusive := false,
    RecordReducer__inplace := false, RecordReducer__records := [],
    attrs := [("spike_", .record (exRec cfg)), ("trace_", .record (exRec cfg)), ("weight", .other)] }

/-- the configuration of the replacement synapse: two records, dt 1, delay 2, batch 4, inplace, float64 -/
def exCfg2 : SynCfg Rat := ⟨2, 1, 2, 4, true, .f64⟩

/-- the replacement object is a well-formed synapse whose configuration view is the constructor's -/
theorem exMk_ok (cfg : SynCfg Rat) (h : decide (cfg = exCfg2) = true) :
    toSyn cfg.dtype (exMk cfg) = Synapse.construct Record.ratOps cfg ∧ SynWF (exMk cfg) := by
  have := of_decide_eq_true h
  subst this
  refine ⟨by decide +kernel, ⟨by decide, ?_⟩, by decide, by decide, ?_⟩
  · intro nm hnm
    have : nm = "spike_" ∨ nm = "trace_" := by simpa [exMk, exCfg2] using hnm
    rcases this with rfl | rfl
    · exact ⟨exRec exCfg2, rfl, 3, by decide +kernel, by decide, by simp [exRec]⟩
    · exact ⟨exRec exCfg2, rfl, 3, by decide +kernel, by decide, by simp [exRec]⟩
  · intro nm hnm
    have : nm = "spike_" ∨ nm = "trace_" := by simpa [exMk, exCfg2] using hnm
    rcases this with rfl | rfl
    · exact ⟨.record (exRec exCfg2), rfl, ⟨3, by decide +kernel, by decide, by simp [exRec]⟩, by decide⟩
    · exact ⟨.record (exRec exCfg2), rfl, ⟨3, by decide +kernel, by decide, by simp [exRec]⟩, by decide⟩

/-- the example connection of the glue file (learnable delays, holding `exO`) in float32 -/
def exGC : GCon Rat := ⟨exW, .f32⟩

/-- forwarded setters, a synapse replacement, and forwarded setters on the NEW synapse -/
def exOpsC : List (COp Rat) :=
  [.setDt (1/2), .setBatch 3, .setDelay 2, .setInplace true, .setSynapse exCfg2, .setDt 2, .setDtype .f32, .setBatch 4,
   .setDelay 5]

/-- `exOpsC` is supported along the run -/
theorem exOpsC_sup : Con.SupRun exC exMk exGC exOpsC :=
  supRunBOf_sound _ _ _ (Con.supB_sound exC exMk (fun cfg => decide (cfg = exCfg2)) exMk_ok) _ _ (by decide +kernel)

example : Con.GWF exGC := ⟨exO, rfl, exO_wf⟩
example : Con.abs exGC = some ⟨Synapse.construct Record.ratOps exCfg, true⟩ := by decide +kernel
example : (Con.genRun exC exMk exGC exOpsC).2 = exOpsC.map (fun _ => Out.unit) := by decide +kernel
/-- the capstone instantiated: the connection ends holding what the constructor builds for the last assignments -/
example : Con.abs (Con.genRun exC exMk exGC exOpsC).1 =
    some ⟨Synapse.construct Record.ratOps (exOpsC.foldl connAssign exCfg), true⟩ :=
  (Con.gen_run_refines exC exC_clear exMk exOpsC exGC exCfg true ⟨exO, rfl, exO_wf⟩ (by decide +kernel)
    (by decide +kernel) exOpsC_sup).1
example : exOpsC.foldl connAssign exCfg = ⟨2, 2, 5, 4, true, .f32⟩ := by decide +kernel
/-- … and by evaluation: two records of ⌈5/2⌉ + 1 = 4 slots, batch dimensions 4; `delayedby` reports the delay 5 -/
example : (Con.abs (Con.genRun exC exMk exGC exOpsC).1).map (fun c => (c.syn.delayed.recs.map (·.n), c.syn.batched)) =
    some ([4, 4], ⟨4, [4, 4]⟩) := by decide +kernel
example : (match Connection_delayedby exC (Con.genRun exC exMk exGC exOpsC).1.conn with
    | .ok (_, v) => v | .error _ => none) = some 5 := by decide +kernel
/-- outside the domain: a replacement object nobody vouches for, and `duration` on a connection -/
example : Con.supB exC (fun cfg => decide (cfg = exCfg2)) exGC (.setSynapse exCfg) = false := by decide +kernel
example : ¬ Con.Sup exC exMk exGC (.setDuration 1) := fun h => h

end Examples

end InfernoVerif.Gen.ConfigProg
