import InfernoVerif.Props.C01Glue
import InfernoVerif.Props.C01
/-!
# C01, closing the loop: the programs regenerated from /repo refine the list specification over EVERY operation sequence

`Props/C01Glue.lean` proves, method by method, that one run of a method body REGENERATED from
`inferno/core/infrastructure.py` (`Gen/RingProg.lean`) on a well-formed private state `g` (`GWF g`), seen through the
abstraction `toM`, is one step of the hand-written machine `Ring.step`.  `Props/C01.lean` proves that this machine refines
the list-of-observations specification `sstep` / `srun` for every operation list.  This file supplies the two missing
links and composes everything:

* the regenerated programs PRESERVE `GWF` (`gen_step_wf`), so the hypothesis of the glue theorems holds along a whole
  execution.  `GWF g` is split (`gwf_iff`) into `MWF (toM g)` — obtained from `gen_step_eq` and `ring_step_refines` — and the
  part `Inv g` that `toM` forgets: `0 < recordsz`, `0 ≤ pointer` on initialised storage, and consistency of the dtype / shape
  tags of the stored stack.  `Inv` is preserved by every regenerated method (`*_inv`, proved by unfolding the generated
  definition; the methods calling other methods — `reset`, `peek`, `pop`, `push` — by chaining the lemmas of the callees);
* `genExec` dispatches the machine's operation alphabet to the regenerated method it names (an exception: state unchanged,
  `Out.err e`), `genRun` folds it over an operation list, and `gen_run_refines` is the capstone: for EVERY finite sequence
  of supported operations, what the regenerated programs return is what the plain list-of-observations model returns
  (outputs up to the raw pointer value, as in `ring_run_refines`; `gen_run_eq` gives equality with the code-shaped machine
  `run` including pointer values), and the final private state is again well formed.

Alphabet: all of `Op` except `deinitz` (`deinitialize` is not translated; `Sup` is `False` on it).  `Op.initz shape` is
dispatched to `RecordTensor_initialize E g shape none E.zero` and glued here (`gen_initialize`, no hypothesis needed).
Nothing else is excluded: the tensor-offset operations are included.

Domain (`Sup g op`, evaluated at the CURRENT state — exactly the side conditions of the `gen_*` theorems, i.e. the part of
the input space on which `Ring.step` does not answer `Out.unsupported`): `readrange` / `readrangeT` lengths in
`[1, recordsz]`; non-empty `writerange` / `writerangeT`; `align` index `≥ 0`; for `readrangeT` every stored row has one
entry per offset position (the hypothesis `hrows` of `gen_readrangeT`: the representation keeps rows as flat lists and
`GWF` does not tie their length to the shape tag).  `supB` / `supRunB` are executable forms of `Sup` / `SupRun`
(`supB_sound`, `supRunB_sound`) used by the non-vacuity examples at the end.

Core Lean only.
-/
set_option linter.unusedSimpArgs false
set_option linter.unusedVariables false
namespace InfernoVerif.Gen.RingProg
open InfernoVerif.Ring InfernoVerif.Gen InfernoVerif.Gen.Prog

variable {β : Type}

/-! ## `GWF` = what `toM` sees (`MWF`) + what it forgets (`Inv`) -/

/-- the part of `GWF` that the abstraction `toM` forgets: `recordsz` positive; on initialised storage the dtype / shape
tags of the stored stack agree with the tags of the storage object and the pointer is not negative -/
def Inv (g : RT β) : Prop :=
  0 < g.recordsz ∧ match g.data with
    | .init d sh s => s.dt = d ∧ s.oshape = sh ∧ 0 ≤ g.pointer
    | _ => True

/-- `GWF` restated: well-formedness of a private state is well-formedness of its abstraction (`MWF (toM g)`, the
invariant `ring_step_refines` preserves) together with the forgotten part `Inv g` -/
theorem gwf_iff (g : RT β) : GWF g ↔ Inv g ∧ MWF (toM g) := by
  constructor
  · intro h
    refine ⟨?_, toM_wf g h⟩
    obtain ⟨hn, hd⟩ := h
    refine ⟨hn, ?_⟩
    cases hdat : g.data with
    | init d sh s => rw [hdat] at hd; simp only at hd ⊢; exact ⟨hd.1, hd.2.1, hd.2.2.2.1⟩
    | _ => trivial
  · rintro ⟨⟨hn, hi⟩, hm1, hm⟩
    refine ⟨hn, ?_⟩
    unfold toM at hm
    cases hdat : g.data with
    | init d sh s =>
      rw [hdat] at hi hm
      simp only [Ring.WF] at hi hm ⊢
      obtain ⟨⟨h1, h2, h3⟩, -⟩ := hm
      refine ⟨hi.1, hi.2.1, h3, hi.2.2, ?_⟩
      omega
    | _ => trivial

/-! ## Frame lemmas: every regenerated method preserves `Inv` -/

/-- `_unwind_ptr` of the source (Python floor-mod) with a positive size is never negative -/
theorem unwind_nonneg (p o n : Int) (hn : 0 < n) : 0 ≤ InfraF._unwind_ptr p o n := by
  unfold InfraF._unwind_ptr
  rw [Int.fmod_eq_emod_of_nonneg _ (by omega)]
  exact Int.emod_nonneg _ (by omega)

/-- a `bind` in `Except` that succeeds: its first part succeeded and the continuation succeeded on that value -/
theorem bind_eq_ok {ε α γ : Type} (x : Except ε α) (f : α → Except ε γ) (r : γ)
    (h : Except.bind x f = .ok r) : ∃ a, x = .ok a ∧ f a = .ok r := by
  cases x with
  | error e => simp [Except.bind] at h
  | ok a => exact ⟨a, rfl, h⟩

/-- frame lemma: `read` (regenerated body) preserves `Inv` — it returns the state unchanged -/
theorem read_inv (E : Elem β) (g : RT β) (h : Inv g) (o : Int) (r : RT β × Obs β)
    (hr : RecordTensor_read E g o = .ok r) : Inv r.1 := by
  obtain ⟨hn, hd⟩ := h
  unfold RecordTensor_read at hr
  simp only [bind, Except.bind, pure, Except.pure] at hr
  repeat' split at hr
  all_goals try (simp [throw, throwThe, MonadExceptOf.throw] at hr; done)
  all_goals cases hr
  all_goals simp_all [Inv, Store.ofStack]

/-- frame lemma: `write` preserves `Inv` — pointer and `recordsz` untouched, storage re-assigned from a tensor
(`Store.ofStack`, tags consistent by construction) on both the in-place and the `cat` branch -/
theorem write_inv (E : Elem β) (g : RT β) (h : Inv g) (x : Obs β) (o : Int) (b : Bool) (r : RT β × Unit)
    (hr : RecordTensor_write E g x o b = .ok r) : Inv r.1 := by
  obtain ⟨hn, hd⟩ := h
  unfold RecordTensor_write at hr
  simp only [bind, Except.bind, pure, Except.pure] at hr
  repeat' split at hr
  all_goals try (simp [throw, throwThe, MonadExceptOf.throw] at hr; done)
  all_goals cases hr
  all_goals simp_all [Inv, Store.ofStack]

/-- frame lemma: `incr` preserves `Inv` — storage untouched, the new pointer is a floor-mod by `recordsz > 0` -/
theorem incr_inv (E : Elem β) (g : RT β) (h : Inv g) (q : Int) (r : RT β × Int)
    (hr : RecordTensor_incr E g q = .ok r) : Inv r.1 := by
  obtain ⟨hn, hd⟩ := h
  have := unwind_nonneg g.pointer (-q) g.recordsz hn
  unfold RecordTensor_incr at hr
  simp only [bind, Except.bind, pure, Except.pure] at hr
  repeat' split at hr
  all_goals try (simp [throw, throwThe, MonadExceptOf.throw] at hr; done)
  all_goals cases hr
  all_goals simp_all [Inv, Store.ofStack]

/-- frame lemma: `decr` preserves `Inv` — storage untouched, the new pointer is a floor-mod by `recordsz > 0` -/
theorem decr_inv (E : Elem β) (g : RT β) (h : Inv g) (q : Int) (r : RT β × Int)
    (hr : RecordTensor_decr E g q = .ok r) : Inv r.1 := by
  obtain ⟨hn, hd⟩ := h
  have := unwind_nonneg g.pointer q g.recordsz hn
  unfold RecordTensor_decr at hr
  simp only [bind, Except.bind, pure, Except.pure] at hr
  repeat' split at hr
  all_goals try (simp [throw, throwThe, MonadExceptOf.throw] at hr; done)
  all_goals cases hr
  all_goals simp_all [Inv, Store.ofStack]

/-- frame lemma: `align` with an index `≥ 0` preserves `Inv` — the pointer becomes the validated index, the storage
is re-assigned from the rolled tensor -/
theorem align_inv (E : Elem β) (g : RT β) (h : Inv g) (idx : Int) (hidx : 0 ≤ idx) (r : RT β × Unit)
    (hr : RecordTensor_align E g idx = .ok r) : Inv r.1 := by
  obtain ⟨hn, hd⟩ := h
  unfold RecordTensor_align argIndex at hr
  by_cases hc : -g.recordsz ≤ idx ∧ idx < g.recordsz
  · simp only [hc, and_self, ↓reduceIte, bind, Except.bind, pure, Except.pure] at hr
    repeat' split at hr
    all_goals try (simp [throw, throwThe, MonadExceptOf.throw] at hr; done)
    all_goals cases hr
    all_goals simp_all [Inv, Store.ofStack]
  · simp [hc, bind, Except.bind] at hr

/-- frame lemma: `initialize` (any dtype argument and fill) preserves `Inv` — pointer set to `0`, storage created by
`materialize` + `fill_`, `inferno.full` or `torch.full`, each with consistent tags -/
theorem initialize_inv (E : Elem β) (g : RT β) (h : Inv g) (shape : List Nat) (dt : Option DType) (fill : β)
    (r : RT β × Store (Stack β)) (hr : RecordTensor_initialize E g shape dt fill = .ok r) : Inv r.1 := by
  obtain ⟨hn, hd⟩ := h
  cases hdat : g.data
  all_goals simp only [RecordTensor_initialize, hdat, isUninit, isTensor, bind, Except.bind, pure, Except.pure,
    Bool.false_eq_true, ↓reduceIte] at hr
  all_goals cases hr
  all_goals simp [Inv, Store.ofStack, materialize, storeFill, fullStack, hn]

/-- frame lemma: `readrange` (scalar or tensor offset) preserves `Inv` — it returns the state unchanged -/
theorem readrange_inv (E : Elem β) (g : RT β) (h : Inv g) (len : Int) (off : Off) (fwd : Bool)
    (r : RT β × TimeLast β) (hr : RecordTensor_readrange E g len off fwd = .ok r) : Inv r.1 := by
  obtain ⟨hn, hd⟩ := h
  unfold RecordTensor_readrange at hr
  simp only [bind, Except.bind, pure, Except.pure] at hr
  repeat' split at hr
  all_goals try (simp [throw, throwThe, MonadExceptOf.throw] at hr; done)
  all_goals cases hr
  all_goals simp_all [Inv, Store.ofStack]

/-- frame lemma: `writerange` (scalar or tensor offset, in place or not, all five assignment sites) preserves `Inv` —
pointer and `recordsz` untouched, storage re-assigned from a tensor -/
theorem writerange_inv (E : Elem β) (g : RT β) (h : Inv g) (obs : TimeLast β) (off : Off) (fwd b : Bool)
    (r : RT β × Unit) (hr : RecordTensor_writerange E g obs off fwd b = .ok r) : Inv r.1 := by
  obtain ⟨hn, hd⟩ := h
  unfold RecordTensor_writerange at hr
  simp only [bind, Except.bind, pure, Except.pure] at hr
  repeat' split at hr
  all_goals try (simp [throw, throwThe, MonadExceptOf.throw] at hr; done)
  all_goals cases hr
  all_goals simp_all [Inv, Store.ofStack]


/-- frame lemma: `reset` preserves `Inv` — with a fill value: pointer `0`, storage refilled or left as it was; without:
the call `align(0)` -/
theorem reset_inv (E : Elem β) (g : RT β) (h : Inv g) (fill : Option β) (r : RT β × Unit)
    (hr : RecordTensor_reset E g fill = .ok r) : Inv r.1 := by
  cases fill with
  | some v =>
    obtain ⟨hn, hd⟩ := h
    cases hdat : g.data
    all_goals simp only [RecordTensor_reset, hdat, bind, Except.bind, pure, Except.pure] at hr
    all_goals cases hr
    all_goals simp [Inv, Store.ofStack, hn, hdat]
  | none =>
    simp only [RecordTensor_reset, bind, pure, Except.pure] at hr
    obtain ⟨a, ha, hf⟩ := bind_eq_ok _ _ _ hr
    cases hf
    exact align_inv E g h 0 (by omega) a ha

/-- frame lemma: `peek` preserves `Inv` (the call `read(1)`, or nothing on ignored storage) -/
theorem peek_inv (E : Elem β) (g : RT β) (h : Inv g) (r : RT β × Option (Obs β))
    (hr : RecordTensor_peek E g = .ok r) : Inv r.1 := by
  unfold RecordTensor_peek at hr
  simp only [bind, pure, Except.pure] at hr
  split at hr
  · obtain ⟨a, ha, hf⟩ := bind_eq_ok _ _ _ hr
    cases hf
    exact read_inv E g h 1 a ha
  · cases hr; exact h

/-- frame lemma: `pop` preserves `Inv` (the calls `decr(1)`, `read(0)`, or nothing on ignored storage) -/
theorem pop_inv (E : Elem β) (g : RT β) (h : Inv g) (r : RT β × Option (Obs β))
    (hr : RecordTensor_pop E g = .ok r) : Inv r.1 := by
  unfold RecordTensor_pop at hr
  simp only [bind, pure, Except.pure] at hr
  split at hr
  · obtain ⟨a, ha, hf⟩ := bind_eq_ok _ _ _ hr
    obtain ⟨c, hc, hf2⟩ := bind_eq_ok _ _ _ hf
    cases hf2
    exact read_inv E a.1 (decr_inv E g h 1 a ha) 0 c hc
  · cases hr; exact h

/-- frame lemma: `push` preserves `Inv` (the calls `initialize` on ignored storage, then `write(obs, 0)`, `incr(1)`) -/
theorem push_inv (E : Elem β) (g : RT β) (h : Inv g) (x : Obs β) (b : Bool) (r : RT β × Unit)
    (hr : RecordTensor_push E g x b = .ok r) : Inv r.1 := by
  unfold RecordTensor_push at hr
  simp only [bind, pure, Except.pure] at hr
  obtain ⟨g0, h0, hr⟩ := bind_eq_ok _ _ _ hr
  obtain ⟨g1, h1, hr⟩ := bind_eq_ok _ _ _ hr
  obtain ⟨g2, h2, hr⟩ := bind_eq_ok _ _ _ hr
  cases hr
  have i0 : Inv g0 := by
    split at h0
    · cases h0; exact h
    · obtain ⟨a, ha, hf⟩ := bind_eq_ok _ _ _ h0
      cases hf
      exact initialize_inv E g h _ _ _ a ha
  exact incr_inv E g1.1 (write_inv E g0 i0 x 0 b g1 h1) 1 g2 h2

/-! ## initialize (glue theorem for `Op.initz`) -/

/-- glue theorem for `initialize(shape)` (default dtype `None`, fill `0`): the regenerated body, abstracted with `toM`, is
the machine's `Op.initz shape` step — from ANY state (no well-formedness needed), never failing; the dtype is the one the
storage object carried (`int64` inferred from the Python `0` for `None` storage), the pointer `0` -/
theorem gen_initialize (E : Elem β) (g : RT β) (shape : List Nat) :
    lift g (fun _ => Out.unit) (RecordTensor_initialize E g shape none E.zero) = step E (toM g) (.initz shape) := by
  cases hdat : g.data
  all_goals simp [RecordTensor_initialize, hdat, isUninit, isTensor, bind, Except.bind, pure, Except.pure,
    lift, toM, step, initDType, freshRing, materialize, storeFill, fullStack, fullLike, torchFull, storeDType,
    Store.ofStack]

/-! ## Dispatch of the operation alphabet, one step -/

/-- run one regenerated method: new private state and converted output; an exception leaves the state as it was -/
def exec1 {α : Type} (g : RT β) (f : α → Out β) : Except Err (RT β × α) → RT β × Out β
  | .ok (g', a) => (g', f a)
  | .error e => (g, .err e)

/-- `lift` of the glue theorems is `exec1` followed by the abstraction of the state -/
theorem lift_exec1 {α : Type} (g : RT β) (f : α → Out β) (x : Except Err (RT β × α)) :
    lift g f x = (toM (exec1 g f x).1, (exec1 g f x).2) := by
  cases x with
  | error e => rfl
  | ok r => rfl

/-- `Inv` along `exec1`: kept on an exception, and on success whenever the method's frame lemma gives it -/
theorem exec1_inv {α : Type} (g : RT β) (f : α → Out β) (x : Except Err (RT β × α)) (h : Inv g)
    (hx : ∀ r, x = .ok r → Inv r.1) : Inv (exec1 g f x).1 := by
  cases x with
  | error e => exact h
  | ok r => exact hx r rfl

/-- dispatch of the machine's operation alphabet to the regenerated method it names, with the output conversions of the
glue theorems; returns the NEW private state (`deinitz` is not translated: state unchanged, `Out.unsupported`) -/
def genExec (E : Elem β) (g : RT β) : Op β → RT β × Out β
  | .push x inplace => exec1 g (fun _ => Out.unit) (RecordTensor_push E g x inplace)
  | .pop => exec1 g outOpt (RecordTensor_pop E g)
  | .peek => exec1 g outOpt (RecordTensor_peek E g)
  | .read o => exec1 g (fun x => Out.orow (some x.vals)) (RecordTensor_read E g o)
  | .write x o inplace => exec1 g (fun _ => Out.unit) (RecordTensor_write E g x o inplace)
  | .readrange len o fwd =>
    exec1 g (fun tl => Out.orows (tl.stack.rows.map some)) (RecordTensor_readrange E g (len : Int) (.int o) fwd)
  | .readrangeT len osh offs fwd =>
    exec1 g (fun tl => Out.omat (colsOf tl.stack.rows offs.length))
      (RecordTensor_readrange E g (len : Int) (.ten osh offs) fwd)
  | .writerange dt xsh xs o fwd inplace =>
    exec1 g (fun _ => Out.unit) (RecordTensor_writerange E g ⟨⟨dt, xsh, xs⟩⟩ (.int o) fwd inplace)
  | .writerangeT dt xsh xs osh offs fwd inplace =>
    exec1 g (fun _ => Out.unit) (RecordTensor_writerange E g ⟨⟨dt, xsh, xs⟩⟩ (.ten osh offs) fwd inplace)
  | .incr q => exec1 g (fun p => Out.ptr p.toNat) (RecordTensor_incr E g q)
  | .decr q => exec1 g (fun p => Out.ptr p.toNat) (RecordTensor_decr E g q)
  | .align idx => exec1 g (fun _ => Out.unit) (RecordTensor_align E g idx)
  | .reset fill => exec1 g (fun _ => Out.unit) (RecordTensor_reset E g fill)
  | .initz shape => exec1 g (fun _ => Out.unit) (RecordTensor_initialize E g shape none E.zero)
  | .deinitz _ => (g, .unsupported)

/-- the domain of the glue theorems, evaluated at the current state `g` -/
def Sup (g : RT β) : Op β → Prop
  | .readrange len _ _ => 1 ≤ len ∧ (len : Int) ≤ g.recordsz
  | .readrangeT len _ offs _ => 1 ≤ len ∧ (len : Int) ≤ g.recordsz ∧
      ∀ d sh s, g.data = .init d sh s → ∀ r ∈ s.rows, r.length = offs.length
  | .writerange _ _ xs _ _ _ => xs.length ≠ 0
  | .writerangeT _ _ xs _ _ _ _ => xs.length ≠ 0
  | .align idx => 0 ≤ idx
  | .deinitz _ => False
  | _ => True

/-- one dispatched operation of the regenerated programs, abstracted, is one step of the hand-written machine (the
`gen_*` glue theorems collected over the operation alphabet) -/
theorem gen_step_eq (E : Elem β) (g : RT β) (h : GWF g) (op : Op β) (hs : Sup g op) :
    (toM (genExec E g op).1, (genExec E g op).2) = step E (toM g) op := by
  cases op with
  | push x b => simp only [genExec, ← lift_exec1]; exact gen_push E g h x b
  | pop => simp only [genExec, ← lift_exec1]; exact gen_pop E g h
  | peek => simp only [genExec, ← lift_exec1]; exact gen_peek E g h
  | read o => simp only [genExec, ← lift_exec1]; exact gen_read E g h o
  | write x o b => simp only [genExec, ← lift_exec1]; exact gen_write E g h x o b
  | readrange len o fwd => simp only [genExec, ← lift_exec1]; exact gen_readrange E g h len o fwd hs.1 hs.2
  | readrangeT len osh offs fwd =>
    simp only [genExec, ← lift_exec1]; exact gen_readrangeT E g h len osh offs fwd hs.1 hs.2.1 hs.2.2
  | writerange dt xsh xs o fwd b => simp only [genExec, ← lift_exec1]; exact gen_writerange E g h dt xsh xs o fwd b hs
  | writerangeT dt xsh xs osh offs fwd b =>
    simp only [genExec, ← lift_exec1]; exact gen_writerangeT E g h dt xsh xs osh offs fwd b hs
  | incr q => simp only [genExec, ← lift_exec1]; exact gen_incr E g h q
  | decr q => simp only [genExec, ← lift_exec1]; exact gen_decr E g h q
  | align idx => simp only [genExec, ← lift_exec1]; exact gen_align E g h idx hs
  | reset fill => simp only [genExec, ← lift_exec1]; exact gen_reset E g h fill
  | initz shape => simp only [genExec, ← lift_exec1]; exact gen_initialize E g shape
  | deinitz u => exact hs.elim

/-- every supported operation preserves `Inv` (the frame lemmas collected over the operation alphabet) -/
theorem gen_step_inv (E : Elem β) (g : RT β) (h : Inv g) (op : Op β) (hs : Sup g op) :
    Inv (genExec E g op).1 := by
  cases op with
  | push x b => exact exec1_inv g _ _ h (push_inv E g h x b)
  | pop => exact exec1_inv g _ _ h (pop_inv E g h)
  | peek => exact exec1_inv g _ _ h (peek_inv E g h)
  | read o => exact exec1_inv g _ _ h (read_inv E g h o)
  | write x o b => exact exec1_inv g _ _ h (write_inv E g h x o b)
  | readrange len o fwd => exact exec1_inv g _ _ h (readrange_inv E g h _ _ fwd)
  | readrangeT len osh offs fwd => exact exec1_inv g _ _ h (readrange_inv E g h _ _ fwd)
  | writerange dt xsh xs o fwd b => exact exec1_inv g _ _ h (writerange_inv E g h _ _ fwd b)
  | writerangeT dt xsh xs osh offs fwd b => exact exec1_inv g _ _ h (writerange_inv E g h _ _ fwd b)
  | incr q => exact exec1_inv g _ _ h (incr_inv E g h q)
  | decr q => exact exec1_inv g _ _ h (decr_inv E g h q)
  | align idx => exact exec1_inv g _ _ h (align_inv E g h idx hs)
  | reset fill => exact exec1_inv g _ _ h (reset_inv E g h fill)
  | initz shape => exact exec1_inv g _ _ h (initialize_inv E g h shape none E.zero)
  | deinitz u => exact hs.elim

/-- the regenerated programs preserve `GWF`: after any supported operation — successful or raising — the private state is
again well formed, so the hypothesis of the glue theorems holds along a whole execution -/
theorem gen_step_wf (E : Elem β) (g : RT β) (h : GWF g) (op : Op β) (hs : Sup g op) :
    GWF (genExec E g op).1 := by
  rw [gwf_iff]
  refine ⟨gen_step_inv E g ((gwf_iff g).1 h).1 op hs, ?_⟩
  have e := gen_step_eq E g h op hs
  have w := (ring_step_refines E (toM g) (toM_wf g h) op).2.2
  rw [← e] at w
  exact w

/-! ## Operation sequences -/

/-- fold of `genExec` over an operation list, collecting the outputs -/
def genRun (E : Elem β) (g : RT β) : List (Op β) → RT β × List (Out β)
  | [] => (g, [])
  | op :: ops => let (g', o) := genExec E g op; let (g'', os) := genRun E g' ops; (g'', o :: os)

/-- `Sup` along a run: every operation is supported at the state the regenerated programs have reached -/
def SupRun (E : Elem β) (g : RT β) : List (Op β) → Prop
  | [] => True
  | op :: ops => Sup g op ∧ SupRun E (genExec E g op).1 ops

/-- for every operation list supported along the run, the regenerated programs and the hand-written machine `run` produce
the same abstract final state and the same outputs (pointer values included), and the final private state is well formed -/
theorem gen_run_eq (E : Elem β) (ops : List (Op β)) (g : RT β) (h : GWF g) (hs : SupRun E g ops) :
    (toM (genRun E g ops).1, (genRun E g ops).2) = run E (toM g) ops ∧ GWF (genRun E g ops).1 := by
  induction ops generalizing g with
  | nil => exact ⟨rfl, h⟩
  | cons op ops ih =>
    obtain ⟨hs1, hs2⟩ := hs
    have e := gen_step_eq E g h op hs1
    obtain ⟨i1, i2⟩ := ih (genExec E g op).1 (gen_step_wf E g h op hs1) hs2
    simp only [genRun, run]
    rw [← e]
    simp only []
    rw [← i1]
    exact ⟨rfl, i2⟩

/-- CAPSTONE: for EVERY finite sequence of supported operations, started in any well-formed private state, the programs
regenerated from /repo's `RecordTensor` return what the plain list-of-observations specification returns (outputs up to
the raw pointer value), end in the abstraction relation with it, and end well formed -/
theorem gen_run_refines (E : Elem β) (ops : List (Op β)) (g : RT β) (h : GWF g) (hs : SupRun E g ops) :
    sabs (toM (genRun E g ops).1) = (srun E (sabs (toM g)) ops).1 ∧
    (genRun E g ops).2.map Out.forget = (srun E (sabs (toM g)) ops).2.map Out.forget ∧
    GWF (genRun E g ops).1 := by
  obtain ⟨e, w⟩ := gen_run_eq E ops g h hs
  obtain ⟨r1, r2, -⟩ := ring_run_refines E ops (toM g) (toM_wf g h)
  rw [← e] at r1 r2
  exact ⟨r1, r2, w⟩


/-! ## Executable form of the domain (for the examples) -/

/-- executable form of `Sup` -/
def supB (g : RT β) : Op β → Bool
  | .readrange len _ _ => decide (1 ≤ len) && decide ((len : Int) ≤ g.recordsz)
  | .readrangeT len _ offs _ => decide (1 ≤ len) && decide ((len : Int) ≤ g.recordsz) &&
      (match g.data with
        | .init _ _ s => s.rows.all (fun r => r.length == offs.length)
        | _ => true)
  | .writerange _ _ xs _ _ _ => xs.length != 0
  | .writerangeT _ _ xs _ _ _ _ => xs.length != 0
  | .align idx => decide (0 ≤ idx)
  | .deinitz _ => false
  | _ => true

/-- the executable check implies `Sup` -/
theorem supB_sound (g : RT β) (op : Op β) (h : supB g op = true) : Sup g op := by
  cases op with
  | readrangeT len osh offs fwd =>
    simp only [supB, Bool.and_eq_true, decide_eq_true_eq] at h
    refine ⟨h.1.1, h.1.2, ?_⟩
    intro d sh s hd r hr
    rw [hd] at h
    simpa using List.all_eq_true.1 h.2 r hr
  | _ => simp_all [supB, Sup]

/-- executable form of `SupRun` -/
def supRunB (E : Elem β) (g : RT β) : List (Op β) → Bool
  | [] => true
  | op :: ops => supB g op && supRunB E (genExec E g op).1 ops

/-- the executable check implies `SupRun` -/
theorem supRunB_sound (E : Elem β) (ops : List (Op β)) (g : RT β) (h : supRunB E g ops = true) :
    SupRun E g ops := by
  induction ops generalizing g with
  | nil => trivial
  | cons op ops ih =>
    simp only [supRunB, Bool.and_eq_true] at h
    exact ⟨supB_sound g op h.1, ih _ h.2⟩

/-! ## Non-vacuity: concrete well-formed states and mixed operation lists inside the domain -/

/-- integers, conversion = identity -/
def exE : Elem Int := ⟨fun _ _ v => v, 0⟩
/-- a 3-slot record as constructed (`None` storage) -/
def exG0 : RT Int := ⟨.none, 0, 3⟩
/-- a 3-slot record of 2-position observations, pointer mid-wrap -/
def exG1 : RT Int := ⟨.init false [2] ⟨false, [2], [[10, 11], [20, 21], [30, 31]]⟩, 2, 3⟩

/-- first pushes through `initialize`, reads, both kinds of range read / write in both modes (wrapping), pointer moves,
a raising write (wrong shape), `reset` with and without fill, re-`initialize` to another shape -/
def exOps0 : List (Op Int) :=
  [.push ⟨false, [2], [1, 2]⟩ true, .push ⟨false, [2], [3, 4]⟩ false, .read 1, .peek,
   .readrange 3 0 false, .readrangeT 2 [2] [1, 2] true,
   .writerange false [2] [[5, 6], [7, 8]] 0 true false, .writerangeT false [2] [[9, 10]] [2] [0, 1] false true,
   .incr 2, .align 1, .readrange 3 2 true, .write ⟨false, [3], [0, 0, 0]⟩ 0 true, .pop, .reset none, .decr 1,
   .reset (some 7), .initz [1], .push ⟨true, [1], [5]⟩ true, .readrange 2 1 false]

/-- from a mid-wrap state: whole-record reads in both directions, wrapping range writes (in place and `cat`), gather /
scatter with distinct per-position offsets, a negative write offset, a raising `align` (index `≥ recordsz`) -/
def exOps1 : List (Op Int) :=
  [.readrange 3 1 true, .writerange false [2] [[1, 2], [3, 4]] 0 false true, .readrangeT 3 [2] [0, 2] false,
   .writerangeT false [2] [[5, 6], [7, 8]] [2] [1, 0] true false, .align 0, .pop, .write ⟨false, [2], [8, 9]⟩ (-1) false,
   .readrange 3 0 false, .readrange 3 0 true, .align 5, .incr (-4), .peek]

example : GWF exG0 := ⟨by decide, trivial⟩
example : GWF exG1 := ⟨by decide, rfl, rfl, rfl, by decide, by decide⟩
example : SupRun exE exG0 exOps0 := supRunB_sound _ _ _ (by decide)
example : SupRun exE exG1 exOps1 := supRunB_sound _ _ _ (by decide)

/-- what the regenerated programs return on the first list -/
example : (genRun exE exG0 exOps0).2 =
    [.unit, .unit, .orow (some [3, 4]), .orow (some [3, 4]), .orows [some [1, 2], some [3, 4], some [0, 0]],
     .omat [[some 3, some 0], [some 2, some 4]], .unit, .unit, .ptr 1, .unit,
     .orows [some [9, 6], some [7, 8], some [3, 10]], .err .ValueError, .orow (some [7, 8]), .unit, .ptr 2, .unit,
     .unit, .unit, .orows [some [0], some [5]]] := by decide

/-- the capstone instantiated: on both lists the regenerated programs and the list specification agree -/
example : (genRun exE exG0 exOps0).2.map Out.forget = (srun exE (sabs (toM exG0)) exOps0).2.map Out.forget :=
  (gen_run_refines exE exOps0 exG0 ⟨by decide, trivial⟩ (supRunB_sound _ _ _ (by decide))).2.1
example : (genRun exE exG1 exOps1).2.map Out.forget = (srun exE (sabs (toM exG1)) exOps1).2.map Out.forget :=
  (gen_run_refines exE exOps1 exG1 ⟨by decide, rfl, rfl, rfl, by decide, by decide⟩
    (supRunB_sound _ _ _ (by decide))).2.1

/-- the domain is a real restriction: an empty range read, a negative align index and `deinitialize` are outside it -/
example : ¬ Sup exG1 (.readrange 0 0 true) := by simp [Sup]
example : ¬ Sup exG1 (.align (-1)) := by simp [Sup]
example : ¬ Sup exG1 (.deinitz true) := by simp [Sup]

end InfernoVerif.Gen.RingProg
