import InfernoVerif.Lemmas.Persist
import InfernoVerif.Props.C01
/-!
# C12 — checkpoint at any step, restore into another instance, identical future

Definitions: `Model/Persist.lean`.  Everything here is core Lean (no Mathlib).

Shape of the argument.  A component saves exactly its persistent entries (`save`) and `load` is
torch's strict load + `_extras.update` + post-load hook.  For each component class we prove
`load_save_agrees_on_read_fields_*` (`Resumes`): whatever target of the same configuration the
saved dict is loaded into, afterwards the target agrees with the source on EVERY field a step
reads (`view`) — i.e. every such field is either saved or configuration.  `resume_equiv` turns that
into equality of the whole future (every continuation `xs`, induction over the input list) for
every step function that reads the state only through `view` (`Respects`), `checkpoint_anywhere`
places the checkpoint after an arbitrary prefix of the run, and `compose_resumes` lifts it to
products (synapse = records, neuron = buffers, connection, layer, trainer = reducers …).
`load_rejects_*`: strict loading reports every key / shape disagreement instead of loading.
Negative results (`*_diverges`, `fresh_classifier_not_invariant`) show the hypotheses are needed:
they are the mutants / findings of the check in model form.
-/
namespace InfernoVerif.Persist
open InfernoVerif.Ring
variable {β : Type}

/-! ## Generic theorems -/

/-- If loading what `s` saved into `t` succeeds (same configuration), the restored target and the
uninterrupted source produce the same outputs for EVERY continuation and stay in agreement on all
read fields. -/
theorem resume_equiv {D In Out : Type} (C : Comp D) (step : C.State → In → C.State × Out)
    (hres : Resumes C) (hresp : Respects C step) (s t t' : C.State)
    (hs : C.Inv s) (ht : C.Inv t) (hc : C.sameConfig s t) (hl : C.load (C.save s) t = .ok t')
    (xs : List In) :
    (run step t' xs).2 = (run step s xs).2 ∧ C.view (run step t' xs).1 = C.view (run step s xs).1 :=
  run_resume C step hresp s t' (hres s t t' hs ht hc hl) xs

/-- A component whose `view` is the whole state is respected by every step function. -/
theorem respects_of_injective {D In Out : Type} (C : Comp D) (hinj : ∀ a b, C.view a = C.view b → a = b)
    (step : C.State → In → C.State × Out) : Respects C step := by
  intro s t x h
  cases hinj s t h
  exact ⟨rfl, rfl⟩

/-- Composition: a product of components resumes if each does. -/
theorem compose_resumes {D₁ D₂ : Type} (C₁ : Comp D₁) (C₂ : Comp D₂) (h₁ : Resumes C₁) (h₂ : Resumes C₂) :
    Resumes (C₁.prod C₂) := by
  intro s t t' hs ht hc hl
  change (match C₁.load (C₁.save s.1) t.1, C₂.load (C₂.save s.2) t.2 with
    | .ok a, .ok b => Except.ok (a, b)
    | .error e, .ok _ => .error e
    | .ok _, .error e => .error e
    | .error e₁, .error e₂ => .error (e₁ ++ e₂)) = .ok t' at hl
  split at hl <;> try cases hl
  rename_i a b ha hb
  show (C₁.view a, C₂.view b) = (C₁.view s.1, C₂.view s.2)
  rw [h₁ s.1 t.1 a hs.1 ht.1 hc.1 ha, h₂ s.2 t.2 b hs.2 ht.2 hc.2 hb]

/-- `sync` is established by the first update and kept by every later one. -/
theorem classifier_inv_step {Δ In Out : Type} (derive : Tens β → Δ) (infer : Δ → In → Out)
    (upd : Tens β → In → Tens β) (s : Clf β Δ) (x : In) :
    (clfStep derive infer upd s x).1.derived = derive (clfStep derive infer upd s x).1.rates := rfl


/-- Checkpoint after an arbitrary prefix `pre` of a run from `s₀`: outputs before the checkpoint
followed by the outputs of the restored target on `post` are the outputs of the uninterrupted run on
`pre ++ post` — for every `pre`, `post`, and every target `t` (in an arbitrary prior state) that
the load accepts. -/
theorem checkpoint_anywhere {D In Out : Type} (C : Comp D) (step : C.State → In → C.State × Out)
    (hres : Resumes C) (hresp : Respects C step) (s₀ t t' : C.State) (pre post : List In)
    (hs : C.Inv (run step s₀ pre).1) (ht : C.Inv t) (hc : C.sameConfig (run step s₀ pre).1 t)
    (hl : C.load (C.save (run step s₀ pre).1) t = .ok t') :
    (run step s₀ pre).2 ++ (run step t' post).2 = (run step s₀ (pre ++ post)).2 := by
  rw [run_append]
  simp only
  rw [(resume_equiv C step hres hresp _ t t' hs ht hc hl post).1]

/-- … and products of such components are again of that kind. -/
theorem prod_view_injective {D₁ D₂ : Type} (C₁ : Comp D₁) (C₂ : Comp D₂)
    (h₁ : ∀ a b, C₁.view a = C₁.view b → a = b) (h₂ : ∀ a b, C₂.view a = C₂.view b → a = b) :
    ∀ a b, (C₁.prod C₂).view a = (C₁.prod C₂).view b → a = b := by
  intro a b h
  change (C₁.view a.1, C₂.view a.2) = (C₁.view b.1, C₂.view b.2) at h
  simp only [Prod.mk.injEq] at h
  exact Prod.ext (h₁ _ _ h.1) (h₂ _ _ h.2)

/-! ## Strict loading rejects key and shape disagreements -/

/-- A saved entry whose shape differs from the target's entry of the same key is reported. -/
theorem load_rejects_shape_mismatch (saved target : List (String × Tens β)) (k : String) (v w : Tens β)
    (hk : (k, v) ∈ target) (hs : saved.lookup k = some w) (hne : w.shape ≠ v.shape) :
    LoadErr.shape k ∈ strictErrors saved target := by
  unfold strictErrors
  apply List.mem_append_right
  rw [List.mem_filterMap]
  exact ⟨(k, v), hk, by simp [hs, hne]⟩

/-- `load_rejects_key_mismatch`, first half: a key of the target that the saved dict lacks. -/
theorem load_rejects_missing_key (saved target : List (String × Tens β)) (k : String) (v : Tens β)
    (hk : (k, v) ∈ target) (hs : saved.lookup k = none) :
    LoadErr.missing k ∈ strictErrors saved target := by
  unfold strictErrors
  apply List.mem_append_left
  apply List.mem_append_right
  rw [List.mem_map]
  exact ⟨(k, v), by simp [hk, hs], rfl⟩

/-- `load_rejects_key_mismatch`, second half: a saved key the target does not have. -/
theorem load_rejects_unexpected_key (saved target : List (String × Tens β)) (k : String) (w : Tens β)
    (hk : (k, w) ∈ saved) (hs : target.lookup k = none) :
    LoadErr.unexpected k ∈ strictErrors saved target := by
  unfold strictErrors
  apply List.mem_append_left
  apply List.mem_append_left
  rw [List.mem_map]
  exact ⟨(k, w), by simp [hk, hs], rfl⟩

/-- The record's load fails exactly when the strict comparison reports something. -/
theorem ring_load_error_iff (name : String) (d : Dict β) (t : MState β) :
    (∃ e, ringLoad name d t = .error e) ↔ strictErrors d.tensors (ringSave name t).tensors ≠ [] := by
  unfold ringLoad
  split
  · rename_i h; simp [h]
  · rename_i h; simp
    intro h'; exact h h'

/-! ## `load_save_agrees_on_read_fields`, per component class -/

/-- RecordTensor: `_data` buffer + `_pointer` extra determine the record; record size and dtype are
configuration.  The target may hold any contents and any pointer. -/
theorem load_save_agrees_on_read_fields_ring (name : String) : Resumes (ringComp β name) := by
  intro s t t' hs ht hc hl
  obtain ⟨n, st⟩ := s
  obtain ⟨m, tt⟩ := t
  obtain ⟨hn, htag⟩ := hc
  simp only at hn
  subst hn
  show t' = (n, st)
  change MWF _ at hs ht
  change ringLoad name (ringSave name (n, st)) (n, tt) = .ok t' at hl
  cases st with
  | none =>
    cases tt <;> simp [storeTag] at htag
    simp [ringLoad, ringSave, strictErrors_nil_nil] at hl
    exact (Except.ok.inj hl).symm
  | empty d =>
    cases tt with
    | empty d' =>
      simp [storeTag] at htag; subst htag
      simp [ringLoad, ringSave, strictErrors_single] at hl
      exact (Except.ok.inj hl).symm
    | init d' sh r =>
      exfalso
      obtain ⟨h0, hw, hrn⟩ := ht
      have : r.data.length ≠ 0 := by have := hw.2.2; have := hw.1; omega
      simp [ringLoad, ringSave, strictErrors_single] at hl
      split at hl
      · rename_i h; split at h
        · rename_i h2; omega
        · cases h
      · cases hl
    | _ => simp [storeTag] at htag
  | uninit d =>
    cases tt with
    | uninit d' =>
      simp [storeTag] at htag; subst htag
      simp [ringLoad, ringSave, strictErrors_single] at hl
      exact (Except.ok.inj hl).symm
    | _ => simp [storeTag] at htag
  | init d sh r =>
    obtain ⟨h0, hw, hrn⟩ := hs
    simp only at hrn
    cases tt with
    | empty d' =>
      exfalso
      have : r.data.length ≠ 0 := by have := hw.2.2; have := hw.1; omega
      simp [ringLoad, ringSave, strictErrors_single] at hl
      split at hl
      · rename_i h; split at h
        · rename_i h2; simp_all
        · cases h
      · cases hl
    | init d' sh' r' =>
      obtain ⟨_, hw', hrn'⟩ := ht
      simp only at hrn'
      simp [storeTag] at htag; subst htag
      simp [ringLoad, ringSave, strictErrors_single, loadExtra] at hl
      split at hl
      · rename_i h; split at h
        · rename_i h2
          cases hl
          obtain ⟨_, rfl⟩ := h2
          cases r
          simp_all
          rfl
        · cases h
      · cases hl
    | _ => simp [storeTag] at htag

/-- a persistent buffer / parameter (voltage, refrac, adaptations, weight, bias, delay) -/
theorem load_save_agrees_on_read_fields_buffer (key : String) : Resumes (bufferComp β key) := by
  intro (s : Tens β) (t : Tens β) (t' : Tens β) _ _ _ hl
  show t' = s
  simp [bufferComp, strictErrors_single, List.lookup] at hl
  split at hl
  · rename_i h; split at h
    · rename_i h2
      cases hl
      cases s; simp_all
    · cases h
  · cases hl

/-- a buffer that may be `None` (`RecurrentSerial.feedback_spikes`): resumes when the load is accepted,
which requires source and target to agree on `None`-ness (see `feedback_none_vs_some_rejected`). -/
theorem load_save_agrees_on_read_fields_optBuffer (key : String) : Resumes (optBufferComp β key) := by
  intro s t t' _ _ _ hl
  show t' = s
  cases s with
  | none =>
    cases t with
    | none => simp [optBufferComp, strictErrors_nil_nil] at hl; exact (Except.ok.inj hl).symm
    | some w => simp [optBufferComp, strictErrors_nil_single] at hl
  | some v =>
    cases t with
    | none => simp [optBufferComp, strictErrors_single_nil] at hl
    | some w =>
      simp [optBufferComp, strictErrors_single, List.lookup] at hl
      split at hl
      · rename_i h; split at h
        · rename_i h2; cases hl; cases v; simp_all; rfl
        · cases h
      · cases hl

/-- the reducer's `_initial` flag and — for the cumulative-average reducer only — `_count`. -/
theorem load_save_agrees_on_read_fields_flags : Resumes flagsComp := by
  intro s t t' _ _ hc hl
  change s.hasCount = t.hasCount at hc
  change Except.ok (flagsLoad (flagsSave s) t) = .ok t' at hl
  cases hl
  show (_, _, _) = (_, _, _)
  cases s with | mk hc1 i1 c1 =>
  cases t with | mk hc2 i2 c2 =>
  simp only at hc; subst hc
  cases hc1 <;> simp [flagsLoad, flagsSave, loadExtra, List.lookup]

/-- Accumulator with pending parts, with the post-load cache invalidation. -/
theorem load_save_agrees_on_read_fields_accumulator (red : List (Tens β) → Option (Tens β)) : Resumes (accComp β red true) := by
  intro s t t' hs _ _ hl
  simp only [accComp] at hl hs
  split at hl
  · rename_i h
    cases hl
    rw [List.append_eq_nil_iff] at h
    obtain ⟨hp1, hp2⟩ := plistErrors_nil _ _ _ h.1
    obtain ⟨hn1, hn2⟩ := plistErrors_nil _ _ _ h.2
    show (_, _, _, _) = (_, _, _, _)
    simp only [copyRows_eq _ _ hp1 hp2, copyRows_eq _ _ hn1 hn2, accEff, if_true]
    obtain ⟨h1, h2⟩ := hs
    rcases h1 with h1 | h1 <;> rcases h2 with h2 | h2 <;> simp [h1, h2]
  · cases hl

/-- Accumulator WITHOUT cache invalidation on load: resumes only into a target whose reduction
caches are cold (cf. `accumulator_warm_cache_diverges`). -/
theorem load_save_agrees_on_read_fields_accumulator_cold (red : List (Tens β) → Option (Tens β)) (s t t' : Acc β)
    (hs : (accComp β red false).Inv s) (hcold : t.pc = none ∧ t.nc = none)
    (hl : (accComp β red false).load ((accComp β red false).save s) t = .ok t') :
    (accComp β red false).view t' = (accComp β red false).view s := by
  simp only [accComp] at hl hs
  split at hl
  · rename_i h
    cases hl
    rw [List.append_eq_nil_iff] at h
    obtain ⟨hp1, hp2⟩ := plistErrors_nil _ _ _ h.1
    obtain ⟨hn1, hn2⟩ := plistErrors_nil _ _ _ h.2
    show (_, _, _, _) = (_, _, _, _)
    simp only [copyRows_eq _ _ hp1 hp2, copyRows_eq _ _ hn1 hn2, accEff, hcold.1, hcold.2]
    obtain ⟨h1, h2⟩ := hs
    rcases h1 with h1 | h1 <;> rcases h2 with h2 | h2 <;> simp [h1, h2]
  · cases hl

/-- MaxRateClassifier: `rates_` is saved; the derived buffers are recomputed by the post-load hook, so
they agree with a source whose derived buffers are in sync with its rates (`Inv`). -/
theorem load_save_agrees_on_read_fields_classifier {Δ : Type} (derive : Tens β → Δ) : Resumes (clfComp β Δ derive true) := by
  intro s t t' hs _ _ hl
  change s.derived = derive s.rates at hs
  show t' = s
  simp [clfComp, strictErrors_single, List.lookup] at hl
  split at hl
  · rename_i h; split at h
    · rename_i h2; cases hl
      cases s with | mk r d =>
      cases r; simp_all; rfl
    · cases h
  · cases hl

/-! ## The machines read the state only through `view` -/

/-- the fold-reducer machine never reads `_count` unless it is the counting class -/
theorem reducer_respects (E : Elem β) (inplace : Bool) (fold : Nat → Obs β → Option (List β) → Obs β) :
    Respects (reducerComp β) (reducerStep E inplace fold) := by
  intro (s : MState β × Flags) (t : MState β × Flags) x h
  obtain ⟨ms1, f1⟩ := s
  obtain ⟨ms2, f2⟩ := t
  change (ms1, (f1.hasCount, f1.initial, if f1.hasCount then f1.count else 0)) =
         (ms2, (f2.hasCount, f2.initial, if f2.hasCount then f2.count else 0)) at h
  simp only [Prod.mk.injEq] at h
  obtain ⟨rfl, hhc, hin, hcn⟩ := h
  cases f1 with | mk hc1 i1 c1 =>
  cases f2 with | mk hc2 i2 c2 =>
  simp only at hhc hin hcn
  subst hhc hin
  cases hc1
  · -- not a counting reducer: the counts may differ but are never read
    show _ ∧ ((_, (_, _, _)) : MState β × (Bool × Bool × Nat)) = (_, (_, _, _))
    cases x with
    | peek => cases i1 <;> simp [reducerStep]
    | clear k => simp [reducerStep]
    | push x =>
      cases i1
      · simp [reducerStep]
      · simp only [reducerStep, if_true, Bool.false_eq_true, if_false]
        split <;> simp_all
  · simp only [if_true] at hcn
    subst hcn
    exact ⟨rfl, rfl⟩

/-- The reducer machine preserves the component invariant (so a checkpoint may be taken after
any number of steps). -/
theorem reducer_inv_step (E : Elem β) (inplace : Bool) (fold : Nat → Obs β → Option (List β) → Obs β)
    (s : MState β × Flags) (x : RedIn β) (h : (reducerComp β).Inv s) :
    (reducerComp β).Inv (reducerStep E inplace fold s x).1 := by
  have hw : MWF s.1 := h.1
  have st : ∀ (m : MState β) (op : Op β), MWF m → MWF (step E m op).1 :=
    fun m op hm => (ring_step_refines E m hm op).2.2
  refine ⟨?_, trivial⟩
  show MWF _
  cases x with
  | peek => simp only [reducerStep]; split <;> exact hw
  | clear k => simp only [reducerStep]; split <;> exact st _ _ hw
  | push x =>
    simp only [reducerStep]
    split
    · have ite : ∀ (b : Bool) (m₁ m₂ : MState β), MWF m₁ → MWF m₂ → MWF (if b = true then m₁ else m₂) := by
        intro b m₁ m₂ h₁ h₂; cases b <;> simpa
      have h0 := ite (match s.1.2 with | .init _ _ _ => false | _ => true)
        (step E s.1 (.initz (fold (if s.2.hasCount = true then (if s.2.hasCount = true then s.2.count + 1 else s.2.count) else 0) x none).shape)).1
        (step E s.1 (.reset (some E.zero))).1 (st _ _ hw) (st _ _ hw)
      split
      · exact h0
      · exact st _ _ h0
    · exact st _ _ hw

/-- the accumulator machine reads the caches only through their effective value -/
theorem acc_respects (red : List (Tens β) → Option (Tens β)) (b : Bool) :
    Respects (accComp β red b) (accStep red) := by
  intro (s : Acc β) (t : Acc β) x h
  change (s.pos, s.neg, accEff red s.pos s.pc, accEff red s.neg s.nc) =
    (t.pos, t.neg, accEff red t.pos t.pc, accEff red t.neg t.nc) at h
  simp only [Prod.mk.injEq] at h
  obtain ⟨h1, h2, h3, h4⟩ := h
  cases s with | mk sp sn spc snc =>
  cases t with | mk tp tn tpc tnc =>
  simp only at h1 h2 h3 h4
  subst h1 h2
  cases x <;> simp only [accStep, accComp, Prod.mk.injEq, true_and, and_true]
  · exact h4
  · exact h3
  · exact ⟨⟨h3, h4⟩, by simp only [accEff]; exact h3, by simp only [accEff]; exact h4⟩

/-- cache coherence is preserved by the accumulator machine -/
theorem acc_inv_step (red : List (Tens β) → Option (Tens β)) (b : Bool) (s : Acc β) (x : AccIn β)
    (h : (accComp β red b).Inv s) : (accComp β red b).Inv (accStep red s x).1 := by
  obtain ⟨h1, h2⟩ := h
  cases x <;> simp only [accStep, accComp] <;> refine ⟨?_, ?_⟩ <;> simp_all [accEff]
  all_goals (first | (rcases h1 with h1 | h1 <;> simp [h1]) | (rcases h2 with h2 | h2 <;> simp [h2]))

/-! ## Resume theorems per component class (the property, instance by instance) -/

/-- RecordTensor under EVERY operation sequence of C01's alphabet (push, pop, read, write, ranges,
incr/decr, align, reset, (de)initialise): restored record ≡ uninterrupted record. -/
theorem resume_equiv_ring (E : Elem β) (name : String) (s t t' : MState β)
    (hs : MWF s) (ht : MWF t) (hn : s.1 = t.1) (hd : storeTag s.2 = storeTag t.2)
    (hl : ringLoad name (ringSave name s) t = .ok t') (ops : List (Op β)) :
    (run (step E) t' ops).2 = (run (step E) s ops).2 ∧ (run (step E) t' ops).1 = (run (step E) s ops).1 :=
  resume_equiv (ringComp β name) (step E) (load_save_agrees_on_read_fields_ring name)
    (respects_of_injective _ (fun _ _ h => h) _) s t t' hs ht ⟨hn, hd⟩ hl ops

theorem reducer_resumes : Resumes (reducerComp β) :=
  compose_resumes _ _ (load_save_agrees_on_read_fields_ring "data_") load_save_agrees_on_read_fields_flags

/-- Fold reducer (any `fold`, in-place or not, counting or not), checkpoint after ANY prefix of
pushes / clears / peeks, target in an arbitrary prior state accepted by the load. -/
theorem checkpoint_anywhere_reducer (E : Elem β) (inplace : Bool) (fold : Nat → Obs β → Option (List β) → Obs β)
    (s₀ t t' : MState β × Flags) (pre post : List (RedIn β))
    (h0 : MWF s₀.1) (ht : MWF t.1)
    (hc : (reducerComp β).sameConfig (run (reducerStep E inplace fold) s₀ pre).1 t)
    (hl : (reducerComp β).load ((reducerComp β).save (run (reducerStep E inplace fold) s₀ pre).1) t = .ok t') :
    (run (reducerStep E inplace fold) s₀ pre).2 ++ (run (reducerStep E inplace fold) t' post).2 =
      (run (reducerStep E inplace fold) s₀ (pre ++ post)).2 := by
  have hinv : ∀ (xs : List (RedIn β)) (s : MState β × Flags), (reducerComp β).Inv s →
      (reducerComp β).Inv (run (reducerStep E inplace fold) s xs).1 := by
    intro xs
    induction xs with
    | nil => intro s h; exact h
    | cons x xs ih => intro s h; exact ih _ (reducer_inv_step E inplace fold s x h)
  exact checkpoint_anywhere (reducerComp β) _ reducer_resumes (reducer_respects E inplace fold)
    s₀ t t' pre post (hinv pre s₀ ⟨h0, trivial⟩) ⟨ht, trivial⟩ hc hl

/-! Neuron (`neuronComp`): voltage, refractory time and adaptations are persistent buffers; everything
else (hyper-parameters, `tc_adaptation`, `adapt_increment`, … rebuilt by the constructor) is
configuration.  Any dynamics `dyn`. -/

theorem neuron_resumes (adaptKey : String) : Resumes (neuronComp β adaptKey) :=
  compose_resumes _ _ (load_save_agrees_on_read_fields_buffer _)
    (compose_resumes _ _ (load_save_agrees_on_read_fields_buffer _) (load_save_agrees_on_read_fields_buffer _))

theorem resume_equiv_neuron {In Out : Type} (adaptKey : String)
    (dyn : Tens β × Tens β × Tens β → In → (Tens β × Tens β × Tens β) × Out)
    (s t t' : Tens β × Tens β × Tens β)
    (hl : (neuronComp β adaptKey).load ((neuronComp β adaptKey).save s) t = .ok t') (xs : List In) :
    (run dyn t' xs).2 = (run dyn s xs).2 ∧ (run dyn t' xs).1 = (run dyn s xs).1 := by
  have hinj : ∀ a b, (neuronComp β adaptKey).view a = (neuronComp β adaptKey).view b → a = b :=
    prod_view_injective _ _ (fun _ _ h => h) (prod_view_injective _ _ (fun _ _ h => h) (fun _ _ h => h))
  have := resume_equiv (neuronComp β adaptKey) dyn (neuron_resumes adaptKey)
    (respects_of_injective _ hinj dyn) s t t' ⟨trivial, trivial, trivial⟩ ⟨trivial, trivial, trivial⟩
    ⟨trivial, trivial, trivial⟩ hl xs
  exact ⟨this.1, hinj _ _ this.2⟩

/-! Synapse (`synapseComp`) with a spike record and two current records (DoubleExponentialCurrent;
the other classes have one or two records and are covered by the same composition). -/

theorem synapse_resumes : Resumes (synapseComp β) :=
  compose_resumes _ _ (load_save_agrees_on_read_fields_ring _)
    (compose_resumes _ _ (load_save_agrees_on_read_fields_ring _) (load_save_agrees_on_read_fields_ring _))

theorem resume_equiv_synapse {In Out : Type}
    (dyn : MState β × MState β × MState β → In → (MState β × MState β × MState β) × Out)
    (s t t' : MState β × MState β × MState β)
    (hs : (synapseComp β).Inv s) (ht : (synapseComp β).Inv t) (hc : (synapseComp β).sameConfig s t)
    (hl : (synapseComp β).load ((synapseComp β).save s) t = .ok t') (xs : List In) :
    (run dyn t' xs).2 = (run dyn s xs).2 ∧ (run dyn t' xs).1 = (run dyn s xs).1 := by
  have hinj : ∀ a b, (synapseComp β).view a = (synapseComp β).view b → a = b :=
    prod_view_injective _ _ (fun _ _ h => h) (prod_view_injective _ _ (fun _ _ h => h) (fun _ _ h => h))
  have := resume_equiv (synapseComp β) dyn synapse_resumes (respects_of_injective _ hinj dyn) s t t' hs ht hc hl xs
  exact ⟨this.1, hinj _ _ this.2⟩

/-- Accumulator (cache invalidated on load): after any sequence of appends / reads / clears. -/
theorem resume_equiv_accumulator (red : List (Tens β) → Option (Tens β)) (s t t' : Acc β)
    (hs : (accComp β red true).Inv s) (ht : (accComp β red true).Inv t)
    (hl : (accComp β red true).load ⟨s.pos, s.neg⟩ t = .ok t') (xs : List (AccIn β)) :
    (run (accStep red) t' xs).2 = (run (accStep red) s xs).2 :=
  (resume_equiv (accComp β red true) (accStep red) (load_save_agrees_on_read_fields_accumulator red)
    (acc_respects red true) s t t' hs ht trivial hl xs).1

/-- MaxRateClassifier: inference outputs and rates after restore equal the uninterrupted ones, from
any source state whose derived buffers are in sync. -/
theorem resume_equiv_classifier {Δ In Out : Type} (derive : Tens β → Δ) (infer : Δ → In → Out)
    (upd : Tens β → In → Tens β) (s t t' : Clf β Δ) (hs : s.derived = derive s.rates) (ht : t.derived = derive t.rates)
    (hl : (clfComp β Δ derive true).load ((clfComp β Δ derive true).save s) t = .ok t') (xs : List In) :
    (run (clfStep derive infer upd) t' xs).2 = (run (clfStep derive infer upd) s xs).2 :=
  (resume_equiv (clfComp β Δ derive true) (clfStep derive infer upd) (load_save_agrees_on_read_fields_classifier derive)
    (respects_of_injective _ (fun _ _ h => h) _) s t t' hs ht trivial hl xs).1

/-! ## The excluded cases are rejected, not silently accepted -/

/-- `RecurrentSerial.feedback_spikes` (candidate D27): a source that has taken a step (buffer set)
cannot be loaded into a target that has not (buffer `None`) — `unexpected key` … -/
theorem feedback_some_into_none_rejected (key : String) (v : Tens β) :
    (optBufferComp β key).load ((optBufferComp β key).save (some v)) none = .error [LoadErr.unexpected key] := by
  simp [optBufferComp, strictErrors_single_nil]

/-- … nor the other way round (`missing key`). -/
theorem feedback_none_into_some_rejected (key : String) (w : Tens β) :
    (optBufferComp β key).load ((optBufferComp β key).save none) (some w) = .error [LoadErr.missing key] := by
  simp [optBufferComp, strictErrors_nil_single]

/-- A lazily shaped record that has not seen a step (`torch.empty(0)`) and one that has
(`recordsz × shape`) are told apart by the shape check, in both directions. -/
theorem lazy_record_shape_rejected (name : String) (n : Nat) (d d' : DType) (sh : List Nat) (r : Ring (List β))
    (hw : r.WF) :
    (∃ e, ringLoad name (ringSave name (n, .empty d)) (n, .init d' sh r) = .error e) ∧
    (∃ e, ringLoad name (ringSave name (n, .init d' sh r)) (n, .empty d) = .error e) := by
  have hne : r.data.length ≠ 0 := by have := hw.2.2; have := hw.1; omega
  constructor
  · rw [ring_load_error_iff]
    simp [ringSave, strictErrors_single]
    intro h; exact absurd h.symm hne
  · rw [ring_load_error_iff]
    simp [ringSave, strictErrors_single]
    intro h; exact absurd (by simp [h]) hne

/-- Pending accumulator parts are structural: a different number of pending parts is a key
mismatch. -/
theorem accumulator_pending_mismatch_rejected (red : List (Tens β) → Option (Tens β)) (b : Bool) (s t : Acc β)
    (h : s.pos.length ≠ t.pos.length) : ∃ e, (accComp β red b).load ⟨s.pos, s.neg⟩ t = .error e := by
  simp only [accComp]
  split
  · rename_i he
    rw [List.append_eq_nil_iff] at he
    exact absurd (plistErrors_nil _ _ _ he.1).1 h
  · exact ⟨_, rfl⟩

/-! ## Necessity of the hypotheses (mutants / findings in model form; concrete witnesses) -/

/-- Dropping the classifier's post-load hook breaks `Resumes`: the derived buffers of the target
survive the load.  (`derive` = number of rows.) -/
theorem classifier_without_hook_diverges :
    ¬ Resumes (clfComp Nat Nat (fun r => r.rows.length) false) := by
  intro h
  have h2 := h ⟨⟨[2], [[5], [6]]⟩, 2⟩ ⟨⟨[2], []⟩, 0⟩ ⟨⟨[2], [[5], [6]]⟩, 0⟩ rfl rfl trivial (by
    simp [clfComp, strictErrors_single, List.lookup])
  cases h2

/-- A classifier state whose derived buffers are NOT in sync with its rates (the freshly constructed
classifier before D31 was repaired: `occurrences_ = 0` although `bincount(argmax(0)) = [n, 0, …]`) is
not reproduced by save + load: finding key `C12:classifier:fresh-derived-buffers`. -/
theorem fresh_classifier_not_invariant :
    ∃ s t' : Clf Nat Nat, (clfComp Nat Nat (fun r => r.rows.length) true).load
        ((clfComp Nat Nat (fun r => r.rows.length) true).save s) s = .ok t' ∧ t' ≠ s :=
  ⟨⟨⟨[2], [[0], [0]]⟩, 0⟩, ⟨⟨[2], [[0], [0]]⟩, 2⟩, by simp [clfComp, strictErrors_single, List.lookup], by simp⟩

/-- Without cache invalidation on load (the code before D32 was repaired), a target whose reduction
cache is warm keeps applying its OWN stale reduction: finding key
`C12:accumulator:stale-reduction-cache`.  (`red` = first part.) -/
theorem accumulator_warm_cache_diverges :
    ∃ (s t t' : Acc Nat), (accComp Nat List.head? false).Inv s ∧ (accComp Nat List.head? false).Inv t ∧
      (accComp Nat List.head? false).load ⟨s.pos, s.neg⟩ t = .ok t' ∧
      (run (accStep List.head?) t' [.read]).2 ≠ (run (accStep List.head?) s [.read]).2 := by
  refine ⟨⟨[⟨[1], [[1]]⟩], [], none, none⟩, ⟨[⟨[1], [[2]]⟩], [], some (some ⟨[1], [[2]]⟩), none⟩,
    ⟨[⟨[1], [[1]]⟩], [], some (some ⟨[1], [[2]]⟩), none⟩, ?_, ?_, ?_, ?_⟩
  · simp [accComp]
  · simp [accComp]
  · simp [accComp, plistErrors, copyRows]
  · simp [run, accStep, accEff]

/-- The pointer must be saved: two records with the same contents and different write positions
answer `read 1` differently, so a `save` without the pointer could not resume. -/
theorem pointer_is_read : (Ring.read (⟨3, 0, [10, 20, 30]⟩ : Ring Nat) 1) ≠ Ring.read ⟨3, 1, [10, 20, 30]⟩ 1 := by
  decide

/-! ## Non-vacuity: concrete states meeting the hypotheses -/

/-- a 3-slot record mid-wrap loaded into a target with other contents and another pointer -/
def exSrc : MState Nat := (3, .init false [1] ⟨3, 2, [[10], [20], [30]]⟩)
def exTgt : MState Nat := (3, .init false [1] ⟨3, 1, [[7], [8], [9]]⟩)
example : MWF exSrc := by refine ⟨by decide, ?_, rfl⟩; unfold Ring.WF; decide
example : MWF exTgt := by refine ⟨by decide, ?_, rfl⟩; unfold Ring.WF; decide
example : ringLoad "x" (ringSave "x" exSrc) exTgt = .ok exSrc := by
  simp [ringLoad, ringSave, exSrc, exTgt, strictErrors_single, loadExtra]
example : (ringSave "x" exSrc).keys = ["T:_x_data", "E:_x_pointer"] := by
  simp [ringSave, exSrc, Dict.keys, dataKey, ptrKey]
/-- a counting reducer after two pushes, restored into one that has seen one other push -/
example : flagsLoad (flagsSave ⟨true, false, 2⟩) ⟨true, false, 1⟩ = ⟨true, false, 2⟩ := by
  simp [flagsLoad, flagsSave, loadExtra, List.lookup]
/-- an accumulator with two positive and one negative pending part loads into one with the same
structure and other values -/
example : (accComp Nat List.head? true).load ⟨[⟨[1], [[1]]⟩, ⟨[1], [[2]]⟩], [⟨[1], [[3]]⟩]⟩
    ⟨[⟨[1], [[0]]⟩, ⟨[1], [[0]]⟩], [⟨[1], [[0]]⟩], some none, none⟩ =
    .ok ⟨[⟨[1], [[1]]⟩, ⟨[1], [[2]]⟩], [⟨[1], [[3]]⟩], none, none⟩ := by
  rfl

end InfernoVerif.Persist
