import InfernoVerif.Gen.MathProg
import InfernoVerif.Lemmas.Isi
import InfernoVerif.Lemmas.VP
/-!
# Glue (C20, statement level): the regenerated bodies of `isi` and `victor_purpura_pair_dist` ARE the models

`Gen/MathProg.lean` is regenerated on every run by `harness/progtx_math.py` from the WHOLE BODIES of the two
module-level functions of `inferno/core/math.py` (control flow, the order of the tensor operations, slices, pad widths,
loop bounds, index arithmetic, the exception class of every primitive — vocabulary `Gen/MathPrelude.lean`).  The
theorems of this file state that running the generated program is exactly the hand-written code-shaped function the
property theorems of `Props/C20.lean` are about:

* `gen_isi_time_last`, `gen_isi_time_first`: `MathProg.isi` on a raster with at least one train returns (never raises)
  the matrix whose rows are `Isi.isi n spikes dt time_first` (`Model/Isi.lean`, the model `isi_refines_time_last` /
  `isi_refines_time_first` relate to the specification), with its shape.  `gen_isi_no_trains`: with zero trains the
  generated program raises `RuntimeError` (from `view`), the case the model's theorems exclude (`spikes ≠ []`, `0 < n`).
* `gen_vp_pair`: all three branches of `MathProg.victor_purpura_pair_dist` (Python-float cost `0.0`, Python-float cost
  `inf`, the dynamic programme — reached with a tensor cost or any other float cost) return the one-element tensor
  holding `VP.victor_purpura_pair_dist t0 t1 cost tensor` (`Model/VP.lean`, the function `vp_eq_recurrence` relates to the
  recurrence).  `gen_vp_pair_costs`: for a cost TENSOR of any length `k`, entry by entry (the model has one cost; the
  code carries `k` grids at once).

## What the abstraction functions / hypotheses hide (nothing else is)

* `isi`: the raster is 2-D, `Mat Bool` with its declared shape; the hypotheses are `rows.length = nrows` (time-last)
  and `0 < n`.  The model's batch flattening is the translator's restriction to one batch dimension.
* `victor_purpura_pair_dist`: spike times are finite (`t.map Val.fin`), a cost is `toVal q` (`Cost.fin q ↦ q`,
  `Cost.top ↦ +∞`; negative finite costs included, NaN costs not).  `hf : |t0| + |t1| ≤ fmax`, where `fmax` is the
  greatest finite value of the dtype: the code's `nan_to_num(nan=inf)` maps `NaN ↦ +∞` but ALSO `+∞ ↦ fmax` (its
  `posinf` is left at `None`), so with an infinite cost the shift candidate of two non-coincident spikes is `fmax`,
  not `+∞` as the doc comment of `Model/VP.lean` says; it loses the `amin` against `grid[r-1, c] + 1 ≤ r + c` exactly
  when `hf` holds (float32: up to 3.4e38 spikes).  Rounding is not modelled (exact rationals, as in the model).
* The grid is stored cost-axis-innermost (`Grid3`); the proof of the dynamic programme keeps the invariant "every
  cell the loops have passed holds `vpRec` of the two (reversed) prefixes, for every cost" (`GridInv`), uses
  `vpRec_upper` for the `fmax` comparison and `victor_purpura_pair_dist_eq_vpRec` (`Lemmas/VP.lean`) to land on the
  code-shaped model.

A change of a method body in /repo changes `Gen/MathProg.lean`; the theorems below are then re-checked against the new
text (a flipped condition, a dropped statement, a changed index or pad width makes `split_eq_pieces`, `gen_isi_*`,
`cell_step` / `gen_vp_k1` or `gen_vp_pair` fail).
-/
namespace InfernoVerif.MathGlue
open InfernoVerif InfernoVerif.Gen InfernoVerif.Gen.MathPrelude InfernoVerif.Isi InfernoVerif.VP

variable {α β γ δ : Type}

/-! # `isi` -/

/-- the column coordinates of `torch.nonzero` of the rows are the rows' `nzFrom 0`, concatenated -/
theorem lastCoord_nonzeroRowsFrom (i : Nat) (rows : List (List Bool)) :
    (nonzeroRowsFrom i rows).map (·.2) = rows.flatMap (nzFrom 0) := by
  induction rows generalizing i with
  | nil => rfl
  | cons r rs ih => simp [nonzeroRowsFrom, ih, List.map_map, Function.comp_def]

/-- statements 3–4 of `isi`: `torch.nonzero(F.pad(spikes, (1, 0), value=True))[..., -1]` is the model's `nonzeroLast` of the `padRow`ed rows -/
theorem nz_of_pad (m : Mat Bool) :
    lastCoord2 (torch_nonzero2 (F_pad m 1 0 true)) = nonzeroLast (m.rows.map padRow) := by
  simp [lastCoord2, torch_nonzero2, lastCoord_nonzeroRowsFrom, F_pad, nonzeroLast, padRow, List.flatMap_map]

/-- `torch.nonzero(torch.logical_not(nz)).view(-1)` is the model's `zeroPos` -/
theorem zeroPos_eq (off : Nat) (nz : List Nat) :
    ((nzFrom off (nz.map fun a => a == 0)).map fun i => [i]).flatten = zeroPos off nz := by
  induction nz generalizing off with
  | nil => rfl
  | cons v vs ih => by_cases h : v = 0 <;> simp [nzFrom, zeroPos, h, ih]

/-- `torch.diff` shortens a row by one -/
theorem diffOpt_length : ∀ l : List (Option Rat), (diffOpt l).length = l.length - 1
  | [] => rfl
  | [_] => rfl
  | a :: b :: t => by simp [diffOpt, diffOpt_length (b :: t)]

/-- reshaping the row-major flattening of `rows` (all of width `w`) back to `rows.length × w` is the identity -/
theorem reshapeRows_flatten (w : Nat) (rows : List (List α)) (h : ∀ r ∈ rows, r.length = w) :
    reshapeRows rows.length w rows.flatten = rows := by
  induction rows with
  | nil => rfl
  | cons r rs ih =>
    have hr : r.length = w := h r (by simp)
    have ih' := ih (fun x hx => h x (by simp [hx]))
    simp only [reshapeRows, List.length_cons, List.range_succ_eq_map, List.map_cons, List.map_map,
      List.flatten_cons]
    congr 1
    · simp [hr]
    · conv => rhs; rw [← ih']
      unfold reshapeRows
      apply List.map_congr_left
      intro i _
      have : (i + 1) * w = r.length + i * w := by rw [hr, Nat.add_mul]; omega
      simp only [Function.comp, Nat.succ_eq_add_one, this, List.drop_append]
      rw [List.drop_of_length_le (by omega)]
      simp

/-- `maxLen` of a non-empty list of rows of one width -/
theorem maxLen_const (l : List (List α)) (w : Nat) (hne : l ≠ []) (h : ∀ r ∈ l, r.length = w) :
    maxLen l = w := by
  induction l with
  | nil => exact absurd rfl hne
  | cons a l ih =>
    have ha := h a (by simp)
    cases l with
    | nil => simp [maxLen, ha]
    | cons b l =>
      have := ih (by simp) (fun r hr => h r (by simp [hr]))
      simp only [maxLen] at this ⊢
      omega

/-- `view(n, -1)` of an `n × w` tensor (`n > 0`) is the identity. -/
theorem view_m1_id (M : Mat α) (n : Nat) (hn : 0 < n) (hr : M.nrows = n) (hl : M.rows.length = n)
    (hw : ∀ r ∈ M.rows, r.length = M.ncols) : M.view_m1 n = .ok ⟨n, M.ncols, M.rows⟩ := by
  unfold Mat.view_m1
  have h1 : ¬ (n = 0 ∨ M.nrows * M.ncols % n ≠ 0) := by
    rw [hr]; simp [Nat.mul_mod_right]; omega
  simp only [h1, if_false]
  have h2 : M.nrows * M.ncols / n = M.ncols := by rw [hr]; exact Nat.mul_div_cancel_left _ hn
  rw [h2]
  have := reshapeRows_flatten M.ncols M.rows hw
  rw [hl] at this
  rw [this]; rfl


/-! ## `isi` -/

/-- the tuple `tensor_split` returns in `isiLast` (its third and fourth statements) -/
def pieces (rows : List (List Bool)) (dt : Rat) : List (List Rat) :=
  tensorSplit ((nonzeroLast (rows.map padRow)).map fun (v : Nat) => (((v : Int) - 1 : Int) : Rat) * dt)
    ((zeroPos 0 (nonzeroLast (rows.map padRow))).drop 1)

/-- `isiLast` from its fourth statement on, in terms of `pieces` -/
theorem isiLast_eq_pieces (rows : List (List Bool)) (dt : Rat) :
    isiLast rows dt = ((padSequence (pieces rows dt)).map (·.drop 1)).map diffOpt := rfl

/-- statements 3–6 of the generated `isi` (pad, `nonzero`, the split indices `…tolist()[1:]`, `(nz - 1) * step_time`, `tensor_split`) compute the model's `pieces` -/
theorem split_eq_pieces (m : Mat Bool) (dt : Rat) :
    torch_tensor_split (mulIQ (subNS (lastCoord2 (torch_nonzero2 (F_pad m 1 0 true))) (1 : Int)) (pyFloatQ dt))
      (pySliceFrom (tolist (view_flat (torch_nonzero1 (torch_logical_not_n
        (lastCoord2 (torch_nonzero2 (F_pad m 1 0 true))))))) 1) = pieces m.rows dt := by
  rw [nz_of_pad]
  simp only [torch_tensor_split, pySliceFrom, tolist, view_flat, torch_nonzero1, torch_logical_not_n, zeroPos_eq,
    mulIQ, subNS, pyFloatQ, List.map_map, pieces]
  rfl

/-- `tensor_split` never returns an empty tuple (so `pad_sequence` does not raise) -/
theorem pieces_ne_nil (rows : List (List Bool)) (dt : Rat) : pieces rows dt ≠ [] := by
  unfold pieces tensorSplit
  generalize List.drop 1 _ = s
  cases s <;> simp [tensorSplitFrom]

/-- one piece per train (`split_recovers_rows`) -/
theorem pieces_length (row : List Bool) (rows : List (List Bool)) (dt : Rat) :
    (pieces (row :: rows) dt).length = (row :: rows).length := by
  unfold pieces
  rw [tensorSplit, tensorSplitFrom_map, ← tensorSplit, split_recovers_rows]
  simp

/-- the result of the model is rectangular: every row has the width `maxLen pieces - 2` -/
theorem isiLast_row_length (rows : List (List Bool)) (dt : Rat) :
    ∀ r ∈ isiLast rows dt, r.length = maxLen (pieces rows dt) - 1 - 1 := by
  intro r hr
  rw [isiLast_eq_pieces] at hr
  simp only [List.map_map, padSequence, List.mem_map, Function.comp] at hr
  obtain ⟨s, hs, rfl⟩ := hr
  have := maxLen_le _ s hs
  simp only [diffOpt_length, List.length_drop, List.length_append, List.length_map, List.length_replicate]
  omega

/-- `pad_sequence(seqs, batch_first=True, padding_value=nan)` on a non-empty tuple is the model's `padSequence`, with its shape -/
theorem pad_sequence_ok (seqs : List (List Rat)) (h : seqs ≠ []) :
    pad_sequence seqs none = .ok ⟨seqs.length, maxLen seqs, padSequence seqs⟩ := by
  cases seqs with
  | nil => exact absurd rfl h
  | cons a l => rfl

/-- `[:, 1:]`, `torch.diff(…, dim=-1)` and `view(*spikes.shape[:-1], -1)` on the padded pieces of a raster with
`n > 0` trains: the model's `isiLast`, as an `n × W` tensor (`view` is the identity: one piece per train, one width) -/
theorem isi_core (m : Mat Bool) (hl : m.rows.length = m.nrows) (hn : 0 < m.nrows) (dt : Rat) :
    (torch_diff_last (Mat.sliceColsFrom ⟨(pieces m.rows dt).length, maxLen (pieces m.rows dt),
        padSequence (pieces m.rows dt)⟩ 1)).view_m1 m.nrows
      = .ok ⟨m.nrows, maxLen (isiLast m.rows dt), isiLast m.rows dt⟩ := by
  obtain ⟨row, rows, hrr⟩ := List.exists_cons_of_ne_nil (l := m.rows) (by
    intro h; rw [h] at hl; simp at hl; omega)
  have hlen : (isiLast m.rows dt).length = m.nrows := by
    rw [isiLast_eq_pieces]; simp only [List.length_map, padSequence]
    rw [hrr, pieces_length, ← hrr, hl]
  have hne : isiLast m.rows dt ≠ [] := by
    intro h; rw [h] at hlen; simp at hlen; omega
  have hW := maxLen_const _ _ hne (isiLast_row_length m.rows dt)
  have := view_m1_id (torch_diff_last (Mat.sliceColsFrom ⟨(pieces m.rows dt).length, maxLen (pieces m.rows dt),
        padSequence (pieces m.rows dt)⟩ 1)) m.nrows hn
    (by simp only [torch_diff_last, Mat.sliceColsFrom]; rw [hrr, pieces_length, ← hrr, hl])
    hlen (isiLast_row_length m.rows dt)
  rw [this, hW]
  rfl

/-- GLUE, `isi(spikes, step_time, time_first=False)`: on an `n × T` raster (`n > 0` trains, the rows agreeing with the
declared number of rows) the regenerated body returns — it does not raise — the `n × W` tensor whose rows are the
model's `Isi.isi n spikes dt false` (`= isiLast`), `W = maxLen` of these rows (all of one width). -/
theorem gen_isi_time_last (spikes : Mat Bool) (hl : spikes.rows.length = spikes.nrows) (hn : 0 < spikes.nrows)
    (dt : Rat) :
    MathProg.isi spikes dt false
      = .ok ⟨spikes.nrows, maxLen (isiLast spikes.rows dt), Isi.isi spikes.nrows spikes.rows dt false⟩ := by
  simp only [MathProg.isi, split_eq_pieces, Bool.false_eq_true, if_false,
    pad_sequence_ok _ (pieces_ne_nil _ _), bind, Except.bind, isi_core spikes hl hn dt, pure, Except.pure, Isi.isi]

/-- GLUE, `isi(spikes, step_time, time_first=True)`: on a `T × n` raster (`n > 0` trains; the rows may even be ragged,
`transposeN` reads `n` columns) the regenerated body returns the `W × n` tensor whose rows are the model's
`Isi.isi n spikes dt true` — transpose in, the same statements, `view`, transpose out. -/
theorem gen_isi_time_first (spikes : Mat Bool) (hn : 0 < spikes.ncols) (dt : Rat) :
    MathProg.isi spikes dt true
      = .ok ⟨maxLen (isiLast (transposeN spikes.ncols spikes.rows) dt), spikes.ncols,
          Isi.isi spikes.ncols spikes.rows dt true⟩ := by
  have hl : (rearrange_time_last spikes).rows.length = (rearrange_time_last spikes).nrows := by
    simp [rearrange_time_last, Mat.transpose, transposeN]
  have := isi_core (rearrange_time_last spikes) hl hn dt
  simp only [MathProg.isi, split_eq_pieces, if_true,
    pad_sequence_ok _ (pieces_ne_nil _ _), bind, Except.bind, this, pure, Except.pure, Isi.isi]
  rfl

/-- `view(0, -1)` raises -/
theorem view_m1_zero (M : Mat α) : M.view_m1 0 = .error .RuntimeError := by
  simp [Mat.view_m1, throw, throwThe, MonadExceptOf.throw]

/-- With ZERO trains (`n = 0`: the case `isi_refines_time_last` / `isi_refines_time_first` exclude) the regenerated
body raises `RuntimeError`: every statement up to `torch.diff` succeeds (`tensor_split` returns one empty piece) and
`view(0, -1)` fails, in both layouts. -/
theorem gen_isi_no_trains (spikes : Mat Bool) (dt : Rat) (time_first : Bool)
    (h0 : (if time_first then spikes.ncols else spikes.nrows) = 0) :
    MathProg.isi spikes dt time_first = .error .RuntimeError := by
  cases time_first with
  | false =>
    simp only [Bool.false_eq_true, if_false] at h0
    simp only [MathProg.isi, split_eq_pieces, Bool.false_eq_true, if_false,
      pad_sequence_ok _ (pieces_ne_nil _ _), bind, Except.bind, h0, view_m1_zero]
  | true =>
    simp only [if_true] at h0
    have h1 : (rearrange_time_last spikes).nrows = 0 := h0
    simp only [MathProg.isi, split_eq_pieces, if_true,
      pad_sequence_ok _ (pieces_ne_nil _ _), bind, Except.bind, h1, view_m1_zero]

-- non-vacuity: two trains with three and one spike(s), `dt = 1/2`, both layouts (the real function returns the same)
example : MathProg.isi ⟨2, 4, [[true, false, true, true], [false, true, false, false]]⟩ (1/2) false
    = .ok ⟨2, 2, [[some 1, some (1/2)], [none, none]]⟩ := by decide +kernel
example : MathProg.isi ⟨4, 2, [[true, false], [false, true], [true, false], [true, false]]⟩ (1/2) true
    = .ok ⟨2, 2, [[some 1, none], [some (1/2), none]]⟩ := by decide +kernel

/-! # `victor_purpura_pair_dist` -/

/-! ## Python indexing -/

/-- a non-negative in-range Python index -/
theorem pyIdx_nat (len i : Nat) (h : i < len) : pyIdx len (i : Int) = some i := by
  unfold pyIdx
  have : (0 : Int) ≤ i ∧ (i : Int) < len := by omega
  simp [this]

/-- the Python index `-1` -/
theorem pyIdx_neg_one (len : Nat) (h : 0 < len) : pyIdx len (-1) = some (len - 1) := by
  unfold pyIdx
  have h1 : ¬ ((0 : Int) ≤ -1 ∧ (-1 : Int) < len) := by omega
  have h2 : -(len : Int) ≤ -1 ∧ (-1 : Int) < 0 := by omega
  simp only [h1, h2, if_false, if_true, and_self]
  congr 1; omega

/-- `x[z]` for an in-range `z ≥ 0` -/
theorem getE_nat (l : List α) (z : Int) (i : Nat) (hz : z = i) (v : α) (h : l[i]? = some v) :
    getE l z = .ok v := by
  subst hz
  have hi : i < l.length := by
    rcases Nat.lt_or_ge i l.length with h' | h'
    · exact h'
    · rw [List.getElem?_eq_none h'] at h; cases h
  simp [getE, pyIdx_nat _ _ hi, h, pure, Except.pure]

/-- `x[-1]` -/
theorem getE_neg_one (l : List α) (v : α) (h : l[l.length - 1]? = some v) : getE l (-1) = .ok v := by
  have hl : 0 < l.length := by
    rcases Nat.lt_or_ge 0 l.length with h' | h'
    · exact h'
    · rw [List.getElem?_eq_none (by omega)] at h; cases h
  simp [getE, pyIdx_neg_one _ hl, h, pure, Except.pure]

/-- `x[z] = v` for an in-range `z ≥ 0` -/
theorem setE_nat (l : List α) (z : Int) (i : Nat) (hz : z = i) (hi : i < l.length) (v : α) :
    setE l z v = .ok (l.set i v) := by
  subst hz
  simp [setE, pyIdx_nat _ _ hi, pure, Except.pure]

/-- a right-hand side of the right length is assigned as it is -/
theorem expandTo_eq (x : List α) : expandTo x.length x = .ok x := by simp [expandTo, pure, Except.pure]

/-! ## cells of the grid -/

/-- `grid[:, i, j]` as an option -/
def cellAt (g : Grid3) (i j : Nat) : Option (List Val) := (g[i]?).bind (·[j]?)

/-- `grid[:, r, c]` for in-range `r, c ≥ 0` -/
theorem sel_rc_of (g : Grid3) (r c : Int) (i j : Nat) (hr : r = i) (hc : c = j) (v : List Val)
    (h : cellAt g i j = some v) : sel_rc g r c = .ok v := by
  unfold cellAt at h
  cases hrow : g[i]? with
  | none => rw [hrow] at h; cases h
  | some row =>
    rw [hrow] at h
    simp only [Option.bind_some] at h
    simp only [sel_rc, getE_nat g r i hr row hrow, bind, Except.bind, getE_nat row c j hc v h]

/-- `grid[:, i, j] = v` on the representation -/
def setCell (g : Grid3) (i j : Nat) (v : List Val) : Grid3 :=
  match g[i]? with
  | some row => g.set i (row.set j v)
  | none => g

/-- `grid[:, r, c] = v` for in-range `r, c ≥ 0` and `v` of the length of the cost axis -/
theorem set_rc_of (g : Grid3) (r c : Int) (i j : Nat) (hr : r = i) (hc : c = j) (old v : List Val)
    (h : cellAt g i j = some old) (hv : v.length = old.length) : set_rc g r c v = .ok (setCell g i j v) := by
  unfold cellAt at h
  cases hrow : g[i]? with
  | none => rw [hrow] at h; cases h
  | some row =>
    rw [hrow] at h
    simp only [Option.bind_some] at h
    have hi : i < g.length := by
      rcases Nat.lt_or_ge i g.length with h' | h'
      · exact h'
      · rw [List.getElem?_eq_none h'] at hrow; cases hrow
    have hj : j < row.length := by
      rcases Nat.lt_or_ge j row.length with h' | h'
      · exact h'
      · rw [List.getElem?_eq_none h'] at h; cases h
    simp only [set_rc, getE_nat g r i hr row hrow, bind, Except.bind, getE_nat row c j hc old h, ← hv,
      expandTo_eq, setE_nat row c j hc hj, setE_nat g r i hr hi, setCell, hrow]

/-- an index assignment keeps the number of rows -/
theorem setCell_length (g : Grid3) (i j : Nat) (v : List Val) : (setCell g i j v).length = g.length := by
  unfold setCell; split <;> simp

/-- an index assignment keeps the width of every row -/
theorem setCell_row_length (g : Grid3) (i j : Nat) (v : List Val) (w : Nat)
    (h : ∀ (i' : Nat) (row : List (List Val)), g[i']? = some row → row.length = w) :
    ∀ (i' : Nat) (row : List (List Val)), (setCell g i j v)[i']? = some row → row.length = w := by
  intro i' row hrow
  unfold setCell at hrow
  split at hrow
  · rename_i r hr
    rw [List.getElem?_set] at hrow
    split at hrow
    · split at hrow
      · cases hrow; simp [h i r hr]
      · cases hrow
    · exact h i' row hrow
  · exact h i' row hrow

/-- reading the cell just written -/
theorem cellAt_setCell_same (g : Grid3) (i j : Nat) (old v : List Val) (h : cellAt g i j = some old) :
    cellAt (setCell g i j v) i j = some v := by
  unfold cellAt at h ⊢
  cases hrow : g[i]? with
  | none => rw [hrow] at h; cases h
  | some row =>
    rw [hrow] at h
    simp only [Option.bind_some] at h
    have hi : i < g.length := by
      rcases Nat.lt_or_ge i g.length with h' | h'
      · exact h'
      · rw [List.getElem?_eq_none h'] at hrow; cases hrow
    have hj : j < row.length := by
      rcases Nat.lt_or_ge j row.length with h' | h'
      · exact h'
      · rw [List.getElem?_eq_none h'] at h; cases h
    obtain ⟨_, hgi⟩ := List.getElem?_eq_some_iff.mp hrow
    simp [setCell, hi, hj, hgi]

/-- reading another cell than the one just written -/
theorem cellAt_setCell_other (g : Grid3) (i j i' j' : Nat) (v : List Val) (h : i' ≠ i ∨ j' ≠ j) :
    cellAt (setCell g i j v) i' j' = cellAt g i' j' := by
  unfold cellAt setCell
  cases hrow : g[i]? with
  | none => rfl
  | some row =>
    simp only [List.getElem?_set]
    by_cases hi : i = i'
    · subst hi
      have hj : j' ≠ j := by rcases h with h | h; exact absurd rfl h; exact h
      simp only [if_true]
      split
      · simp [hrow, Ne.symm hj]
      · rename_i hlt
        rw [List.getElem?_eq_none (by omega)]
    · simp [hi]

/-- the abstraction function on costs: `Cost.fin q ↦ q`, `Cost.top ↦ +∞` -/
def toVal : Cost → Val
  | .fin q => .fin q
  | .top => .pinf

/-! ## `for i in range(a, a + cnt)` with an invariant -/

/-- `range(a, a + cnt)` -/
theorem pyRange_eq (a : Int) (cnt : Nat) : pyRange a (a + cnt) = (List.range' 0 cnt).map fun (i : Nat) => a + (i : Int) := by
  unfold pyRange
  have : (a + (cnt : Int) - a).toNat = cnt := by omega
  rw [this, List.range_eq_range']

/-- invariant rule for a `for` loop, from an arbitrary start -/
theorem foldlM_range'_inv {σ : Type} (f : σ → Int → Except Err σ) (a : Int) (P : Nat → σ → Prop) :
    ∀ (cnt s : Nat) (s0 : σ), P s s0 →
      (∀ i st, s ≤ i → i < s + cnt → P i st → ∃ st', f st (a + (i : Int)) = .ok st' ∧ P (i + 1) st') →
      ∃ st', ((List.range' s cnt).map fun (i : Nat) => a + (i : Int)).foldlM f s0 = .ok st' ∧ P (s + cnt) st' := by
  intro cnt
  induction cnt with
  | zero => intro s s0 h0 _; exact ⟨s0, rfl, h0⟩
  | succ cnt ih =>
    intro s s0 h0 hstep
    obtain ⟨s1, hf, h1⟩ := hstep s s0 (Nat.le_refl _) (by omega) h0
    obtain ⟨s2, hf2, h2⟩ := ih (s + 1) s1 h1 (fun i st hi hi' hP => hstep i st (by omega) (by omega) hP)
    refine ⟨s2, ?_, by rw [show s + (cnt + 1) = s + 1 + cnt by omega]; exact h2⟩
    simp only [List.range'_succ, List.map_cons, List.foldlM_cons, hf, bind, Except.bind]
    exact hf2

/-- a `for` loop over `range(a, a + cnt)` that keeps an invariant succeeds and ends in a state satisfying it -/
theorem foldlM_pyRange_inv {σ : Type} (f : σ → Int → Except Err σ) (a b : Int) (cnt : Nat) (hb : b = a + cnt)
    (P : Nat → σ → Prop) (s0 : σ) (h0 : P 0 s0)
    (hstep : ∀ i st, i < cnt → P i st → ∃ st', f st (a + (i : Int)) = .ok st' ∧ P (i + 1) st') :
    ∃ st', (pyRange a b).foldlM f s0 = .ok st' ∧ P cnt st' := by
  subst hb
  rw [pyRange_eq]
  have := foldlM_range'_inv f a P cnt 0 s0 h0 (fun i st _ hi hP => hstep i st (by omega) hP)
  simpa using this

/-! ## one cell -/

/-- `amin` of two finite values is the model's `minQ` -/
theorem fin_min (a b : Rat) : Val.min (.fin a) (.fin b) = .fin (minQ a b) := by
  by_cases h : a ≤ b <;> simp [Val.min, Val.le, minQ, h]

/-- ONE entry of `torch.stack((c_add_a, c_add_b, c_shift), 0).nan_to_num(nan=inf).amin(0)` is the model's `min3 … (shiftCost q x y)`: for a finite cost by arithmetic, for `q = ∞` because `∞ · 0 = NaN ↦ +∞` and `∞ · Δ = +∞ ↦ fmax`, which loses against `minQ a b ≤ fmax` -/
theorem cell_value (fmax a b d x y : Rat) (q : Cost) (hb : minQ a b ≤ fmax) :
    Val.min (Val.min (Val.nan_to_num fmax .pinf (.fin a)) (Val.nan_to_num fmax .pinf (.fin b)))
      (Val.nan_to_num fmax .pinf (Val.add (.fin d) (Val.mul (toVal q) (Val.abs (Val.sub (.fin x) (.fin y))))))
    = .fin (min3 a b d (shiftCost q x y)) := by
  have hs : Val.abs (Val.sub (.fin x) (.fin y)) = .fin (absQ (x - y)) := by
    simp [Val.sub, Val.neg, Val.add, Val.abs, sub_eq_add_neg]
  rw [hs]
  simp only [Val.nan_to_num, fin_min]
  cases q with
  | fin q => simp only [toVal, Val.mul, Val.add, fin_min, shiftCost, min3]
  | top =>
    simp only [toVal, Val.mul, Val.scaleInf, shiftCost, min3]
    have h0 := absQ_nonneg (x - y)
    by_cases hz : absQ (x - y) = 0
    · simp [hz, Val.add, Val.min, Val.le]
    · have hp : 0 < absQ (x - y) := lt_of_le_of_ne h0 (Ne.symm hz)
      simp only [hz, hp, if_false, if_true, Val.add, fin_min]
      congr 1
      generalize minQ a b = mab at hb
      simp [minQ, hb]

/-- `zipWith` of two maps of one list -/
theorem zipWith_map_same (F : β → γ → δ) (f : α → β) (g : α → γ) (l : List α) :
    List.zipWith F (l.map f) (l.map g) = l.map fun a => F (f a) (g a) := by
  induction l with
  | nil => rfl
  | cons a l ih => simp [ih]

/-- `v + 1` on a cost vector -/
theorem addSI_map (qs : List Cost) (A : Cost → Rat) :
    addSI (qs.map fun q => Val.fin (A q)) (1 : Int) = qs.map fun q => Val.fin (A q + 1) := by
  simp [addSI, Val.add, List.map_map, Function.comp_def]

/-- `cost * s` on the cost vector -/
theorem mulVS_map (qs : List Cost) (s : Val) :
    mulVS (qs.map toVal) s = qs.map fun q => (toVal q).mul s := by
  simp [mulVS, List.map_map, Function.comp_def]

/-- `a + b` of two cost vectors -/
theorem addVV_map (qs : List Cost) (f g : Cost → Val) :
    addVV (qs.map f) (qs.map g) = .ok (qs.map fun q => (f q).add (g q)) := by
  simp [addVV, pure, Except.pure]

/-- `torch.stack` of three cost vectors does not raise -/
theorem stack3_map (qs : List Cost) (f g h : Cost → Val) :
    torch_stack0 [qs.map f, qs.map g, qs.map h] = .ok [qs.map f, qs.map g, qs.map h] := by
  simp [torch_stack0, pure, Except.pure]

/-- `stack(…).nan_to_num(nan=nv).amin(0)` of three cost vectors, entry by entry -/
theorem amin3_map (fmax : Rat) (nv : Val) (qs : List Cost) (f g h : Cost → Val) :
    amin0 (nan_to_num2 fmax nv [qs.map f, qs.map g, qs.map h])
      = .ok (qs.map fun q => Val.min (Val.min (Val.nan_to_num fmax nv (f q)) (Val.nan_to_num fmax nv (g q)))
          (Val.nan_to_num fmax nv (h q))) := by
  simp [amin0, nan_to_num2, List.map_map, Function.comp_def, pure, Except.pure]

/-! ## the table of the recurrence -/

/-- `grid[i, j]` for the cost `q`: the recurrence on the (reversed) first `i` spikes of `t0` and first `j` of `t1` -/
def T (xs ys : List Rat) (q : Cost) (i j : Nat) : Rat := vpRec q (xs.take i).reverse (ys.take j).reverse

/-- row 0 of the table -/
theorem T_zero_left (xs ys : List Rat) (q : Cost) (j : Nat) (hj : j ≤ ys.length) : T xs ys q 0 j = (j : Rat) := by
  simp [T, vpRec_nil_left, Nat.min_eq_left hj]

/-- column 0 of the table -/
theorem T_zero_right (xs ys : List Rat) (q : Cost) (i : Nat) (hi : i ≤ xs.length) : T xs ys q i 0 = (i : Rat) := by
  simp [T, vpRec_nil_right, Nat.min_eq_left hi]

/-- the recurrence step on the table (`vpRec_cons_cons` on the prefixes) -/
theorem T_succ_succ (xs ys : List Rat) (q : Cost) (i j : Nat) (hi : i < xs.length) (hj : j < ys.length) :
    T xs ys q (i + 1) (j + 1)
      = min3 (T xs ys q i (j + 1) + 1) (T xs ys q (i + 1) j + 1) (T xs ys q i j) (shiftCost q xs[i] ys[j]) := by
  unfold T
  rw [List.take_succ_eq_append_getElem hi, List.take_succ_eq_append_getElem hj]
  simp only [List.reverse_append, List.reverse_cons, List.reverse_nil, List.nil_append, List.cons_append]
  rw [vpRec_cons_cons]

/-- `grid[i, j] ≤ i + j` (`vpRec_upper`) -/
theorem T_upper (xs ys : List Rat) (q : Cost) (i j : Nat) : T xs ys q i j ≤ (i : Rat) + (j : Rat) := by
  unfold T
  refine le_trans (vpRec_upper q _ _) ?_
  simp only [List.length_reverse, List.length_take]
  have h1 : ((min i xs.length : Nat) : Rat) ≤ (i : Rat) := by exact_mod_cast Nat.min_le_left _ _
  have h2 : ((min j ys.length : Nat) : Rat) ≤ (j : Rat) := by exact_mod_cast Nat.min_le_left _ _
  linarith

/-- the last cell of the table is the recurrence on the whole (reversed) trains -/
theorem T_full (xs ys : List Rat) (q : Cost) : T xs ys q xs.length ys.length = vpRec q xs.reverse ys.reverse := by
  simp [T]


/-! ## the grid invariant -/

/-- the `k`-vector `grid[:, i, j]` the invariant prescribes -/
def cell (xs ys : List Rat) (qs : List Cost) (i j : Nat) : List Val := qs.map fun q => Val.fin (T xs ys q i j)

/-- rows `≤ ri` are complete, row `ri + 1` is complete up to column `cj`; row 0 and column 0 always are -/
def Done (ri cj : Nat) (i j : Nat) : Prop := i = 0 ∨ j = 0 ∨ i ≤ ri ∨ (i = ri + 1 ∧ j ≤ cj)

/-- the invariant of the dynamic programme: shape, every cell a `k`-vector, and the cells marked `done` hold the table -/
structure GridInv (xs ys : List Rat) (qs : List Cost) (done : Nat → Nat → Prop) (g : Grid3) : Prop where
  len : g.length = xs.length + 1
  rowlen : ∀ (i : Nat) (row : List (List Val)), g[i]? = some row → row.length = ys.length + 1
  cells : ∀ i j, i ≤ xs.length → j ≤ ys.length → ∃ v, cellAt g i j = some v ∧ v.length = qs.length
  vals : ∀ i j, i ≤ xs.length → j ≤ ys.length → done i j → cellAt g i j = some (cell xs ys qs i j)

/-- the invariant for fewer `done` cells -/
theorem GridInv.mono {xs ys : List Rat} {qs : List Cost} {d d' : Nat → Nat → Prop} {g : Grid3}
    (h : GridInv xs ys qs d g) (hd : ∀ i j, i ≤ xs.length → j ≤ ys.length → d' i j → d i j) :
    GridInv xs ys qs d' g :=
  ⟨h.len, h.rowlen, h.cells, fun i j hi hj hdone => h.vals i j hi hj (hd i j hi hj hdone)⟩

/-- one execution of the inner loop body: cell `(i + 1, j + 1)` -/
theorem cell_step (fmax : Rat) (xs ys : List Rat) (qs : List Cost)
    (hf : (xs.length : Rat) + (ys.length : Rat) ≤ fmax) (i j : Nat) (hi : i < xs.length) (hj : j < ys.length)
    (g : Grid3) (hg : GridInv xs ys qs (Done i j) g) :
    ∃ g', (do
        let a ← sel_rc g ((1 : Int) + (i : Int) - (1 : Int)) ((1 : Int) + (j : Int))
        let b ← sel_rc g ((1 : Int) + (i : Int)) ((1 : Int) + (j : Int) - (1 : Int))
        let d ← sel_rc g ((1 : Int) + (i : Int) - (1 : Int)) ((1 : Int) + (j : Int) - (1 : Int))
        let x ← getE (xs.map Val.fin) ((1 : Int) + (i : Int) - (1 : Int))
        let y ← getE (ys.map Val.fin) ((1 : Int) + (j : Int) - (1 : Int))
        let s ← addVV d (mulVS (qs.map toVal) (absV (subV x y)))
        let st ← torch_stack0 [addSI a (1 : Int), addSI b (1 : Int), s]
        let v ← amin0 (nan_to_num2 fmax Val.pinf st)
        let g2 ← set_rc g ((1 : Int) + (i : Int)) ((1 : Int) + (j : Int)) v
        pure g2 : Except Err Grid3) = .ok g'
      ∧ GridInv xs ys qs (Done i (j + 1)) g' := by
  have ha := sel_rc_of g ((1 : Int) + (i : Int) - (1 : Int)) ((1 : Int) + (j : Int)) i (j + 1) (by omega) (by omega) _
    (hg.vals i (j + 1) (by omega) (by omega) (by unfold Done; omega))
  have hb := sel_rc_of g ((1 : Int) + (i : Int)) ((1 : Int) + (j : Int) - (1 : Int)) (i + 1) j (by omega) (by omega) _
    (hg.vals (i + 1) j (by omega) (by omega) (by unfold Done; omega))
  have hd := sel_rc_of g ((1 : Int) + (i : Int) - (1 : Int)) ((1 : Int) + (j : Int) - (1 : Int)) i j (by omega) (by omega) _
    (hg.vals i j (by omega) (by omega) (by unfold Done; omega))
  have hx := getE_nat (xs.map Val.fin) ((1 : Int) + (i : Int) - (1 : Int)) i (by omega) (Val.fin xs[i])
    (by simp [List.getElem?_map, List.getElem?_eq_getElem hi])
  have hy := getE_nat (ys.map Val.fin) ((1 : Int) + (j : Int) - (1 : Int)) j (by omega) (Val.fin ys[j])
    (by simp [List.getElem?_map, List.getElem?_eq_getElem hj])
  obtain ⟨old, hold, holdlen⟩ := hg.cells (i + 1) (j + 1) (by omega) (by omega)
  have hval : ∀ q ∈ qs,
      Val.min (Val.min (Val.nan_to_num fmax .pinf (.fin (T xs ys q i (j + 1) + 1)))
          (Val.nan_to_num fmax .pinf (.fin (T xs ys q (i + 1) j + 1))))
        (Val.nan_to_num fmax .pinf (Val.add (.fin (T xs ys q i j))
          (Val.mul (toVal q) (Val.abs (Val.sub (.fin xs[i]) (.fin ys[j]))))))
      = .fin (T xs ys q (i + 1) (j + 1)) := by
    intro q _
    rw [cell_value, T_succ_succ xs ys q i j hi hj]
    refine le_trans (minQ_le_left _ _) ?_
    have := T_upper xs ys q i (j + 1)
    have h1 : ((i : Nat) : Rat) + 1 ≤ (xs.length : Rat) := by exact_mod_cast hi
    have h2 : ((j : Nat) : Rat) + 1 ≤ (ys.length : Rat) := by exact_mod_cast hj
    push_cast at this
    linarith
  have hnew : (qs.map fun q =>
      Val.min (Val.min (Val.nan_to_num fmax .pinf (.fin (T xs ys q i (j + 1) + 1)))
          (Val.nan_to_num fmax .pinf (.fin (T xs ys q (i + 1) j + 1))))
        (Val.nan_to_num fmax .pinf (Val.add (.fin (T xs ys q i j))
          (Val.mul (toVal q) (Val.abs (Val.sub (.fin xs[i]) (.fin ys[j]))))))) = cell xs ys qs (i + 1) (j + 1) :=
    List.map_congr_left hval
  have hset := set_rc_of g ((1 : Int) + (i : Int)) ((1 : Int) + (j : Int)) (i + 1) (j + 1) (by omega) (by omega) old
    (cell xs ys qs (i + 1) (j + 1)) hold (by simp [cell, holdlen])
  unfold cell at hset
  refine ⟨setCell g (i + 1) (j + 1) (cell xs ys qs (i + 1) (j + 1)), ?_, ?_⟩
  · simp only [ha, hb, hd, hx, hy, bind, Except.bind, cell, addSI_map, absV, subV, mulVS_map, addVV_map, stack3_map,
      amin3_map, hnew, hset]
  · refine ⟨by rw [setCell_length]; exact hg.len, setCell_row_length _ _ _ _ _ hg.rowlen, ?_, ?_⟩
    · intro i' j' hi' hj'
      by_cases h : i' = i + 1 ∧ j' = j + 1
      · obtain ⟨rfl, rfl⟩ := h
        exact ⟨_, cellAt_setCell_same g _ _ old _ hold, by simp [cell]⟩
      · rw [cellAt_setCell_other g _ _ _ _ _ (by omega)]
        exact hg.cells i' j' hi' hj'
    · intro i' j' hi' hj' hdone
      by_cases h : i' = i + 1 ∧ j' = j + 1
      · obtain ⟨rfl, rfl⟩ := h
        exact cellAt_setCell_same g _ _ old _ hold
      · rw [cellAt_setCell_other g _ _ _ _ _ (by omega)]
        exact hg.vals i' j' hi' hj' (by unfold Done at hdone ⊢; omega)

/-- the inner loop `for c in range(1, m + 1)` of row `i + 1` -/
theorem inner_loop_spec (xs ys : List Rat) (qs : List Cost) (i : Nat)
    (F : Grid3 → Int → Except Err Grid3) (b : Int) (hb : b = (1 : Int) + (ys.length : Nat))
    (hF : ∀ (j : Nat) (g : Grid3), j < ys.length → GridInv xs ys qs (Done i j) g →
      ∃ g', F g ((1 : Int) + (j : Int)) = .ok g' ∧ GridInv xs ys qs (Done i (j + 1)) g')
    (g : Grid3) (hg : GridInv xs ys qs (Done i 0) g) :
    ∃ g', (pyRange (1 : Int) b).foldlM F g = .ok g' ∧ GridInv xs ys qs (Done (i + 1) 0) g' := by
  obtain ⟨g', h1, h2⟩ := foldlM_pyRange_inv F 1 b ys.length hb (fun j g => GridInv xs ys qs (Done i j) g) g hg
    (fun j st hj hP => hF j st hj hP)
  refine ⟨g', h1, h2.mono ?_⟩
  intro i' j' _ hj' hd
  unfold Done at hd ⊢
  omega

/-- the outer loop `for r in range(1, n + 1)` followed by the rest of the function -/
theorem outer_loop_spec (xs ys : List Rat) (qs : List Cost)
    (F : Grid3 → Int → Except Err Grid3) (K : Grid3 → Except Err (List Val)) (res : List Val)
    (b : Int) (hb : b = (1 : Int) + (xs.length : Nat))
    (hF : ∀ (i : Nat) (g : Grid3), i < xs.length → GridInv xs ys qs (Done i 0) g →
      ∃ g', F g ((1 : Int) + (i : Int)) = .ok g' ∧ GridInv xs ys qs (Done (i + 1) 0) g')
    (hK : ∀ g, GridInv xs ys qs (Done xs.length 0) g → K g = .ok res)
    (g0 : Grid3) (h0 : GridInv xs ys qs (Done 0 0) g0) :
    ((pyRange (1 : Int) b).foldlM F g0 >>= K) = .ok res := by
  obtain ⟨g', h1, h2⟩ := foldlM_pyRange_inv F 1 b xs.length hb (fun i g => GridInv xs ys qs (Done i 0) g) g0 h0
    (fun i st hi hP => hF i st hi hP)
  rw [h1]
  exact hK g' h2

/-- `grid[:, -1, -1]` -/
theorem sel_rc_last (g : Grid3) (N M : Nat) (v : List Val) (hl : g.length = N + 1)
    (hrow : ∀ (i : Nat) (row : List (List Val)), g[i]? = some row → row.length = M + 1)
    (h : cellAt g N M = some v) : sel_rc g (-1) (-1) = .ok v := by
  unfold cellAt at h
  cases hr : g[N]? with
  | none => rw [hr] at h; cases h
  | some row =>
    rw [hr] at h
    simp only [Option.bind_some] at h
    have hrl := hrow N row hr
    have h1 : g[g.length - 1]? = some row := by rw [hl]; simpa using hr
    have h2 : row[row.length - 1]? = some v := by rw [hrl]; simpa using h
    simp only [sel_rc, getE_neg_one g row h1, bind, Except.bind, getE_neg_one row v h2]

/-! ## the grid before the loops -/

/-- `torch.zeros(a + 1, b + 1)` does not raise -/
theorem torch_zeros2_ok (a b : Nat) :
    torch_zeros2 ((a : Int) + 1) ((b : Int) + 1)
      = .ok ⟨a + 1, b + 1, List.replicate (a + 1) (List.replicate (b + 1) (Val.fin 0))⟩ := by
  have h : ¬ ((a : Int) + 1 < 0 ∨ (b : Int) + 1 < 0) := by omega
  have ha : ((a : Int) + 1).toNat = a + 1 := by omega
  have hb : ((b : Int) + 1).toNat = b + 1 := by omega
  simp only [torch_zeros2, h, if_false, ha, hb]; rfl

/-- `torch.arange(0, a + 1)` does not raise -/
theorem torch_arange_ok (a : Nat) :
    torch_arange (0 : Int) ((a : Int) + 1) = .ok ((List.range (a + 1)).map fun (i : Nat) => Val.fin (i : Rat)) := by
  have h : ¬ ((a : Int) + 1 < 0) := by omega
  have ha : ((a : Int) + 1 - 0).toNat = a + 1 := by omega
  simp only [torch_arange, h, if_false, pyRange, ha, List.map_map, pure, Except.pure]
  congr 1
  apply List.map_congr_left
  intro i _
  simp

/-- the value `torch.zeros` + the two `arange` assignments give to `grid[i, j]` -/
def initVal (i j : Nat) : Rat := if i = 0 then (j : Rat) else if j = 0 then (i : Rat) else 0

/-- the grid after `grid = grid.unsqueeze(0).repeat(k, 1, 1)` -/
def initGrid (n m k : Nat) : Grid3 :=
  (List.range (n + 1)).map fun i => (List.range (m + 1)).map fun j => List.replicate k (Val.fin (initVal i j))

/-- the Python index `0` -/
theorem pyIdx_zero (len : Nat) (h : 0 < len) : pyIdx len 0 = some 0 := by
  simpa using pyIdx_nat len 0 h

/-- `pure a >>= f` -/
theorem ok_bind {ε : Type} (a : α) (f : α → Except ε β) : (Except.ok a >>= f) = f a := rfl

/-- `torch.zeros(n + 1, m + 1)` -/
def Z0 (n m : Nat) : Mat Val := ⟨n + 1, m + 1, List.replicate (n + 1) (List.replicate (m + 1) (Val.fin 0))⟩
/-- `torch.arange(0, n + 1)` -/
def Av (n : Nat) : List Val := (List.range (n + 1)).map fun (i : Nat) => Val.fin (i : Rat)
/-- after `grid[:, 0] = arange(0, n + 1)` -/
def Z1 (n m : Nat) : Mat Val := { Z0 n m with rows := List.zipWith (fun row v => row.set 0 v) (Z0 n m).rows (Av n) }
/-- after `grid[0, :] = arange(0, m + 1)` -/
def Z2 (n m : Nat) : Mat Val := { Z1 n m with rows := (Z1 n m).rows.set 0 (Av m) }

/-- `grid[:, 0] = torch.arange(0, n + 1).t()` does not raise -/
theorem setCol_ok (n m : Nat) : (Z0 n m).setColE (0 : Int) (t1d (Av n)) = .ok (Z1 n m) := by
  simp [Mat.setColE, Z0, Z1, Av, pyIdx_zero, t1d, expandTo, bind, Except.bind, pure, Except.pure]

/-- `grid[0, :] = torch.arange(0, m + 1).t()` does not raise -/
theorem setRow_ok (n m : Nat) : (Z1 n m).setRowE (0 : Int) (t1d (Av m)) = .ok (Z2 n m) := by
  simp [Mat.setRowE, Z0, Z1, Z2, Av, pyIdx_zero, t1d, expandTo, bind, Except.bind, pure, Except.pure]

/-- `grid.unsqueeze(0).repeat(k, 1, 1)` is `initGrid` -/
theorem repeat_ok (n m k : Nat) : repeat_k11 (unsqueeze0 (Z2 n m)) (k : Int) = .ok (initGrid n m k) := by
  have hk : ¬ ((k : Int) < 0) := by omega
  simp only [repeat_k11, hk, if_false, unsqueeze0, Int.toNat_natCast, pure, Except.pure, Z2, Z1, Z0, Av]
  congr 1
  apply List.ext_getElem?
  intro i
  by_cases hi : i < n + 1
  · simp only [initGrid, List.getElem?_map, List.getElem?_set, List.getElem?_zipWith, List.getElem?_replicate,
      List.getElem?_range, hi, List.length_zipWith, List.length_replicate, List.length_map, List.length_range]
    by_cases h0 : i = 0
    · subst h0
      simp [initVal, Function.comp_def]
    · have : ¬ 0 = i := fun h => h0 h.symm
      simp only [this, if_false, if_true, Option.map_some, Nat.min_self]
      simp only [List.map_map]
      congr 1
      apply List.ext_getElem?
      intro j
      by_cases hj : j < m + 1
      · simp only [List.getElem?_map, List.getElem?_set, List.getElem?_replicate, List.getElem?_range, hj,
          List.length_replicate]
        by_cases hj0 : j = 0
        · subst hj0; simp [initVal, h0]
        · have : ¬ 0 = j := fun h => hj0 h.symm
          simp [this, initVal, h0, hj0]
      · simp [Nat.le_of_not_lt hj]
  · simp [initGrid, Nat.le_of_not_lt hi]

/-- the grid before the loops satisfies the invariant with row 0 and column 0 done -/
theorem initGrid_inv (xs ys : List Rat) (qs : List Cost) :
    GridInv xs ys qs (Done 0 0) (initGrid xs.length ys.length qs.length) := by
  have hcell : ∀ i j, i ≤ xs.length → j ≤ ys.length →
      cellAt (initGrid xs.length ys.length qs.length) i j = some (List.replicate qs.length (Val.fin (initVal i j))) := by
    intro i j hi hj
    simp [cellAt, initGrid, Nat.lt_succ_of_le hi, Nat.lt_succ_of_le hj]
  refine ⟨by simp [initGrid], ?_, ?_, ?_⟩
  · intro i row hrow
    simp only [initGrid, List.getElem?_map] at hrow
    cases h : (List.range (xs.length + 1))[i]? with
    | none => rw [h] at hrow; cases hrow
    | some a => rw [h] at hrow; cases hrow; simp
  · intro i j hi hj
    exact ⟨_, hcell i j hi hj, by simp⟩
  · intro i j hi hj hd
    rw [hcell i j hi hj]
    have h0 : i = 0 ∨ j = 0 := by unfold Done at hd; omega
    congr 1
    unfold cell
    rw [← List.map_const']
    apply List.map_congr_left
    intro q _
    rcases h0 with rfl | rfl
    · simp [initVal, T_zero_left xs ys q j hj]
    · by_cases hi0 : i = 0
      · subst hi0; simp [initVal, T_zero_left xs ys q 0 hj]
      · simp [initVal, hi0, T_zero_right xs ys q i hi]

/-! ## the glue theorems -/

/-- The dynamic programme (`victor_purpura_pair_dist_k1`: every statement after the cost test — the grid, its two
`arange` assignments, `unsqueeze(0).repeat(k, 1, 1)`, the two nested loops, `grid[:, -1, -1]`) on finite spike times
and a tensor of `k` costs returns — it does not raise — the model's distance for every cost. -/
theorem gen_vp_k1 (fmax : Rat) (xs ys : List Rat) (qs : List Cost)
    (hf : (xs.length : Rat) + (ys.length : Rat) ≤ fmax) :
    MathProg.victor_purpura_pair_dist_k1 fmax (xs.map Val.fin) (ys.map Val.fin) (qs.map toVal)
      = .ok (qs.map fun q => Val.fin (VP.victor_purpura_pair_dist xs ys q true)) := by
  unfold MathProg.victor_purpura_pair_dist_k1
  simp only [numel, List.length_map, torch_zeros2_ok, torch_arange_ok, ok_bind]
  have h1 := setCol_ok xs.length ys.length
  have h2 := setRow_ok xs.length ys.length
  have h3 := repeat_ok xs.length ys.length qs.length
  unfold Z0 Av at h1
  unfold Av at h2
  simp only [h1, h2, h3, ok_bind, bind_pure]
  apply outer_loop_spec xs ys qs _ _ _ _ (by omega) ?_ ?_ _ (initGrid_inv xs ys qs)
  · intro i g hi hg
    apply inner_loop_spec xs ys qs i _ _ (by omega) ?_ g hg
    intro j g' hj hg'
    exact cell_step fmax xs ys qs hf i j hi hj g' hg'
  · intro g hg
    have hc := hg.vals xs.length ys.length (Nat.le_refl _) (Nat.le_refl _) (by unfold Done; omega)
    rw [sel_rc_last g xs.length ys.length _ hg.len hg.rowlen hc]
    simp only [cell, T_full, victor_purpura_pair_dist_eq_vpRec]

/-- `float(abs(n - m))` is the model's `absQ (n - m)` -/
theorem natAbs_cast (n m : Nat) : ((((n : Int) - (m : Int)).natAbs : Int) : Rat) = absQ ((n : Rat) - (m : Rat)) := by
  unfold absQ
  rcases Nat.le_total m n with h | h
  · have h1 : (((n : Int) - (m : Int)).natAbs : Int) = (n : Int) - (m : Int) := by omega
    have h2 : (0 : Rat) ≤ (n : Rat) - (m : Rat) := by
      have : (m : Rat) ≤ (n : Rat) := by exact_mod_cast h
      linarith
    rw [h1, if_pos h2]; push_cast; ring
  · have h1 : (((n : Int) - (m : Int)).natAbs : Int) = (m : Int) - (n : Int) := by omega
    have h3 : (n : Rat) ≤ (m : Rat) := by exact_mod_cast h
    rw [h1]
    split
    · have : (n : Rat) = (m : Rat) := by linarith
      push_cast; rw [this]
    · push_cast; ring

/-- GLUE, `victor_purpura_pair_dist(t0, t1, cost)` with a cost TENSOR of any length: every entry of the result is the
model's `VP.victor_purpura_pair_dist t0 t1 q true` for the corresponding cost (the early returns are skipped:
`isinstance(cost, torch.Tensor)`). -/
theorem gen_vp_pair_costs (fmax : Rat) (t0 t1 : List Rat) (costs : List Cost)
    (hf : (t0.length : Rat) + (t1.length : Rat) ≤ fmax) :
    MathProg.victor_purpura_pair_dist fmax (t0.map Val.fin) (t1.map Val.fin) (.tensor (costs.map toVal))
      = .ok (costs.map fun q => Val.fin (VP.victor_purpura_pair_dist t0 t1 q true)) := by
  simp only [MathProg.victor_purpura_pair_dist]
  exact gen_vp_k1 fmax t0 t1 costs hf

/-- GLUE, `victor_purpura_pair_dist(t0, t1, cost)` with ONE cost, given as a Python float (`tensor = false`) or as a
one-element tensor (`tensor = true`): the regenerated body returns the one-element tensor holding the model's
`VP.victor_purpura_pair_dist t0 t1 cost tensor` — the early return `float(abs(n - m))` for the float `0.0`, the early
return `float(n + m)` for the float `inf`, the dynamic programme otherwise — which `vp_eq_recurrence` (`Props/C20.lean`)
relates to the recurrence. -/
theorem gen_vp_pair (fmax : Rat) (t0 t1 : List Rat) (cost : Cost) (tensor : Bool)
    (hf : (t0.length : Rat) + (t1.length : Rat) ≤ fmax) :
    MathProg.victor_purpura_pair_dist fmax (t0.map Val.fin) (t1.map Val.fin)
        (if tensor then .tensor [toVal cost] else .float (toVal cost))
      = .ok [Val.fin (VP.victor_purpura_pair_dist t0 t1 cost tensor)] := by
  cases tensor with
  | true => exact gen_vp_pair_costs fmax t0 t1 [cost] hf
  | false =>
    simp only [Bool.false_eq_true, if_false, MathProg.victor_purpura_pair_dist]
    cases cost with
    | top =>
      simp [toVal, Val.eqPy, VP.victor_purpura_pair_dist, torch_tensor1, pyFloatI, numel, pure, Except.pure]
    | fin q =>
      by_cases hq : q = 0
      · subst hq
        simp only [toVal, Val.eqPy, decide_true, if_true, VP.victor_purpura_pair_dist, torch_tensor1, pyFloatI, pyAbsI, numel,
          List.length_map, pure, Except.pure, natAbs_cast, Bool.not_false, Bool.true_and, beq_self_eq_true]
      · have h1 : Val.eqPy (toVal (.fin q)) (Val.fin 0) = false := by simp [toVal, Val.eqPy, hq]
        have h2 : Val.eqPy (toVal (.fin q)) Val.pinf = false := by simp [toVal, Val.eqPy]
        simp only [h1, h2, Bool.false_eq_true, if_false, torch_tensor1, pyFloatV]
        have := gen_vp_k1 fmax t0 t1 [.fin q] hf
        simp only [List.map_cons, List.map_nil] at this
        rw [this, victor_purpura_pair_dist_eq_vpRec, victor_purpura_pair_dist_eq_vpRec]
-- non-vacuity: the hypothesis holds for float32's `fmax`; concrete values (the real function returns 1.25 and 5.0)
example : (([1/2, 1, 2] : List Rat).length : Rat) + (([1/2, 3/2] : List Rat).length : Rat) ≤ 340282346638528859811704183484516925440 := by
  norm_num
example : MathProg.victor_purpura_pair_dist 1000 ([1/2, 1, 2].map Val.fin) ([1/2, 3/2].map Val.fin) (.tensor [Val.fin (1/2), Val.pinf])
    = .ok [Val.fin (5/4), Val.fin 5] := by decide +kernel
-- hypothesis audit: `hf` is necessary.  With `fmax = 0` (no dtype is like that) the `+∞ ↦ fmax` replacement of `nan_to_num`
-- wins the `amin`: the programme returns 0 where the model (and the recurrence) give 2.
example : MathProg.victor_purpura_pair_dist 0 ([0].map Val.fin) ([1].map Val.fin) (.tensor [toVal .top]) = .ok [Val.fin 0] := by
  decide +kernel
example : VP.victor_purpura_pair_dist [0] [1] .top true = 2 := by decide +kernel

end InfernoVerif.MathGlue
