import InfernoVerif.Lemmas.DelaySTDP
/-!
# C18 — delay-adjusted and kernel STDP agree with their formula and with each other

Statements about `Model/DelaySTDP.lean` (the `forward` of the delay-adjusted and kernel trainers on top
of the `EventReducer` fold and the GENERATED half kernels), for EVERY pre/post spike history, every
step, every delay value (a real number, which may differ from step to step — it is an argument of each
step), all four sign modes, `torch.sum` / `torch.mean`, any batch and receptive field.
-/
namespace InfernoVerif.DSTDP.R
open InfernoVerif.STDP.R

/-! ## event-time bookkeeping -/

/-- **`t_delta` is computed from the true most-recent spike times.**  Whenever both neurons have
spiked, the `EventReducer` folds give `t_delta = (t_post_last - t_pre_last)·dt - d`; before that the
value is `NaN` (`none`).  (`most_recent_partner` of C08 characterises `lastSpike`.) -/
theorem tdelta_eq (dt : ℝ) (s : Syn) (d : ℝ) (t : ℕ) :
    tDelta dt s d t =
      match lastSpike s.pre t, lastSpike s.post t with
      | some tpre, some tpost => some (((tpost : ℝ) - (tpre : ℝ)) * dt - d)
      | _, _ => none := by
  rw [tDelta_eq]; rfl

/-- the reducer value itself: time since the last event, by induction over the steps -/
theorem event_time_eq (dt : ℝ) (s : ℕ → Bool) (t : ℕ) :
    sinceLast dt s t = (lastSpike s t).map fun u => ((t - u : ℕ) : ℝ) * dt :=
  sinceLast_eq dt s t

/-! ## model = documented formula, step by step -/

theorem da_step_eq_spec (c : DCfg) (r : Red) (d : ℝ) (bt : List (List Syn)) (t : ℕ) :
    daStep c r d bt t = specDa c r d bt t := by
  unfold daStep specDa
  rw [partial_spec c.dt r _ _ rfl (daPos_spec c), partial_spec c.dt r _ _ rfl (daNeg_spec c)]

theorem dad_step_eq_spec (c : DCfg) (r : Red) (d : ℝ) (bt : List (List Syn)) (t : ℕ) :
    dadStep c r d bt t = specDad c r d bt t := by
  unfold dadStep specDad
  rw [routeD_eq, decide_lt_not, decide_lt_not,
    partial_spec c.dt r _ _ rfl (dadNeg_spec c), partial_spec c.dt r _ _ rfl (dadPos_spec c)]

theorem dam_scalar_eq_spec (c : DCfg) (r : Red) (d : ℝ) (bt : List (List Syn)) (signal scale : ℝ) (t : ℕ) :
    damScalar c r d bt signal scale t = specDamScalar c r d bt signal scale t := by
  unfold damScalar specDamScalar
  rw [partial_spec c.dt r _ _ rfl (daPos_spec c), partial_spec c.dt r _ _ rfl (daNeg_spec c)]

theorem dam_tensor_eq_spec (c : DCfg) (r : Red) (d : ℝ) (bt : List (List Syn)) (sig : List ℝ) (scale : ℝ) (t : ℕ) :
    damTensor c r d bt sig scale t = specDamTensor c r d bt sig scale t := by
  unfold damTensor specDamTensor
  rw [partialB_spec c.dt _ _ rfl (daPos_spec c), partialB_spec c.dt _ _ rfl (daNeg_spec c)]

theorem damd_scalar_eq_spec (c : DCfg) (r : Red) (d : ℝ) (bt : List (List Syn)) (signal scale : ℝ) (t : ℕ) :
    damdScalar c r d bt signal scale t = specDamdScalar c r d bt signal scale t := by
  unfold damdScalar specDamdScalar
  rw [routeD_eq, decide_lt_not, decide_lt_not,
    partial_spec c.dt r _ _ rfl (dadNeg_spec c), partial_spec c.dt r _ _ rfl (dadPos_spec c)]

theorem damd_tensor_eq_spec (c : DCfg) (r : Red) (d : ℝ) (bt : List (List Syn)) (sig : List ℝ) (scale : ℝ) (t : ℕ) :
    damdTensor c r d bt sig scale t = specDamdTensor c r d bt sig scale t := by
  unfold damdTensor specDamdTensor signalSplit
  simp only [routeTD_eq, decide_lt_not,
    partialB_spec c.dt _ _ rfl (dadNeg_spec c), partialB_spec c.dt _ _ rfl (dadPos_spec c)]

/-- the reward signal of the step scales the two-factor update (scalar signal; non-zero rates) -/
theorem dam_scales_by_signal (c : DCfg) (r : Red) (d : ℝ) (bt : List (List Syn)) (signal scale : ℝ) (t : ℕ)
    (h1 : c.lrPos ≠ 0) (h2 : c.lrNeg ≠ 0) :
    net (damScalar c r d bt signal scale t) = signal * |scale| * net (daStep c r d bt t) := by
  unfold damScalar daStep
  rw [net_route, net_route, sign_signal c.lrPos signal scale _ h1, sign_signal c.lrNeg signal scale _ h2]
  ring

/-! ## no change before both sides have spiked -/

theorem tDelta_none (dt : ℝ) (s : Syn) (d : ℝ) (t : ℕ)
    (h : lastSpike s.pre t = none ∨ lastSpike s.post t = none) : tDelta dt s d t = none := by
  rw [tDelta_eq]; unfold specTDelta
  rcases h with h | h
  · rw [h]
  · rw [h]; cases lastSpike s.pre t <;> rfl

theorem P_silent (r : Red) (bt : List (List Syn)) (td : Syn → Option ℝ) (g : ℝ → ℝ)
    (h : ∀ f ∈ bt, ∀ s ∈ f, td s = none) : P r bt td g = 0 := by
  unfold P
  rw [reduce_nansum]
  have : (bt.map fun f => (f.map fun s => orZero ((td s).map g)).sum) = bt.map fun _ => (0 : ℝ) := by
    apply List.map_congr_left
    intro f hf
    have : (f.map fun s => orZero ((td s).map g)) = f.map fun _ => (0 : ℝ) := by
      apply List.map_congr_left; intro s hs; rw [h f hf s hs]; rfl
    rw [this, sum_map_zero]
  rw [this, reduce_zero]

/-- **No change while either side has not spiked yet**: as long as, in every receptive-field element
of the weight, the pre or the post neuron has not spiked, every part handed to the updater is zero (or
`None`) — for the dedicated weight and delay rules and for the kernel rules with ANY half kernels. -/
theorem no_change_before_both_spiked (c : DCfg) (r : Red) (d : ℝ) (bt : List (List Syn)) (t : ℕ)
    (kpost kpre : ℝ → ℝ)
    (h : ∀ f ∈ bt, ∀ s ∈ f, lastSpike s.pre t = none ∨ lastSpike s.post t = none) :
    (part (daStep c r d bt t).1 = 0 ∧ part (daStep c r d bt t).2 = 0) ∧
    (part (dadStep c r d bt t).1 = 0 ∧ part (dadStep c r d bt t).2 = 0) ∧
    (part (dakStep c.dt r kpost kpre d bt t).1 = 0 ∧ part (dakStep c.dt r kpost kpre d bt t).2 = 0) := by
  have hP : ∀ g, P r bt (fun s => tDelta c.dt s d t) g = 0 :=
    fun g => P_silent r bt _ g (fun f hf s hs => tDelta_none c.dt s d t (h f hf s hs))
  have hp : ∀ g, partial_ c.dt r g d bt t = 0 := hP
  refine ⟨?_, ?_, ?_⟩
  · unfold daStep; rw [hp, hp]
    cases decide (c.lrPos ≥ 0) <;> cases decide (c.lrNeg ≥ 0) <;> simp [route, part]
  · unfold dadStep; rw [hp, hp]
    cases decide (c.lrNeg < 0) <;> cases decide (c.lrPos < 0) <;> simp [routeD, part]
  · unfold dakStep kernelSplit
    have e : ∀ g : ℝ → ℝ, reduce r (bt.map fun f => nansum (f.map fun s => (tDelta c.dt s d t).map g)) = 0 := hP
    simp only [e, part]; simp


/-! ## episodes: `trainer.clear()` in the middle of a run

A cleared `EventReducer` is initial again: its next `forward` returns `where(event, 0, NaN)`, i.e. the
fold restarts — the run after a clear at step `t0` IS the model started at step 0 on the trains
re-timed from the clear (C07's `clear_then_run_eq_fresh_run`; checked on the real trainers, for both
`keepshape` values, by the episode stream of `harness/corr/c18.py`). -/

/-- the spike trains of a weight's receptive field as seen from a clear at step `t0` -/
def retime (t0 : ℕ) (bt : List (List Syn)) : List (List Syn) :=
  bt.map fun f => f.map fun s => ⟨fun u => s.pre (t0 + u), fun u => s.post (t0 + u)⟩

/-- **No change after a clear until both sides have spiked again**: `t` steps after a clear at `t0`,
if in every receptive-field element the pre or the post neuron has not spiked in `[t0, t0 + t]`,
every part handed to the updater is zero (or `None`) — whatever happened before `t0`. -/
theorem no_change_after_clear (c : DCfg) (r : Red) (d : ℝ) (bt : List (List Syn)) (t0 t : ℕ)
    (kpost kpre : ℝ → ℝ)
    (h : ∀ f ∈ bt, ∀ s ∈ f, (∀ j, t0 ≤ j → j ≤ t0 + t → s.pre j = false) ∨
                            (∀ j, t0 ≤ j → j ≤ t0 + t → s.post j = false)) :
    (part (daStep c r d (retime t0 bt) t).1 = 0 ∧ part (daStep c r d (retime t0 bt) t).2 = 0) ∧
    (part (dadStep c r d (retime t0 bt) t).1 = 0 ∧ part (dadStep c r d (retime t0 bt) t).2 = 0) ∧
    (part (dakStep c.dt r kpost kpre d (retime t0 bt) t).1 = 0 ∧
     part (dakStep c.dt r kpost kpre d (retime t0 bt) t).2 = 0) := by
  apply no_change_before_both_spiked
  intro f hf s hs
  simp only [retime, List.mem_map] at hf
  obtain ⟨f0, hf0, rfl⟩ := hf
  simp only [List.mem_map] at hs
  obtain ⟨s0, hs0, rfl⟩ := hs
  rcases h f0 hf0 s0 hs0 with hp | hp
  · left; rw [lastSpike_none_iff]; intro j hj; exact hp (t0 + j) (by omega) (by omega)
  · right; rw [lastSpike_none_iff]; intro j hj; exact hp (t0 + j) (by omega) (by omega)

/-- after a clear, `t_delta` is computed from the most recent spikes SINCE the clear -/
theorem tdelta_after_clear (dt : ℝ) (s : Syn) (d : ℝ) (t0 t : ℕ) :
    tDelta dt ⟨fun u => s.pre (t0 + u), fun u => s.post (t0 + u)⟩ d t =
      match lastSpike (fun u => s.pre (t0 + u)) t, lastSpike (fun u => s.post (t0 + u)) t with
      | some a, some b => some (((b : ℝ) - (a : ℝ)) * dt - d)
      | _, _ => none :=
  tdelta_eq dt _ d t

/-! ## the causal branch -/

theorem daPosTerm_eq (c : DCfg) (x : ℝ) :
    daPosTerm c x = if x ≥ 0 then |c.lrPos| * Real.exp (-|x| / c.tcPos) else 0 := by
  rw [daPos_spec]; rfl

theorem daNegTerm_eq (c : DCfg) (x : ℝ) :
    daNegTerm c x = if x < 0 then |c.lrNeg| * Real.exp (-|x| / c.tcNeg) else 0 := by
  rw [daNeg_spec]; rfl

/-- **The causal (η₊) branch is taken iff `t_delta ≥ 0`**, the other one iff `t_delta < 0` — for the
dedicated rule's terms and for the shipped kernels alike (rates are non-zero). -/
theorem causal_branch_iff (c : DCfg) (x : ℝ) (h1 : c.lrPos ≠ 0) (h2 : c.lrNeg ≠ 0) :
    (daPosTerm c x ≠ 0 ↔ x ≥ 0) ∧ (daNegTerm c x ≠ 0 ↔ x < 0) ∧
    (expPost c x ≠ 0 ↔ x ≥ 0) ∧ (expPre c x ≠ 0 ↔ x < 0) := by
  have e1 : Real.exp (-|x| / c.tcPos) ≠ 0 := (Real.exp_pos _).ne'
  have e2 : Real.exp (-|x| / c.tcNeg) ≠ 0 := (Real.exp_pos _).ne'
  have a1 : |c.lrPos| ≠ 0 := abs_ne_zero.mpr h1
  have a2 : |c.lrNeg| ≠ 0 := abs_ne_zero.mpr h2
  refine ⟨?_, ?_, ?_, ?_⟩
  · rw [daPosTerm_eq]; by_cases h : x ≥ 0 <;> simp [h, a1, e1]
  · rw [daNegTerm_eq]; by_cases h : x < 0 <;> simp [h, a2, e2]
  · unfold expPost; rw [post_kernel_eq]; by_cases h : x ≥ 0 <;> simp [h, h1, e1]
  · unfold expPre; rw [pre_kernel_eq]; by_cases h : x < 0 <;> simp [h, h2, e2]

theorem partial_single (dt : ℝ) (r : Red) (g : ℝ → ℝ) (d : ℝ) (s : Syn) (t : ℕ) :
    partial_ dt r g d [[s]] t = orZero ((tDelta dt s d t).map g) := by
  unfold partial_
  simp only [List.map_cons, List.map_nil]
  rw [show nansum [(tDelta dt s d t).map g] = lsum [orZero ((tDelta dt s d t).map g)] from by
    have := nansum_eq [s] (fun s => (tDelta dt s d t).map g)
    simpa [lsum_eq_sum] using this]
  cases r <;> simp [reduce, ofNat]

/-- hebbian mode, one synapse: the potentiating part is positive exactly when both have spiked and
`t_delta ≥ 0`; the depressing part exactly when both have spiked and `t_delta < 0`. -/
theorem potentiating_iff_causal (c : DCfg) (r : Red) (d : ℝ) (s : Syn) (t : ℕ)
    (hp : 0 < c.lrPos) (hn : c.lrNeg < 0) :
    (0 < part (daStep c r d [[s]] t).1 ↔ ∃ x, tDelta c.dt s d t = some x ∧ x ≥ 0) ∧
    (0 < part (daStep c r d [[s]] t).2 ↔ ∃ x, tDelta c.dt s d t = some x ∧ x < 0) := by
  unfold daStep
  have ha : c.lrPos ≥ 0 := hp.le
  have hb : ¬ c.lrNeg ≥ 0 := not_le.mpr hn
  simp only [ha, hb, decide_true, decide_false, route, part, partial_single]
  cases htd : tDelta c.dt s d t with
  | none => simp [orZero]
  | some x =>
    simp only [Option.map_some, orZero, Option.some.injEq, exists_eq_left']
    rw [daPosTerm_eq, daNegTerm_eq]
    have e1 : 0 < |c.lrPos| * Real.exp (-|x| / c.tcPos) := mul_pos (abs_pos.mpr hp.ne') (Real.exp_pos _)
    have e2 : 0 < |c.lrNeg| * Real.exp (-|x| / c.tcNeg) := mul_pos (abs_pos.mpr hn.ne) (Real.exp_pos _)
    constructor
    · by_cases h : x ≥ 0 <;> simp [h, e1]
    · by_cases h : x < 0 <;> simp [h, e2]

/-! ## kernel trainers vs dedicated rules -/

theorem kernel_parts (r : Red) (bt : List (List Syn)) (td : Syn → Option ℝ)
    (lrA tcA lrB tcB : ℝ) :
    let X := P r bt td (fun x => Real.exp (|x| / (-tcA)) * (|lrA| * (if x ≥ 0 then 1 else 0)))
    let Y := P r bt td (fun x => Real.exp (|x| / (-tcB)) * (|lrB| * (if x < 0 then 1 else 0)))
    kernelSplit r (fun x => Gen.StdKernelsR.exp_stdp_post_kernel x lrA tcA)
        (fun x => Gen.StdKernelsR.exp_stdp_pre_kernel x lrB tcB) td bt =
      (some ((if lrA ≥ 0 then X else 0) + (if lrB ≥ 0 then Y else 0)),
       some (-((if lrA ≥ 0 then 0 else -X) + (if lrB ≥ 0 then 0 else -Y)))) := by
  intro X Y
  show (some (P r bt td (fun x => clampMin0 (Gen.StdKernelsR.exp_stdp_post_kernel x lrA tcA))
        + P r bt td (fun x => clampMin0 (Gen.StdKernelsR.exp_stdp_pre_kernel x lrB tcB))),
      some (-(P r bt td (fun x => clampMax0 (Gen.StdKernelsR.exp_stdp_post_kernel x lrA tcA))
        + P r bt td (fun x => clampMax0 (Gen.StdKernelsR.exp_stdp_pre_kernel x lrB tcB))))) = _
  rw [P_congr r bt td _ _ (fun x => (clamp_post lrA tcA x).1), P_congr r bt td _ _ (fun x => (clamp_pre lrB tcB x).1),
    P_congr r bt td _ _ (fun x => (clamp_post lrA tcA x).2), P_congr r bt td _ _ (fun x => (clamp_pre lrB tcB x).2),
    P_ite, P_ite, P_ite_neg, P_ite_neg]

/-- **Kernel STDP with the shipped exponential kernels reproduces delay-adjusted STDP** with the same
learning rates and time constants: both parts handed to the updater agree (a `None` part of the
dedicated rule is a zero part of the kernel rule), in all four sign modes, for weights
(`DelayAdjustedKernelSTDP` vs `DelayAdjustedSTDP`) and for delays (`…KernelSTDPD` vs `…STDPD`). -/
theorem kernel_eq_delay_adjusted (c : DCfg) (r : Red) (d : ℝ) (bt : List (List Syn)) (t : ℕ) :
    (part (dakStep c.dt r (expPost c) (expPre c) d bt t).1 = part (daStep c r d bt t).1 ∧
     part (dakStep c.dt r (expPost c) (expPre c) d bt t).2 = part (daStep c r d bt t).2) ∧
    (part (dakStep c.dt r (expPostD c) (expPreD c) d bt t).1 = part (dadStep c r d bt t).1 ∧
     part (dakStep c.dt r (expPostD c) (expPreD c) d bt t).2 = part (dadStep c r d bt t).2) := by
  constructor
  · unfold dakStep expPost expPre daStep
    rw [kernel_parts r bt (fun s => tDelta c.dt s d t) c.lrPos c.tcPos c.lrNeg c.tcNeg]
    have e1 : partial_ c.dt r (daPosTerm c) d bt t = P r bt (fun s => tDelta c.dt s d t)
        (fun x => Real.exp (|x| / (-c.tcPos)) * (|c.lrPos| * (if x ≥ 0 then 1 else 0))) := rfl
    have e2 : partial_ c.dt r (daNegTerm c) d bt t = P r bt (fun s => tDelta c.dt s d t)
        (fun x => Real.exp (|x| / (-c.tcNeg)) * (|c.lrNeg| * (if x < 0 then 1 else 0))) := rfl
    rw [e1, e2]
    generalize P r bt (fun s => tDelta c.dt s d t)
      (fun x => Real.exp (|x| / (-c.tcPos)) * (|c.lrPos| * (if x ≥ 0 then 1 else 0))) = X
    generalize P r bt (fun s => tDelta c.dt s d t)
      (fun x => Real.exp (|x| / (-c.tcNeg)) * (|c.lrNeg| * (if x < 0 then 1 else 0))) = Y
    by_cases ha : c.lrPos ≥ 0 <;> by_cases hb : c.lrNeg ≥ 0 <;> simp [ha, hb, route, part, add_comm]
  · unfold dakStep expPostD expPreD dadStep
    rw [kernel_parts r bt (fun s => tDelta c.dt s d t) c.lrNeg c.tcNeg c.lrPos c.tcPos]
    have e1 : partial_ c.dt r (dadNegTerm c) d bt t = P r bt (fun s => tDelta c.dt s d t)
        (fun x => Real.exp (|x| / (-c.tcNeg)) * (|c.lrNeg| * (if x ≥ 0 then 1 else 0))) := rfl
    have e2 : partial_ c.dt r (dadPosTerm c) d bt t = P r bt (fun s => tDelta c.dt s d t)
        (fun x => Real.exp (|x| / (-c.tcPos)) * (|c.lrPos| * (if x < 0 then 1 else 0))) := rfl
    rw [e1, e2]
    generalize P r bt (fun s => tDelta c.dt s d t)
      (fun x => Real.exp (|x| / (-c.tcNeg)) * (|c.lrNeg| * (if x ≥ 0 then 1 else 0))) = X
    generalize P r bt (fun s => tDelta c.dt s d t)
      (fun x => Real.exp (|x| / (-c.tcPos)) * (|c.lrPos| * (if x < 0 then 1 else 0))) = Y
    by_cases ha : c.lrNeg ≥ 0 <;> by_cases hb : c.lrPos ≥ 0
    · have ha' : ¬ c.lrNeg < 0 := not_lt.mpr ha
      have hb' : ¬ c.lrPos < 0 := not_lt.mpr hb
      simp [ha, hb, ha', hb', routeD, part, add_comm]
    · have ha' : ¬ c.lrNeg < 0 := not_lt.mpr ha
      have hb' : c.lrPos < 0 := lt_of_not_ge hb
      simp [ha, hb, ha', hb', routeD, part]
    · have ha' : c.lrNeg < 0 := lt_of_not_ge ha
      have hb' : ¬ c.lrPos < 0 := not_lt.mpr hb
      simp [ha, hb, ha', hb', routeD, part]
    · have ha' : c.lrNeg < 0 := lt_of_not_ge ha
      have hb' : c.lrPos < 0 := lt_of_not_ge hb
      simp [ha, hb, ha', hb', routeD, part, add_comm]

/-- **With all delays zero the delay-adjusted kernel rule IS the unadjusted kernel rule** (any half
kernels), hence (with `kernel_eq_delay_adjusted`) delay-adjusted STDP with zero delays is `KernelSTDP`
with the shipped kernels. -/
theorem delay_zero_reduces_to_kernel (c : DCfg) (r : Red) (kpost kpre : ℝ → ℝ) (bt : List (List Syn)) (t : ℕ) :
    dakStep c.dt r kpost kpre 0 bt t = kStep c.dt r kpost kpre bt t ∧
    part (daStep c r 0 bt t).1 = part (kStep c.dt r (expPost c) (expPre c) bt t).1 ∧
    part (daStep c r 0 bt t).2 = part (kStep c.dt r (expPost c) (expPre c) bt t).2 := by
  have h : ∀ kpost kpre : ℝ → ℝ, dakStep c.dt r kpost kpre 0 bt t = kStep c.dt r kpost kpre bt t := by
    intro kpost kpre
    unfold dakStep kStep
    simp only [tDeltaU_eq]
  refine ⟨h kpost kpre, ?_, ?_⟩
  · rw [← h, (kernel_eq_delay_adjusted c r 0 bt t).1.1]
  · rw [← h, (kernel_eq_delay_adjusted c r 0 bt t).1.2]

/-! ## Non-vacuity -/

/-- hebbian rates -/
noncomputable def exD : DCfg := ⟨1 / 2, -1 / 4, 10, 20, 1⟩
/-- pre spike at step 0, post spike at step 2 -/
def exSyn : Syn := ⟨fun t => decide (t = 0), fun t => decide (t = 2)⟩

example : 0 < exD.lrPos ∧ exD.lrNeg < 0 := by constructor <;> (simp only [exD]; norm_num)
example : exD.lrPos ≠ 0 ∧ exD.lrNeg ≠ 0 := by constructor <;> (simp only [exD]; norm_num)

/-- at step 3 both have spiked: `t_delta = (2 - 0)·1 - d` -/
example (d : ℝ) : tDelta 1 exSyn d 3 = some (2 - d) := by
  rw [tdelta_eq]
  have h1 : lastSpike exSyn.pre 3 = some 0 := by
    rw [lastSpike_some_iff]; refine ⟨by omega, by simp [exSyn], fun j h1 _ => by simp [exSyn]; omega⟩
  have h2 : lastSpike exSyn.post 3 = some 2 := by
    rw [lastSpike_some_iff]; refine ⟨by omega, by simp [exSyn], fun j h1 h2 => by simp [exSyn]; omega⟩
  rw [h1, h2]; norm_num

/-- at step 1 the post neuron has not spiked yet: the hypothesis of `no_change_before_both_spiked` -/
example : ∀ f ∈ [[exSyn]], ∀ s ∈ f, lastSpike s.pre 1 = none ∨ lastSpike s.post 1 = none := by
  intro f hf s hs
  simp only [List.mem_singleton] at hf; subst hf
  simp only [List.mem_singleton] at hs; subst hs
  right
  rw [lastSpike_none_iff]; intro j hj; simp [exSyn]; omega

end InfernoVerif.DSTDP.R
