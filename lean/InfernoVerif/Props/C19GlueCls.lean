import InfernoVerif.Gen.EncClsProg
import InfernoVerif.Props.C19GlueProg
/-!
# Glue: the encoder CLASSES of /repo's source are the configuration machine of `Model/Encoder.lean`, and their `forward` is the functional program on the stored configuration

`Gen/EncClsProg.lean` is regenerated on every run by `harness/progtx_enccls.py` from the whole method bodies of
`inferno/neural/encoders/{mixins,poisson,special}.py` (constructors, property getters / setters, `forward`) as
programs over the object `Obj` (`Gen/EncClsPrelude.lean`: runtime class + private attributes, `none` = not yet
assigned; an exception carries the object at the raise; `self.<name>` is dynamic dispatch `get_<name>` from the MRO).

Main theorems:

* `gen_mixins_setters` — field by field what the getters / setters of the four mixins do on ANY object: which value is
  stored, which is refused with `ValueError` and what the object looks like then (`RefractoryStepMixin.refrac`'s setter
  has already cleared `__derive_refrac` when it refuses a negative value), that `dt`'s setter of
  `RefractoryStepMixin` re-derives the refractory period iff `__derive_refrac`, and `duration = steps * dt` (derived,
  never stored).
* `gen_poisson_init` — `HomogeneousPoissonEncoder.__init__` on a blank object is `encCtor`.
* `gen_poisson_setters` — the five setters of a `HomogeneousPoissonEncoder` are exactly `encSet` (accepted) /
  `encFail` (refused: `ValueError`, with the object the model says is left behind), i.e. `encStep`.
* `gen_poisson_approx_init`, `gen_interval_init` (+ `gen_plain_frequency_setter`) — the two encoders without refractory period:
  `encCtor … none false` restricted to the attributes these classes have.
* `gen_poisson_forward`, `gen_poisson_approx_forward`, `gen_interval_forward` — `forward` (offline and online) is the
  regenerated functional program of `Gen/EncoderProg.lean` applied to `frequency * inputs`, `steps`, `dt`, `some refrac`,
  `compensated`; `…_model`: composed with `Props/C19GlueProg.lean`, the model's spike train for the same draws.

## Abstraction and hypotheses

* `conc s g` is the object of class `HomogeneousPoissonEncoder` whose private attributes hold the `EncState` `s` and
  the generator `g` (which the model does not have: it is stored, returned and handed on only); `concP c s g` the
  object of a class without refractory period (attributes `refrac`, `derive`, `comp` absent).
* `EncInv s` (`Lemmas/Encoder.lean`: established by `encCtor`, preserved by `encSet` / `encFail`) is assumed by
  `gen_poisson_setters` and the `forward` theorems.  It is NEEDED in two places: the roll-back of `dt`'s setter
  (`RefractoryStepMixin.dt.fset(self, previous)`) restores the refractory period only because `derive → refrac = dt`,
  and does not itself raise only because `0 < dt`; `forward` hands `steps` to a function translated on non-negative
  ints (`asNat`, `0 < steps`).
* Units: `forward` hands `step_time = dt` and `refrac = self.refrac` BOTH in ms, `frequency * inputs` in Hz; the
  functional divides `refrac / step_time` itself.  This is the configuration `EncState.expCfg` of the model — no unit
  mismatch between class, functional and model.
* A constructor that raises leaves a partially initialised object nobody can reach; the init theorems only state
  that the exception is `ValueError`.
* `Module.__init__` is assumed not to touch the private attributes; `Module` not to define the dispatched names.
-/
set_option linter.unusedSimpArgs false
set_option linter.unusedVariables false
set_option linter.unnecessarySeqFocus false
namespace InfernoVerif.Enc.GlueCls
open InfernoVerif.Enc InfernoVerif.Gen InfernoVerif.Gen.EncClsPrelude InfernoVerif.Gen.EncClsProg

/-- the `HomogeneousPoissonEncoder` object holding the model state `s` and the generator `g` -/
def conc (s : EncState) (g : Option GenId) : Obj :=
  ⟨.HomogeneousPoissonEncoder, some s.dt, some s.steps, some s.derive, some s.refrac, some g, some s.freq, some s.comp⟩

/-- the object of a class without refractory period (`HomogeneousPoissonApproxEncoder`, `PoissonIntervalEncoder`) -/
def concP (c : Cls) (s : EncState) (g : Option GenId) : Obj :=
  ⟨c, some s.dt, some s.steps, none, none, some g, some s.freq, none⟩

/-- the setter a `CfgOp` of the model stands for, on a `HomogeneousPoissonEncoder` (`steps` is inherited from `StepMixin`) -/
def runOp (o : Obj) : CfgOp → M Obj
  | .setSteps v => StepMixin_steps_setter o v
  | .setDt v => HomogeneousPoissonEncoder_dt_setter o v
  | .setFreq v => HomogeneousPoissonEncoder_frequency_setter o v
  | .setRefrac v => HomogeneousPoissonEncoder_refrac_setter o v
  | .setComp b => HomogeneousPoissonEncoder_compensated_setter o b

/-- what the model says a setter call does: `encSet`, or `ValueError` leaving `encFail` -/
def outcome (s : EncState) (g : Option GenId) (op : CfgOp) : M Obj :=
  match encSet s op with
  | some s' => .ok (conc s' g)
  | none => .error (.ValueError, conc (encFail s op) g)

/-! ## The mixins -/

/-- The getters and setters of the four mixins, on any object `o`: each setter stores exactly the validated value in
its own private attribute and refuses (`ValueError`, object untouched — except that `RefractoryStepMixin.refrac`'s
setter has already cleared `__derive_refrac`) exactly `dt ≤ 0`, `steps ≤ 0`, `refrac < 0`; `RefractoryStepMixin.dt`'s
setter re-derives the refractory period iff `__derive_refrac`; `refrac = None` pins the period to the (dynamically
dispatched) `dt`; `duration` is `steps * dt`, derived on every read; the generator is stored as given. -/
theorem gen_mixins_setters (o : Obj) :
    (StepTimeMixin_dt o = getattr o o.step_time ∧ StepMixin_steps o = getattr o o.num_steps ∧
      RefractoryStepMixin_refrac o = getattr o o.refrac_time ∧ GeneratorMixin_generator o = getattr o o.rng ∧
      RefractoryStepMixin_dt o = getattr o o.step_time) ∧
    (∀ v, StepTimeMixin_dt_setter o v =
      if 0 < v then .ok { o with step_time := some v } else .error (.ValueError, o)) ∧
    (∀ v, StepMixin_steps_setter o v =
      if 0 < v then .ok { o with num_steps := some v } else .error (.ValueError, o)) ∧
    (∀ v d, o.derive_refrac = some d → RefractoryStepMixin_dt_setter o v =
      if 0 < v then .ok { o with step_time := some v, refrac_time := if d then some v else o.refrac_time }
      else .error (.ValueError, o)) ∧
    (∀ d, o.cls ≠ .GeneratorMixin → o.step_time = some d → RefractoryStepMixin_refrac_setter o none =
      .ok { o with derive_refrac := some true, refrac_time := some d }) ∧
    (∀ r, RefractoryStepMixin_refrac_setter o (some r) =
      if 0 ≤ r then .ok { o with derive_refrac := some false, refrac_time := some r }
      else .error (.ValueError, { o with derive_refrac := some false })) ∧
    (∀ g, GeneratorMixin_generator_setter o g = .ok { o with rng := some g }) ∧
    (∀ n d, o.cls ≠ .GeneratorMixin → o.num_steps = some n → o.step_time = some d →
      StepMixin_duration o = .ok ((n : Rat) * d)) := by
  refine ⟨⟨?_, ?_, ?_, ?_, ?_⟩, ?_, ?_, ?_, ?_, ?_, ?_, ?_⟩
  · simp [StepTimeMixin_dt, bind, Except.bind, pure, Except.pure]
  · simp [StepMixin_steps, bind, Except.bind, pure, Except.pure]
  · simp [RefractoryStepMixin_refrac, bind, Except.bind, pure, Except.pure]
  · simp [GeneratorMixin_generator, bind, Except.bind, pure, Except.pure]
  · simp [RefractoryStepMixin_dt, StepTimeMixin_dt, bind, Except.bind, pure, Except.pure]
  · intro v
    by_cases hv : 0 < v <;> simp [StepTimeMixin_dt_setter, argtest_gt, bind, Except.bind, pure, Except.pure, hv]
  · intro v
    by_cases hv : 0 < v <;> simp [StepMixin_steps_setter, argtest_gtI, bind, Except.bind, pure, Except.pure, hv]
  · intro v d hd
    by_cases hv : 0 < v <;> cases d <;>
      simp [RefractoryStepMixin_dt_setter, StepTimeMixin_dt_setter, StepTimeMixin_dt, argtest_gt, getattr, bind,
        Except.bind, pure, Except.pure, hv, hd]
  · intro d hc hd
    obtain ⟨c, a1, a2, a3, a4, a5, a6, a7⟩ := o
    simp only at hc hd; subst hd
    cases c <;>
      simp [RefractoryStepMixin_refrac_setter, get_dt, HomogeneousPoissonEncoder_dt, RefractoryStepMixin_dt,
        StepTimeMixin_dt, getattr, bind, Except.bind, pure, Except.pure] at hc ⊢
  · intro r
    by_cases h0 : 0 ≤ r <;>
      simp [RefractoryStepMixin_refrac_setter, argtest_gte, bind, Except.bind, pure, Except.pure, h0]
  · intro g; rfl
  · intro n d hc hn hd
    obtain ⟨c, a1, a2, a3, a4, a5, a6, a7⟩ := o
    simp only at hc hn hd; subst hn; subst hd
    cases c <;>
      simp [StepMixin_duration, get_dt, HomogeneousPoissonEncoder_dt, RefractoryStepMixin_dt,
        StepTimeMixin_dt, getattr, bind, Except.bind, pure, Except.pure] at hc ⊢

/-! ## `HomogeneousPoissonEncoder`: constructor and setters -/

/-- case split on a compatibility test -/
macro "lt1000 " x:term : tactic => `(tactic| (by_cases hc : $x < 1000 <;>
  [(have hc' : ¬ (1000 ≤ $x) := not_le.mpr hc); (have hc' : 1000 ≤ $x := not_lt.mp hc)] <;>
  simp [hc, hc', throw, throwThe, MonadExceptOf.throw]))
/-- case split on a sign test -/
macro "nonneg " x:term : tactic => `(tactic| (by_cases h0 : 0 ≤ $x <;>
  [(have h0' : ¬ ($x < 0) := not_lt.mpr h0); (have h0' : $x < 0 := not_le.mp h0)] <;>
  simp [h0, h0', throw, throwThe, MonadExceptOf.throw]))

/-- The five setters of a `HomogeneousPoissonEncoder` (regenerated whole bodies, through the mixins' setters they call, the
dynamic dispatch of `self.dt` / `self.refrac`, and the `try … except ValueError: roll back; raise` of `dt`) on the object
holding `s`: accepted exactly when `encSet s op` is `some s'`, leaving the object holding `s'`; refused with `ValueError`
otherwise, leaving the object holding `encFail s op` — every attribute as it was, except `__derive_refrac` cleared by a
refused negative `refrac`.  This is `encStep`. -/
theorem gen_poisson_setters (s : EncState) (g : Option GenId) (op : CfgOp) (hi : EncInv s) :
    runOp (conc s g) op = outcome s g op := by
  obtain ⟨steps, dt, freq, refrac, derive, comp⟩ := s
  obtain ⟨i1, i2, i3, i4, i5, i6⟩ := hi
  simp only at i1 i2 i3 i4 i5 i6
  cases op with
  | setSteps v =>
    by_cases hv : 0 < v <;>
      simp [runOp, outcome, conc, encSet, encFail, StepMixin_steps_setter, argtest_gtI, bind, Except.bind, pure, Except.pure, hv]
  | setDt v =>
    by_cases hv : 0 < v
    · cases comp <;> cases derive <;>
      simp [runOp, outcome, conc, encSet, encFail, HomogeneousPoissonEncoder_dt_setter, RefractoryStepMixin_dt_setter,
        RefractoryStepMixin_dt, StepTimeMixin_dt, StepTimeMixin_dt_setter, get_refrac, HomogeneousPoissonEncoder_refrac,
        RefractoryStepMixin_refrac, argtest_gt, argtest_lt, getattr, bind, Except.bind, pure, Except.pure, hv, i2]
      · lt1000 (freq * refrac)
      · simp at i5; subst i5
        lt1000 (freq * v)
    · cases comp <;> cases derive <;>
      simp [runOp, outcome, conc, encSet, encFail, HomogeneousPoissonEncoder_dt_setter, RefractoryStepMixin_dt_setter,
        RefractoryStepMixin_dt, StepTimeMixin_dt, StepTimeMixin_dt_setter, get_refrac, HomogeneousPoissonEncoder_refrac,
        RefractoryStepMixin_refrac, argtest_gt, argtest_lt, getattr, bind, Except.bind, pure, Except.pure, hv, i2]
  | setFreq v =>
    cases comp <;>
      simp [runOp, outcome, conc, encSet, encFail, HomogeneousPoissonEncoder_frequency_setter, get_refrac,
        HomogeneousPoissonEncoder_refrac, RefractoryStepMixin_refrac, argtest_gte, argtest_lt, getattr, bind, Except.bind,
        pure, Except.pure]
    · nonneg v
    · lt1000 (v * refrac) <;> nonneg v
  | setRefrac r =>
    cases r with
    | none =>
      cases comp <;>
      simp [runOp, outcome, conc, encSet, encFail, HomogeneousPoissonEncoder_refrac_setter, RefractoryStepMixin_refrac_setter,
        get_dt, HomogeneousPoissonEncoder_dt, RefractoryStepMixin_dt, StepTimeMixin_dt, argtest_gte, argtest_lt, getattr,
        bind, Except.bind, pure, Except.pure]
      · lt1000 (dt * freq)
    | some r =>
      cases comp <;>
      simp [runOp, outcome, conc, encSet, encFail, HomogeneousPoissonEncoder_refrac_setter, RefractoryStepMixin_refrac_setter,
        get_dt, HomogeneousPoissonEncoder_dt, RefractoryStepMixin_dt, StepTimeMixin_dt, argtest_gte, argtest_lt, getattr,
        bind, Except.bind, pure, Except.pure]
      · nonneg r
      · lt1000 (r * freq) <;> nonneg r
  | setComp b =>
    cases b <;>
      simp [runOp, outcome, conc, encSet, encFail, HomogeneousPoissonEncoder_compensated_setter, get_refrac,
        HomogeneousPoissonEncoder_refrac, RefractoryStepMixin_refrac, argtest_lt, getattr, pyBool, bind, Except.bind,
        pure, Except.pure]
    · lt1000 (freq * refrac)

/-- `HomogeneousPoissonEncoder.__init__` on a freshly allocated object is the model's `encCtor`: the validations
`frequency ≥ 0`, `step_time > 0`, `steps > 0`, `refrac ≥ 0` (through the three mixin constructors), the pinning of the
refractory period to `dt` for `refrac = None`, and the compatibility test `frequency * refrac < 1000` under
compensation; a refused configuration raises `ValueError`. -/
theorem gen_poisson_init (steps : Int) (dt freq : Rat) (refrac : Option Rat) (comp : Bool) (g : Option GenId) :
    (∀ s, encCtor steps dt freq refrac comp = some s →
      HomogeneousPoissonEncoder___init__ (blank .HomogeneousPoissonEncoder) steps dt freq refrac comp g = .ok (conc s g)) ∧
    (encCtor steps dt freq refrac comp = none →
      ∃ o, HomogeneousPoissonEncoder___init__ (blank .HomogeneousPoissonEncoder) steps dt freq refrac comp g
        = .error (.ValueError, o)) := by
  by_cases hf : 0 ≤ freq <;> by_cases hd : 0 < dt <;> by_cases hs : 0 < steps <;> cases refrac <;> cases comp <;>
    simp [encCtor, conc, blank, HomogeneousPoissonEncoder___init__, RefractoryStepMixin___init__, StepMixin___init__,
      StepTimeMixin___init__, GeneratorMixin___init__, Module_init, pyBool, get_dt, get_refrac,
      HomogeneousPoissonEncoder_dt, HomogeneousPoissonEncoder_refrac, RefractoryStepMixin_dt, RefractoryStepMixin_refrac,
      StepTimeMixin_dt, argtest_gt, argtest_gtI, argtest_gte, argtest_lt, getattr, bind, Except.bind, pure, Except.pure,
      hf, hd, hs]
  all_goals first
    | done
    | (rename_i r; nonneg r <;> lt1000 (freq * r))
    | (lt1000 (freq * dt))

/-! ## The encoders without refractory period -/

/-- `__init__` of a class `GeneratorMixin, StepMixin, Module` with a `__frequency_scale` -/
theorem plain_init (c : Cls) (init : Obj → Int → Rat → Rat → Option GenId → M Obj)
    (hinit : ∀ o steps dt freq g, init o steps dt freq g = (do
      let self := Module_init o
      let t0_ ← argtest_gte self freq (0 : Rat)
      let self := { self with frequency_scale := some t0_ }
      let self ← StepMixin___init__ self steps dt
      let self ← GeneratorMixin___init__ self g
      pure self))
    (steps : Int) (dt freq : Rat) (g : Option GenId) :
    (∀ s, encCtor steps dt freq none false = some s → init (blank c) steps dt freq g = .ok (concP c s g)) ∧
    (encCtor steps dt freq none false = none → ∃ o, init (blank c) steps dt freq g = .error (.ValueError, o)) := by
  rw [hinit]
  by_cases hf : 0 ≤ freq <;> by_cases hd : 0 < dt <;> by_cases hs : 0 < steps <;>
    simp [encCtor, concP, blank, StepMixin___init__, StepTimeMixin___init__, GeneratorMixin___init__, Module_init,
      argtest_gt, argtest_gtI, argtest_gte, bind, Except.bind, pure, Except.pure, hf, hd, hs]

/-- `HomogeneousPoissonApproxEncoder.__init__` on a freshly allocated object: the model's constructor without refractory
period and compensation (`encCtor … none false`: `frequency ≥ 0`, `step_time > 0`, `steps > 0`), restricted to the
attributes this class has; `ValueError` otherwise. -/
theorem gen_poisson_approx_init (steps : Int) (dt freq : Rat) (g : Option GenId) :
    (∀ s, encCtor steps dt freq none false = some s →
      HomogeneousPoissonApproxEncoder___init__ (blank .HomogeneousPoissonApproxEncoder) steps dt freq g
        = .ok (concP .HomogeneousPoissonApproxEncoder s g)) ∧
    (encCtor steps dt freq none false = none →
      ∃ o, HomogeneousPoissonApproxEncoder___init__ (blank .HomogeneousPoissonApproxEncoder) steps dt freq g
        = .error (.ValueError, o)) :=
  plain_init _ HomogeneousPoissonApproxEncoder___init__ (fun _ _ _ _ _ => rfl) steps dt freq g

/-- `PoissonIntervalEncoder.__init__`: as `gen_poisson_approx_init`. -/
theorem gen_interval_init (steps : Int) (dt freq : Rat) (g : Option GenId) :
    (∀ s, encCtor steps dt freq none false = some s →
      PoissonIntervalEncoder___init__ (blank .PoissonIntervalEncoder) steps dt freq g
        = .ok (concP .PoissonIntervalEncoder s g)) ∧
    (encCtor steps dt freq none false = none →
      ∃ o, PoissonIntervalEncoder___init__ (blank .PoissonIntervalEncoder) steps dt freq g = .error (.ValueError, o)) :=
  plain_init _ PoissonIntervalEncoder___init__ (fun _ _ _ _ _ => rfl) steps dt freq g

/-- the `frequency` setters of the two encoders without refractory period: the model's `setFreq` without
compensation (`0 ≤ v` stored, anything else `ValueError` with the object untouched) -/
theorem gen_plain_frequency_setter (c : Cls) (s : EncState) (g : Option GenId) (v : Rat) :
    HomogeneousPoissonApproxEncoder_frequency_setter (concP c s g) v =
      (if 0 ≤ v then .ok (concP c { s with freq := v } g) else .error (.ValueError, concP c s g)) ∧
    PoissonIntervalEncoder_frequency_setter (concP c s g) v =
      (if 0 ≤ v then .ok (concP c { s with freq := v } g) else .error (.ValueError, concP c s g)) := by
  by_cases h0 : 0 ≤ v <;>
    simp [HomogeneousPoissonApproxEncoder_frequency_setter, PoissonIntervalEncoder_frequency_setter, concP, argtest_gte,
      bind, Except.bind, pure, Except.pure, h0]

/-! ## `forward` -/

/-- `Int.toNat` of the stored number of steps is what `asNat` hands on -/
theorem asNat_ok (o : Obj) (n : Int) (h : 0 < n) : asNat o n = .ok n.toNat := by
  simp [asNat, le_of_lt h]

/-- `HomogeneousPoissonEncoder.forward` (offline / online) on the object holding `s` IS the regenerated functional program
`homogeneous_poisson_exp_interval` / `_online` of `Gen/EncoderProg.lean` applied to the rates `frequency * inputs`,
`steps`, `step_time = dt` (ms), `refrac = some refrac` (ms — the same unit as `step_time`; the functional forms
`refrac / step_time`), `compensate = compensated`, with the draws supplied; the functional's exception, if any, propagates. -/
theorem gen_poisson_forward (s : EncState) (g : Option GenId) (inputs : List Rat) (hi : EncInv s) :
    (∀ sample, HomogeneousPoissonEncoder_forward_offline (conc s g) inputs sample =
      liftF (conc s g) (EncoderProg.homogeneous_poisson_exp_interval (inputs.map (s.freq * ·)) s.steps.toNat s.dt
        (some s.refrac) s.comp sample)) ∧
    (∀ s0 freshs, HomogeneousPoissonEncoder_forward_online (conc s g) inputs s0 freshs =
      liftF (conc s g) (EncoderProg.homogeneous_poisson_exp_interval_online (inputs.map (s.freq * ·)) s.steps.toNat s.dt
        (some s.refrac) s.comp s0 freshs)) := by
  constructor <;> intros <;>
    simp [HomogeneousPoissonEncoder_forward_offline, HomogeneousPoissonEncoder_forward_online, conc, get_frequency,
      get_steps, get_dt, get_refrac, get_compensated, get_generator, HomogeneousPoissonEncoder_frequency, StepMixin_steps,
      HomogeneousPoissonEncoder_dt, RefractoryStepMixin_dt, StepTimeMixin_dt, HomogeneousPoissonEncoder_refrac,
      RefractoryStepMixin_refrac, HomogeneousPoissonEncoder_compensated, GeneratorMixin_generator, getattr, bind,
      Except.bind, pure, Except.pure, asNat_ok _ _ hi.steps_pos, rmulS1Q]

/-- `liftF`, then a post-processing of the value -/
theorem liftF_map {α β : Type} (o : Obj) (x : Except EncoderPrelude.Err α) (f : α → β) :
    (liftF o x).map f = liftF o (x.map f) := by
  cases x <;> rfl

/-- `liftF` keeps success / failure -/
theorem liftF_toOption {α : Type} (o : Obj) (x : Except EncoderPrelude.Err α) : (liftF o x).toOption = x.toOption := by
  cases x <;> rfl

/-- Composition with `Props/C19GlueProg.lean`: `HomogeneousPoissonEncoder.forward` on the object holding `s` is the MODEL's
spike train of the configuration `s.expCfg` (the one `Props/C19.lean` is about) on the rates `frequency * inputs`, for the
same draws — offline: `expOfflineT` read time-first, `RuntimeError` of the functional exactly when the model gives `none`;
online: `expOnline`.  (Draws of the shape the code requests: hypotheses `hn`, `hcol`, `hs`, `hf`.) -/
theorem gen_poisson_forward_model (s : EncState) (g : Option GenId) (inputs : List Rat) (hi : EncInv s) :
    (∀ sample, sample.length = inputs.length → (∀ col ∈ sample, col.length = s.expCfg.nbins) →
      (HomogeneousPoissonEncoder_forward_offline (conc s g) inputs sample).map (timeFirst s.steps.toNat) =
        liftF (conc s g) (GlueProg.ofOption .RuntimeError (expOfflineT s.expCfg ((inputs.map (s.freq * ·)).zip sample)))) ∧
    (∀ s0 freshs, s0.length = inputs.length → freshs.length = s.steps.toNat →
      (HomogeneousPoissonEncoder_forward_online (conc s g) inputs s0 freshs).toOption =
        expOnline s.expCfg (inputs.map (s.freq * ·)) s0 freshs) := by
  have hdt : s.dt ≠ 0 := ne_of_gt hi.dt_pos
  obtain ⟨h1, h2⟩ := gen_poisson_forward s g inputs hi
  constructor
  · intro sample hn hcol
    rw [h1, liftF_map]
    rw [GlueProg.gen_exp_interval_offline (inputs.map (s.freq * ·)) s.steps.toNat s.dt (some s.refrac) s.comp sample hdt
      (by simp [hn]) hcol]
    rfl
  · intro s0 freshs hs hf
    rw [h2, liftF_toOption]
    exact GlueProg.gen_exp_interval_online (inputs.map (s.freq * ·)) s.steps.toNat s.dt (some s.refrac) s.comp s0 freshs hdt
      (by simp [hs]) hf

/-- `HomogeneousPoissonApproxEncoder.forward` (offline / online) on the object holding `s` is the regenerated functional
program `homogenous_poisson_bernoulli_approx` / `_online` applied to `frequency * inputs`, `steps`, `step_time = dt`. -/
theorem gen_poisson_approx_forward (s : EncState) (g : Option GenId) (inputs : List Rat) (hs : 0 < s.steps) :
    (∀ U, HomogeneousPoissonApproxEncoder_forward_offline (concP .HomogeneousPoissonApproxEncoder s g) inputs U =
      liftF (concP .HomogeneousPoissonApproxEncoder s g)
        (EncoderProg.homogenous_poisson_bernoulli_approx (inputs.map (s.freq * ·)) s.steps.toNat s.dt U)) ∧
    (∀ U, HomogeneousPoissonApproxEncoder_forward_online (concP .HomogeneousPoissonApproxEncoder s g) inputs U =
      liftF (concP .HomogeneousPoissonApproxEncoder s g)
        (EncoderProg.homogenous_poisson_bernoulli_approx_online (inputs.map (s.freq * ·)) s.steps.toNat s.dt U)) := by
  constructor <;> intros <;>
    simp [HomogeneousPoissonApproxEncoder_forward_offline, HomogeneousPoissonApproxEncoder_forward_online, concP,
      get_frequency, get_steps, get_dt, get_generator, HomogeneousPoissonApproxEncoder_frequency, StepMixin_steps,
      StepTimeMixin_dt, GeneratorMixin_generator, getattr, bind, Except.bind, pure, Except.pure, asNat_ok _ _ hs, rmulS1Q]

/-- Composition with `Props/C19GlueProg.lean`: offline and online alike, the model's `bernoulliT` on the rates
`frequency * inputs` for the supplied uniforms (one row per step, each of the inputs' size). -/
theorem gen_poisson_approx_forward_model (s : EncState) (g : Option GenId) (inputs : List Rat) (hs : 0 < s.steps)
    (U : List (List Rat)) (hU : U.length = s.steps.toNat) (hrow : ∀ row ∈ U, row.length = inputs.length) :
    HomogeneousPoissonApproxEncoder_forward_offline (concP .HomogeneousPoissonApproxEncoder s g) inputs U =
      .ok (bernoulliT s.dt (inputs.map (s.freq * ·)) U) ∧
    HomogeneousPoissonApproxEncoder_forward_online (concP .HomogeneousPoissonApproxEncoder s g) inputs U =
      .ok (bernoulliT s.dt (inputs.map (s.freq * ·)) U) := by
  obtain ⟨h1, h2⟩ := gen_poisson_approx_forward s g inputs hs
  rw [h1, h2, GlueProg.gen_bernoulli_offline _ _ _ U hU (by simpa using hrow),
    GlueProg.gen_bernoulli_online _ _ _ U hU (by simpa using hrow)]
  exact ⟨rfl, rfl⟩

/-- `PoissonIntervalEncoder.forward` (offline / online) on the object holding `s` is the regenerated functional program
`poisson_interval` / `_online` applied to `frequency * inputs`, `steps`, `step_time = dt`. -/
theorem gen_interval_forward (s : EncState) (g : Option GenId) (inputs : List Rat) (hs : 0 < s.steps) :
    (∀ K, PoissonIntervalEncoder_forward_offline (concP .PoissonIntervalEncoder s g) inputs K =
      liftF (concP .PoissonIntervalEncoder s g)
        (EncoderProg.poisson_interval (inputs.map (s.freq * ·)) s.steps.toNat s.dt K)) ∧
    (∀ k0 freshs, PoissonIntervalEncoder_forward_online (concP .PoissonIntervalEncoder s g) inputs k0 freshs =
      liftF (concP .PoissonIntervalEncoder s g)
        (EncoderProg.poisson_interval_online (inputs.map (s.freq * ·)) s.steps.toNat s.dt k0 freshs)) := by
  constructor <;> intros <;>
    simp [PoissonIntervalEncoder_forward_offline, PoissonIntervalEncoder_forward_online, concP,
      get_frequency, get_steps, get_dt, get_generator, PoissonIntervalEncoder_frequency, StepMixin_steps,
      StepTimeMixin_dt, GeneratorMixin_generator, getattr, bind, Except.bind, pure, Except.pure, asNat_ok _ _ hs, rmulS1Q]

/-- Composition with `Props/C19GlueProg.lean`: the model's `poissonOfflineT` (read time-first) / `poissonOnline` on the
rates `frequency * inputs`, for the same draws. -/
theorem gen_interval_forward_model (s : EncState) (g : Option GenId) (inputs : List Rat) (hs : 0 < s.steps)
    (hdt : s.dt ≠ 0) :
    (∀ K, K.length = inputs.length → (∀ col ∈ K, col.length = s.steps.toNat + 2) →
      (PoissonIntervalEncoder_forward_offline (concP .PoissonIntervalEncoder s g) inputs K).map (timeFirst s.steps.toNat) =
        .ok (poissonOfflineT s.steps.toNat ((inputs.map (s.freq * ·)).zip K))) ∧
    (∀ k0 freshs, k0.length = inputs.length → freshs.length = s.steps.toNat →
      (PoissonIntervalEncoder_forward_online (concP .PoissonIntervalEncoder s g) inputs k0 freshs).toOption =
        poissonOnline (inputs.map (s.freq * ·)) k0 freshs) := by
  obtain ⟨h1, h2⟩ := gen_interval_forward s g inputs hs
  constructor
  · intro K hn hcol
    rw [h1, liftF_map, GlueProg.gen_poisson_interval_offline _ _ _ K hdt (by simp [hn]) hcol]
    rfl
  · intro k0 freshs hk hf
    rw [h2, liftF_toOption]
    exact GlueProg.gen_poisson_interval_online _ _ _ k0 freshs hdt (by simp [hk]) hf

/-! ## Non-vacuity: the regenerated programs run -/

example : HomogeneousPoissonEncoder___init__ (blank .HomogeneousPoissonEncoder) 10 1 100 (some 3) true none =
    .ok (conc ⟨10, 1, 100, 3, false, true⟩ none) := by decide +kernel
/-- 100 Hz × 12 ms ≥ 1000: refused by the compatibility test -/
example : (match HomogeneousPoissonEncoder___init__ (blank .HomogeneousPoissonEncoder) 10 1 100 (some 12) true none with
    | .error (Err.ValueError, _) => true | _ => false) = true := by decide +kernel
/-- `dt`'s setter with a derived refractory period: 100 Hz × 10 ms is refused and BOTH `dt` and `refrac` are rolled back -/
example : HomogeneousPoissonEncoder_dt_setter (conc ⟨10, 1, 100, 1, true, true⟩ none) 10 =
    .error (.ValueError, conc ⟨10, 1, 100, 1, true, true⟩ none) := by decide +kernel
example : HomogeneousPoissonEncoder_dt_setter (conc ⟨10, 1, 100, 1, true, true⟩ none) 2 =
    .ok (conc ⟨10, 2, 100, 2, true, true⟩ none) := by decide +kernel
/-- a refused negative `refrac` (compensation off) has already unpinned the refractory period -/
example : HomogeneousPoissonEncoder_refrac_setter (conc ⟨10, 1, 100, 1, true, false⟩ none) (some (-1)) =
    .error (.ValueError, conc ⟨10, 1, 100, 1, false, false⟩ none) := by decide +kernel
/-- the example of `Props/C19GlueProg.lean` through the class: frequency 100 Hz, inputs 1 and 0 -/
example : HomogeneousPoissonEncoder_forward_offline (conc ⟨10, 1, 100, 3, false, true⟩ none) [1, 0] [[1/2, 1/4, 2], [1, 1, 1]] =
    .ok [[false, false, false, false, false, false, true, false, false, false],
         [false, false, false, false, false, false, false, false, false, false]] := by decide +kernel
example : StepMixin_duration (conc ⟨10, 1/2, 100, 3, false, true⟩ none) = .ok 5 := by decide +kernel

end InfernoVerif.Enc.GlueCls
