import InfernoVerif.Lemmas.Trace
import InfernoVerif.Lemmas.Reducer
import InfernoVerif.Props.C02
/-!
# C07 — Spike traces and fold reducers equal their closed forms over any event history

Property theorems only (helper lemmas: `Lemmas/Trace.lean`, `Lemmas/Reducer.lean`; model:
`Model/Reducer.lean`; `select`: C02's `Model/Select.lean`, `Props/C02.lean`).

**Part A — the folds.**  The theorems are about the GENERATED one-step functions of
`inferno/core/trace.py` and `exponential_smoothing` of `core/math.py` (`Gen/TraceR.lean`,
`Gen/SmoothingR.lean`, regenerated from /repo on every run) and the generic
transcriptions of `EventReducer.fold`, `CAReducer.fold` (`Model/Reducer.lean`, one definition shared by the theorems and the driver).  For EVERY
observation sequence `o : ℕ → _` and EVERY `n`, with
`x₀ = step (o 0) none`, `x_{n+1} = step (o (n+1)) (some xₙ)` (`foldSeq`):
`cumulative_trace_closed`, `exp_cumulative_trace_closed`, `nearest_trace_closed`,
`exp_nearest_trace_closed`, `nearest_trace_zero_before_first_event`, the scaled / conditional
variants, `trace_cumulative_value_closed`, `event_reducer` (+ `event_reducer_before_first_event`),
`passthrough_reducer`, `ca_reducer`, `ema_reducer`, and `cumulative_trace_closed_times` (step time
changing between observations).  The match is the generated mask (`maskOf`: exact, or within
tolerance), so both are covered.

**Part B — the reducer.**  `reducer_run_refines` (the code-shaped machine — `_initial`, ring
storage, lazy initialise, `reset`/`deinitialize`, `align`+`flip`, `select` — refines the
list-of-fold-values specification over ALL operation sequences), `reducer_history`,
`dump_newest_first`, `clear_then_run_eq_fresh_run` (unconditional since the D34 repair),
`resize_while_observing`, `view_on_grid`, `view_off_grid` and its four
reducer-specific forms, `decay_recomputed_on_dt_change`, and two end-to-end corollaries
(`cumulative_reducer_history`, `ca_reducer_history`).
-/
namespace InfernoVerif.Trace
open Finset Classical
open InfernoVerif.Gen.TraceR InfernoVerif.Gen.InterpolationR
open InfernoVerif.Gen.SmoothingR
open InfernoVerif.Reducer (foldSeq eventFold caFold passFold)

/-! ## Part A — closed forms of the folds -/

/-- **Cumulative trace** (generated `trace_cumulative`, any decay `d`): after observation `n` the
trace is the sum over all matching steps `k ≤ n` of `A·d^{n−k}`. -/
theorem cumulative_trace_closed (d A target : ℝ) (tol : Option ℝ) (o : ℕ → ℝ) (n : ℕ) :
    foldSeq (fun _ ob s => trace_cumulative ob s d A target tol) o n =
      ∑ k ∈ (range (n + 1)).filter (fun k => maskOf target tol (o k)), A * d ^ (n - k) := by
  rw [cum_closed d _ o (fun i => if maskOf target tol (o i) then A else 0)
    (fun i s => gen_cumulative_eq (o i) s d A target tol) n, sum_filter]
  apply sum_congr rfl; intro k _; split_ifs <;> simp

/-- **Cumulative trace, exponential decay** (generated `exp_trace_cumulative`):
`x n = Σ_{k ≤ n, match} A·exp(−(n−k)·dt/τ)` — the sum over all past matching events of
`amplitude·exp(−(t − t_f)/τ)`. -/
theorem exp_cumulative_trace_closed (dt τ A target : ℝ) (_hτ : 0 < τ) (tol : Option ℝ) (o : ℕ → ℝ) (n : ℕ) :
    foldSeq (fun _ ob s => exp_trace_cumulative ob s dt τ A target tol) o n =
      ∑ k ∈ (range (n + 1)).filter (fun k => maskOf target tol (o k)),
        A * Real.exp (-(((n - k : ℕ) : ℝ) * dt) / τ) := by
  unfold exp_trace_cumulative
  rw [cumulative_trace_closed]
  apply sum_congr rfl; intro k _; rw [exp_decay_pow]

/-- **Nearest trace** (generated `trace_nearest`): `A·d^{n − last}` with `last` the most recent
matching step `≤ n`, and `0` if no step matched yet. -/
theorem nearest_trace_closed (d A target : ℝ) (tol : Option ℝ) (o : ℕ → ℝ) (n : ℕ) :
    foldSeq (fun _ ob s => trace_nearest ob s d A target tol) o n =
      match lastMatch (fun i => maskOf target tol (o i)) n with
      | some k => A * d ^ (n - k)
      | none => 0 :=
  near_closed d _ o (fun i => maskOf target tol (o i)) (fun _ => A)
    (fun i s => gen_nearest_eq (o i) s d A target tol) n

/-- **Nearest trace, exponential decay** (generated `exp_trace_nearest`), in the property's words:
if `k ≤ n` matched and nothing after it up to `n` did, the trace is `A·exp(−(n−k)·dt/τ)`. -/
theorem exp_nearest_trace_closed (dt τ A target : ℝ) (_hτ : 0 < τ) (tol : Option ℝ) (o : ℕ → ℝ) (n k : ℕ)
    (hk : k ≤ n) (hm : maskOf target tol (o k)) (hlast : ∀ j, k < j → j ≤ n → ¬ maskOf target tol (o j)) :
    foldSeq (fun _ ob s => exp_trace_nearest ob s dt τ A target tol) o n =
      A * Real.exp (-(((n - k : ℕ) : ℝ) * dt) / τ) := by
  unfold exp_trace_nearest
  rw [nearest_trace_closed, lastMatch_eq_some_iff.mpr ⟨hk, hm, hlast⟩]
  simp only
  rw [exp_decay_pow]

/-- **Nearest trace before the first event** is `0`. -/
theorem nearest_trace_zero_before_first_event (d A target : ℝ) (tol : Option ℝ) (o : ℕ → ℝ) (n : ℕ)
    (h : ∀ j, j ≤ n → ¬ maskOf target tol (o j)) :
    foldSeq (fun _ ob s => trace_nearest ob s d A target tol) o n = 0 := by
  rw [nearest_trace_closed, lastMatch_eq_none_iff.mpr h]

/-- **Scaled cumulative trace** (generated `trace_cumulative_scaled`, criterion `J` on the
observation — `ScaledCumulativeTraceReducer`): the event term is `scale·o_k + A`. -/
theorem trace_cumulative_scaled_closed (d A scale : ℝ) (J : ℝ → Prop) (o : ℕ → ℝ) (n : ℕ) :
    foldSeq (fun _ ob s => trace_cumulative_scaled ob s d A scale J) o n =
      ∑ k ∈ (range (n + 1)).filter (fun k => J (o k)), (scale * o k + A) * d ^ (n - k) := by
  rw [cum_closed d _ o (fun i => if J (o i) then scale * o i + A else 0)
    (fun i s => gen_cumulative_scaled_eq (o i) s d A scale J) n, sum_filter]
  apply sum_congr rfl; intro k _; split_ifs <;> simp

/-- **Conditional cumulative trace** (`ConditionalCumulativeTraceReducer`: the match is a second
input `c_k`, handed to the generated function as the constant criterion). -/
theorem trace_cumulative_conditional_closed (d A scale : ℝ) (o : ℕ → ℝ × Prop) (n : ℕ) :
    foldSeq (fun _ (oc : ℝ × Prop) s => trace_cumulative_scaled oc.1 s d A scale (fun _ => oc.2)) o n =
      ∑ k ∈ (range (n + 1)).filter (fun k => (o k).2), (scale * (o k).1 + A) * d ^ (n - k) := by
  rw [cum_closed d _ o (fun i => if (o i).2 then scale * (o i).1 + A else 0)
    (fun i s => gen_cumulative_scaled_eq (o i).1 s d A scale (fun _ => (o i).2)) n, sum_filter]
  apply sum_congr rfl; intro k _; split_ifs <;> simp

/-- **Scaled nearest trace** (generated `trace_nearest_scaled`): `(scale·o_k + A)·d^{n−k}` for the
most recent matching `k`, `0` before the first match. -/
theorem trace_nearest_scaled_closed (d A scale : ℝ) (J : ℝ → Prop) (o : ℕ → ℝ) (n : ℕ) :
    foldSeq (fun _ ob s => trace_nearest_scaled ob s d A scale J) o n =
      match lastMatch (fun i => J (o i)) n with
      | some k => (scale * o k + A) * d ^ (n - k)
      | none => 0 :=
  near_closed d _ o (fun i => J (o i)) (fun i => scale * o i + A)
    (fun i s => gen_nearest_scaled_eq (o i) s d A scale J) n

/-- **Conditional nearest trace** (`ConditionalNearestTraceReducer`). -/
theorem trace_nearest_conditional_closed (d A scale : ℝ) (o : ℕ → ℝ × Prop) (n : ℕ) :
    foldSeq (fun _ (oc : ℝ × Prop) s => trace_nearest_scaled oc.1 s d A scale (fun _ => oc.2)) o n =
      match lastMatch (fun i => (o i).2) n with
      | some k => (scale * (o k).1 + A) * d ^ (n - k)
      | none => 0 :=
  near_closed d _ o (fun i => (o i).2) (fun i => scale * (o i).1 + A)
    (fun i s => gen_nearest_scaled_eq (o i).1 s d A scale (fun _ => (o i).2)) n

/-- **Value trace** (generated `trace_cumulative_value`, the eligibility filter):
`x n = Σ_{k ≤ n} scale·o_k·d^{n−k}`. -/
theorem trace_cumulative_value_closed (d scale : ℝ) (o : ℕ → ℝ) (n : ℕ) :
    foldSeq (fun _ ob s => trace_cumulative_value ob s d scale) o n =
      ∑ k ∈ range (n + 1), scale * o k * d ^ (n - k) :=
  cum_closed d _ o (fun i => scale * o i) (fun i s => gen_cumulative_value_eq (o i) s d scale) n

/-- **Step time changing between observations** (each step's decay is `exp(−Δt/τ)` for the step
time in force, which is what recomputing `decay` in the `dt` setter achieves): the cumulative trace
is `Σ_{k ≤ n, match} A·exp(−(T n − T k)/τ)` in the ACTUAL observation times `T`. -/
theorem cumulative_trace_closed_times (τ A target : ℝ) (_hτ : 0 < τ) (tol : Option ℝ) (T : ℕ → ℝ) (o : ℕ → ℝ)
    (n : ℕ) :
    foldSeq (fun i ob s => trace_cumulative ob s (Real.exp (-(T i - T (i - 1)) / τ)) A target tol) o n =
      ∑ k ∈ (range (n + 1)).filter (fun k => maskOf target tol (o k)),
        A * Real.exp (-(T n - T k) / τ) := by
  rw [cum_closed_times τ T _ o (fun i => if maskOf target tol (o i) then A else 0)
    (fun i s => by rw [gen_cumulative_eq]; rfl) (by rw [gen_cumulative_eq]; rfl) n, sum_filter]
  apply sum_congr rfl; intro k _; split_ifs <;> simp

/-- **Event reducer** (`EventReducer.fold`): the value is the time since the most recent event,
`(n − last)·dt`; before the first event it is the configured initial value plus the elapsed time
`n·dt` — which for the non-finite initial values `inf` / `nan` (modelled as `XR.nonfin`: absorbing
under `+ dt`, overwritten by an event) is that value itself. -/
theorem event_reducer {ω : Type} (crit : ω → Bool) (initial : XR) (dt : ℝ) (o : ℕ → ω) (n : ℕ) :
    foldSeq (fun _ ob s => eventFold (XR.fin 0) initial crit (XR.fin dt) ob s) o n =
      match lastMatch (fun i => crit (o i) = true) n with
      | some k => XR.fin (((n - k : ℕ) : ℝ) * dt)
      | none => initial.shift ((n : ℝ) * dt) :=
  event_closed crit initial dt o n

/-- Before the first event a non-finite initial value (`"inf"`, `"nan"`) is reported unchanged. -/
theorem event_reducer_before_first_event {ω : Type} (crit : ω → Bool) (dt : ℝ) (o : ℕ → ω) (n : ℕ)
    (h : ∀ j, j ≤ n → ¬ crit (o j) = true) :
    foldSeq (fun _ ob s => eventFold (XR.fin 0) XR.nonfin crit (XR.fin dt) ob s) o n = XR.nonfin := by
  rw [event_reducer, lastMatch_eq_none_iff.mpr h]; rfl

/-- **Cumulative average** (`CAReducer.fold`, `_count = i+1` at the `i`-th observation since the
last clear): the mean of all observations so far. -/
theorem ca_reducer (o : ℕ → ℝ) (n : ℕ) :
    foldSeq (fun i ob s => caFold (fun k : ℕ => (k : ℝ)) (i + 1) ob s) o n =
      (∑ k ∈ range (n + 1), o k) / ((n : ℝ) + 1) :=
  ca_closed o n

/-- **Exponential moving average** (GENERATED `exponential_smoothing` of `core/math.py`):
`s_n = (1−α)^n·x₀ + Σ_{k=1}^{n} α·(1−α)^{n−k}·x_k`. -/
theorem ema_reducer (a : ℝ) (o : ℕ → ℝ) (n : ℕ) :
    foldSeq (fun _ ob s => exponential_smoothing ob s a) o n =
      (1 - a) ^ n * o 0 + ∑ k ∈ range n, a * o (k + 1) * (1 - a) ^ (n - 1 - k) :=
  ema_closed a o n

end InfernoVerif.Trace

namespace InfernoVerif.Reducer
open InfernoVerif.Ring InfernoVerif.Select InfernoVerif.Record InfernoVerif.Trace
open InfernoVerif.Gen.TraceR InfernoVerif.Gen.InterpolationR InfernoVerif.Gen.SmoothingR
open Finset Classical

/-! ## Part B — the FoldReducer state machine -/

section Machine
variable {α ω : Type}

/-- **The reducer refines its specification over every operation history.**  For every reducer
kind, every reachable state and EVERY finite sequence over {observe (in-place or not), clear
(keepshape or not), peek, dump, view (scalar / tensor time), `dt =`, `duration =`}, the code-shaped
machine (`_initial` flag, ring storage created lazily on the first observation, `reset(fill)` /
`deinitialize`, `align(0)`+`flip`, `select` on the ring) produces the same outputs as the
list-of-fold-values specification, and stays reachable.  No side condition: the first observation
after a clear refills kept storage with the fill value (D34 repair), so a `dt` / `duration`
assignment between a `clear(keepshape=True)` and that observation is invisible; a resize of an
ALREADY-OBSERVING reducer is specified by `resize_while_observing`. -/
theorem reducer_run_refines (K : Kind α ω) (hsz : ∀ a b c, 0 < K.recsz a b c) (ops : List (Op α ω))
    (s : State α) (hi : Inv K s) :
    sabs (run K s ops).1 = (srun K (sabs s) ops).1 ∧
    (run K s ops).2 = (srun K (sabs s) ops).2 ∧
    Inv K (run K s ops).1 :=
  run_refines K hsz ops s hi

/-- A newly constructed reducer is reachable. -/
theorem reducer_init_inv (K : Kind α ω) (hsz : ∀ a b c, 0 < K.recsz a b c) (dt dur : α) (incl : Bool)
    (p : Params α) : Inv K (init K dt dur incl p) :=
  init_inv K hsz dt dur incl p

/-- **History.**  After any `T ≥ 1` observations `o 0 … o (T−1)` (in-place or not) from a cleared
reducer with `n` slots: `peek` is the newest fold value `x (T−1)`; the storage is a well-formed
ring in which `read (k+1)` — `k` steps back — is the value recorded then, `x (T−1−k)`, for
`k < min T n`, and the fill value for the remaining slots. -/
theorem reducer_history (K : Kind α ω) (hsz : ∀ a b c, 0 < K.recsz a b c) (s : State α) (hi : Inv K s)
    (hc : s.initial = true) (o : ℕ → ω) (ip : ℕ → Bool) (T : ℕ) (hT : 0 < T) :
    let s' := (run K s (obsOps o ip T)).1
    let x := foldSeq (stepAt K s.dt s.p) o
    (step K s' .peek).2 = .val (some (x (T - 1))) ∧
    ∃ r, s'.data = some r ∧ s'.initial = false ∧ r.WF ∧ r.n = s.n ∧
      ∀ k, k < s.n → r.read (1 + (k : ℤ)) = some (if k < T then x (T - 1 - k) else K.fill) := by
  obtain ⟨r, hs', hw, hrn, hnew⟩ := run_observes K hsz s hi hc o ip T hT
  rw [hs']
  have hread : ∀ k, k < s.n → r.read (1 + (k : ℤ)) =
      some (if k < T then foldSeq (stepAt K s.dt s.p) o (T - 1 - k) else K.fill) := by
    intro k hk
    rw [read_of_newest r hw _ hnew k (by omega), histAfter_getElem? _ _ _ _ _ _ _ hk]
  refine ⟨?_, r, rfl, rfl, hw, hrn, hread⟩
  have h0 := hread 0 hi.1
  simp only [hT, if_true, Nat.sub_zero] at h0
  simp only [step, Bool.false_eq_true, if_false]
  rw [show (1 : ℤ) = 1 + ((0 : ℕ) : ℤ) by simp, h0]

/-- **`dump` lists the record newest first**: entry `k` is the value recorded `k` steps back
(`x (T−1−k)`), the fill value beyond the observations made since the last clear. -/
theorem dump_newest_first (K : Kind α ω) (hsz : ∀ a b c, 0 < K.recsz a b c) (s : State α) (hi : Inv K s)
    (hc : s.initial = true) (o : ℕ → ω) (ip : ℕ → Bool) (T : ℕ) (hT : 0 < T) :
    (step K (run K s (obsOps o ip T)).1 .dump).2 =
      .hist ((List.range s.n).map fun k =>
        if k < T then foldSeq (stepAt K s.dt s.p) o (T - 1 - k) else K.fill) := by
  obtain ⟨r, hs', hw, hrn, hnew⟩ := run_observes K hsz s hi hc o ip T hT
  simp only [hs', step, Bool.false_eq_true, if_false]
  rw [dump_eq_newest r hw, hnew]; rfl

/-- **Clearing returns the reducer to its pre-first-observation behaviour.**  From every reachable
state, for BOTH values of `keepshape`, and for EVERY subsequent operation sequence (including `dt` /
`duration` assignments that grow the record before the next observation, for any fill value), a cleared
reducer and a newly constructed one (same configuration) produce identical outputs on every
observable (`peek`, `dump`, `view`, and the `None`s before the first observation). -/
theorem clear_then_run_eq_fresh_run (K : Kind α ω) (hsz : ∀ a b c, 0 < K.recsz a b c) (s : State α)
    (hi : Inv K s) (keepshape : Bool) (ops : List (Op α ω)) :
    (run K (step K s (.clear keepshape)).1 ops).2 = (run K (freshOf K s) ops).2 := by
  obtain ⟨h1, _, h3⟩ := step_refines K hsz s hi (.clear keepshape)
  obtain ⟨_, a2, _⟩ := run_refines K hsz ops _ h3
  obtain ⟨_, b2, _⟩ := run_refines K hsz ops _ (freshOf_inv K s hi)
  rw [a2, b2, h1]
  congr 2

/-- **Resizing an already-observing reducer** (`dt =` / `duration =` changing the record size from
`n` to `n'` after at least one observation since the last clear — C13's tail-preserving resize):
the storage stays a well-formed ring, now of `n'` slots; what was recorded `k` steps back stays
`k` steps back for `k < min n n'`; slots `n ≤ k < n'` added by a growth hold ZERO (what
`__make_compatible` pads with), NOT the reducer's fill value, until overwritten by observations or
refilled by the first observation after the next `clear`. -/
theorem resize_while_observing (K : Kind α ω) (hsz : ∀ a b c, 0 < K.recsz a b c) (s : State α)
    (hi : Inv K s) (hni : s.initial = false) (op : Op α ω) (n' : ℕ)
    (hop : (∃ v, op = .setDt v ∧ n' = K.recsz v s.dur s.incl) ∨
           (∃ v, op = .setDur v ∧ n' = K.recsz s.dt v s.incl)) :
    ∃ r r', s.data = some r ∧ (step K s op).1.data = some r' ∧ (step K s op).1.initial = false ∧
      (step K s op).1.n = n' ∧ r'.WF ∧ r'.n = n' ∧
      ∀ k, k < n' → r'.read (1 + (k : ℤ)) = if k < s.n then r.read (1 + (k : ℤ)) else some K.zero := by
  obtain ⟨dt, dur, incl, n, ini, data, p⟩ := s
  simp only at hni; subst hni
  obtain ⟨hn, r, hd, hw, hrn⟩ := hi
  simp only at hd hrn hn; subst hd
  have hn' : 0 < n' := by
    rcases hop with ⟨v, _, h⟩ | ⟨v, _, h⟩ <;> rw [h] <;> exact hsz _ _ _
  have key : ∃ r', (if n' = n then r else r.reconstrain0 n' K.zero) = r' ∧ r'.WF ∧ r'.n = n' ∧
      ∀ k, k < n' → r'.read (1 + (k : ℤ)) = if k < n then r.read (1 + (k : ℤ)) else some K.zero := by
    refine ⟨_, rfl, ?_, ?_, ?_⟩
    · split
      · exact hw
      · exact reconstrain0_wf _ _ hn' _
    · split
      · rename_i h; rw [hrn, h]
      · rfl
    · intro k hk
      split
      · rename_i h; subst h; rw [if_pos hk]
      · have hw' := reconstrain0_wf r n' hn' K.zero
        rw [read_of_newest _ hw' _ (reconstrain0_newest r hw n' K.zero) k hk]
        have hl := newest_length r hw
        unfold specResize
        rw [List.getElem?_take, if_pos hk]
        by_cases hkn : k < n
        · rw [if_pos hkn, List.getElem?_append_left (by omega),
            read_of_newest r hw _ rfl k (by omega)]
        · rw [if_neg hkn, List.getElem?_append_right (by omega), List.getElem?_replicate,
            if_pos (by omega)]
  obtain ⟨r', hr', hw', hrn', hread⟩ := key
  rcases hop with ⟨v, rfl, h⟩ | ⟨v, rfl, h⟩
  · refine ⟨r, r', rfl, ?_, rfl, h.symm, hw', hrn', hread⟩
    simp only [step, resizeData, Option.map_some, ← h, hr']
  · refine ⟨r, r', rfl, ?_, rfl, h.symm, hw', hrn', hread⟩
    simp only [step, resizeData, Option.map_some, ← h, hr']

end Machine

/-! ### `view` (over ℝ, `select` arithmetic = C02's `realOps`) -/

/-- **View on the grid.**  After `T ≥ 1` observations from a cleared reducer with `n` slots, a
time `t` within tolerance (`2·tol < dt`) of `k·dt`, `k ≤ n−1`, views — scalar or tensor time — the
value recorded `k` steps back: `x (T−1−k)` for `k < T`, the fill value otherwise. -/
theorem view_on_grid {ω : Type} (K : Kind ℝ ω) (hK : K.ops = realOps) (hsz : ∀ a b c, 0 < K.recsz a b c)
    (s : State ℝ) (hi : Inv K s) (hc : s.initial = true) (o : ℕ → ω) (ip : ℕ → Bool) (T : ℕ) (hT : 0 < T)
    (tol t : ℝ) (hdt : 0 < s.dt) (h2 : 2 * tol < s.dt) (k : ℕ) (hk : k < s.n)
    (hg : |(k : ℝ) * s.dt - t| ≤ tol) (tensor : Bool) :
    (step K (run K s (obsOps o ip T)).1 (.view t tol tensor)).2 =
      .sel (.ok (if k < T then foldSeq (stepAt K s.dt s.p) o (T - 1 - k) else K.fill)) := by
  obtain ⟨_, r, hd, hini, hw, hrn, hread⟩ := reducer_history K hsz s hi hc o ip T hT
  obtain ⟨r', hs', _, _, _⟩ := run_observes K hsz s hi hc o ip T hT
  have hdt' : (run K s (obsOps o ip T)).1.dt = s.dt := by rw [hs']
  have hin : InRange r.n s.dt tol t := by
    have habs := abs_le.mp hg
    have hk' : (k : ℝ) ≤ (s.n : ℝ) - 1 := by
      have : (k : ℝ) + 1 ≤ (s.n : ℝ) := by exact_mod_cast hk
      linarith
    have : (k : ℝ) * s.dt ≤ s.dt * ((s.n : ℝ) - 1) := by
      rw [mul_comm]; exact mul_le_mul_of_nonneg_left hk' hdt.le
    have hk0 : 0 ≤ (k : ℝ) * s.dt := by positivity
    rw [hrn]
    constructor <;> linarith [habs.1, habs.2]
  obtain ⟨v, hv, hs1, hs2⟩ := select_on_grid K.interp r hw s.dt tol t 1 hdt h2 hin (k : ℤ) (by exact_mod_cast hg)
  rw [hread k hk] at hv
  cases hv
  simp only [step, hini, Bool.false_eq_true, if_false, hd, hdt', hK]
  cases tensor <;> simp [hs1, hs2]

/-- **View off the grid.**  If no multiple of `dt` is within tolerance of `t` (in range), the view
— scalar or tensor time — is the reducer's `interpolate` applied to the value recorded
`⌈t/dt⌉` steps back (older), the value recorded `⌊t/dt⌋` steps back (newer), and the time
`⌈t/dt⌉·dt − t ∈ (0, dt)` elapsed since the older one. -/
theorem view_off_grid {ω : Type} (K : Kind ℝ ω) (hK : K.ops = realOps) (hsz : ∀ a b c, 0 < K.recsz a b c)
    (s : State ℝ) (hi : Inv K s) (hc : s.initial = true) (o : ℕ → ω) (ip : ℕ → Bool) (T : ℕ) (hT : 0 < T)
    (tol t : ℝ) (hdt : 0 < s.dt) (htol : 0 ≤ tol) (hin : InRange s.n s.dt tol t)
    (hoff : ∀ k : ℤ, tol < |(k : ℝ) * s.dt - t|) (tensor : Bool) :
    let x := fun k : ℕ => if k < T then foldSeq (stepAt K s.dt s.p) o (T - 1 - k) else K.fill
    (step K (run K s (obsOps o ip T)).1 (.view t tol tensor)).2 =
      .sel (.ok (K.interp (x ⌈t / s.dt⌉.toNat) (x ⌊t / s.dt⌋.toNat)
        ((⌈t / s.dt⌉ : ℝ) * s.dt - t) s.dt)) ∧
    ⌈t / s.dt⌉ = ⌊t / s.dt⌋ + 1 ∧ 0 ≤ ⌊t / s.dt⌋ ∧ ⌈t / s.dt⌉ ≤ (s.n : ℤ) - 1 ∧
    0 < (⌈t / s.dt⌉ : ℝ) * s.dt - t ∧ (⌈t / s.dt⌉ : ℝ) * s.dt - t < s.dt := by
  obtain ⟨_, r, hd, hini, hw, hrn, hread⟩ := reducer_history K hsz s hi hc o ip T hT
  obtain ⟨r', hs', _, _, _⟩ := run_observes K hsz s hi hc o ip T hT
  have hdt' : (run K s (obsOps o ip T)).1.dt = s.dt := by rw [hs']
  obtain ⟨older, newer, ho, hnw, hs1, hs2, hcf, hf0, hcn, he0, he1⟩ :=
    select_off_grid K.interp r hw s.dt tol t 1 hdt htol (by rw [hrn]; exact hin) hoff
  rw [hrn] at hcn
  have hc0 : 0 ≤ ⌈t / s.dt⌉ := by omega
  have e1 : (1 : ℤ) + ⌈t / s.dt⌉ = 1 + ((⌈t / s.dt⌉.toNat : ℕ) : ℤ) := by rw [Int.toNat_of_nonneg hc0]
  have e2 : (1 : ℤ) + ⌊t / s.dt⌋ = 1 + ((⌊t / s.dt⌋.toNat : ℕ) : ℤ) := by rw [Int.toNat_of_nonneg hf0]
  rw [e1, hread _ (by omega)] at ho
  rw [e2, hread _ (by omega)] at hnw
  cases ho; cases hnw
  refine ⟨?_, hcf, hf0, hcn, he0, he1⟩
  simp only [step, hini, Bool.false_eq_true, if_false, hd, hdt', hK]
  cases tensor <;> simp [hs1, hs2]

/-- the record-size function and `select` arithmetic are irrelevant to the statements below -/
abbrev Env := (ℝ → ℝ → Bool → ℕ) × Ops ℝ

/-- `CumulativeTraceReducer` / `NearestTraceReducer` / the scaled and conditional ones /
`EligibilityTraceReducer`, over ℝ, around ANY one-step trace function. -/
noncomputable def traceKindR {ω : Type} (trace : ω → Option ℝ → ℝ → ℝ) (τ : ℝ) (E : Env) : Kind ℝ ω :=
  traceKind Real.exp trace interp_expdecay τ 0 E.1 E.2

/-- **Trace reducers interpolate by analytic decay**: `older·exp(−elapsed/τ)`. -/
theorem trace_view_interpolation {ω : Type} (trace : ω → Option ℝ → ℝ → ℝ) (τ : ℝ) (_hτ : 0 < τ) (E : Env)
    (older newer elapsed dt : ℝ) :
    (traceKindR trace τ E).interp older newer elapsed dt = older * Real.exp (-elapsed / τ) := rfl

/-- **The event reducer interpolates by elapsed time**: `older + elapsed`. -/
theorem event_view_interpolation {ω : Type} (crit : ω → Bool) (initial : ℝ) (E : Env)
    (older newer elapsed dt : ℝ) :
    (eventKind crit initial 0 E.1 E.2).interp older newer elapsed dt = older + elapsed := rfl

/-- **The pass-through reducer interpolates by the previous value.** -/
theorem passthrough_view_interpolation (E : Env) (older newer elapsed dt : ℝ) :
    (passKind interp_previous 0 E.1 E.2).interp older newer elapsed dt = older := rfl

/-- **EMA and CA reducers interpolate linearly**: `older + (newer − older)/dt·elapsed`. -/
theorem average_view_interpolation (alpha : ℝ) (E : Env) (older newer elapsed dt : ℝ) (_hdt : 0 < dt) :
    (emaKind exponential_smoothing interp_linear alpha 0 E.1 E.2).interp older newer elapsed dt
      = older + (newer - older) / dt * elapsed ∧
    (caKind interp_linear (fun k : ℕ => (k : ℝ)) 0 E.1 E.2).interp older newer elapsed dt
      = older + (newer - older) / dt * elapsed := ⟨rfl, rfl⟩

/-- **The decay is recomputed when the step time changes**: after `reducer.dt = v` a trace reducer
holds `decay = exp(−v/τ)` and step time `v`, and the very next fold uses it. -/
theorem decay_recomputed_on_dt_change {ω : Type} (trace : ω → Option ℝ → ℝ → ℝ) (τ : ℝ) (_hτ : 0 < τ) (E : Env)
    (s : State ℝ) (v : ℝ) (_hv : 0 < v) (ob : ω) (prev : Option ℝ) :
    let s' := (step (traceKindR trace τ E) s (.setDt v)).1
    s'.dt = v ∧ s'.p.decay = Real.exp (-v / τ) ∧ s'.n = E.1 v s.dur s.incl ∧
    (traceKindR trace τ E).fold ((traceKindR trace τ E).pre s'.p) s'.dt ob prev
      = trace ob prev (Real.exp (-v / τ)) :=
  ⟨rfl, rfl, rfl, rfl⟩

/-! ### end-to-end corollaries -/

theorem preN_traceKind {ω : Type} (trace : ω → Option ℝ → ℝ → ℝ) (τ : ℝ) (E : Env) (k : ℕ) (p : Params ℝ) :
    preN (traceKindR trace τ E) k p = p := by
  induction k with
  | zero => rfl
  | succ k ih => simp only [preN, ih]; rfl

/-- **`CumulativeTraceReducer`, end to end.**  After `T ≥ 1` observations from a cleared reducer
whose decay is `exp(−dt/τ)`, the value stored `k` steps back (what `peek` (`k = 0`), `dump[k]` and
an on-grid `view(k·dt)` return) is `Σ_{j ≤ T−1−k, match} A·exp(−(T−1−k−j)·dt/τ)`. -/
theorem cumulative_reducer_history (τ A target : ℝ) (hτ : 0 < τ) (tol : Option ℝ) (E : Env) (hsz : ∀ a b c, 0 < E.1 a b c)
    (s : State ℝ) (hd : s.p.decay = Real.exp (-s.dt / τ))
    (hi : Inv (traceKindR (fun ob st d => trace_cumulative ob st d A target tol) τ E) s)
    (hc : s.initial = true) (o : ℕ → ℝ) (ip : ℕ → Bool) (T : ℕ) (hT : 0 < T) (k : ℕ) (hk : k < s.n) (hkT : k < T) :
    ∃ r, (run (traceKindR (fun ob st d => trace_cumulative ob st d A target tol) τ E) s
        (obsOps o ip T)).1.data = some r ∧
      r.read (1 + (k : ℤ)) = some (∑ j ∈ (range (T - 1 - k + 1)).filter (fun j => maskOf target tol (o j)),
        A * Real.exp (-(((T - 1 - k - j : ℕ) : ℝ) * s.dt) / τ)) := by
  obtain ⟨_, r, hdata, _, _, _, hread⟩ := reducer_history _ hsz s hi hc o ip T hT
  refine ⟨r, hdata, ?_⟩
  rw [hread k hk, if_pos hkT]
  congr 1
  have : stepAt (traceKindR (fun ob st d => trace_cumulative ob st d A target tol) τ E) s.dt s.p
      = fun _ ob st => exp_trace_cumulative ob st s.dt τ A target tol := by
    funext i ob st
    simp only [stepAt, preN_traceKind]
    show trace_cumulative ob st s.p.decay A target tol = _
    rw [hd]; rfl
  rw [this, exp_cumulative_trace_closed _ _ _ _ hτ]

theorem preN_caKind (E : Env) (k : ℕ) (p : Params ℝ) :
    (preN (caKind interp_linear (fun k : ℕ => (k : ℝ)) 0 E.1 E.2) k p).count = p.count + k := by
  induction k with
  | zero => rfl
  | succ k ih => simp only [preN]; show (preN _ k p).count + 1 = _; rw [ih]; omega

/-- **`CAReducer`, end to end** (including the `_count` bookkeeping: zeroed by `clear`,
incremented by every fold): after `T ≥ 1` observations from a cleared reducer the value stored `k`
steps back is the mean of the first `T−k` observations. -/
theorem ca_reducer_history (E : Env) (hsz : ∀ a b c, 0 < E.1 a b c) (s : State ℝ) (hcount : s.p.count = 0)
    (hi : Inv (caKind interp_linear (fun k : ℕ => (k : ℝ)) 0 E.1 E.2) s)
    (hc : s.initial = true) (o : ℕ → ℝ) (ip : ℕ → Bool) (T : ℕ) (hT : 0 < T) (k : ℕ) (hk : k < s.n) (hkT : k < T) :
    ∃ r, (run (caKind interp_linear (fun k : ℕ => (k : ℝ)) 0 E.1 E.2) s (obsOps o ip T)).1.data = some r ∧
      r.read (1 + (k : ℤ)) = some ((∑ j ∈ range (T - 1 - k + 1), o j) / (((T - 1 - k : ℕ) : ℝ) + 1)) := by
  obtain ⟨_, r, hdata, _, _, _, hread⟩ := reducer_history _ hsz s hi hc o ip T hT
  refine ⟨r, hdata, ?_⟩
  rw [hread k hk, if_pos hkT]
  congr 1
  have : stepAt (caKind interp_linear (fun k : ℕ => (k : ℝ)) 0 E.1 E.2) s.dt s.p
      = fun i ob st => caFold (fun k : ℕ => (k : ℝ)) (i + 1) ob st := by
    funext i ob st
    show caFold _ (preN _ (i + 1) s.p).count ob st = _
    rw [preN_caKind, hcount]; congr 1; omega
  rw [this, ca_reducer]

/-- A cleared `CAReducer` (either `keepshape`) has `_count = 0`. -/
theorem ca_clear_resets_count (E : Env) (s : State ℝ) (keepshape : Bool) :
    (step (caKind interp_linear (fun k : ℕ => (k : ℝ)) 0 E.1 E.2) s (.clear keepshape)).1.p.count = 0 := rfl

/-! ## Non-vacuity and the excluded case -/

theorem half_in_range' : InRange 3 1 0 (1 / 2) := by
  unfold InRange; constructor <;> norm_num

/-- A concrete integer-valued reducer (running sum, fill 7, zero 0, three slots). -/
def exK : Kind Int Int where
  fold _ _ o s := match s with | some x => x + o | none => o
  pre p := p
  onClear p := p
  onDt p _ := p
  interp a _ _ _ := a
  fill := 7
  zero := 0
  recsz _ dur _ := dur.toNat + 1
  ops := { add := (· + ·), sub := (· - ·), mul := (· * ·), div := (· / ·), neg := (- ·),
           abs := fun x => x.natAbs, ofInt := id, floor := id, ceil := id, round := id,
           le := fun a b => decide (a ≤ b), lt := fun a b => decide (a < b) }

def exS0 : State Int := init exK 1 2 false ⟨0, 0⟩

example : Inv exK exS0 := ⟨by decide, Or.inl rfl⟩
-- mid-wrap: five observations into three slots, then dump / peek / on-grid view
example : (run exK exS0 [.observe 1 true, .observe 2 false, .observe 3 true, .observe 4 false,
    .observe 5 true, .dump, .peek, .view 2 0 false]).2
    = [.unit, .unit, .unit, .unit, .unit, .hist [15, 10, 6], .val (some 15), .sel (.ok 6)] := by decide
-- clear(keepshape) then run = fresh run (fill shows in the unobserved slots)
example : (run exK (step exK (run exK exS0 [.observe 1 true, .observe 2 false]).1 (.clear true)).1
    [.peek, .observe 9 false, .dump]).2 = [.none, .unit, .hist [9, 7, 7]] := by decide
example : (run exK (freshOf exK (run exK exS0 [.observe 1 true, .observe 2 false]).1)
    [.peek, .observe 9 false, .dump]).2 = [.none, .unit, .hist [9, 7, 7]] := by decide

/-- A real-valued cumulative-trace reducer with three slots and `select` arithmetic `realOps`. -/
noncomputable def exR : Kind ℝ ℝ :=
  traceKindR (fun ob st d => trace_cumulative ob st d 1 1 none) 10 (fun _ _ _ => 3, realOps)

theorem exR_sz : ∀ a b c, 0 < exR.recsz a b c := fun _ _ _ => Nat.succ_pos 2

/-- two observations of `1` into a fresh `exR` with `dt = 1` -/
noncomputable def exRs : State ℝ :=
  (run exR (init exR 1 2 false ⟨Real.exp (-1 / 10), 0⟩) (obsOps (fun _ => 1) (fun _ => true) 2)).1

-- the hypotheses of `view_on_grid` / `view_off_grid` are satisfiable: view one step back (on the
-- grid: the value recorded then) and half a step back (off the grid: analytic decay over 1/2)
example : (step exR exRs (.view 1 0 false)).2 =
    .sel (.ok (foldSeq (stepAt exR 1 ⟨Real.exp (-1 / 10), 0⟩) (fun _ => 1) 0)) :=
  view_on_grid exR rfl exR_sz (init exR 1 2 false ⟨Real.exp (-1 / 10), 0⟩)
    (init_inv exR exR_sz _ _ _ _) rfl (fun _ => 1) (fun _ => true) 2 (by decide) 0 1
    (by simp [init]) (by simp [init]) 1 (by decide) (by simp [init]) false

example : ∃ v e : ℝ, (step exR exRs (.view (1 / 2) 0 true)).2 = .sel (.ok (v * Real.exp (-e / 10))) ∧ e = 1 / 2 := by
  have h := (view_off_grid exR rfl exR_sz (init exR 1 2 false ⟨Real.exp (-1 / 10), 0⟩)
    (init_inv exR exR_sz _ _ _ _) rfl (fun _ => 1) (fun _ => true) 2 (by decide) 0 (1 / 2)
    (by simp [init]) (le_refl _) half_in_range' (by simpa [init] using half_off_grid) true).1
  have e : ⌈(1 / 2 : ℝ) / (init exR 1 2 false ⟨Real.exp (-1 / 10), 0⟩).dt⌉ = 1 := by
    simp only [init, div_one]; rw [Int.ceil_eq_iff]; norm_num
  rw [e] at h
  exact ⟨_, _, h, by simp only [init]; norm_num⟩

/-- **Repaired behaviour (D34), concretely**: growing the record between `clear(keepshape=True)`
and the next observation leaves the FILL value (7 here), not zeros, in the new slots — exactly what
a newly constructed reducer shows (`clear_then_run_eq_fresh_run` is the general statement). -/
theorem resize_after_clear_refilled :
    (run exK (step exK (run exK exS0 [.observe 1 true]).1 (.clear true)).1
        [.setDur 4, .observe 9 false, .dump]).2 = [.unit, .unit, .hist [9, 7, 7, 7, 7]] ∧
    (run exK (freshOf exK (run exK exS0 [.observe 1 true]).1)
        [.setDur 4, .observe 9 false, .dump]).2 = [.unit, .unit, .hist [9, 7, 7, 7, 7]] := by decide

/-- **Zero padding while observing is real** (`resize_while_observing`): growing the record of a
reducer that has already observed pads with `0`, not with the fill value `7`. -/
theorem resize_while_observing_pads_zero_witness :
    (run exK exS0 [.observe 1 true, .setDur 4, .dump, .observe 2 false, .dump]).2 =
      [.unit, .unit, .hist [1, 7, 7, 0, 0], .unit, .hist [3, 1, 7, 7, 0]] := by decide

end InfernoVerif.Reducer

namespace InfernoVerif.Trace
open InfernoVerif.Reducer (foldSeq passFold)

/-- **Pass-through reducer** reproduces the observation.  (Axiom-free; kept last in the file.) -/
theorem passthrough_reducer {α : Type} (o : ℕ → α) (n : ℕ) :
    foldSeq (fun _ ob s => passFold ob s) o n = o n := by
  cases n <;> rfl

end InfernoVerif.Trace
