import InfernoVerif.Model.Select
import InfernoVerif.Model.SelectQ
import InfernoVerif.Gen.InterpolationF
import InfernoVerif.Gen.ExtrapolationF
import InfernoVerif.Drv.Proto
/-
Driver for C02: executes the code-shaped model (`selectScalar/Tensor`, `insertScalar/Tensor` of
`Model/Select.lean`, one `Ring` per storage column) AND the specification (`specSelect`,
`specInsert` on the plain history of each column) on each request and prints both.

  begin <Q|F> <n> <ptr> <P> <row|row|…> <dt>   storage rows (n rows of P values), storage order; `dt` is
                                              for the real side only (every op carries its own)
  selS <interp> <kparam> <dt> <tol> <t> <offset>
  selT <interp> <kparam> <dt> <tol> <offset> <D> <times>     P·D times, row-major (D = 0: no time axis)
  insS <extrap> <kparam> <adjust> <dt> <tol> <offset> <inplace> <t> <obs>
  insT <extrap> <kparam> <adjust> <dt> <tol> <offset> <inplace> <times> <obs>
  dump

Mode Q: exact rationals `p/q` (rational kernels of `Model/SelectQ.lean` only); mode F: doubles as
16 hex digits, `floatOps`, GENERATED Float kernels.  `kparam` = time / rate constant or `-`;
`adjust` = `N` or `aff:<a>:<b>`.
-/
open InfernoVerif.Select InfernoVerif.Ring Proto
open InfernoVerif.Gen

structure Num (α : Type) where
  K : Ops α
  parse : String → Option α
  str : α → String
  interp : String → String → Option (Interp α)
  extrap : String → String → String → Option (Extrap α)

def parseRat? (s : String) : Option Rat :=
  match s.splitOn "/" with
  | [p] => (p.toInt?).map fun (i : Int) => (i : Rat)
  | [p, q] => do
      let p ← p.toInt?
      let q ← q.toNat?
      if q = 0 then none else some (mkRat p q)
  | _ => none

def showRat (r : Rat) : String := s!"{r.num}/{r.den}"

def parseAdjQ? (s : String) : Option (Option (Rat → Rat)) :=
  if s = "N" then some none else
  match s.splitOn ":" with
  | ["aff", a, b] => do let a ← parseRat? a; let b ← parseRat? b; some (some fun x => a * x + b)
  | _ => none

def numQ : Num Rat where
  K := ratOps
  parse := parseRat?
  str := showRat
  interp := fun name kp =>
    if kp ≠ "-" then none else
    match name with
    | "previous" => some Q.interp_previous
    | "next" => some Q.interp_next
    | "nearest" => some Q.interp_nearest
    | "linear" => some Q.interp_linear
    | _ => none
  extrap := fun name kp adj =>
    if kp ≠ "-" then none else
    match name with
    | "previous" => if adj = "N" then some Q.extrap_previous else none
    | "next" => if adj = "N" then some Q.extrap_next else none
    | "neighbors" => if adj = "N" then some Q.extrap_neighbors else none
    | "nearest" => if adj = "N" then some Q.extrap_nearest else none
    | "linear_forward" => (parseAdjQ? adj).map fun a => fun o s p q d => Q.extrap_linear_forward o s p q d a
    | "linear_backward" => (parseAdjQ? adj).map fun a => fun o s p q d => Q.extrap_linear_backward o s p q d a
    | _ => none

def numF : Num Float where
  K := floatOps
  parse := Wire.pReal
  str := Wire.sReal
  interp := fun name kp =>
    match name with
    | "previous" => if kp = "-" then some InterpolationF.interp_previous else none
    | "next" => if kp = "-" then some InterpolationF.interp_next else none
    | "nearest" => if kp = "-" then some InterpolationF.interp_nearest else none
    | "linear" => if kp = "-" then some InterpolationF.interp_linear else none
    | "expdecay" => (Wire.pReal kp).map fun c => fun p q s d => InterpolationF.interp_expdecay p q s d c
    | "expratedecay" => (Wire.pReal kp).map fun c => fun p q s d => InterpolationF.interp_expratedecay p q s d c
    | _ => none
  extrap := fun name kp adj =>
    match name with
    | "previous" => if kp = "-" ∧ adj = "N" then some ExtrapolationF.extrap_previous else none
    | "next" => if kp = "-" ∧ adj = "N" then some ExtrapolationF.extrap_next else none
    | "neighbors" => if kp = "-" ∧ adj = "N" then some ExtrapolationF.extrap_neighbors else none
    | "nearest" => if kp = "-" ∧ adj = "N" then some ExtrapolationF.extrap_nearest else none
    | "linear_forward" => if kp ≠ "-" then none else
        (Wire.pOptFn adj).map fun a => fun o s p q d => ExtrapolationF.extrap_linear_forward o s p q d a
    | "linear_backward" => if kp ≠ "-" then none else
        (Wire.pOptFn adj).map fun a => fun o s p q d => ExtrapolationF.extrap_linear_backward o s p q d a
    | "expdecay" => if adj ≠ "N" then none else
        (Wire.pReal kp).map fun c => fun o s p q d => ExtrapolationF.extrap_expdecay o s p q d c
    | "expratedecay" => if adj ≠ "N" then none else
        (Wire.pReal kp).map fun c => fun o s p q d => ExtrapolationF.extrap_expratedecay o s p q d c
    | _ => none

structure St (α : Type) where
  cols : List (Ring α)
  hist : List (List α)

variable {α : Type}

def parseVals? (N : Num α) (s : String) : Option (List α) :=
  if s = "-" then some [] else (s.splitOn ",").mapM N.parse

def showVals (N : Num α) (l : List α) : String :=
  if l.isEmpty then "-" else ",".intercalate (l.map N.str)

/-- collapse a list of per-element outcomes: any `ValueError` fails the call -/
def collect {β : Type} (l : List (Outcome β)) : Outcome (List β) :=
  l.foldr (fun o acc => match o, acc with
    | .valueError, _ => .valueError
    | _, .valueError => .valueError
    | .noSlot, _ => .noSlot
    | _, .noSlot => .noSlot
    | .ok v, .ok vs => .ok (v :: vs)) (.ok [])

def showOut (N : Num α) : Outcome (List α) → String
  | .ok vs => showVals N vs
  | .valueError => "err ValueError"
  | .noSlot => "noslot"

def transposeRows (rows : List (List α)) (P : Nat) : List (List α) :=
  (List.range P).map fun j => rows.filterMap (·[j]?)

def chunks (l : List α) (k : Nat) : List (List α) :=
  if k = 0 then l.map ([·]) else
  (List.range (l.length / k)).map fun i => (l.drop (i * k)).take k

def stepG (N : Num α) (st : St α) (toks : List String) : Option (St α × String) :=
  match toks with
  | ["dump"] =>
    let ptr := match st.cols with | c :: _ => c.ptr | [] => 0
    let n := match st.cols with | c :: _ => c.n | [] => 0
    let rowsM := (List.range n).map fun i => st.cols.filterMap (·.data[i]?)
    let rowsS := (List.range n).map fun k => st.hist.filterMap (·[k]?)
    some (st, s!"M ptr={ptr};" ++ "|".intercalate (rowsM.map (showVals N)) ++ " || S " ++
      "|".intercalate (rowsS.map (showVals N)))
  | ["selS", name, kp, dt, tol, t, off] => do
    let f ← N.interp name kp
    let dt ← N.parse dt; let tol ← N.parse tol; let t ← N.parse t; let off ← parseInt? off
    let m := collect (st.cols.map fun r => selectScalar N.K f r dt tol t off)
    let s := collect (st.hist.map fun h => specSelect N.K f h dt tol t off)
    some (st, "M " ++ showOut N m ++ " || S " ++ showOut N s)
  | ["selT", name, kp, dt, tol, off, d, times] => do
    let f ← N.interp name kp
    let dt ← N.parse dt; let tol ← N.parse tol; let off ← parseInt? off
    let d ← parseNat? d
    let ts ← parseVals? N times
    let per := if d = 0 then 1 else d
    if ts.length ≠ st.cols.length * per then none else
    let tcs := chunks ts per
    let pairsM := (st.cols.zip tcs).flatMap fun (r, tl) => tl.map fun t => (r, t)
    let m : Outcome (List α) := match selectTensorAll N.K f pairsM dt tol off with
      | .ok outs => collect outs
      | .valueError => .valueError
      | .noSlot => .noSlot
    let s := collect ((st.hist.zip tcs).flatMap fun (h, tl) => tl.map fun t => specSelect N.K f h dt tol t off)
    some (st, "M " ++ showOut N m ++ " || S " ++ showOut N s)
  | ["insS", name, kp, adj, dt, tol, off, ip, t, obs] => do
    let f ← N.extrap name kp adj
    let dt ← N.parse dt; let tol ← N.parse tol; let t ← N.parse t; let off ← parseInt? off
    let ip ← parseBool? ip
    let obs ← parseVals? N obs
    if obs.length ≠ st.cols.length then none else
    let m := collect ((st.cols.zip obs).map fun (r, o) => insertScalar N.K f r dt tol o t off ip)
    let s := collect ((st.hist.zip obs).map fun (h, o) => specInsert N.K f h dt tol o t off)
    let (cols', mo) := match m with
      | .ok cs => (cs, "ok") | .valueError => (st.cols, "err ValueError") | .noSlot => (st.cols, "noslot")
    let (hist', so) := match s with
      | .ok hs => (hs, "ok") | .valueError => (st.hist, "err ValueError") | .noSlot => (st.hist, "noslot")
    some (⟨cols', hist'⟩, "M " ++ mo ++ " || S " ++ so)
  | ["insT", name, kp, adj, dt, tol, off, _ip, times, obs] => do
    let f ← N.extrap name kp adj
    let dt ← N.parse dt; let tol ← N.parse tol; let off ← parseInt? off
    let ts ← parseVals? N times
    let obs ← parseVals? N obs
    if obs.length ≠ st.cols.length ∨ ts.length ≠ st.cols.length then none else
    let m : Outcome (List (Ring α)) :=
      match insertTensorAll N.K f ((st.cols.zip (obs.zip ts))) dt tol off with
      | .ok outs => collect outs
      | .valueError => .valueError
      | .noSlot => .noSlot
    let s := collect ((st.hist.zip (obs.zip ts)).map fun (h, o, t) => specInsert N.K f h dt tol o t off)
    let (cols', mo) := match m with
      | .ok cs => (cs, "ok") | .valueError => (st.cols, "err ValueError") | .noSlot => (st.cols, "noslot")
    let (hist', so) := match s with
      | .ok hs => (hs, "ok") | .valueError => (st.hist, "err ValueError") | .noSlot => (st.hist, "noslot")
    some (⟨cols', hist'⟩, "M " ++ mo ++ " || S " ++ so)
  | _ => none

def beginG (N : Num α) (n ptr P : Nat) (rows : String) : Option (St α) := do
  let rs ← (rows.splitOn "|").mapM (parseVals? N)
  if rs.length ≠ n ∨ rs.any (·.length ≠ P) ∨ ptr ≥ n then none else
  let cols := (transposeRows rs P).map fun d => (⟨n, ptr, d⟩ : Ring α)
  some ⟨cols, cols.map Ring.abs⟩

inductive DS where
  | q (s : St Rat)
  | f (s : St Float)

def dstep (st : DS) (line : String) : DS × String :=
  match splitNonEmpty line " " with
  | ["begin", mode, n, ptr, p, rows, _dt] =>
    match parseNat? n, parseNat? ptr, parseNat? p with
    | some n, some ptr, some p =>
      if mode = "Q" then
        match beginG numQ n ptr p rows with
        | some s => (.q s, "ok") | none => (st, "bad-op")
      else if mode = "F" then
        match beginG numF n ptr p rows with
        | some s => (.f s, "ok") | none => (st, "bad-op")
      else (st, "bad-op")
    | _, _, _ => (st, "bad-op")
  | toks =>
    match st with
    | .q s => match stepG numQ s toks with
      | some (s', out) => (.q s', out) | none => (st, "bad-op")
    | .f s => match stepG numF s toks with
      | some (s', out) => (.f s', out) | none => (st, "bad-op")

def main : IO Unit := do
  loop (← IO.getStdin) (DS.q ⟨[], []⟩) dstep
