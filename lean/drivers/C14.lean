import InfernoVerif.Model.Config
import InfernoVerif.Drv.Proto
/-
Driver for C14.  Two machines run side by side on every request:
  M — `MComp`: the mixin plumbing over complete C13 record states (`Record.step`, `Shaped.shStep`);
  S — the summary machine of `Model/Config.lean` (`Synapse/Neuron/Reducer/Conn.step`), about
      which `Props/C14.lean` proves `*_setters_reach_constructor` and `*_setter_frame`.

  syn <k> <dt> <delay> <batch> <inplace> <dtype> <P>
  neu <m> <dt> <batch> <dtype> <P>
  red <dt> <duration> <incl> <inplace> <dtype>
  con <hasdelay> <k> <dt> <delay> <batch> <inplace> <dtype> <P>
  set dt <q> | set delay <q> | set batchsz <int> | set duration <q> | set inplace T|F | set dtype f32|f64
  set synapse <k> <dt> <delay> <batch> <inplace> <dtype> <P>
  report

times are exact rationals `num/den`; `P` is the number of elements per batch sample.
report: `dt=… span=… batch=… incl=… inplace=… dtype=… recs=<n:dt:dur:incl:bdim|…> bd=<b,b,…>`
-/
open InfernoVerif.Ring (Err)
open InfernoVerif.Config InfernoVerif.Record Proto

def b2s (b : Bool) : String := if b then "T" else "F"
def showQ (r : Rat) : String := s!"{r.num}/{r.den}"
def parseQ? (s : String) : Option Rat :=
  match s.splitOn "/" with
  | [a, b] => do
      let d ← parseNat? b
      if d = 0 then none else some (mkRat (← parseInt? a) d)
  | _ => none

def showErr : Err → String
  | .RuntimeError => "RuntimeError" | .ValueError => "ValueError" | .TypeError => "TypeError"
  | .AttributeError => "AttributeError" | .IndexError => "IndexError" | .KeyError => "KeyError"
  | .Other => "Other"

def showOut : InfernoVerif.Config.Out → String
  | .unit => "ok" | .err e => "err " ++ showErr e | .unsupported => "unsupported"

def showDT : DType → String | .f32 => "f32" | .f64 => "f64"
def parseDT? (s : String) : Option DType :=
  if s = "f32" then some .f32 else if s = "f64" then some .f64 else none

def showOptQ : Option Rat → String | some q => showQ q | none => "-"
def showOptN : Option Nat → String | some n => toString n | none => "-"
def showOptB : Option Bool → String | some b => b2s b | none => "-"

def showRecs (l : List String) : String := if l.isEmpty then "-" else "|".intercalate l
def showNats (l : List Nat) : String := if l.isEmpty then "-" else ",".intercalate (l.map toString)

def showReport (r : Report Rat) : String :=
  s!"dt={showQ r.dt} span={showOptQ r.span} batch={showOptN r.batch} incl={showOptB r.incl} " ++
  s!"inplace={showOptB r.inplace} dtype={showDT r.dtype}"

def showRecCfg (r : RecCfg Rat) (bd : Option Nat) : String :=
  s!"{r.n}:{showQ r.dt}:{showQ r.dur}:{b2s r.incl}:{showOptN bd}"

/-- S view -/
inductive SComp where
  | syn (s : Synapse Rat)
  | neu (s : Neuron Rat)
  | red (s : Reducer Rat)
  | con (c : Conn Rat)

def zipBd (recs : List (RecCfg Rat)) (bd : List Nat) : List String :=
  recs.zipIdx.map fun (r, i) => showRecCfg r bd[i]?

def SComp.show : SComp → String
  | .syn s => showReport s.report ++ " recs=" ++ showRecs (zipBd s.delayed.recs s.batched.bdims) ++ " bd=-"
  | .neu s => showReport s.report ++ " recs=- bd=" ++ showNats s.batched.bdims
  | .red s => showReport s.report ++ " recs=" ++ showRecs [showRecCfg s.data none] ++ " bd=-"
  | .con c => showReport c.report ++ " recs=" ++ showRecs (zipBd c.syn.delayed.recs c.syn.batched.bdims) ++ " bd=-"

def SComp.step (s : SComp) (op : COp Rat) : SComp × InfernoVerif.Config.Out :=
  match s with
  | .syn x => let (x', o) := x.step ratOps op; (.syn x', o)
  | .neu x => let (x', o) := x.step ratOps op; (.neu x', o)
  | .red x => let (x', o) := x.step ratOps op; (.red x', o)
  | .con x => let (x', o) := x.step ratOps op; (.con x', o)

/-- M view: read everything back from the C13 states -/
def InfernoVerif.Config.MComp.report (m : MComp) : Report Rat :=
  match m.kind with
  | .syn => ⟨m.dt, some m.span, some m.batch, none, some m.inplace, m.dtype⟩
  | .neu => ⟨m.dt, none, some m.batch, none, none, m.dtype⟩
  | .red => ⟨m.dt, some m.span, none, some m.incl, some m.inplace, m.dtype⟩
  | .con hd => ⟨m.dt, if hd then some m.span else none, some m.batch, none, some m.inplace, m.dtype⟩

def showMRec (r : InfernoVerif.Record.MState Rat) : String :=
  let n := match r.cons.lookup 0 with | some n => toString n | none => "?"
  let rows := match r.store with
    | .init _ (_, rows) => rows.length
    | _ => 0
  let okRows := match r.store with
    | .init _ (_, rows) => (r.cons.lookup 0 == some rows.length)
    | _ => true
  let n' := if okRows then n else s!"{n}[storage {rows}]"
  s!"{n'}:{showQ r.dt}:{showQ r.dur}:{b2s r.incl}:{showOptN (r.cons.lookup 1)}"

def InfernoVerif.Config.MComp.show (m : MComp) : String :=
  showReport m.report ++ " recs=" ++ showRecs (m.recs.map showMRec) ++ " bd=" ++
    (if m.kind = .neu then showNats (m.shaped.map fun s => match s.cons.lookup 0 with | some b => b | none => 0) else "-")

structure DState where
  m : Option MComp
  s : Option SComp
  P : Nat

def parseSynCfg? (toks : List String) : Option (SynCfg Rat × Nat) :=
  match toks with
  | [k, dt, delay, batch, inplace, dtype, P] => do
      some (⟨← parseNat? k, ← parseQ? dt, ← parseQ? delay, ← parseNat? batch, ← parseBool? inplace,
             ← parseDT? dtype⟩, ← parseNat? P)
  | _ => none

def parseOp? (toks : List String) : Option (COp Rat) :=
  match toks with
  | ["set", "dt", v] => do some (.setDt (← parseQ? v))
  | ["set", "delay", v] => do some (.setDelay (← parseQ? v))
  | ["set", "batchsz", v] => do some (.setBatch (← parseInt? v))
  | ["set", "duration", v] => do some (.setDuration (← parseQ? v))
  | ["set", "inplace", b] => do some (.setInplace (← parseBool? b))
  | ["set", "dtype", d] => do some (.setDtype (← parseDT? d))
  | "set" :: "synapse" :: rest => do let (c, _) ← parseSynCfg? rest; some (.setSynapse c)
  | _ => none

def both (x : String) : String := "M " ++ x ++ " || S " ++ x

def begun (m : Except Err MComp) (s : SComp) (P : Nat) : DState × String :=
  match m with
  | .ok m => (⟨some m, some s, P⟩, both "ok")
  | .error e => (⟨none, none, P⟩, both ("err " ++ showErr e))

def dstep (st : DState) (line : String) : DState × String :=
  -- `cls=…` / `syn=…` name the real class for the harness; `step` / `run` only concern the real objects
  let toks := (splitNonEmpty line " ").filter fun t => ! (t.startsWith "cls=" || t.startsWith "syn=")
  match toks with
  | ["step", _] => (st, both "ok")
  | ["run", _, _] => (st, both "ok")
  | "syn" :: rest =>
    match parseSynCfg? rest with
    | some (c, P) => begun (MComp.newSyn .syn c P) (.syn (Synapse.construct ratOps c)) P
    | none => (st, "bad-op")
  | "con" :: hd :: rest =>
    match parseBool? hd, parseSynCfg? rest with
    | some hd, some (c, P) => begun (MComp.newSyn (.con hd) c P) (.con ⟨Synapse.construct ratOps c, hd⟩) P
    | _, _ => (st, "bad-op")
  | ["neu", m, dt, batch, dtype, P] =>
    match (do some ((⟨← parseNat? m, ← parseQ? dt, ← parseNat? batch, ← parseDT? dtype⟩ : NeuCfg Rat), ← parseNat? P)
            : Option (NeuCfg Rat × Nat)) with
    | some (c, P) => begun (MComp.newNeu c P) (.neu (Neuron.construct c)) P
    | none => (st, "bad-op")
  | ["red", dt, dur, incl, inplace, dtype] =>
    match (do some (⟨← parseQ? dt, ← parseQ? dur, ← parseBool? incl, ← parseBool? inplace, ← parseDT? dtype⟩ : RedCfg Rat)
            : Option (RedCfg Rat)) with
    | some c => begun (MComp.newRed c) (.red (Reducer.construct ratOps c)) 0
    | none => (st, "bad-op")
  | ["report"] =>
    match st.m, st.s with
    | some m, some s => (st, "M " ++ m.show ++ " || S " ++ s.show)
    | _, _ => (st, both "dead")
  | _ =>
    match parseOp? toks, st.m, st.s with
    | some op, some m, some s =>
      let P := match toks with
        | "set" :: "synapse" :: rest => (match parseSynCfg? rest with | some (_, P) => P | none => st.P)
        | _ => st.P
      let (m', mo) := m.step op P
      let (s', so) := s.step op
      (⟨some m', some s', P⟩, "M " ++ showOut mo ++ " || S " ++ showOut so)
    | some _, _, _ => (st, both "dead")
    | none, _, _ => (st, "bad-op")

def main : IO Unit := do
  loop (← IO.getStdin) (⟨none, none, 0⟩ : DState) dstep
