import InfernoVerif.Model.STDPF
import InfernoVerif.Drv.Proto
/-
Driver for C08 (STDP-family weight changes).  One request per weight and run, answered by
`M <per-step pos,neg;…> || S <per-step pos,neg;…>`: `M` is the code-shaped model
(`Model/STDPF.lean`: generated trace recurrences + `forward` wiring), `S` the explicit sum over
spike pairs.  Each `pos` / `neg` is a double as 16 hex digits, or `N` for `None`.

Requests (space separated):
  stdp    <lrPost> <lrPre> <tcPost> <tcPre> <dt> <near> <delayed> <D> <red> <k> <T> <trains> -
  mstdp   <lrPost> <lrPre> <tcPost> <tcPre> <dt> <near> <delayed> <D> <red> <k> <T> <trains> <signal>
  mstdpet <lrPost> <lrPre> <tcPost> <tcPre> <dt> <near> <delayed> <D> <red> <k> <T> <trains> <signal> <tcz>
  triplet <aPost> <bPost> <aPre> <bPre> <tcPostFast> <tcPostSlow> <tcPreFast> <tcPreSlow> <dt> <near> <delayed> <D> <red> <k> <T> <trains>
`<trains>`: batch samples separated by `;`, receptive-field elements by `,`, each `prebits:postbits`
(`0`/`1` per step, raw presynaptic input); `<red>` = `sum` | `mean`; `<k>` delay of this weight in steps;
`<signal>` = `s:<scale>:<v_0,…,v_{T-1}>` (scalar per step) or `t:<scale>:<v_00,v_01,…/v_10,…>` (per step, per sample).
-/
open InfernoVerif.STDP.F InfernoVerif.Gen.Wire Proto

def bits (s : String) : Nat → Bool :=
  let a := s.toList.toArray.map (· == '1')
  fun t => a.getD t false

def pBits? (s : String) : Option (Nat → Bool) :=
  if s.toList.all (fun c => c == '0' || c == '1') && !s.isEmpty then some (bits s) else none

def pSyn (s : String) : Option Syn :=
  match s.splitOn ":" with
  | [a, b] => do some ⟨← pBits? a, ← pBits? b⟩
  | _ => none

def pBatch (s : String) : Option (List (List Syn)) :=
  (s.splitOn ";").mapM fun f => (f.splitOn ",").mapM pSyn

def pRed : String → Option Red
  | "sum" => some .sum
  | "mean" => some .mean
  | _ => none

inductive Sig
  | scalar (scale : Float) (v : Array Float)
  | tensor (scale : Float) (v : Array (List Float))

def pSig (s : String) : Option Sig :=
  match s.splitOn ":" with
  | ["s", sc, vs] => do some (.scalar (← pReal sc) (← pVec vs).toArray)
  | ["t", sc, vs] => do some (.tensor (← pReal sc) (← (vs.splitOn "/").mapM pVec).toArray)
  | _ => none

def sOpt : Option Float → String
  | some x => sReal x
  | none => "N"

def fmt (f : Nat → Option Float × Option Float) (n : Nat) : String :=
  ";".intercalate ((List.range n).map fun t => let u := f t; s!"{sOpt u.1},{sOpt u.2}")

def pCfg (a : List String) : Option Cfg :=
  match a with
  | [lrPost, lrPre, tcPost, tcPre, dt, near, del, d] => do
    some { lrPost := ← pReal lrPost, lrPre := ← pReal lrPre, tcPost := ← pReal tcPost, tcPre := ← pReal tcPre,
           dt := ← pReal dt, nearest := ← pBool near, delayed := ← pBool del, D := ← parseNat? d }
  | _ => none

def answer (m s : Nat → Option Float × Option Float) (n : Nat) : String :=
  s!"M {fmt m n} || S {fmt s n}"

def handle (line : String) : Option String :=
  match splitNonEmpty line " " with
  | "stdp" :: rest =>
    match rest.drop 8 with
    | [red, k, n, tr, "-"] => do
      let c ← pCfg (rest.take 8); let r ← pRed red; let k ← parseNat? k; let n ← parseNat? n; let bt ← pBatch tr
      some (answer (stdpStep c r k bt) (specStdp c r k bt) n)
    | _ => none
  | "mstdp" :: rest =>
    match rest.drop 8 with
    | [red, k, n, tr, sg] => do
      let c ← pCfg (rest.take 8); let r ← pRed red; let k ← parseNat? k; let n ← parseNat? n; let bt ← pBatch tr
      match ← pSig sg with
      | .scalar sc v =>
        if v.size < n then none else
        some (answer (fun t => mstdpScalar c r k bt (v.getD t 0) sc t) (fun t => specMstdpScalar c r k bt (v.getD t 0) sc t) n)
      | .tensor sc v =>
        if v.size < n || v.any (fun l => l.length != bt.length) then none else
        some (answer (fun t => mstdpTensor c r k bt (v.getD t []) sc t) (fun t => specMstdpTensor c r k bt (v.getD t []) sc t) n)
    | _ => none
  | "mstdpet" :: rest =>
    match rest.drop 8 with
    | [red, k, n, tr, sg, tcz] => do
      let c ← pCfg (rest.take 8); let r ← pRed red; let k ← parseNat? k; let n ← parseNat? n; let bt ← pBatch tr
      let tcz ← pReal tcz
      match ← pSig sg with
      | .scalar sc v =>
        if v.size < n then none else
        some (answer (fun t => mstdpetScalar c tcz r k bt (v.getD t 0) sc t)
          (fun t => specMstdpetScalar c tcz r k bt (v.getD t 0) sc t) n)
      | .tensor sc v =>
        if v.size < n || v.any (fun l => l.length != bt.length) then none else
        some (answer (fun t => mstdpetTensor c tcz r k bt (v.getD t []) sc t)
          (fun t => specMstdpetTensor c tcz r k bt (v.getD t []) sc t) n)
    | _ => none
  | ["triplet", aPost, bPost, aPre, bPre, tcPostFast, tcPostSlow, tcPreFast, tcPreSlow, dt, near, del, d, red, k, n, tr] => do
    let c : TCfg := { aPost := ← pReal aPost, bPost := ← pReal bPost, aPre := ← pReal aPre, bPre := ← pReal bPre,
                      tcPostFast := ← pReal tcPostFast, tcPostSlow := ← pReal tcPostSlow,
                      tcPreFast := ← pReal tcPreFast, tcPreSlow := ← pReal tcPreSlow, dt := ← pReal dt,
                      nearest := ← pBool near, delayed := ← pBool del, D := ← parseNat? d }
    let r ← pRed red; let k ← parseNat? k; let n ← parseNat? n; let bt ← pBatch tr
    some (answer (tripletStep c r k bt) (specTriplet c r k bt) n)
  | _ => none

def dstep (_ : Unit) (line : String) : Unit × String :=
  match handle line with
  | some s => ((), s)
  | none => ((), "bad-op")

def main : IO Unit := do
  loop (← IO.getStdin) () dstep
