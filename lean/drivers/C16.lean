import InfernoVerif.Model.Hooks
import InfernoVerif.Drv.Proto
/-
Driver for C16: executes BOTH the code-shaped hook machine `step` and the specification machine
`sstep` of `Model/Hooks.lean` on each request line, and — for `Clamping` / `Normalization` hooks —
applies `clampG` / `normalizeG` (the definitions the theorems of `Props/C16.lean` are about, on
`Float`) to a flat attribute vector in the order of the model's module-call trace.

request lines
  begin <delta> <vals> [real-side info]    reset; attribute := vals (floats as 16 hex digits, `-` = none);
                                           the module's forward adds <delta> to every element
  mk <p|s> <hasPre> <hasPost> <prepPre> <prepPost> <trainexec> <evalexec>      probe hook
  vmk clamp <lo|N> <hi|N> <asPre> <prepend> <trainexec> <evalexec>             Clamping
  vmk norm <p|inf> <scale> <eps> <groups> <dim> <asPre> <prepend> <trainexec> <evalexec>   Normalization;
                                           groups `0,1;2,3` = the fibres (flat indices) along `dim`
  set <vals> | register i | deregister i | mode T|F | call | manual i force ignore
  trainexec i v | evalexec i v | delete i
response
  M <out> | <len pre dict> <len post dict> | v <vals> || S <out> | <nPre> <nPost> | posts <k>
  where `posts k` = number of value-hook runs the specification predicts for this request (each
  of which must leave the attribute inside its post-condition).
-/
open InfernoVerif.Hooks Proto

def hexVal (c : Char) : Option Nat :=
  if '0' ≤ c ∧ c ≤ '9' then some (c.toNat - '0'.toNat)
  else if 'a' ≤ c ∧ c ≤ 'f' then some (c.toNat - 'a'.toNat + 10)
  else none

def parseHex? (s : String) : Option Nat :=
  if s.length ≠ 16 then none
  else s.toList.foldlM (fun acc c => do some (acc * 16 + (← hexVal c))) 0

def parseF? (s : String) : Option Float := do
  let n ← parseHex? s
  some (Float.ofBits n.toUInt64)

def hexDigit (n : Nat) : Char := if n < 10 then Char.ofNat (48 + n) else Char.ofNat (87 + n)

def showF (x : Float) : String :=
  let n := x.toBits.toNat
  String.ofList ((List.range 16).reverse.map fun i => hexDigit ((n / 16 ^ i) % 16))

def parseFs? (s : String) : Option (List Float) :=
  if s = "-" then some [] else (s.splitOn ",").mapM parseF?

def showFs (l : List Float) : String := if l.isEmpty then "-" else ",".intercalate (l.map showF)

inductive Action where
  | clamp (lo hi : Option Float)
  | norm (p : Order Float) (scale eps : Float) (groups : List (List Nat))

def applyAction (a : Array Float) : Action → Array Float
  | .clamp lo hi => a.map (clampG lo hi)
  | .norm p scale eps groups =>
    groups.foldl (fun acc g =>
      let ys := normalizeG floatOps p scale eps (g.map fun i => a[i]!)
      (g.zip ys).foldl (fun acc iy => acc.set! iy.1 iy.2) acc) a

structure DState where
  m : State
  s : SState
  attr : Array Float
  delta : Float
  acts : List (Nat × Action)

def showErr : Err → String
  | .RuntimeError => "RuntimeError" | .ValueError => "ValueError" | .TypeError => "TypeError"
  | .AttributeError => "AttributeError" | .IndexError => "IndexError" | .KeyError => "KeyError"
  | .Other => "Other"

def showEv : Ev → String
  | .hook h .pre => s!"{h}:pre"
  | .hook h .post => s!"{h}:post"
  | .fwd => "F"

def showB (b : Bool) : String := if b then "T" else "F"

def showOut : Out → String
  | .ok => "ok"
  | .idx h => s!"idx {h}"
  | .trace evs => "trace " ++ ",".intercalate (evs.map showEv)
  | .counts c => "counts " ++ (if c.isEmpty then "-" else ",".intercalate (c.map fun x => s!"{x.1}/{x.2}"))
  | .fired b => "fired " ++ showB b
  | .err e => "err " ++ showErr e
  | .noref => "noref"
  | .unsupported => "unsupported"

def parseOp? (toks : List String) : Option Op :=
  match toks with
  | ["mk", k, a, b, c, d, tr, ev] => do
      let kind ← if k = "p" then some Kind.plain else if k = "s" then some Kind.state else none
      some (.mk ⟨kind, ← parseBool? a, ← parseBool? b, ← parseBool? c, ← parseBool? d⟩ (← parseBool? tr) (← parseBool? ev))
  | ["register", i] => do some (.register (← parseNat? i))
  | ["deregister", i] => do some (.deregister (← parseNat? i))
  | ["mode", b] => do some (.setMode (← parseBool? b))
  | ["call"] => some .call
  | ["manual", i, f, g] => do some (.manual (← parseNat? i) (← parseBool? f) (← parseBool? g))
  | ["trainexec", i, v] => do some (.setTrainexec (← parseNat? i) (← parseBool? v))
  | ["evalexec", i, v] => do some (.setEvalexec (← parseNat? i) (← parseBool? v))
  | ["delete", i] => do some (.delete (← parseNat? i))
  | _ => none

def parseOptF? (s : String) : Option (Option Float) :=
  if s = "N" then some none else (parseF? s).map some

def parseGroups? (s : String) : Option (List (List Nat)) :=
  (s.splitOn ";").mapM fun g => (g.splitOn ",").mapM parseNat?

def stateCfg (asPre prepend : Bool) : Cfg := ⟨.state, asPre, !asPre, prepend, prepend⟩

/-- value-hook runs in a module-call trace, applied in order; forward adds `delta` -/
def applyTrace (st : DState) (evs : List Ev) : Array Float :=
  evs.foldl (fun a ev =>
    match ev with
    | .fwd => a.map (· + st.delta)
    | .hook h _ => match st.acts.lookup h with
      | some act => applyAction a act
      | none => a) st.attr

def respond (st : DState) (mo so : Out) (posts : Nat) : String :=
  s!"M {showOut mo} | {st.m.pre.length} {st.m.post.length} | v {showFs st.attr.toList}" ++
  s!" || S {showOut so} | {st.s.nHandles .pre} {st.s.nHandles .post} | posts {posts}"

def doOp (st : DState) (op : Op) : DState × String :=
  let (m', mo) := step st.m op
  let (s', so) := sstep st.s op
  -- value effects follow the code-shaped machine's output
  let attr' := match op, mo with
    | .call, .trace evs => applyTrace st evs
    | .manual h _ _, .fired true => (match st.acts.lookup h with
        | some act => applyAction st.attr act
        | none => st.attr)
    | _, _ => st.attr
  -- the specification's prediction of how many value-hook runs happen
  let posts := match op, so with
    | .call, .counts c => (c.zipIdx.map fun ci => if (st.acts.lookup ci.2).isSome then ci.1.1 + ci.1.2 else 0).foldl (· + ·) 0
    | .manual h _ _, .fired true => if (st.acts.lookup h).isSome then 1 else 0
    | _, _ => 0
  let st' := { st with m := m', s := s', attr := attr' }
  (st', respond st' mo so posts)

def dstep (st : DState) (line : String) : DState × String :=
  let toks := splitNonEmpty line " "
  match toks with
  | "begin" :: d :: vals :: _ =>     -- further tokens (shape, attribute path, …) are for the real side
    match parseF? d, parseFs? vals with
    | some d, some vs => (⟨init, sinit, vs.toArray, d, []⟩, "ok")
    | _, _ => (st, "bad-op")
  | ["set", vals] =>
    match parseFs? vals with
    | some vs => let st' := { st with attr := vs.toArray }; (st', respond st' .ok .ok 0)
    | none => (st, "bad-op")
  | ["vmk", "clamp", lo, hi, a, p, tr, ev] =>
    match parseOptF? lo, parseOptF? hi, parseBool? a, parseBool? p, parseBool? tr, parseBool? ev with
    | some lo, some hi, some a, some p, some tr, some ev =>
      let st' := { st with acts := (st.m.hooks.length, Action.clamp lo hi) :: st.acts }
      doOp st' (.mk (stateCfg a p) tr ev)
    | _, _, _, _, _, _ => (st, "bad-op")
  | ["vmk", "norm", p, sc, eps, gs, _dim, a, pp, tr, ev] =>   -- `_dim` is for the real side; `gs` are its fibres
    let po : Option (Order Float) := if p = "inf" then some .inf else (parseF? p).map .fin
    match po, parseF? sc, parseF? eps, parseGroups? gs, parseBool? a, parseBool? pp, parseBool? tr, parseBool? ev with
    | some po, some sc, some eps, some gs, some a, some pp, some tr, some ev =>
      if gs.any (fun g => g.any (fun i => i ≥ st.attr.size)) then (st, "bad-op") else
      let st' := { st with acts := (st.m.hooks.length, Action.norm po sc eps gs) :: st.acts }
      doOp st' (.mk (stateCfg a pp) tr ev)
    | _, _, _, _, _, _, _, _ => (st, "bad-op")
  | _ =>
    match parseOp? toks with
    | some op => doOp st op
    | none => (st, "bad-op")

def main : IO Unit := do
  loop (← IO.getStdin) (⟨init, sinit, #[], 0.0, []⟩ : DState) dstep
