import InfernoVerif.Gen.Dispatch
import InfernoVerif.Drv.Proto
/-! Translator-validation driver: `<Module> <function> <arg>*` → result of the generated Float
definition (wire format in `Gen/Prelude.lean`), or `bad-op`. -/
open InfernoVerif.Gen

def gstep (_ : Unit) (line : String) : Unit × String :=
  match Proto.splitNonEmpty line " " with
  | m :: f :: args => match dispatch m f args with
    | some r => ((), r)
    | none => ((), "bad-op")
  | _ => ((), "bad-op")

def main : IO Unit := do Proto.loop (← IO.getStdin) () gstep
