import InfernoVerif.Model.Record
import InfernoVerif.Drv.Proto
/-
Driver for C13: executes the code-shaped machine `step` and the specification machine `sstep`
of `Model/Record.lean` (record streams, exact `Rat` time or IEEE-double time), the
`ShapedTensor` bookkeeping machine of `Model/Shaped.lean` (shaped stream) and the three
private helper functions, one request per line.

  begin Q|F <dt> <dur> <incl> <strict> <param> <val> <cons>    val: none|empty|uninit|z:<shape>
  dt <t> | dur <t> | incl T|F | recon <dim> <size|N> | push <shape>;<vals> T|F
  assign none|empty|uninit | initz <shape> | dump
  sbegin <strict> <param> <val> <cons>                         val: none|uninit|t:<shape>:<vals>
  srecon <dim> <size|N> | sassign <val> | sstrict T|F | sdump
  hdim <cons> <strict> | hcompat <shape> <cons> <strict> | hconsist <cons> <ndims>

time tokens: `Q` mode `num/den` (exact rationals), `F` mode 16 hex digits (IEEE double bits).
cons tokens: `-` or `d:s,d:s,…` (insertion order).
-/
open InfernoVerif.Ring (Err prod)
open InfernoVerif.Shaped InfernoVerif.Record Proto

def b2s (b : Bool) : String := if b then "T" else "F"

def showErr : Err → String
  | .RuntimeError => "RuntimeError" | .ValueError => "ValueError" | .TypeError => "TypeError"
  | .AttributeError => "AttributeError" | .IndexError => "IndexError" | .KeyError => "KeyError"
  | .Other => "Other"

def showOut : Out → String
  | .unit => "ok" | .err e => "err " ++ showErr e | .unsupported => "unsupported"

def showShOut : ShOut → String
  | .unit => "ok" | .err e => "err " ++ showErr e | .unsupported => "unsupported"

def showCons (c : Cons) : String :=
  if c.isEmpty then "-" else ",".intercalate (c.map fun p => s!"{p.1}:{p.2}")

def parseCons? (s : String) : Option Cons :=
  if s = "-" then some [] else
    (s.splitOn ",").mapM fun tok => match tok.splitOn ":" with
      | [d, z] => do some (← parseInt? d, ← parseNat? z)
      | _ => none

/-- insertion sort by key (user view of the constraints is compared as a set) -/
def sortCons (c : Cons) : Cons :=
  c.foldl (fun acc p => (acc.filter (fun q => q.1 < p.1)) ++ [p] ++ (acc.filter (fun q => ¬ q.1 < p.1))) []

/-- `RecordTensor.constraints`: drop key 0, shift non-negative keys back. -/
def userCons (c : Cons) : Cons :=
  (c.filter (fun p => p.1 ≠ 0)).map fun p => (if 0 ≤ p.1 then p.1 - 1 else p.1, p.2)

def showRows (rows : List Row) : String := "|".intercalate (rows.map showInts)

def showN (c : Cons) : String := match c.lookup 0 with | some n => toString n | none => "?"

/-! ### time tokens -/

def showQ (r : Rat) : String := s!"{r.num}/{r.den}"
def parseQ? (s : String) : Option Rat :=
  match s.splitOn "/" with
  | [a, b] => do
      let d ← parseNat? b
      if d = 0 then none else some (mkRat (← parseInt? a) d)
  | _ => none

def hexDigit? (c : Char) : Option Nat :=
  if '0' ≤ c ∧ c ≤ '9' then some (c.toNat - '0'.toNat)
  else if 'a' ≤ c ∧ c ≤ 'f' then some (c.toNat - 'a'.toNat + 10)
  else none

def parseF? (s : String) : Option Float :=
  if s.length ≠ 16 then none else do
    let ds ← s.toList.mapM hexDigit?
    some (Float.ofBits (UInt64.ofNat (ds.foldl (fun a d => a * 16 + d) 0)))

def hexChar (n : Nat) : Char := if n < 10 then Char.ofNat ('0'.toNat + n) else Char.ofNat ('a'.toNat + n - 10)
def showF (f : Float) : String :=
  let n := f.toBits.toNat
  String.ofList ((List.range 16).reverse.map fun i => hexChar ((n / 16 ^ i) % 16))

/-- the code's own arithmetic: `math.ceil(duration / dt)` on doubles. -/
def floatOps : TimeOps Float :=
  { pos := fun v => decide (0 < v), nonneg := fun v => decide (0 ≤ v),
    ceilDiv := fun dur dt => (Float.ceil (dur / dt)).toInt64.toInt }

/-! ### record machine, generic in the time type -/

structure TimeIO (τ : Type) where
  ops   : TimeOps τ
  parse : String → Option τ
  shw   : τ → String

def qIO : TimeIO Rat := ⟨ratOps, parseQ?, showQ⟩
def fIO : TimeIO Float := ⟨floatOps, parseF?, showF⟩

def showStoreM : Store (Nat × List Row) → String
  | .none => "none" | .empty => "empty" | .uninit => "uninit"
  | .init sh (_, rows) => s!"init:{showShape sh}:" ++ showRows rows

def ptrOf : Store (Nat × List Row) → Nat
  | .init _ (p, _) => p
  | _ => 0

def showStoreS : Store (List Row) → String
  | .none => "none" | .empty => "empty" | .uninit => "uninit"
  | .init sh h => s!"init:{showShape sh}:" ++ showRows h

def dumpM {τ : Type} (io : TimeIO τ) (s : MState τ) : String :=
  s!"n={showN s.cons} ptr={ptrOf s.store} store={showStoreM s.store} param={b2s s.param} " ++
  s!"strict={b2s s.strict} cons={showCons s.cons} valid={b2s (validM s)} " ++
  s!"dim={dimensionality s.cons s.strict} dt={io.shw s.dt} dur={io.shw s.dur} incl={b2s s.incl}"

def dumpS {τ : Type} (io : TimeIO τ) (s : SState τ) : String :=
  s!"n={showN s.cons} store={showStoreS s.store} cons={showCons (sortCons (userCons s.cons))} " ++
  s!"valid={b2s (validS s)} dt={io.shw s.dt} dur={io.shw s.dur} incl={b2s s.incl}"

def parseInitVal? (s : String) : Option InitVal :=
  match s.splitOn ":" with
  | ["none"] => some .none
  | ["empty"] => some .empty
  | ["uninit"] => some .uninit
  | ["z", sh] => do some (.zeros (← parseShape? sh))
  | _ => none

def parseSize? (s : String) : Option (Option Int) :=
  if s = "N" then some none else (parseInt? s).map some

def parseOp? {τ : Type} (io : TimeIO τ) (toks : List String) : Option (Op τ) :=
  match toks with
  | ["dt", t] => do some (.setDt (← io.parse t))
  | ["dur", t] => do some (.setDur (← io.parse t))
  | ["incl", b] => do some (.setIncl (← parseBool? b))
  | ["recon", d, z] => do some (.recon (← parseInt? d) (← parseSize? z))
  | ["push", x, b] =>
    match x.splitOn ";" with
    | [sh, vs] => do
        let sh ← parseShape? sh
        let vs ← parseInts? vs
        if vs.length ≠ prod sh then none else some (.push sh vs (← parseBool? b))
    | _ => none
  | ["assign", "none"] => some (.assign .none)
  | ["assign", "empty"] => some (.assign .empty)
  | ["assign", "uninit"] => some (.assign .uninit)
  | ["initz", sh] => do some (.initz (← parseShape? sh))
  | _ => none

def beginRec {τ : Type} (io : TimeIO τ) (toks : List String) : Option (Except Err (MState τ)) :=
  match toks with
  | [dt, dur, incl, strict, param, val, cons] => do
      some (construct io.ops (← io.parse dt) (← io.parse dur) (← parseBool? incl) (← parseBool? strict)
              (← parseBool? param) (← parseCons? cons) (← parseInitVal? val))
  | _ => none

/-! ### shaped stream -/

def parseVal? (s : String) : Option Val :=
  match s.splitOn ":" with
  | ["none"] => some .none
  | ["uninit"] => some .uninit
  | ["t", sh, vs] => do
      let sh ← parseShape? sh
      let vs ← parseInts? vs
      if vs.length ≠ prod sh then none else some (.tensor sh vs)
  | _ => none

def showVal : Val → String
  | .none => "none" | .uninit => "uninit"
  | .tensor sh vs => s!"t:{showShape sh}:{showInts vs}"

def dumpShM (s : ShState) : String :=
  s!"val={showVal s.val} param={b2s s.param} strict={b2s s.strict} cons={showCons s.cons} " ++
  s!"valid={b2s s.valid} dim={dimensionality s.cons s.strict} ignored={b2s s.val.ignored} live={b2s s.live}"

def dumpShS (s : ShState) : String :=
  s!"val={showVal s.val} cons={showCons (sortCons s.cons)} valid={b2s s.validSpec}"

def parseShOp? (toks : List String) : Option ShOp :=
  match toks with
  | ["srecon", d, z] => do some (.recon (← parseInt? d) (← parseSize? z))
  | ["sassign", v] => do some (.assign (← parseVal? v))
  | ["sstrict", b] => do some (.setStrict (← parseBool? b))
  | ["slive", b] => do some (.setLive (← parseBool? b))
  | _ => none

/-! ### driver state -/

inductive DState where
  | idle
  | q (m : MState Rat) (s : SState Rat)
  | f (m : MState Float) (s : SState Float)
  | sh (s : ShState)

def both (x : String) : String := "M " ++ x ++ " || S " ++ x

def showOptBool : Option Bool → String
  | some b => b2s b | none => "err IndexError"

def dstep (st : DState) (line : String) : DState × String :=
  let toks := splitNonEmpty line " "
  match toks with
  | "begin" :: "Q" :: rest =>
    match beginRec qIO rest with
    | some (.ok m) => (.q m (sabs m), both "ok")
    | some (.error e) => (.idle, both ("err " ++ showErr e))
    | none => (st, "bad-op")
  | "begin" :: "F" :: rest =>
    match beginRec fIO rest with
    | some (.ok m) => (.f m (sabs m), both "ok")
    | some (.error e) => (.idle, both ("err " ++ showErr e))
    | none => (st, "bad-op")
  | ["sbegin", strict, param, val, cons, live] =>
    match (do some (shConstruct (← parseCons? cons) (← parseBool? strict) (← parseBool? param) (← parseVal? val) (← parseBool? live))
            : Option (Except Err ShState)) with
    | some (.ok s) => (.sh s, both "ok")
    | some (.error e) => (.idle, both ("err " ++ showErr e))
    | none => (st, "bad-op")
  | ["hdim", c, strict] =>
    match (do some (dimensionality (← parseCons? c) (← parseBool? strict)) : Option Nat) with
    | some d => (st, both (toString d))
    | none => (st, "bad-op")
  | ["hcompat", sh, c, strict] =>
    match (do some (compatible (← parseShape? sh) (← parseCons? c) (← parseBool? strict)) : Option Bool) with
    | some b => (st, both (b2s b))
    | none => (st, "bad-op")
  | ["hconsist", c, nd] =>
    match (do some (consistent (← parseCons? c) (← parseNat? nd)) : Option (Option Bool)) with
    | some r => (st, both (showOptBool r))
    | none => (st, "bad-op")
  | _ =>
    match st with
    | .idle => (st, both "dead")        -- construction failed: nothing to operate on
    | .q m s =>
      if toks = ["dump"] then (st, "M " ++ dumpM qIO m ++ " || S " ++ dumpS qIO s) else
      match parseOp? qIO toks with
      | some op =>
        let (m', mo) := step ratOps m op
        let (s', so) := sstep ratOps s op
        (.q m' s', "M " ++ showOut mo ++ " || S " ++ showOut so)
      | none => (st, "bad-op")
    | .f m s =>
      if toks = ["dump"] then (st, "M " ++ dumpM fIO m ++ " || S " ++ dumpS fIO s) else
      match parseOp? fIO toks with
      | some op =>
        let (m', mo) := step floatOps m op
        let (s', so) := sstep floatOps s op
        (.f m' s', "M " ++ showOut mo ++ " || S " ++ showOut so)
      | none => (st, "bad-op")
    | .sh s =>
      if toks = ["sdump"] then (st, "M " ++ dumpShM s ++ " || S " ++ dumpShS s) else
      match parseShOp? toks with
      | some op =>
        let (s', o) := shStep s op
        (.sh s', both (showShOut o))
      | none => (st, "bad-op")

def main : IO Unit := do
  loop (← IO.getStdin) DState.idle dstep
