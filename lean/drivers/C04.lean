import InfernoVerif.Drv.SynSpec
import InfernoVerif.Drv.Proto
/-
Driver for C04 (one synapse ELEMENT per case).  Requests (doubles as 16 hex digits):
  begin <delta|deltaplus|singleexp|doubleexp> <dt> <delay> <Q> <tau> <tauR> <P|N> <tol> <curOver|N> <T|F|N> <inplace T|F>
        → `ok <recordsz>`
  step <x> <inj,inj,…|->   → `M <current> <spike> || S <current> <spike>`
  at <selector>            → `M <current_at> <spike_at> || S <current_at> <spike_at>`
  clear                    → `ok`
M = the code-shaped model (`Model/Synapse.lean`: rings + `_synparam_at` + `selectTensor`).
S = the specification, computed INDEPENDENTLY here: the closed-form impulse-response sums over the
whole input history (no ring, no recurrence), and reads "k steps ago" as plain list lookups with
zero before the start / last clear.
-/
open InfernoVerif.Ring InfernoVerif.Select InfernoVerif.Synapse InfernoVerif.SynSpec InfernoVerif.Gen.Wire Proto

structure DS where
  c : Cfg F
  m : Option (St F)
  s : Spec

/-! ## protocol -/

def showOutF : Outcome F → String
  | .ok v => sReal v | .valueError => "ValueError" | .noSlot => "noSlot"
def showOutB : Outcome Bool → String
  | .ok v => sBool v | .valueError => "ValueError" | .noSlot => "noSlot"

def dstep (st : DS) (line : String) : DS × String :=
  match splitNonEmpty line " " with
  | ["begin", k, dt, delay, q, tau, taur, mode, tol, co, so, ip] =>
    let cfg : Option (Cfg F) := do
      some { kind := ← parseKind? k, dt := ← pReal dt, delay := ← pReal delay, Q := ← pReal q,
             tau := ← pReal tau, tauR := ← pReal taur, mode := ← parseMode? mode, tol := ← pReal tol,
             curOver := ← pOptReal co, spkOver := ← pOptBool so, inplace := ← pBool ip }
    match cfg with
    | some c => (⟨c, some (init floatSOps c), {}⟩, s!"ok {c.n floatSOps}")
    | none => (st, "bad-op")
  | ["step", x, inj] =>
    match pReal x, pVec inj with
    | some x, some inj =>
      let (s', si, ss) := specStep st.c st.s x inj
      let sout := s!"{sReal si} {sBool ss}"
      match st.m.bind fun m => step floatSOps st.c m x inj with
      | some (m', v) =>
        let spk := match spikeNow floatSOps m' with | some b => sBool b | none => "noSlot"
        (⟨st.c, some m', s'⟩, s!"M {sReal v} {spk} || S {sout}")
      | none => (⟨st.c, none, s'⟩, s!"M noSlot noSlot || S {sout}")
    | _, _ => (st, "bad-op")
  | ["at", sel] =>
    match pReal sel with
    | some sel =>
      let (sc, ss) := specAt st.c st.s sel
      let mout := match st.m with
        | some m => s!"{showOutF (currentAt floatSOps st.c m sel)} {showOutB (spikeAt floatSOps st.c m sel)}"
        | none => "noSlot noSlot"
      (st, s!"M {mout} || S {sReal sc} {sBool ss}")
    | none => (st, "bad-op")
  | ["clear"] => (⟨st.c, st.m.map (clear floatSOps), {}⟩, "ok")
  | _ => (st, "bad-op")

def main : IO Unit := do
  let c0 : Cfg F := { kind := .delta, dt := 1, delay := 0, Q := 1, tau := 1, tauR := 0.5, mode := .previous,
                      tol := 0, curOver := none, spkOver := none, inplace := false }
  loop (← IO.getStdin) (⟨c0, some (init floatSOps c0), {}⟩ : DS) dstep
