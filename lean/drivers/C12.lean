import InfernoVerif.Model.Persist
import InfernoVerif.Drv.Proto
import InfernoVerif.Gen.Prelude
/-
Driver for C12 (persistence).  Requests:

* `keys <component…>`                      key set of the model's `save` for one module
                                           (`T:<tensor key>` / `E:<extras key>`, comma separated, sorted)
* `new <id> ring <n> <store>`              a RecordTensor machine (`Model/RingOps.lean`), float dtype
* `new <id> reducer <n> <pass|ca> <inplace>`   a fold-reducer machine (`reducerStep`)
* `op <id> <operation…>`                   one operation on machine `<id>`; prints
                                           `M <model output> || S <output of the UNINTERRUPTED machine>`
                                           (the S machine is the saved source, stepped in lock step
                                           after `load`; before any load it is the machine itself)
* `save <id>`                              checkpoint := `save` of machine `<id>`
* `load <id>`                              `load checkpoint` into machine `<id>`: `ok` or
                                           `err <kind:key,…>` (sorted)
* `dump <id>`                              full state, M and S
Values are doubles as 16 hex digits.
-/
open InfernoVerif.Ring InfernoVerif.Persist Proto InfernoVerif.Gen.Wire

def EF : Elem Float := { conv := fun _ _ v => v, zero := 0.0 }

def sortStrs (l : List String) : List String := (l.toArray.qsort (· < ·)).toList

/-! ### key sets -/

def dummyT (sh : List Nat) : Tens Float := ⟨sh, []⟩
def dummyRing (n : Nat) : Ring (List Float) := ⟨n, 0, List.replicate n []⟩

def storeOf (n : Nat) (tok : String) : Option (Store (Ring (List Float))) :=
  match tok with
  | "none" => some .none
  | "empty" => some (.empty false)
  | "init" => some (.init false [1] (dummyRing n))
  | _ => none

def recordKeys (name : String) (st : Store (Ring (List Float))) : List String :=
  (ringSave name ((1, st) : MState Float)).keys

def keysOf (toks : List String) : Option (List String) :=
  match toks with
  | ["record", name, st] => do some (recordKeys name (← storeOf 1 st))
  | ["reducer", hc, st] => do
      let hc ← parseBool? hc
      let d := (reducerComp Float).save (((1, ← storeOf 1 st) : MState Float), (⟨hc, true, 0⟩ : Flags))
      some (d.1.keys ++ d.2.map (fun kv => "E:" ++ kv.1))
  | ["neuron", ak] =>
      if ak = "-" then
        some (((bufferComp Float "_voltage__data").save (dummyT [1])).keys ++
              ((bufferComp Float "_refrac__data").save (dummyT [1])).keys)
      else
        let d := (neuronComp Float ak).save (dummyT [1], dummyT [1], dummyT [1])
        some (d.1.keys ++ d.2.1.keys ++ d.2.2.keys)
  | ["synapse", kind] =>
      let r : MState Float := (1, .init false [1] (dummyRing 1))
      match kind with
      | "delta" => some (recordKeys "spike_" r.2)
      | "deltaplus" => some (recordKeys "current_" r.2 ++ recordKeys "spike_" r.2)
      | "singleexp" => some (recordKeys "current_" r.2 ++ recordKeys "spike_" r.2)
      | "doubleexp" =>
        let d := (synapseComp Float).save (r, r, r)
        some (d.1.keys ++ d.2.1.keys ++ d.2.2.keys)
      | _ => none
  | ["connection", b, dl] => do
      let b ← parseBool? b; let dl ← parseBool? dl
      some (((bufferComp Float "weight_").save (dummyT [1])).keys ++
            ((optBufferComp Float "bias_").save (if b then some (dummyT [1]) else none)).keys ++
            ((optBufferComp Float "delay_").save (if dl then some (dummyT [1]) else none)).keys)
  | ["accumulator", np, nn] => do
      let np ← parseNat? np; let nn ← parseNat? nn
      let a : Acc Float := ⟨List.replicate np (dummyT [1]), List.replicate nn (dummyT [1]), none, none⟩
      some (((accComp Float (fun _ => none) false).save a).keys)
  | ["classifier"] =>
      some (((clfComp Float Unit (fun _ => ()) true).save ⟨dummyT [1], ()⟩).keys)
  | ["feedback", st] =>
      match st with
      | "some" => some (((optBufferComp Float "feedback_spikes").save (some (dummyT [1]))).keys)
      | "none" => some (((optBufferComp Float "feedback_spikes").save none).keys)
      | _ => none
  | ["stateless"] => some []
  | _ => none

/-! ### machines -/

inductive Mach where
  | ring (s : MState Float)
  | reducer (inplace : Bool) (ca : Bool) (s : MState Float × Flags)
  /-- after a REJECTED load: torch loads non-atomically (extras and matching tensors are already
  copied when the error is raised); that state is outside the model -/
  | poisoned

inductive Ckpt where
  | ring (d : Dict Float) (src : MState Float)
  | reducer (d : Dict Float × List (String × XVal)) (src : MState Float × Flags)
  | none

structure DState where
  machs : List (String × Mach × Mach)     -- id ↦ (model machine, uninterrupted machine)
  ckpt : Ckpt

def foldOf (ca : Bool) : Nat → Obs Float → Option (List Float) → Obs Float :=
  fun c x prev =>
    if ca then
      match prev with
      | none => x
      | some st => ⟨x.dt, x.shape, (st.zip x.vals).map fun p => p.1 + (p.2 - p.1) / c.toFloat⟩
    else x

def showRowF (r : List Float) : String := sVec r
def showOptRowF : Option (List Float) → String
  | some r => showRowF r | none => "?"

def showOutF : Out Float → String
  | .unit => "ok"
  | .none => "None"
  | .row x => "row " ++ showRowF x
  | .orow x => "row " ++ showOptRowF x
  | .orows rs => "rows " ++ "|".intercalate (rs.map showOptRowF)
  | .omat cols => "cols " ++ "|".intercalate (cols.map fun c => ",".intercalate (c.map fun | some v => sReal v | none => "?"))
  | .ptr p => "ptr " ++ toString p
  | .err e => "err " ++ (match e with
      | .RuntimeError => "RuntimeError" | .ValueError => "ValueError" | .TypeError => "TypeError"
      | .AttributeError => "AttributeError" | .IndexError => "IndexError" | .KeyError => "KeyError"
      | .Other => "Other")
  | .unsupported => "unsupported"

def showStoreF : Store (Ring (List Float)) → String
  | .none => "none" | .empty _ => "empty" | .uninit _ => "uninit"
  | .init _ sh r => s!"init:{showShape sh}:ptr={r.ptr}:" ++ "|".intercalate (r.data.map showRowF)

def showMach : Mach → String
  | .ring s => showStoreF s.2
  | .reducer _ ca s => showStoreF s.1.2 ++ s!";initial={sBool s.2.initial}" ++ (if ca then s!";count={s.2.count}" else "")
  | .poisoned => "after-failed-load"

/-- obs token `<shape>;<vals>` -/
def parseObsF? (s : String) : Option (Obs Float) :=
  match s.splitOn ";" with
  | [sh, vs] => do some ⟨false, ← parseShape? sh, ← pVec vs⟩
  | _ => none

def parseRingOp? (toks : List String) : Option (Op Float) :=
  match toks with
  | ["push", x, b] => do some (.push (← parseObsF? x) (← parseBool? b))
  | ["pop"] => some .pop
  | ["peek"] => some .peek
  | ["read", o] => do some (.read (← parseInt? o))
  | ["write", x, o, b] => do some (.write (← parseObsF? x) (← parseInt? o) (← parseBool? b))
  | ["readrange", l, o, f] => do some (.readrange (← parseNat? l) (← parseInt? o) (← parseBool? f))
  | ["incr", q] => do some (.incr (← parseInt? q))
  | ["decr", q] => do some (.decr (← parseInt? q))
  | ["align", i] => do some (.align (← parseInt? i))
  | ["reset", v] => do some (.reset (some (← pReal v)))
  | ["initialize", sh] => do some (.initz (← parseShape? sh))
  | ["deinitialize"] => some (.deinitz false)
  | _ => none

def parseRedOp? (toks : List String) : Option (RedIn Float) :=
  match toks with
  | ["push", x] => do some (.push (← parseObsF? x))
  | ["clear", k] => do some (.clear (← parseBool? k))
  | ["peek"] => some .peek
  | _ => none

def machStep (m : Mach) (toks : List String) : Option (Mach × String) :=
  match m with
  | .ring s => do
      let op ← parseRingOp? toks
      let (s', o) := step EF s op
      some (.ring s', showOutF o)
  | .reducer ip ca s => do
      let op ← parseRedOp? toks
      let (s', o) := reducerStep EF ip (foldOf ca) s op
      some (.reducer ip ca s', showOutF o)
  | .poisoned => some (.poisoned, "after-failed-load")

def showErr : LoadErr → String
  | .unexpected k => "unexpected:" ++ k
  | .missing k => "missing:" ++ k
  | .shape k => "shape:" ++ k

def setMach (l : List (String × Mach × Mach)) (id : String) (v : Mach × Mach) : List (String × Mach × Mach) :=
  (l.filter (fun kv => kv.1 ≠ id)) ++ [(id, v)]

def dstep (st : DState) (line : String) : DState × String :=
  let toks := splitNonEmpty line " "
  match toks with
  | "keys" :: rest =>
    match keysOf rest with
    | some ks => (st, if ks.isEmpty then "-" else ",".intercalate (sortStrs ks))
    | none => (st, "bad-op")
  | ["new", id, "ring", n, store] =>
    match parseNat? n with
    | some n =>
      let s0 : Option (Store (Ring (List Float))) := match store.splitOn ":" with
        | ["none"] => some .none
        | ["empty"] => some (.empty false)
        | ["zeros", sh] => (parseShape? sh).map fun sh => .init false sh (freshRing n sh 0.0)
        | _ => none
      match s0 with
      | some s0 => ({ st with machs := setMach st.machs id (.ring (n, s0), .ring (n, s0)) }, "ok")
      | none => (st, "bad-op")
    | none => (st, "bad-op")
  | ["new", id, "reducer", n, fold, ip] =>
    match parseNat? n, parseBool? ip, (if fold = "ca" then some true else if fold = "pass" then some false else none) with
    | some n, some ip, some ca =>
      let m := Mach.reducer ip ca ((n, .empty false), ⟨ca, true, 0⟩)
      ({ st with machs := setMach st.machs id (m, m) }, "ok")
    | _, _, _ => (st, "bad-op")
  | "op" :: id :: rest =>
    match st.machs.lookup id with
    | some (m, g) =>
      match machStep m rest, machStep g rest with
      | some (m', mo), some (g', go) =>
        ({ st with machs := setMach st.machs id (m', g') }, "M " ++ mo ++ " || S " ++ go)
      | _, _ => (st, "bad-op")
    | none => (st, "bad-op")
  | ["save", id] =>
    match st.machs.lookup id with
    | some (.ring s, _) => ({ st with ckpt := .ring (ringSave "rec" s) s }, "ok")
    | some (.reducer _ _ s, _) => ({ st with ckpt := .reducer ((reducerComp Float).save s) s }, "ok")
    | some (.poisoned, _) => (st, "after-failed-load")
    | none => (st, "bad-op")
  | ["load", id] =>
    match st.machs.lookup id, st.ckpt with
    | some (.ring t, _), .ring d src =>
      match ringLoad "rec" d t with
      | .ok t' => ({ st with machs := setMach st.machs id (.ring t', .ring src) }, "ok")
      | .error es => ({ st with machs := setMach st.machs id (.poisoned, .poisoned) },
                      "err " ++ ",".intercalate (sortStrs (es.map showErr)))
    | some (.reducer ip ca t, _), .reducer d src =>
      match (reducerComp Float).load d t with
      | .ok t' => ({ st with machs := setMach st.machs id (.reducer ip ca t', .reducer ip ca src) }, "ok")
      | .error es => ({ st with machs := setMach st.machs id (.poisoned, .poisoned) },
                      "err " ++ ",".intercalate (sortStrs (es.map showErr)))
    | _, _ => (st, "bad-op")
  | ["dump", id] =>
    match st.machs.lookup id with
    | some (m, g) => (st, "M " ++ showMach m ++ " || S " ++ showMach g)
    | none => (st, "bad-op")
  | _ => (st, "bad-op")

def main : IO Unit := do
  loop (← IO.getStdin) (⟨[], .none⟩ : DState) dstep
