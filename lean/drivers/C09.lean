import InfernoVerif.Model.Split
import InfernoVerif.Drv.Proto
/-
Driver for C09: evaluates the hand-transcribed routing tables / clamp splits of
`Model/Split.lean` in `Float` (same operations as the Python source: one `+`, `max`, `min`, unary `-`,
and the batch reduction) on the magnitudes the harness read off the real trainer's monitors, and
next to it the SPECIFICATION of the property: the signed rule `sgn(η_a)·x + sgn(η_b)·y` that
`pos − neg` must equal, and `(max k 0, max (−k) 0)` for a clamp split of a signed quantity.

Values are 16 hex digits (IEEE double bit pattern) or `nan`; a tensor is `samples | receptive ; elements ,`.
Every request is answered `M pos=… neg=… || S …`.
-/
open InfernoVerif.Split Proto

def hexVal? (c : Char) : Option Nat :=
  if '0' ≤ c ∧ c ≤ '9' then some (c.toNat - '0'.toNat)
  else if 'a' ≤ c ∧ c ≤ 'f' then some (c.toNat - 'a'.toNat + 10) else none

def parseHex64? (s : String) : Option UInt64 :=
  if s.length ≠ 16 then none else
  s.toList.foldlM (fun (acc : UInt64) c => do some (acc * 16 + (← hexVal? c).toUInt64)) 0

def hexDigit (n : Nat) : Char := if n < 10 then Char.ofNat (48 + n) else Char.ofNat (87 + n)
def showHex64 (u : UInt64) : String :=
  String.ofList ((List.range 16).map fun i => hexDigit ((u >>> (4 * (15 - i)).toUInt64) &&& 15).toNat)

def parseF? (s : String) : Option Float := (parseHex64? s).map Float.ofBits
/-- `nan` = no spike yet -/
def parseFN? (s : String) : Option (Option Float) :=
  if s = "nan" then some none else (parseF? s).map some
def showF (x : Float) : String := showHex64 x.toBits

def parseVec? (s : String) : Option (List Float) := (s.splitOn ",").mapM parseF?
/-- `sample|sample|…`, each a vector over the parameter's elements; `-` = no samples -/
def parseRows? (s : String) : Option (List (List Float)) :=
  if s = "-" then some [] else (s.splitOn "|").mapM parseVec?
/-- `sample|…`, each `receptive;…`, each a vector over elements with `nan` allowed -/
def parseTensor? (s : String) : Option (List (List (List (Option Float)))) :=
  (s.splitOn "|").mapM fun smp => (smp.splitOn ";").mapM fun r => (r.splitOn ",").mapM parseFN?

instance : NatCast Float := ⟨Float.ofNat⟩
def rmeanF (l : List Float) : Float := lsum l / (l.length : Float)
def rmaxF : List Float → Float
  | [] => 0
  | x :: xs => xs.foldl max x
def parseRed? (s : String) : Option (List Float → Float) :=
  if s = "sum" then some lsum else if s = "mean" then some rmeanF else if s = "amax" then some rmaxF else none

def showPart (ps : List (Option Float)) : String :=
  match ps.mapM id with
  | some vs => ",".intercalate (vs.map showF)
  | none => if ps.all (·.isNone) then "None" else "nonuniform"

def showParts (ps : List (Parts Float)) : String :=
  s!"pos={showPart (ps.map (·.1))} neg={showPart (ps.map (·.2))}"

def sgnB (nonneg : Bool) : Float := if nonneg then 1.0 else -1.0

/-- the seven scalar tables; flags arrive as the code computes them (`>= 0` for the weight
trainers, `< 0` for the delay trainers); returns the routed parts and the signs the rule assigns
to `x` and `y` -/
def table? (family : String) (a b : Bool) : Option ((Float → Float → Parts Float) × Float × Float) :=
  match family with
  | "stdp" => some (route_stdp a b, sgnB a, sgnB b)
  | "triplet" => some (route_triplet_stdp a b, sgnB a, sgnB b)
  | "mstdp" => some (route_mstdp a b, sgnB a, sgnB b)
  | "dastdp" => some (route_delay_adjusted_stdp a b, sgnB a, sgnB b)
  -- x = dpos belongs to lr_pos (flag b = `lr_pos < 0`), y = dneg to lr_neg (flag a)
  | "dastdpd" => some (route_delay_adjusted_stdpd a b, sgnB (!b), sgnB (!a))
  | "damstdp" => some (route_delay_adjusted_mstdp a b, sgnB a, sgnB b)
  -- x = dpost belongs to lr_neg (flag a = `lr_neg·signal < 0`), y = dpre to lr_pos (flag b)
  | "damstdpd" => some (route_delay_adjusted_mstdpd a b, sgnB (!a), sgnB (!b))
  | _ => none

/-- column `e` of a list of rows -/
def col (rows : List (List Float)) (e : Nat) : List Float := rows.filterMap (·[e]?)

def dstep (_ : Unit) (line : String) : Unit × String :=
  let toks := splitNonEmpty line " "
  ((), match toks with
  | ["route", family, a, b, xs, ys] =>
    match parseBool? a, parseBool? b, parseVec? xs, parseVec? ys with
    | some a, some b, some xs, some ys =>
      match table? family a b with
      | some (f, sx, sy) =>
        if xs.length ≠ ys.length then "bad-op" else
        let parts := (xs.zip ys).map fun xy => f xy.1 xy.2
        let nets := (xs.zip ys).map fun xy => sx * xy.1 + sy * xy.2
        s!"M {showParts parts} || S net={",".intercalate (nets.map showF)} nonneg=T"
      | none => "bad-op"
    | _, _, _, _ => "bad-op"
  | ["mstdp3", la, lb, sg, sc, zs, ws] =>
    -- scalar-reward branch with its actual arguments: flags and |signal*scale| are computed in Lean
    match parseF? la, parseF? lb, parseF? sg, parseF? sc, parseVec? zs, parseVec? ws with
    | some la, some lb, some sg, some sc, some zs, some ws =>
      if zs.length ≠ ws.length then "bad-op" else
      let parts := (zs.zip ws).map fun zw => mstdp_forward_scalar la lb sg sc zw.1 zw.2
      let nets := (zs.zip ws).map fun zw =>
        sgnB (decide (0 ≤ la * sg)) * (zw.1 * Float.abs (sg * sc)) + sgnB (decide (0 ≤ lb * sg)) * (zw.2 * Float.abs (sg * sc))
      s!"M {showParts parts} || S net={",".intercalate (nets.map showF)} nonneg=T"
    | _, _, _, _, _, _ => "bad-op"
  | ["routeT", family, a, b, red, signs, xrows, yrows] =>
    -- per-sample reward: `signs` is a string of `+` (signal >= 0) / `-` per sample
    match parseBool? a, parseBool? b, parseRed? red, parseRows? xrows, parseRows? yrows with
    | some a, some b, some reduce, some xr, some yr =>
      let sg := signs.toList.map (· == '+')
      if sg.length ≠ xr.length || sg.length ≠ yr.length || !(signs.toList.all fun c => c == '+' || c == '-') then "bad-op" else
      let E := match xr with | r :: _ => r.length | [] => 0
      let pick (rows : List (List Float)) (want : Bool) := (rows.zip sg).filterMap fun rs => if rs.2 == want then some rs.1 else none
      let route := match family with
        | "mstdp" => some (fun pr pi qr qi => route_mstdp_tensor reduce a b pr pi qr qi, sgnB a, sgnB b)
        | "damstdp" => some (fun pr pi qr qi => route_mstdp_tensor reduce a b pr pi qr qi, sgnB a, sgnB b)
        | "damstdpd" => some (fun pr pi qr qi => route_mstdpd_tensor reduce a b pr pi qr qi, sgnB (!a), sgnB (!b))
        | _ => none
      match route with
      | none => "bad-op"
      | some (f, sx, sy) =>
        let parts := (List.range E).map fun e =>
          f (col (pick xr true) e) (col (pick xr false) e) (col (pick yr true) e) (col (pick yr false) e)
        let nets := (List.range E).map fun e =>
          sx * (lsum (col (pick xr true) e) - lsum (col (pick xr false) e))
            + sy * (lsum (col (pick yr true) e) - lsum (col (pick yr false) e))
        let snet := if red = "sum" then ",".intercalate (nets.map showF) else "-"
        s!"M {showParts parts} || S net={snet} nonneg=T"
    | _, _, _, _, _ => "bad-op"
  | ["kernel", red, dpost, dpre] =>
    match parseRed? red, parseTensor? dpost, parseTensor? dpre with
    | some reduce, some dp, some dq =>
      let E := match dp with | (r :: _) :: _ => r.length | _ => 0
      -- element e: batch-major list of receptive rows
      let sel (t : List (List (List (Option Float)))) (e : Nat) : List (List (Option Float)) :=
        t.map fun smp => smp.map fun r => (r[e]?).join
      let parts := (List.range E).map fun e => kernel_split reduce (sel dp e) (sel dq e)
      let nets := (List.range E).map fun e => lsum ((sel dp e).map nansum) + lsum ((sel dq e).map nansum)
      let snet := if red = "sum" then ",".intercalate (nets.map showF) else "-"
      s!"M {showParts parts} || S net={snet} nonneg=T"
    | _, _, _ => "bad-op"
  | ["homeo", red, krows] =>
    match parseRed? red, parseRows? krows with
    | some reduce, some kr =>
      let E := match kr with | r :: _ => r.length | [] => 0
      let m := (List.range E).map fun e => homeostasis_split reduce (col kr e)
      let s := (List.range E).map fun e => signed_split_spec reduce (col kr e)
      s!"M {showParts m} || S {showParts s}"
    | _, _ => "bad-op"
  | _ => "bad-op")

def main : IO Unit := do
  loop (← IO.getStdin) () dstep
