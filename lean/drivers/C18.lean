import InfernoVerif.Model.DelaySTDPF
import InfernoVerif.Drv.Proto
/-
Driver for C18 (delay-adjusted and kernel STDP).  One request per weight and run, answered by
`M <per-step pos,neg;…> || S <per-step pos,neg;…>`: `M` is the code-shaped model
(`Model/DelaySTDPF.lean`: EventReducer fold, `t_delta`, branch masks / generated half kernels, `nansum`,
routing), `S` the documented function of the TRUE most-recent spike times.  Doubles as 16 hex digits, `N` = `None`.

Request (space separated):
  <variant> <lrPos> <lrNeg> <tcPos> <tcNeg> <dt> <red> <T> <trains> <delays> <signal>
`<variant>` = da | dad | dak | dakd | k | dam | damd  (DelayAdjustedSTDP, …STDPD, DelayAdjustedKernelSTDP and
…KernelSTDPD with the shipped exponential kernels, KernelSTDP with no delay in effect, DelayAdjustedMSTDP, …MSTDPD);
`<trains>` as in C08; `<delays>` the delay of this weight (ms) in effect at each step, comma separated;
`<signal>` = `-` or as in C08.
-/
open InfernoVerif.STDP.F InfernoVerif.DSTDP.F InfernoVerif.Gen.Wire Proto

def bits (s : String) : Nat → Bool :=
  let a := s.toList.toArray.map (· == '1')
  fun t => a.getD t false

def pBits? (s : String) : Option (Nat → Bool) :=
  if s.toList.all (fun c => c == '0' || c == '1') && !s.isEmpty then some (bits s) else none

def pSyn (s : String) : Option Syn :=
  match s.splitOn ":" with
  | [a, b] => do some ⟨← pBits? a, ← pBits? b⟩
  | _ => none

def pBatch (s : String) : Option (List (List Syn)) :=
  (s.splitOn ";").mapM fun f => (f.splitOn ",").mapM pSyn

def pRed : String → Option Red
  | "sum" => some .sum
  | "mean" => some .mean
  | _ => none

inductive Sig
  | scalar (scale : Float) (v : Array Float)
  | tensor (scale : Float) (v : Array (List Float))

def pSig (s : String) : Option Sig :=
  match s.splitOn ":" with
  | ["s", sc, vs] => do some (.scalar (← pReal sc) (← pVec vs).toArray)
  | ["t", sc, vs] => do some (.tensor (← pReal sc) (← (vs.splitOn "/").mapM pVec).toArray)
  | _ => none

def sOpt : Option Float → String
  | some x => sReal x
  | none => "N"

def fmt (f : Nat → Option Float × Option Float) (n : Nat) : String :=
  ";".intercalate ((List.range n).map fun t => let u := f t; s!"{sOpt u.1},{sOpt u.2}")

def answer (m s : Nat → Option Float × Option Float) (n : Nat) : String :=
  s!"M {fmt m n} || S {fmt s n}"

def handle (line : String) : Option String :=
  match splitNonEmpty line " " with
  | [variant, lrPos, lrNeg, tcPos, tcNeg, dt, red, n, tr, ds, sg] => do
    let c : DCfg := { lrPos := ← pReal lrPos, lrNeg := ← pReal lrNeg, tcPos := ← pReal tcPos, tcNeg := ← pReal tcNeg,
                      dt := ← pReal dt }
    let r ← pRed red; let n ← parseNat? n; let bt ← pBatch tr
    let dv := (← pVec ds).toArray
    if dv.size < n then none else
    let d := fun (t : Nat) => dv.getD t 0
    match variant, sg with
    | "da", "-" => some (answer (fun t => daStep c r (d t) bt t) (fun t => specDa c r (d t) bt t) n)
    | "dad", "-" => some (answer (fun t => dadStep c r (d t) bt t) (fun t => specDad c r (d t) bt t) n)
    | "dak", "-" => some (answer (fun t => dakStep c.dt r (expPost c) (expPre c) (d t) bt t) (fun t => specDa c r (d t) bt t) n)
    | "dakd", "-" => some (answer (fun t => dakStep c.dt r (expPostD c) (expPreD c) (d t) bt t) (fun t => specDad c r (d t) bt t) n)
    | "k", "-" => some (answer (fun t => kStep c.dt r (expPost c) (expPre c) bt t) (fun t => specDa c r 0 bt t) n)
    | "dam", sg =>
      match ← pSig sg with
      | .scalar sc v => if v.size < n then none else
        some (answer (fun t => damScalar c r (d t) bt (v.getD t 0) sc t) (fun t => specDamScalar c r (d t) bt (v.getD t 0) sc t) n)
      | .tensor sc v => if v.size < n || v.any (fun l => l.length != bt.length) then none else
        some (answer (fun t => damTensor c r (d t) bt (v.getD t []) sc t) (fun t => specDamTensor c r (d t) bt (v.getD t []) sc t) n)
    | "damd", sg =>
      match ← pSig sg with
      | .scalar sc v => if v.size < n then none else
        some (answer (fun t => damdScalar c r (d t) bt (v.getD t 0) sc t) (fun t => specDamdScalar c r (d t) bt (v.getD t 0) sc t) n)
      | .tensor sc v => if v.size < n || v.any (fun l => l.length != bt.length) then none else
        some (answer (fun t => damdTensor c r (d t) bt (v.getD t []) sc t) (fun t => specDamdTensor c r (d t) bt (v.getD t []) sc t) n)
    | _, _ => none
  | _ => none

def dstep (_ : Unit) (line : String) : Unit × String :=
  match handle line with
  | some s => ((), s)
  | none => ((), "bad-op")

def main : IO Unit := do
  loop (← IO.getStdin) () dstep
