import InfernoVerif.Model.Layer
import InfernoVerif.Drv.Proto
/-
Driver for C17: executes the code-shaped layer model (`Layer.forward` over dictionaries, the
`Serial` / `Biclique` / `RecurrentSerial` wrappers, the `clear` cascades) AND the positional
specification of `Model/Layer.lean`, both instantiated with *tape components*: each component
(connection or neuron group) replays, call by call, what the REAL component of the real layer
received and returned during the real run (recorded by the harness through forward hooks).  A tape
component checks that the input the model hands it is exactly the input the real component got,
and that `clear` is called exactly when the real one was; any disagreement travels with the
tensors (`err`) to the printed outputs.

  begin serial <trans>
  begin biclique <combine> <conn:post|conn:post…> <neuron:pre|neuron:pre…>
  begin recurrent <ffOut> <latOut> <fbOut> <latIn> <fbIn>
  peek <c|n>:<name> <tensor>                 initial read-out (`neuron.spike`)
  tape <c|n>:<name> call <ten;ten…> <ten>    one real call: inputs, output
  tape <c|n>:<name> clear <tensor>           one real clear, read-out afterwards
  step <ten;ten…>                            serial / recurrent: positional inputs
  step <name=ten;ten|name=…>                 biclique: inputs per connection
  clear | end

tensor := <d0>x<d1>…:<comma separated integers>;   transforms: id neg inv relu clamp01 scale<k> add<c>
(a trailing `_` = the in-place variant on the real side; same value)
combine: sum mean prod min max custom (custom = Σ_j (j+1)·t_j over the dictionary order)
-/
open InfernoVerif.Layer Proto

structure Ten where
  shape : List Nat
  data  : List Int
  err   : String := ""
deriving DecidableEq, Inhabited

def Ten.bad (msg : String) : Ten := ⟨[], [], msg⟩
/-- keep the FIRST disagreement only (later ones are consequences), bounded in length -/
def joinErr (a b : String) : String := if a = "" then (b.take 400).toString else a

def showTen (t : Ten) : String :=
  showShape t.shape ++ ":" ++ showInts t.data ++ (if t.err = "" then "" else "!{" ++ t.err ++ "}")

def parseTen? (s : String) : Option Ten :=
  match s.splitOn ":" with
  | [sh, vs] => do some ⟨← parseShape? sh, ← parseInts? vs, ""⟩
  | _ => none

def parseTens? (s : String) : Option (List Ten) :=
  if s = "-" then some [] else (s.splitOn ";").mapM parseTen?

def Ten.map (f : Int → Int) (t : Ten) : Ten := { t with data := t.data.map f }
def Ten.add (a b : Ten) : Ten :=
  if a.shape = b.shape then ⟨a.shape, List.zipWith (· + ·) a.data b.data, joinErr a.err b.err⟩
  else ⟨[], [], joinErr (joinErr a.err b.err) s!"add: shapes {showShape a.shape} and {showShape b.shape} differ"⟩
def Ten.zerosLike (a : Ten) : Ten := ⟨a.shape, a.data.map fun _ => 0, a.err⟩

/-- transforms are pure functions of VALUES here: a trailing `_` names the in-place variant the
harness uses on the real layer (`x.mul_(k)`, `x.clamp_(0, 1)`, …), whose value is the same — the
model hands every consumer a fresh value, aliasing of tensor objects exists only on the real side -/
def parseTrans? (s0 : String) : Option (Ten → Ten) :=
  let s := if s0.endsWith "_" then (s0.dropEnd 1).toString else s0
  if s = "id" then some id
  else if s = "neg" then some (Ten.map fun v => -v)
  else if s = "inv" then some (Ten.map fun v => 1 - v)
  else if s = "relu" then some (Ten.map fun v => if v < 0 then 0 else v)
  else if s = "clamp01" then some (Ten.map fun v => if v < 0 then 0 else if v > 1 then 1 else v)
  else if s.startsWith "scale" then (s.drop 5).toInt?.map fun k => Ten.map fun v => k * v
  else if s.startsWith "add" then (s.drop 3).toInt?.map fun c => Ten.map fun v => v + c
  else none

def parseMode? (s : String) : Option Mode :=
  match s with
  | "sum" => some .sum | "mean" => some .mean | "prod" => some .prod | "min" => some .min | "max" => some .max
  | _ => none

/-- `_combine` for the built-in modes and the custom callable of the harness -/
def mkCombine (name : String) : Option (Dict Ten → Option Ten) :=
  match parseMode? name with
  | some m => some fun d =>
    match d with
    | [] => none
    | (_, t) :: _ =>
      let errs := d.foldl (fun e kv => joinErr e kv.2.err) ""
      if d.all fun kv => kv.2.shape = t.shape then
        match reduceStack m (d.map fun kv => kv.2.data) with
        | some r => some ⟨t.shape, r, errs⟩
        | none => some (Ten.bad (joinErr errs "combine: non-integral mean"))
      else some (Ten.bad (joinErr errs "combine: shapes differ"))
  | none =>
    if name = "custom" then some fun d =>
      match d with
      | [] => none
      | (_, t) :: _ =>
        let errs := d.foldl (fun e kv => joinErr e kv.2.err) ""
        let ws : List Int := (List.range d.length).map fun j => ((j + 1 : Nat) : Int)
        some ⟨t.shape, (List.range t.data.length).map fun i =>
          (List.zipWith (fun (w : Int) (kv : String × Ten) => w * kv.2.data.getD i 0) ws d).foldl (· + ·) 0, errs⟩
    else none

/-! ### tape components -/

inductive Entry where
  | call (ins : List Ten) (out : Ten)
  | clear (peekAfter : Ten)
deriving Inhabited

structure TapeSt where
  name : String
  tape : List Entry
  k    : Nat := 0            -- calls so far
  last : Ten
  log  : String := ""

def probe : Ten := ⟨[0, 0, 7], [], ""⟩

def showIns (xs : List Ten) : String := ";".intercalate (xs.map showTen)

def tapeStep (s : TapeSt) (xs : List Ten) : TapeSt × Ten :=
  if xs = [probe] then
    (s, ⟨[], [], joinErr s.log (if s.tape.isEmpty then "" else s!"{s.name}: {s.tape.length} recorded real events not reproduced by the model")⟩)
  else
  match s.tape with
  | .call ins out :: rest =>
    let inErr := xs.foldl (fun e t => joinErr e t.err) ""
    let e := if ins = xs then "" else
      s!"{s.name} call {s.k}: real component received [{showIns ins}], model passes [{showIns xs}]"
    let log := joinErr s.log (if inErr = "" then e else "")
    let o := { out with err := joinErr inErr (joinErr s.log e) }
    ({ s with tape := rest, k := s.k + 1, last := { out with err := log }, log := log }, o)
  | .clear _ :: _ =>
    let e := s!"{s.name} call {s.k}: model calls forward where the real component was cleared"
    ({ s with k := s.k + 1, log := joinErr s.log e, last := Ten.bad e }, Ten.bad (joinErr s.log e))
  | [] =>
    let e := s!"{s.name} call {s.k}: model calls forward, the real component was not called again"
    ({ s with k := s.k + 1, log := joinErr s.log e, last := Ten.bad e }, Ten.bad (joinErr s.log e))

def tapeClear (s : TapeSt) : TapeSt :=
  match s.tape with
  | .clear p :: rest => { s with tape := rest, last := { p with err := s.log } }
  | _ =>
    let e := s!"{s.name}: model clears the component, the real component was not cleared here"
    { s with log := joinErr s.log e, last := Ten.bad e }

def mkConn (s : TapeSt) : Conn Ten :=
  { σ := TapeSt, st := s, step := tapeStep, peek := fun s => s.last, clear := tapeClear, fresh := tapeClear }
def mkNeur (s : TapeSt) : Neur Ten :=
  { σ := TapeSt, st := s, step := fun s x => tapeStep s [x], peek := fun s => s.last, clear := tapeClear, fresh := tapeClear }

/-! ### driver state -/

inductive Cfg where
  | none
  | serial (c : SerialCfg Ten)
  | biclique (b : BicliqueCfg Ten) (cnames nnames : List String) (posts pres : List (Ten → Ten))
  | recurrent (r : RecCfg Ten)

structure Pending where
  tapes : List (String × List Entry) := []      -- keyed by `c:<name>` / `n:<name>`, entries reversed
  peeks : List (String × Ten) := []

structure DState where
  cfg  : Cfg := .none
  pend : Pending := {}
  m    : Option (RecSt Ten) := none             -- code-shaped machine (serial / biclique use `.L`)
  -- specification machines (positional)
  sSer : Option (Conn Ten × Neur Ten) := none
  sBic : Option (List (Conn Ten) × List (Neur Ten)) := none
  sRec : Option (RecSpecSt Ten) := none
  dead : Bool := false                          -- the code-shaped machine raised (KeyError)

def Pending.addTape (p : Pending) (k : String) (e : Entry) : Pending :=
  if p.tapes.any (·.1 = k) then { p with tapes := p.tapes.map fun kv => if kv.1 = k then (kv.1, e :: kv.2) else kv }
  else { p with tapes := p.tapes ++ [(k, [e])] }

def Pending.tape (p : Pending) (k : String) : TapeSt :=
  let es := match p.tapes.find? (·.1 = k) with | some kv => kv.2.reverse | none => []
  let pk := match p.peeks.find? (·.1 = k) with | some kv => kv.2 | none => Ten.bad (k ++ ": no initial read-out given")
  { name := k, tape := es, last := pk }

def recNames : RecCfg Ten → RecCfg Ten := id

def build (s : DState) : DState :=
  if s.m.isSome then s else
  let c (n : String) := mkConn (s.pend.tape ("c:" ++ n))
  let n (k : String) := mkNeur (s.pend.tape ("n:" ++ k))
  match s.cfg with
  | .none => s
  | .serial C =>
    { s with m := some ⟨⟨[(C.cn, c C.cn)], [(C.nn, n C.nn)]⟩, none⟩, sSer := some (c C.cn, n C.nn) }
  | .biclique _ cn nn _ _ =>
    { s with m := some ⟨⟨cn.map fun k => (k, c k), nn.map fun k => (k, n k)⟩, none⟩,
             sBic := some (cn.map c, nn.map n) }
  | .recurrent R =>
    let sp : RecSpecSt Ten := ⟨c R.ffc, c R.latc, c R.fbc, n R.ffn, n R.fbn, none⟩
    { s with m := some (sp.toSt R), sRec := some sp }

def showDict (d : Dict Ten) : String := "|".intercalate (d.map fun kv => kv.1 ++ "=" ++ showTen kv.2)

def parseDictIn? (s : String) : Option (Dict (List Ten)) :=
  (s.splitOn "|").mapM fun e =>
    match e.splitOn "=" with
    | [k, v] => do some (k, ← parseTens? v)
    | _ => none

def parseNamed? (s : String) : Option (List (String × (Ten → Ten))) :=
  (s.splitOn "|").mapM fun e =>
    match e.splitOn ":" with
    | [k, t] => do some (k, ← parseTrans? t)
    | _ => none

def beginCmd (toks : List String) : Option Cfg :=
  match toks with
  | ["serial", t] => do some (.serial ⟨"serial", "serial", ← parseTrans? t⟩)
  | ["biclique", comb, cs, ns] => do
      let cs ← parseNamed? cs
      let ns ← parseNamed? ns
      let f ← mkCombine comb
      some (.biclique ⟨cs, ns, f⟩ (cs.map (·.1)) (ns.map (·.1)) (cs.map (·.2)) (ns.map (·.2)))
  | ["recurrent", a, b, c, d, e] => do
      let li ← parseTrans? d
      let fi ← parseTrans? e
      some (.recurrent { ffc := "feedfwd", latc := "lateral", fbc := "feedback", ffn := "feedfwd", fbn := "feedback",
                         ffOut := ← parseTrans? a, latOut := ← parseTrans? b, fbOut := ← parseTrans? c,
                         latIn := fun t => [li t], fbIn := fun t => [fi t], add := Ten.add, zerosLike := Ten.zerosLike })
  | _ => none

def stepCmd (s : DState) (arg : String) : DState × String :=
  let s := build s
  match s.cfg, s.m with
  | .serial C, some M =>
    match parseTens? arg, s.sSer with
    | some xs, some (c, n) =>
      let sp := serialSpec C.trans c n xs
      let S := "out=" ++ showTen sp.2.1 ++ " mid=" ++ showTen sp.2.2
      if s.dead then ({ s with sSer := some sp.1 }, "M err KeyError || S " ++ S) else
      match Serial.forward C M.L xs with
      | some (L', o, y) => ({ s with m := some ⟨L', none⟩, sSer := some sp.1 }, "M out=" ++ showTen o ++ " mid=" ++ showTen y ++ " || S " ++ S)
      | none => ({ s with dead := true, sSer := some sp.1 }, "M err KeyError || S " ++ S)
    | _, _ => (s, "bad-op")
  | .biclique B cn _ posts pres, some M =>
    match parseDictIn? arg, s.sBic with
    | some ins, some (cs, ns) =>
      -- the specification is positional: inputs in registration order of the connections
      let xs := cn.map fun k => (ins.find? (·.1 = k)).map (·.2)
      if xs.any Option.isNone || ins.length ≠ cn.length then (s, "bad-op") else
      let xs := xs.map fun o => o.getD []
      match bicliqueSpec cn posts B.comb pres cs ns xs with
      | none => (s, "bad-op")
      | some sp =>
        let S := "out=" ++ showDict ((B.pre.map (·.1)).zip sp.2.1) ++ " mid=" ++ showDict (cn.zip sp.2.2)
        if s.dead then ({ s with sBic := some sp.1 }, "M err KeyError || S " ++ S) else
        match Biclique.forward B M.L ins with
        | some (L', o, y) =>
          -- the intermediate dictionary is keyed in the order of `inputs`; print it in registration order
          let y' := cn.filterMap fun k => (y.find? (·.1 = k))
          ({ s with m := some ⟨L', none⟩, sBic := some sp.1 }, "M out=" ++ showDict o ++ " mid=" ++ showDict y' ++ " || S " ++ S)
        | none => ({ s with dead := true, sBic := some sp.1 }, "M err KeyError || S " ++ S)
    | _, _ => (s, "bad-op")
  | .recurrent R, some M =>
    match parseTens? arg, s.sRec with
    | some xs, some sp =>
      let r := recSpecStep R sp xs
      let S := "out=" ++ showTen r.2.1 ++ " fb=" ++ showTen r.2.2
      if s.dead then ({ s with sRec := some r.1 }, "M err KeyError || S " ++ S) else
      match Rec.forward R M xs with
      | some (M', o1, o2) => ({ s with m := some M', sRec := some r.1 }, "M out=" ++ showTen o1 ++ " fb=" ++ showTen o2 ++ " || S " ++ S)
      | none => ({ s with dead := true, sRec := some r.1 }, "M err KeyError || S " ++ S)
    | _, _ => (s, "bad-op")
  | _, _ => (s, "bad-op")

def clearCmd (s : DState) : DState × String :=
  let s := build s
  match s.cfg, s.m with
  | .none, _ | _, none => (s, "bad-op")
  | .recurrent _, some M =>
    ({ s with m := some (Rec.clear M),
              sRec := s.sRec.map fun sp => { cff := sp.cff.frs, clat := sp.clat.frs, cfb := sp.cfb.frs, nff := sp.nff.frs, nfb := sp.nfb.frs, prev := none } }, "ok")
  | _, some M =>
    ({ s with m := some ⟨Layer.clear M.L, none⟩,
              sSer := s.sSer.map fun p => (p.1.frs, p.2.frs),
              sBic := s.sBic.map fun p => (p.1.map Obj.frs, p.2.map Obj.frs) }, "ok")

/-- ask every component of both machines for its log and unconsumed tape -/
def endCmd (s : DState) : String :=
  let s := build s
  let pc (d : Dict (Conn Ten)) := d.foldl (fun e kv => joinErr e (kv.2.fwd [probe]).2.err) ""
  let pn (d : Dict (Neur Ten)) := d.foldl (fun e kv => joinErr e (kv.2.fwd probe).2.err) ""
  let m := match s.m with
    | some M => joinErr (pc M.L.conns) (pn M.L.neurs)
    | none => "no layer"
  let lc (l : List (Conn Ten)) := l.foldl (fun e o => joinErr e (o.fwd [probe]).2.err) ""
  let ln (l : List (Neur Ten)) := l.foldl (fun e o => joinErr e (o.fwd probe).2.err) ""
  let sp := match s.sSer, s.sBic, s.sRec with
    | some (c, n), _, _ => joinErr (lc [c]) (ln [n])
    | _, some (cs, ns), _ => joinErr (lc cs) (ln ns)
    | _, _, some r => joinErr (lc [r.cff, r.clat, r.cfb]) (ln [r.nff, r.nfb])
    | _, _, _ => "no layer"
  "M " ++ (if s.dead then "err KeyError" else if m = "" then "consistent" else "!{" ++ m ++ "}") ++
    " || S " ++ (if sp = "" then "consistent" else "!{" ++ sp ++ "}")

def dstep (s : DState) (line : String) : DState × String :=
  let toks := splitNonEmpty line " "
  match toks with
  | "begin" :: rest => match beginCmd rest with
    | some c => ({ cfg := c }, "ok")
    | none => (s, "bad-op")
  | ["peek", k, t] => match parseTen? t with
    | some t => if s.m.isSome then (s, "bad-op") else ({ s with pend := { s.pend with peeks := s.pend.peeks ++ [(k, t)] } }, "ok")
    | none => (s, "bad-op")
  | ["tape", k, "call", ins, out] => match parseTens? ins, parseTen? out with
    | some ins, some out => if s.m.isSome then (s, "bad-op") else ({ s with pend := s.pend.addTape k (.call ins out) }, "ok")
    | _, _ => (s, "bad-op")
  | ["tape", k, "clear", pk] => match parseTen? pk with
    | some pk => if s.m.isSome then (s, "bad-op") else ({ s with pend := s.pend.addTape k (.clear pk) }, "ok")
    | none => (s, "bad-op")
  | ["step", arg] => stepCmd s arg
  | ["clear"] => clearCmd s
  | ["end"] => (s, endCmd s)
  | _ => (s, "bad-op")

/-- `Proto.loop` for a state living in `Type 1` (the components carry their own state types) -/
partial def loop1 (h : IO.FS.Stream) (s : DState) : IO Unit := do
  let line ← h.getLine
  if line.isEmpty then return ()
  let l := String.ofList ((line.toList.reverse.dropWhile (fun c => c = '\n' || c = '\r')).reverse)
  if l.isEmpty then loop1 h s else
  let (s', out) := dstep s l
  IO.println out
  loop1 h s'

def main : IO Unit := do
  loop1 (← IO.getStdin) ({} : DState)
