import InfernoVerif.Model.Lifecycle
import InfernoVerif.Drv.Proto
/-
Driver for C15: executes the lifecycle machine of `Model/Lifecycle.lean` on each request line and
prints, after EVERY operation, the code-shaped view (M: handles, observation counts, reads resolved
through `cell.monitors`) and the specification's view (S: the ghost counts, "registered iff the
trainer is training", "reads land on the trainer's own monitors", "a layer step never raises").

request lines
  begin <l:c:n,l:c:n,…> [T|F]  the cells: index ↦ (layer, connection, neuron); optional flag: the
                               "other layer" test of the alias search as repaired by D36 (T, default) or as it was (F)
  trainer <kind>               kind 0 = STDP-like, 1 = MSTDPET-like
  register t n c v | delcell t n | addmon t n m <n0|n1|c0|c1|cm|bad> unique prepend tags | delmon t n m
  ttrain t T|F | ltrain l T|F | lstep l | tstep t | clear t | collect t
response
  M <out> | hooks <k0>/<k1>/… (per layer) | T<t> tr=… cells=n:c,… named=n.m:R|U:count:L<layer>,… mons=n.m,… own=n.m:T|F,… ; T<t'> …
     (M: the layer the monitor is registered with; S: the layer of the cell it is listed for)
  || S <out> | hooks <k> | …
-/
open InfernoVerif.Lifecycle Proto

def showErr : Err → String
  | .RuntimeError => "RuntimeError" | .ValueError => "ValueError" | .TypeError => "TypeError"
  | .AttributeError => "AttributeError" | .IndexError => "IndexError" | .KeyError => "KeyError"
  | .Other => "Other"

def showOut : Out → String
  | .ok => "ok" | .idx n => s!"idx {n}" | .err e => "err " ++ showErr e | .fail => "fail" | .noref => "noref"

def showB (b : Bool) : String := if b then "T" else "F"

def joinOr (l : List String) : String := if l.isEmpty then "-" else ",".intercalate l

/-- first `(cell name, monitor name)` entry holding `mid` -/
def firstEntry (T : Trainer) (mid : Nat) : String :=
  match (namedMonitors T).find? (fun e => e.2 == mid) with
  | some e => s!"{e.1.1}.{e.1.2}"
  | none => "?"

def dumpTrainer (s : State) (t : Nat) (spec : Bool) : String :=
  let T := s.trainers t
  let cells := joinOr (T.cells.map fun e => s!"{e.1}:{e.2}")
  let named := joinOr ((namedMonitors T).map fun e =>
    let m := s.mons e.2
    let reg := if spec then T.training else m.handle.isSome
    let cnt := if spec then m.expected else m.count
    let lay := if spec then (match lookup T.cells e.1.1 with | some c => cellLayer s c | none => m.layer) else m.layer
    s!"{e.1.1}.{e.1.2}:{if reg then "R" else "U"}:{cnt}:L{lay}")
  let mons := joinOr ((distinctMids T).map (firstEntry T))
  let own := joinOr (((namedMonitors T).filter fun e => !(s.mons e.2).reads.isEmpty).map fun e =>
    s!"{e.1.1}.{e.1.2}:{showB (if spec then true else readsOwn s e.2)}")
  s!"T{t} tr={showB T.training} cells={cells} named={named} mons={mons} own={own}"

def aliveTrainers (s : State) : List Nat := (List.range s.nTrainers).filter fun t => (s.trainers t).alive

def nLayers (s : State) : Nat := (s.topo.map (·.1 + 1)).foldl max 1

/-- specification: per training trainer, one hook per distinct (monitor, layer of a cell listing it) -/
def specHooks (s : State) (l : Nat) : Nat :=
  ((aliveTrainers s).map fun t =>
    let T := s.trainers t
    if T.training then
      (((namedMonitors T).filter fun e =>
          (match lookup T.cells e.1.1 with | some c => cellLayer s c | none => (s.mons e.2).layer) == l).map (·.2)).eraseDups.length
    else 0).foldl (· + ·) 0

def dump (s : State) (spec : Bool) : String :=
  let hooks := "/".intercalate ((List.range (nLayers s)).map fun l =>
    toString (if spec then specHooks s l else (layerHooks s l).length))
  let ts := (aliveTrainers s).map fun t => dumpTrainer s t spec
  s!"hooks {hooks} | " ++ (if ts.isEmpty then "-" else " ; ".intercalate ts)

/-- the specification's answer to an operation, given the model's -/
def specOut (s : State) (op : Op) (mo : Out) : Out :=
  match op with
  | .layerStep _ => .ok                                -- a layer step never raises
  | .trainerStep t =>
    let T := s.trainers t
    if !T.alive then .noref
    else if !T.training then .ok
    else
      -- complete data: every required monitor of a cell whose layer trains exists and has (by the
      -- ghost count) an observation
      let okc := T.cells.all fun e => !s.layerTraining (cellLayer s e.2) || (required T.kind).all fun r =>
        match (lookup T.groups e.1).bind (lookup · r) with
        | some mid => decide ((s.mons mid).expected > 0)
        | none => false
      if okc then .ok else .fail
  | _ => mo

def parseSel? (s : String) : Option AttrSel :=
  if s = "n0" then some (.neuron 0) else if s = "n1" then some (.neuron 1)
  else if s = "c0" then some (.conn 0) else if s = "c1" then some (.conn 1)
  else if s = "cm" then some .cellmons else if s = "bad" then some .bad else none

def parseOp? (toks : List String) : Option Op :=
  match toks with
  | "trainer" :: k :: _ => do some (.newTrainer (← parseNat? k))     -- a class name may follow (real side)
  | ["register", t, n, c, v] => do some (.registerCell (← parseNat? t) (← parseNat? n) (← parseNat? c) (← parseNat? v))
  | ["delcell", t, n] => do some (.delCell (← parseNat? t) (← parseNat? n))
  | ["addmon", t, n, m, sel, u, p, tg] => do
      some (.addMonitor (← parseNat? t) (← parseNat? n) (← parseNat? m) (← parseSel? sel) (← parseBool? u) (← parseBool? p) (← parseNat? tg))
  | ["delmon", t, n, m] => do some (.delMonitor (← parseNat? t) (← parseNat? n) (← parseNat? m))
  | ["ttrain", t, b] => do some (.trainerTrain (← parseNat? t) (← parseBool? b))
  | ["ltrain", l, b] => do some (.layerTrain (← parseNat? l) (← parseBool? b))
  | ["lstep", l] => do some (.layerStep (← parseNat? l))
  | ["tstep", t] => do some (.trainerStep (← parseNat? t))
  | ["clear", t] => do some (.clear (← parseNat? t))
  | ["collect", t] => do some (.collect (← parseNat? t))
  | _ => none

def parseTopo? (s : String) : Option (List (Nat × Nat × Nat)) :=
  (s.splitOn ",").mapM fun p => match p.splitOn ":" with
    | [l, c, n] => do some (← parseNat? l, ← parseNat? c, ← parseNat? n)
    | _ => none

/-- The model keeps monitors and trainers as functions (proof friendly); every operation wraps
them in new closures.  The driver re-tabulates them after each operation — extensionally the
identity on the indices `< nMons` / `< nTrainers` that are ever consulted — so that a lookup
stays O(1) instead of re-evaluating the whole history. -/
@[noinline] def monTable (tbl : Array Monitor) : Nat → Monitor := fun i => tbl.getD i noMonitor
@[noinline] def trainerTable (tbl : Array Trainer) : Nat → Trainer := fun i => tbl.getD i noTrainer

def normalize (s : State) : State :=
  { s with mons := monTable ((Array.range s.nMons).map s.mons),
           trainers := trainerTable ((Array.range s.nTrainers).map s.trainers) }

def dstep (st : State) (line : String) : State × String :=
  let toks := splitNonEmpty line " "
  match toks with
  | ["begin", topo] =>
    match parseTopo? topo with
    | some tp => (init tp, "ok")
    | none => (st, "bad-op")
  | ["begin", topo, f] =>
    match parseTopo? topo, parseBool? f with
    | some tp, some f => (init tp f, "ok")
    | _, _ => (st, "bad-op")
  | _ =>
    match parseOp? toks with
    | some op =>
      let (st1, mo) := step st op
      let st' := normalize st1
      (st', s!"M {showOut mo} | {dump st' false} || S {showOut (specOut st op mo)} | {dump st' true}")
    | none => (st, "bad-op")

def main : IO Unit := do
  loop (← IO.getStdin) (init []) dstep
