import InfernoVerif.Model.RingOps
import InfernoVerif.Drv.Proto
/-
Driver for C01: executes BOTH the code-shaped machine `step` and the specification
machine `sstep` of `Model/RingOps.lean` on each request line and prints both results.

Values are integers in eighths (the harness multiplies tensor values by 8), so float
storage of dyadic values and int64 storage are both exact; conversion to an integer
dtype truncates toward zero: `(v tdiv 8) * 8`.
-/
open InfernoVerif.Ring Proto

def E8 : Elem Int := { conv := fun _ sd v => if sd then (v.tdiv 8) * 8 else v, zero := 0 }

def showDT (d : Bool) : String := if d then "i" else "f"
def parseDT? (s : String) : Option Bool := if s = "i" then some true else if s = "f" then some false else none

def showRow (r : List Int) : String := showInts r
def showOptRow : Option (List Int) → String
  | some r => showRow r | none => "?"

def showOut : Out Int → String
  | .unit => "ok"
  | .none => "None"
  | .row x => "row " ++ showRow x
  | .orow x => "row " ++ showOptRow x
  | .orows rs => "rows " ++ "|".intercalate (rs.map showOptRow)
  | .omat cols => "cols " ++ "|".intercalate (cols.map fun c => ",".intercalate (c.map fun | some v => toString v | none => "?"))
  | .ptr p => "ptr " ++ toString p
  | .err e => "err " ++ (match e with
      | .RuntimeError => "RuntimeError" | .ValueError => "ValueError" | .TypeError => "TypeError"
      | .AttributeError => "AttributeError" | .IndexError => "IndexError" | .KeyError => "KeyError"
      | .Other => "Other")
  | .unsupported => "unsupported"

def showStoreM : Store (Ring (List Int)) → String
  | .none => "none" | .empty d => "empty:" ++ showDT d | .uninit d => "uninit:" ++ showDT d
  | .init d sh r => s!"init:{showDT d}:{showShape sh}:ptr={r.ptr}:" ++ "|".intercalate (r.data.map showRow)

def showStoreS : Store (List (List Int)) → String
  | .none => "none" | .empty d => "empty:" ++ showDT d | .uninit d => "uninit:" ++ showDT d
  | .init d sh h => s!"init:{showDT d}:{showShape sh}:" ++ "|".intercalate (h.map showRow)

/-- obs token `<dt>;<shape>;<vals>` -/
def parseObs? (s : String) : Option (Obs Int) :=
  match s.splitOn ";" with
  | [d, sh, vs] => do some ⟨← parseDT? d, ← parseShape? sh, ← parseInts? vs⟩
  | _ => none

/-- range token `<dt>;<shape>;<row>|<row>|…` (time-major, oldest first) -/
def parseRange? (s : String) : Option (Bool × List Nat × List (List Int)) :=
  match s.splitOn ";" with
  | [d, sh, rows] => do
      let rs ← (rows.splitOn "|").mapM parseInts?
      some (← parseDT? d, ← parseShape? sh, rs)
  | _ => none

/-- offsets token `<shape>;<vals>` -/
def parseOffs? (s : String) : Option (List Nat × List Int) :=
  match s.splitOn ";" with
  | [sh, vs] => do some (← parseShape? sh, ← parseInts? vs)
  | _ => none

def parseOp? (toks : List String) : Option (Op Int) :=
  match toks with
  | ["push", x, b] => do some (.push (← parseObs? x) (← parseBool? b))
  | ["pop"] => some .pop
  | ["peek"] => some .peek
  | ["read", o] => do some (.read (← parseInt? o))
  | ["write", x, o, b] => do some (.write (← parseObs? x) (← parseInt? o) (← parseBool? b))
  | ["readrange", l, o, f] => do some (.readrange (← parseNat? l) (← parseInt? o) (← parseBool? f))
  | ["readrangeT", l, offs, f] => do
      let (sh, os) ← parseOffs? offs
      some (.readrangeT (← parseNat? l) sh os (← parseBool? f))
  | ["writerange", x, o, f, b] => do
      let (d, sh, rs) ← parseRange? x
      some (.writerange d sh rs (← parseInt? o) (← parseBool? f) (← parseBool? b))
  | ["writerangeT", x, offs, f, b] => do
      let (d, sh, rs) ← parseRange? x
      let (osh, os) ← parseOffs? offs
      some (.writerangeT d sh rs osh os (← parseBool? f) (← parseBool? b))
  | ["incr", q] => do some (.incr (← parseInt? q))
  | ["decr", q] => do some (.decr (← parseInt? q))
  | ["align", i] => do some (.align (← parseInt? i))
  | ["reset", "N"] => some (.reset none)
  | ["reset", v] => do some (.reset (some (← parseInt? v)))
  | ["initialize", sh] => do some (.initz (← parseShape? sh))
  | ["deinitialize", b] => do some (.deinitz (← parseBool? b))
  | _ => none

structure DState where
  m : MState Int
  s : SState Int

def parseStore? (n : Nat) (tok : String) : Option (Store (Ring (List Int)) × Store (List (List Int))) :=
  match tok.splitOn ":" with
  | ["none"] => some (.none, .none)
  | ["empty", d] => do let d ← parseDT? d; some (.empty d, .empty d)
  | ["uninit", d] => do let d ← parseDT? d; some (.uninit d, .uninit d)
  | ["zeros", d, sh] => do
      let d ← parseDT? d; let sh ← parseShape? sh
      some (.init d sh (freshRing n sh 0), .init d sh (freshHist n sh 0))
  | _ => none

def dstep (st : DState) (line : String) : DState × String :=
  let toks := splitNonEmpty line " "
  match toks with
  | ["begin", n, store] =>
    match parseNat? n with
    | some n => match parseStore? n store with
      | some (ms, ss) => (⟨(n, ms), (n, ss)⟩, "ok")
      | none => (st, "bad-op")
    | none => (st, "bad-op")
  | ["dump"] => (st, "M " ++ showStoreM st.m.2 ++ " || S " ++ showStoreS st.s.2)
  | _ =>
    match parseOp? toks with
    | some op =>
      let (m', mo) := step E8 st.m op
      let (s', so) := sstep E8 st.s op
      (⟨m', s'⟩, "M " ++ showOut mo ++ " || S " ++ showOut so)
    | none => (st, "bad-op")

def main : IO Unit := do
  loop (← IO.getStdin) (⟨(1, .none), (1, .none)⟩ : DState) dstep
