import InfernoVerif.Model.Encoder
import InfernoVerif.Drv.Proto
/-
Driver for C19 (spike encoders).  One request per line; every encoder request is self-contained
(configuration, rates and the REPLAYED SAMPLES), the `enc…` requests drive a configuration state.

  expoff <steps> <dt> <refrac|N> <comp> <xs> <cols> <meta>     homogeneous_poisson_exp_interval
  expon  <steps> <dt> <refrac|N> <comp> <xs> <s0> <freshs> <meta>   …_online
  poioff <steps> <xs> <cols> <meta>                            poisson_interval
  poion  <steps> <xs> <k0> <freshs> <meta>                     poisson_interval_online
  bern   <steps> <dt> <xs> <U> <meta>                          homogenous_poisson_bernoulli_approx(_online)
  berninh <dt> <X> <U> <meta>                                  inhomogeneous_poisson_bernoulli_approx
  bern32 / berninh32                                            the same on float32 tensors (Float32 model)
  encnew <kind> <steps> <dt> <freq> <refrac|N> <comp>          constructor  (kind hp | approx | interval)
  encset <steps|dt|freq|refrac|comp> <value|N>                 setter

doubles: 16 hex digits of the IEEE bit pattern; lists `a,b,c` (`-` = empty); lists of lists `l;l;l`
(`_` = no list at all); Poisson samples: decimal naturals; rationals of the `enc…` requests: `p/q`.
`<meta>` (seed, API used) is for the real side only and is ignored here BY POSITION.

Response `M <rows> || S steps=<S> n=<n> silent=<mask> gap=<g|any> mok=<T|F> Q=<same|diff:k|err>`:
M = spike train of the Float model, time-first, rows `0101` joined by `|` (or `err RuntimeError`);
S = what the specification demands of ANY output for this request (row count, which elements must
stay silent, minimum inter-spike distance in steps), `mok` = the Float model's own output meets the
demands, `Q` = cells in which the exact (`Rat`) model, run on the same samples, differs.
-/
open InfernoVerif.Enc Proto

/-! ### parsing -/

def hexDigit? (c : Char) : Option Nat :=
  if '0' ≤ c ∧ c ≤ '9' then some (c.toNat - '0'.toNat)
  else if 'a' ≤ c ∧ c ≤ 'f' then some (c.toNat - 'a'.toNat + 10)
  else none

def parseHex64? (s : String) : Option UInt64 :=
  if s.length ≠ 16 then none else
  (s.toList.foldlM (fun (acc : Nat) c => (hexDigit? c).map (acc * 16 + ·)) 0).map UInt64.ofNat

def bitsToExt (b : UInt64) : Ext :=
  let n : Nat := b.toNat
  let neg : Bool := n / 2 ^ 63 = 1
  let e : Nat := (n / 2 ^ 52) % 2048
  let m : Nat := n % 2 ^ 52
  let sgn (q : Rat) : Rat := if neg then -q else q
  if e = 2047 then (if m ≠ 0 then .nan else if neg then .ninf else .pinf)
  else if e = 0 then .fin (sgn ((m : Rat) / (2 : Rat) ^ 1074))
  else
    let mant : Rat := ((2 ^ 52 + m : Nat) : Rat)
    if e ≥ 1075 then .fin (sgn (mant * (2 : Rat) ^ (e - 1075))) else .fin (sgn (mant / (2 : Rat) ^ (1075 - e)))

structure Dbl where
  f : Float
  q : Rat

/-- a finite double, as `Float` and as the exact rational it denotes -/
def parseDbl? (s : String) : Option Dbl := do
  let b ← parseHex64? s
  match bitsToExt b with
  | .fin q => some ⟨Float.ofBits b, q⟩
  | _ => none

def parseList? {α : Type} (p : String → Option α) (s : String) : Option (List α) :=
  if s = "-" then some [] else (s.splitOn ",").mapM p

def parseLists? {α : Type} (p : String → Option α) (s : String) : Option (List (List α)) :=
  if s = "_" then some [] else (s.splitOn ";").mapM (parseList? p)

def parseRat? (s : String) : Option Rat :=
  match s.splitOn "/" with
  | [p] => (parseInt? p).map fun (i : Int) => (i : Rat)
  | [p, q] => do
      let p ← parseInt? p
      let q ← parseNat? q
      if q = 0 then none else some ((p : Rat) / (q : Rat))
  | _ => none

/-! ### output -/

def showRow (r : List Bool) : String := String.ofList (r.map fun b => if b then '1' else '0')
def showRows (rs : List (List Bool)) : String := if rs.isEmpty then "-" else "|".intercalate (rs.map showRow)
def showTrain : Option (List (List Bool)) → String
  | some rs => showRows rs
  | none => "err RuntimeError"

def showRat (q : Rat) : String := if q.den = 1 then toString q.num else s!"{q.num}/{q.den}"

/-- column `i` of a time-first train -/
def column (rs : List (List Bool)) (i : Nat) : List Bool := rs.map fun r => r.getD i false

def spikeTimes (tr : List Bool) : List Nat :=
  (tr.zipIdx).filterMap fun (b, t) => if b then some t else none

def gapOK (g : Nat) (tr : List Bool) : Bool :=
  let ts := spikeTimes tr
  (ts.zip (ts.drop 1)).all fun (a, b) => decide (a + g ≤ b)

def diffCells (a b : List (List Bool)) : Nat :=
  ((a.zip b).map fun (ra, rb) => ((ra.zip rb).filter fun (x, y) => x != y).length).sum

/-- does `out` meet the demands? -/
def meets (steps n : Nat) (silent : List Bool) (gap : Option Nat) (out : List (List Bool)) : Bool :=
  out.length == steps && out.all (·.length == n) &&
  ((List.range n).all fun i =>
    let col := column out i
    (!(silent.getD i false) || col.all (! ·)) &&
    (match gap with | some g => gapOK g col | none => true))

def showS (steps n : Nat) (silent : List Bool) (gap : Option Nat) (m : Option (List (List Bool)))
    (q : Option (List (List Bool))) : String :=
  let gs := match gap with | some g => toString g | none => "any"
  let mok := match m with | some out => meets steps n silent gap out | none => false
  let qs := match m, q with
    | some a, some b => if a.length == b.length && (diffCells a b == 0) then "same" else s!"diff:{diffCells a b}"
    | none, none => "same"
    | _, _ => "err"
  s!"steps={steps} n={n} silent={showRow silent} gap={gs} mok={if mok then "T" else "F"} Q={qs}"

/-! ### requests -/

def mkCfg (steps : Nat) (dt : Dbl) (refrac : Option Dbl) (comp : Bool) : ExpCfgF × ExpCfg :=
  (⟨steps, dt.f, refrac.map (·.f), comp⟩, ⟨steps, dt.q, refrac.map (·.q), comp⟩)

def parseOptDbl? (s : String) : Option (Option Dbl) :=
  if s = "N" then some none else (parseDbl? s).map some

def gapDemand (cq : ExpCfg) (xs : List Dbl) : Option Nat :=
  if xs.all (fun x => cq.compat x.q) then some cq.specGap else none

def doExpOff (steps dt refrac comp xs cols : String) : Option String := do
  let steps ← parseNat? steps
  let dt ← parseDbl? dt
  let refrac ← parseOptDbl? refrac
  let comp ← parseBool? comp
  let xs ← parseList? parseDbl? xs
  let cols ← parseLists? parseDbl? cols
  let (cf, cq) := mkCfg steps dt refrac comp
  if cols.length ≠ xs.length then none else
  let nb := nbinsOf steps (bitsToExtQ cf.R)
  if cols.any (·.length ≠ nb) then
    some s!"M nbins-mismatch:model={nb} || S nbins-mismatch"
  else
    let m := expOfflineTF cf ((xs.zip cols).map fun (x, c) => (x.f, c.map (·.f)))
    let q := expOfflineT cq ((xs.zip cols).map fun (x, c) => (x.q, c.map (·.q)))
    some ("M " ++ showTrain m ++ " || S " ++
      showS steps xs.length (xs.map fun x => x.q == 0) (gapDemand cq xs) m q)
where
  bitsToExtQ (f : Float) : Rat := match bitsToExt f.toBits with | .fin q => q | _ => 1

def doExpOn (steps dt refrac comp xs s0 freshs : String) : Option String := do
  let steps ← parseNat? steps
  let dt ← parseDbl? dt
  let refrac ← parseOptDbl? refrac
  let comp ← parseBool? comp
  let xs ← parseList? parseDbl? xs
  let s0 ← parseList? parseDbl? s0
  let freshs ← parseLists? parseDbl? freshs
  let (cf, cq) := mkCfg steps dt refrac comp
  if s0.length ≠ xs.length ∨ freshs.length ≠ steps then none else
  let m := expOnlineF cf (xs.map (·.f)) (s0.map (·.f)) (freshs.map (·.map (·.f)))
  let q := expOnline cq (xs.map (·.q)) (s0.map (·.q)) (freshs.map (·.map (·.q)))
  some ("M " ++ (match m with | some rs => showRows rs | none => "sample-count-mismatch") ++ " || S " ++
    showS steps xs.length (xs.map fun x => x.q == 0) (gapDemand cq xs) m q)

def doPoiOff (steps xs cols : String) : Option String := do
  let steps ← parseNat? steps
  let xs ← parseList? parseDbl? xs
  let cols ← parseLists? parseNat? cols
  if cols.length ≠ xs.length ∨ cols.any (·.length ≠ steps + 2) then none else
  let m := poissonOfflineT steps ((xs.zip cols).map fun (x, c) => (x.q, c))
  some ("M " ++ showRows m ++ " || S " ++ showS steps xs.length (xs.map fun x => x.q == 0) (some 1) (some m) (some m))

def doPoiOn (steps xs k0 freshs : String) : Option String := do
  let steps ← parseNat? steps
  let xs ← parseList? parseDbl? xs
  let k0 ← parseList? parseNat? k0
  let freshs ← parseLists? parseNat? freshs
  if k0.length ≠ xs.length ∨ freshs.length ≠ steps then none else
  let m := poissonOnline (xs.map (·.q)) k0 freshs
  some ("M " ++ (match m with | some rs => showRows rs | none => "sample-count-mismatch") ++ " || S " ++
    showS steps xs.length (xs.map fun x => x.q == 0) (some 1) m m)

def doBern (steps dt xs U : String) : Option String := do
  let steps ← parseNat? steps
  let dt ← parseDbl? dt
  let xs ← parseList? parseDbl? xs
  let U ← parseLists? parseDbl? U
  if U.length ≠ steps ∨ U.any (·.length ≠ xs.length) then none else
  let m := bernoulliTF dt.f (xs.map (·.f)) (U.map (·.map (·.f)))
  let q := bernoulliT dt.q (xs.map (·.q)) (U.map (·.map (·.q)))
  some ("M " ++ showRows m ++ " || S " ++ showS steps xs.length (xs.map fun x => x.q == 0) (some 1) (some m) (some q))

def doBernInh (dt X U : String) : Option String := do
  let dt ← parseDbl? dt
  let X ← parseLists? parseDbl? X
  let U ← parseLists? parseDbl? U
  if U.length ≠ X.length ∨ (U.zip X).any (fun (u, x) => u.length ≠ x.length) then none else
  let n := (X.head?.map (·.length)).getD 0
  let m := bernoulliInhomTF dt.f (X.map (·.map (·.f))) (U.map (·.map (·.f)))
  let q := bernoulliInhomT dt.q (X.map (·.map (·.q))) (U.map (·.map (·.q)))
  -- an element must be silent exactly at the steps where its rate is zero: reported per cell
  let mustSilent := X.map fun row => row.map fun x => x.q == 0
  let ok := ((m.zip mustSilent).all fun (r, s) => (r.zip s).all fun (b, z) => !(z && b))
  some ("M " ++ showRows m ++ " || S " ++
    s!"steps={X.length} n={n} silentcells={showRows mustSilent} gap=1 mok={if ok then "T" else "F"} Q=" ++
    (if diffCells m q == 0 then "same" else s!"diff:{diffCells m q}"))

/-- float32 variants: values arrive as doubles that are exactly float32 numbers; `dt` is the Python
double, rounded to float32 as torch does. -/
def doBern32 (steps dt xs U : String) : Option String := do
  let steps ← parseNat? steps
  let dt ← parseDbl? dt
  let xs ← parseList? parseDbl? xs
  let U ← parseLists? parseDbl? U
  if U.length ≠ steps ∨ U.any (·.length ≠ xs.length) then none else
  if xs.any (fun x => x.f.toFloat32.toFloat != x.f) ∨ U.any (·.any fun u => u.f.toFloat32.toFloat != u.f) then none else
  let dt32 := dt.f.toFloat32
  let dtq := match bitsToExt dt32.toFloat.toBits with | .fin q => q | _ => dt.q
  let m := bernoulliTF32 dt32 (xs.map (·.f.toFloat32)) (U.map (·.map (·.f.toFloat32)))
  let q := bernoulliT dtq (xs.map (·.q)) (U.map (·.map (·.q)))
  some ("M " ++ showRows m ++ " || S " ++ showS steps xs.length (xs.map fun x => x.q == 0) (some 1) (some m) (some q))

def doBernInh32 (dt X U : String) : Option String := do
  let dt ← parseDbl? dt
  let X ← parseLists? parseDbl? X
  let U ← parseLists? parseDbl? U
  if U.length ≠ X.length ∨ (U.zip X).any (fun (u, x) => u.length ≠ x.length) then none else
  if X.any (·.any fun x => x.f.toFloat32.toFloat != x.f) ∨ U.any (·.any fun u => u.f.toFloat32.toFloat != u.f) then none else
  let n := (X.head?.map (·.length)).getD 0
  let dt32 := dt.f.toFloat32
  let dtq := match bitsToExt dt32.toFloat.toBits with | .fin q => q | _ => dt.q
  let m := bernoulliInhomTF32 dt32 (X.map (·.map (·.f.toFloat32))) (U.map (·.map (·.f.toFloat32)))
  let q := bernoulliInhomT dtq (X.map (·.map (·.q))) (U.map (·.map (·.q)))
  let mustSilent := X.map fun row => row.map fun x => x.q == 0
  let ok := ((m.zip mustSilent).all fun (r, s) => (r.zip s).all fun (b, z) => !(z && b))
  some ("M " ++ showRows m ++ " || S " ++
    s!"steps={X.length} n={n} silentcells={showRows mustSilent} gap=1 mok={if ok then "T" else "F"} Q=" ++
    (if diffCells m q == 0 then "same" else s!"diff:{diffCells m q}"))

/-! ### encoder configuration state -/

structure DState where
  kind : String
  st : Option EncState

def showEnc (kind : String) (s : EncState) : String :=
  if kind = "hp" then
    s!"steps={s.steps} dt={showRat s.dt} freq={showRat s.freq} refrac={showRat s.refrac} comp={if s.comp then "T" else "F"}"
  else s!"steps={s.steps} dt={showRat s.dt} freq={showRat s.freq}"

/-- the invariant the specification demands of every accepted configuration -/
def encInv (s : EncState) : Bool :=
  decide (0 < s.steps) && decide (0 < s.dt) && decide (0 ≤ s.freq) && decide (0 ≤ s.refrac) &&
  (!s.comp || decide (s.freq * s.refrac < 1000))

def showInv (s : EncState) : String := if encInv s then "inv=T" else "inv=F"

def parseCfgOp? (kind field v : String) : Option CfgOp :=
  match field with
  | "steps" => (parseInt? v).map .setSteps
  | "dt" => (parseRat? v).map .setDt
  | "freq" => (parseRat? v).map .setFreq
  | "refrac" => if kind ≠ "hp" then none else if v = "N" then some (.setRefrac none) else (parseRat? v).map (.setRefrac ∘ some)
  | "comp" => if kind ≠ "hp" then none else (parseBool? v).map .setComp
  | _ => none

def dstep (st : DState) (line : String) : DState × String :=
  let toks := splitNonEmpty line " "
  let stateless (r : Option String) : DState × String := (st, r.getD "bad-op")
  match toks with
  | ["expoff", steps, dt, refrac, comp, xs, cols, _meta] => stateless (doExpOff steps dt refrac comp xs cols)
  | ["expon", steps, dt, refrac, comp, xs, s0, freshs, _meta] => stateless (doExpOn steps dt refrac comp xs s0 freshs)
  | ["poioff", steps, xs, cols, _meta] => stateless (doPoiOff steps xs cols)
  | ["poion", steps, xs, k0, freshs, _meta] => stateless (doPoiOn steps xs k0 freshs)
  | ["bern", steps, dt, xs, U, _meta] => stateless (doBern steps dt xs U)
  | ["berninh", dt, X, U, _meta] => stateless (doBernInh dt X U)
  | ["bern32", steps, dt, xs, U, _meta] => stateless (doBern32 steps dt xs U)
  | ["berninh32", dt, X, U, _meta] => stateless (doBernInh32 dt X U)
  | ["encnew", kind, steps, dt, freq, refrac, comp] =>
    let r : Option (Option EncState) := do
      if kind ≠ "hp" ∧ kind ≠ "approx" ∧ kind ≠ "interval" then none
      let steps ← parseInt? steps
      let dt ← parseRat? dt
      let freq ← parseRat? freq
      let refrac ← (if refrac = "N" then some none else (parseRat? refrac).map some)
      let comp ← parseBool? comp
      if kind ≠ "hp" ∧ (refrac.isSome ∨ comp) then none
      some (encCtor steps dt freq refrac comp)
    match r with
    | none => (st, "bad-op")
    | some none => (⟨kind, none⟩, "M err ValueError none || S err ValueError inv=T")
    | some (some s) => (⟨kind, some s⟩, s!"M ok {showEnc kind s} || S ok {showInv s}")
  | ["encset", field, v] =>
    match st.st, parseCfgOp? st.kind field v with
    | some s, some op =>
      match encStep s op with
      | (s', true) => (⟨st.kind, some s'⟩, s!"M ok {showEnc st.kind s'} || S ok {showInv s'}")
      | (s', false) => (⟨st.kind, some s'⟩, s!"M err ValueError {showEnc st.kind s'} || S err ValueError {showInv s'}")
    | _, _ => (st, "bad-op")
  | _ => (st, "bad-op")

def main : IO Unit := do
  loop (← IO.getStdin) (⟨"hp", none⟩ : DState) dstep
