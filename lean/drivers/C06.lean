import InfernoVerif.Model.Delay
import InfernoVerif.Drv.SynSpec
import InfernoVerif.Drv.Proto
/-
Driver for C06 (one connection, ONE batch row per case).  Requests (doubles as 16 hex digits,
matrices as rows separated by `|`):
  begin <delta|deltaplus|singleexp|doubleexp> <dt> <maxdelay> <Q> <tau> <tauR> <P|N> <tol> <curOver|N> <T|F|N> <inplace>
        <hasDelay T|F> <dense|direct|conv> <d1> <d2> <d3>
        dense (also lateral): d1 = M inputs, d2 = N outputs; direct: d1 = N; conv: d1 = N, d2 = L, d3 = F   → `ok <recordsz>`
  W <matrix>        dense: N rows of M; direct: one row; conv: the F × N flattened kernel                  → `ok`
  D <matrix|N>      same layout, the delays (`N`: no `delay_` parameter)                                    → `ok`
  b <vector|N>                                                                                              → `ok`
  step <x vector>   one value per synapse element (conv: the unfolded N·L input, row-major)                 → `M <out> || S <out>`
  syncur            → `M <view> || S <view>`      synspk   → `M <view> || S <view>`       clear → `ok`
M = the code-shaped model (`Model/Delay.lean` on top of `Model/Synapse.lean`).
S = the specification: the connection's UNDELAYED map applied, per output, to each presynaptic
element's contribution taken `delay/dt` steps in the past from that element's full closed-form
history (`Drv/SynSpec.lean`; interpolated per the synapse's rule between steps; zero before the
start / last clear) — no ring, no selector tensor.
-/
open InfernoVerif.Ring InfernoVerif.Select InfernoVerif.Synapse InfernoVerif.SynSpec InfernoVerif.Delay
open InfernoVerif.Gen.Wire Proto

inductive CK | dense | direct | conv
deriving DecidableEq

structure DS where
  net : Net F
  ck : CK
  d1 : Nat
  d2 : Nat
  d3 : Nat
  W : List (List F) := []
  D : Option (List (List F)) := none
  b : Option (List F) := none
  m : Option (List (St F)) := none
  cur : List F := []            -- currents returned by the last synapse step (model)
  s : List Spec := []
  scur : List F := []           -- present currents (spec)

def nelem (st : DS) : Nat := match st.ck with
  | .dense => st.d1 | .direct => st.d1 | .conv => st.d1 * st.d2

def pMat (s : String) : Option (List (List F)) := (s.splitOn "|").mapM pVec
def sMat (m : List (List F)) : String := "|".intercalate (m.map sVec)
def sBools (v : List Bool) : String := if v.isEmpty then "-" else ",".intercalate (v.map sBool)

def showO {β : Type} (f : β → String) : Outcome β → String
  | .ok v => f v | .valueError => "ValueError" | .noSlot => "noSlot"

def showView {β : Type} (f : List β → String) : View β → String
  | .delayed v => "delayed " ++ "|".intercalate (v.map f)
  | .present v => "present " ++ f v

/-- delays as seen by `selector`: `torch.zeros_like(weight)` when there is no `delay_` parameter -/
def delays (st : DS) : List (List F) := match st.D with
  | some d => d
  | none => st.W.map fun r => r.map fun _ => 0.0

def selector (st : DS) : List (List F) := match st.ck with
  | .dense => selectorDense floatOps st.d1 st.d2 (delays st)
  | .direct => selectorDirect ((delays st).getD 0 [])
  | .conv => selectorConv floatOps st.d1 st.d2 st.d3 (delays st)

/-! ## specification side -/

def fsum (v : List F) : F := v.foldl (· + ·) 0.0
def biasOf (b : Option (List F)) (o : Nat) : F := match b with | none => 0.0 | some b => b.getD o 0.0

/-- is the connection delayed at all (a delay parameter exists and the supported maximum is not 0)? -/
def specDelayed (st : DS) : Bool := st.net.hasDelay && st.net.cfg.delay != 0.0

/-- contribution of element `e` as seen through a synapse with delay `d` -/
def past (st : DS) (e : Nat) (d : F) : F × Bool :=
  match st.s[e]? with
  | some sp => specAt st.net.cfg sp (if specDelayed st then d else 0.0)
  | none => (0.0, false)

def specOut (st : DS) : List F :=
  let D := delays st
  match st.ck with
  | .dense =>
    (List.range st.d2).map fun o =>
      fsum ((List.range st.d1).map fun i => (past st i ((D.getD o []).getD i 0.0)).1 * (st.W.getD o []).getD i 0.0) + biasOf st.b o
  | .direct =>
    (List.range st.d1).map fun n =>
      (past st n ((D.getD 0 []).getD n 0.0)).1 * (st.W.getD 0 []).getD n 0.0 + biasOf st.b n
  | .conv =>
    ((List.range st.d3).map fun f => (List.range st.d2).map fun l =>
      fsum ((List.range st.d1).map fun n =>
        (st.W.getD f []).getD n 0.0 * (past st (n * st.d2 + l) ((D.getD f []).getD n 0.0)).1) + biasOf st.b f).flatten

def specView (st : DS) : View (F × Bool) :=
  if specDelayed st then
    .delayed ((selector st).zipIdx.map fun re => re.1.map fun d => past st re.2 d)
  else .present ((List.range (nelem st)).map fun e => past st e 0.0)

/-! ## protocol -/

def parseCfg? (k dt delay q tau taur mode tol co so ip : String) : Option (Cfg F) := do
  some { kind := ← parseKind? k, dt := ← pReal dt, delay := ← pReal delay, Q := ← pReal q,
         tau := ← pReal tau, tauR := ← pReal taur, mode := ← parseMode? mode, tol := ← pReal tol,
         curOver := ← pOptReal co, spkOver := ← pOptBool so, inplace := ← pBool ip }

def dstep (st : DS) (line : String) : DS × String :=
  match splitNonEmpty line " " with
  | ["begin", k, dt, delay, q, tau, taur, mode, tol, co, so, ip, hd, ck, d1, d2, d3] =>
    let r : Option DS := do
      let cfg ← parseCfg? k dt delay q tau taur mode tol co so ip
      let ck ← match ck with | "dense" => some CK.dense | "direct" => some CK.direct | "conv" => some CK.conv | _ => none
      let hd ← pBool hd
      let n1 ← parseNat? d1
      let n2 ← parseNat? d2
      let n3 ← parseNat? d3
      let st : DS := { net := ⟨cfg, hd⟩, ck := ck, d1 := n1, d2 := n2, d3 := n3 }
      let E := nelem st
      some { st with m := some (List.replicate E (init floatSOps cfg)), s := List.replicate E {},
                     cur := List.replicate E 0.0, scur := List.replicate E 0.0 }
    match r with
    | some s => (s, s!"ok {s.net.cfg.n floatSOps}")
    | none => (st, "bad-op")
  | ["W", m] => match pMat m with | some w => ({ st with W := w }, "ok") | none => (st, "bad-op")
  | ["D", "N"] => ({ st with D := none }, "ok")
  | ["D", m] => match pMat m with | some d => ({ st with D := some d }, "ok") | none => (st, "bad-op")
  | ["b", "N"] => ({ st with b := none }, "ok")
  | ["b", v] => match pVec v with | some b => ({ st with b := some b }, "ok") | none => (st, "bad-op")
  | ["step", x] =>
    match pVec x with
    | some xs =>
      if xs.length ≠ nelem st then (st, "bad-op") else
      -- specification side
      let sp := (st.s.zip xs).map fun sx => specStep st.net.cfg sx.1 sx.2 []
      let st := { st with s := sp.map (·.1), scur := sp.map (·.2.1) }
      let sout := sVec (specOut st)
      -- model side
      match st.m.bind fun m => stepAll floatSOps st.net.cfg m xs with
      | some r =>
        let sts := r.map (·.1)
        let res := r.map (·.2)
        let out : Outcome (List F) := match st.ck with
          | .dense => denseForward floatSOps st.net st.d1 st.d2 st.W st.b (delays st) sts res
          | .direct => directForward floatSOps st.net ((st.W.getD 0 [])) st.b ((delays st).getD 0 []) sts res
          | .conv => (convForward floatSOps st.net st.d1 st.d2 st.d3 st.W st.b (delays st) sts res).map List.flatten
        ({ st with m := some sts, cur := res }, s!"M {showO sVec out} || S {sout}")
      | none => ({ st with m := none }, s!"M noSlot || S {sout}")
    | none => (st, "bad-op")
  | ["syncur"] =>
    let sv := showView (fun (v : List (F × Bool)) => sVec (v.map (·.1))) (specView st)
    let mv := match st.m with
      | some m => showO (showView sVec) (syncurrent floatSOps st.net (selector st) m st.cur)
      | none => "noSlot"
    (st, s!"M {mv} || S {sv}")
  | ["synspk"] =>
    let sv := showView (fun (v : List (F × Bool)) => sBools (v.map (·.2))) (specView st)
    let mv := match st.m with
      | some m => showO (showView sBools) (synspike floatSOps st.net (selector st) m)
      | none => "noSlot"
    (st, s!"M {mv} || S {sv}")
  | ["clear"] =>
    let E := nelem st
    ({ st with m := st.m.map (·.map (clear floatSOps)), s := List.replicate E {}, scur := List.replicate E 0.0,
               cur := List.replicate E 0.0 }, "ok")
  | _ => (st, "bad-op")

def main : IO Unit := do
  let c0 : Cfg F := { kind := .delta, dt := 1, delay := 0, Q := 1, tau := 1, tauR := 0.5, mode := .previous,
                      tol := 0, curOver := none, spkOver := none, inplace := false }
  loop (← IO.getStdin) ({ net := ⟨c0, false⟩, ck := .dense, d1 := 0, d2 := 0, d3 := 0 } : DS) dstep
