import InfernoVerif.Model.NeuronF
import InfernoVerif.Drv.Proto
/-
Driver for C03.  Requests:
  begin <Kind> <dt> <rest> <reset> <thresh> <refracT> <tau> <R> <a> <b> <slope> <icpt> <tcA> <vcA> <incA>
  step <lock T/F> <adapt T/F> <I>      → `<spike T/F> <v> <r> <adapt vec>`
  clear <keep T/F>                     → `ok`
  setadapt <vec>                       → `ok`   (adaptation state replaced from outside)
Doubles as 16 hex digits.
-/
open InfernoVerif.NeuronF InfernoVerif.Gen.Wire Proto

def parseKind? : String → Option Kind
  | "LIF" => some .LIF | "ALIF" => some .ALIF | "GLIF1" => some .GLIF1 | "GLIF2" => some .GLIF2
  | "QIF" => some .QIF | "Izhikevich" => some .Izhikevich | "EIF" => some .EIF | "AdEx" => some .AdEx
  | _ => none

structure DS where
  c : Cfg
  s : St

def dstep (st : DS) (line : String) : DS × String :=
  match splitNonEmpty line " " with
  | ["begin", k, dt, rest, reset, th, rt, tau, r, a, b, sl, ic, tc, vc, inc] =>
    let cfg : Option Cfg := do
      some { kind := ← parseKind? k, dt := ← pReal dt, rest := ← pReal rest, reset := ← pReal reset,
             thresh := ← pReal th, refracT := ← pReal rt, tau := ← pReal tau, R := ← pReal r,
             a := ← pReal a, b := ← pReal b, slope := ← pReal sl, icpt := ← pReal ic,
             tcA := ← pVec tc, vcA := ← pVec vc, incA := ← pVec inc }
    match cfg with
    | some c => (⟨c, c.init⟩, "ok")
    | none => (st, "bad-op")
  | ["step", lock, adapt, i] =>
    match pBool lock, pBool adapt, pReal i with
    | some l, some a, some i =>
      let (s', spk) := step st.c l a st.s i
      (⟨st.c, s'⟩, s!"{sBool spk} {sReal s'.v} {sReal s'.r} {sVec s'.adapt}")
    | _, _, _ => (st, "bad-op")
  | ["setadapt", v] =>                 -- the adaptation buffer is replaced from outside (load_state_dict / in-place edit)
    match pVec v with
    | some a => (⟨st.c, { st.s with adapt := a }⟩, "ok")
    | none => (st, "bad-op")
  | ["clear", keep] =>
    match pBool keep with
    | some k => (⟨st.c, clear st.c k st.s⟩, "ok")
    | none => (st, "bad-op")
  | _ => (st, "bad-op")

def main : IO Unit := do
  let c0 : Cfg := { kind := .LIF, dt := 1, rest := 0, reset := 0, thresh := 1, refracT := 0, tau := 1, R := 1 }
  loop (← IO.getStdin) (⟨c0, c0.init⟩ : DS) dstep
