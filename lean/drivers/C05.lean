import InfernoVerif.Model.Conn
import InfernoVerif.Drv.Proto
/-
Driver for C05: executes BOTH the code-shaped connection model and the specification of
`Model/Conn.lean` on each request line and prints `M <model> || S <spec>`.

All tensors cross the pipe as row-major flat integer lists (`1,2,3`); shapes are fixed by the
`begin` line, the batch size is given per request.

  begin dense <inshape> <outshape> <bias T|F>
  begin direct <shape> <bias>
  begin lateral <shape> <bias> <delayed T|F>
  begin conv <H> <W> <C> <F> <KH> <KW> <sh> <sw> <ph> <pw> <dh> <dw> <bias>
      (a trailing `syn=<kind>:<charge>:<dt>` token tells the harness which synapse to build; the
       connection maps are independent of it and the driver skips it)
  setw <flat> | setb <flat> | setd <flat>            parameter assignment (lateral: masked setters)
  updw <parts> <parts> | updd <parts> <parts>        updater application: positive / negative parts,
                                                     `-` for none, parts separated by `;`
  params                                             weight / delay / bias as stored
  fwd <B> <flat>                                     forward on a batch
  like <B> <flat>                                    like_synaptic shape, like_input(like_synaptic x)
  geom | unfold <B> <flat> | likeinput <B> <flat>    conv only
  recv <B> <R> <preflat> <postflat>                  receptive views (R = trailing axis of pre, 0 = absent)
-/
open InfernoVerif.Conn Proto

def chunks (n : Nat) (l : List Int) : List (List Int) :=
  if n = 0 then [] else (List.range (l.length / n)).map fun i => (l.drop (i * n)).take n

def toMat? (r c : Nat) (l : List Int) : Option (List (List Int)) :=
  if l.length = r * c then some (if c = 0 then List.replicate r [] else chunks c l) else none

def to3 (b c : Nat) (l : List Int) : List (List (List Int)) := (chunks (b * c) l).map (chunks c)

def to4 (a b c : Nat) (l : List Int) : List (List (List (List Int))) := (chunks (a * b * c) l).map (to3 b c)

def flat2 (m : List (List Int)) : List Int := m.flatten
def flat3 (m : List (List (List Int))) : List Int := m.flatten.flatten

def showT (shape : List Nat) (l : List Int) : String := showShape shape ++ ":" ++ showInts l
def showOI (l : List (Option Int)) : String := ",".intercalate (l.map fun | some v => toString v | none => "?")
def showOM (m : Option (List (List Int))) : String := match m with | none => "N" | some m => showInts (flat2 m)
def showOV (m : Option (List Int)) : String := match m with | none => "N" | some m => showInts m

/-- `a;b;c` of flat matrices, `-` for none -/
def parseParts? (n : Nat) (s : String) : Option (List (List (List Int))) :=
  if s = "-" then some [] else (s.splitOn ";").mapM fun t => do toMat? n n (← parseInts? t)

structure DState where
  kind     : String := "none"
  inshape  : List Nat := []
  outshape : List Nat := []
  W2       : List (List Int) := []
  w1       : List Int := []
  bias     : Option (List Int) := none
  lat      : Lateral Int := ⟨0, [], none, none⟩
  rawW     : List (List Int) := []            -- SPEC state of a lateral connection: what was assigned
  rawD     : Option (List (List Int)) := none
  g        : Geom := ⟨1, 1, 1, 1, 1, 1, 1, 1, 0, 0, 1, 1⟩
  K        : List (List (List (List Int))) := []

def DState.M (s : DState) : Nat := prod s.inshape
def DState.Nn (s : DState) : Nat := prod s.outshape

/-- SPEC of the default accumulator, element by element: `p + Σ pos − Σ neg` -/
def specAccum (n : Nat) (p : List (List Int)) (pos neg : List (List (List Int))) : List (List Int) :=
  (List.range n).map fun i => (List.range n).map fun j =>
    mget p i j + (pos.map (mget · i j)).foldl (· + ·) 0 - (neg.map (mget · i j)).foldl (· + ·) 0

def mkBias (biased : Bool) (n : Nat) : Option (List Int) := if biased then some (List.replicate n 0) else none

def beginCmd (toks : List String) : Option DState :=
  match toks with
  | ["dense", i, o, b] => do
      let i ← parseShape? i; let o ← parseShape? o; let b ← parseBool? b
      some { kind := "dense", inshape := i, outshape := o, bias := mkBias b (prod o),
             W2 := List.replicate (prod o) (List.replicate (prod i) 0) }
  | ["direct", sh, b] => do
      let sh ← parseShape? sh; let b ← parseBool? b
      some { kind := "direct", inshape := sh, outshape := sh, bias := mkBias b (prod sh),
             w1 := List.replicate (prod sh) 0 }
  | ["lateral", sh, b, d] => do
      let sh ← parseShape? sh; let b ← parseBool? b; let d ← parseBool? d
      let n := prod sh
      let z := mzero n n
      some { kind := "lateral", inshape := sh, outshape := sh,
             lat := Lateral.init n z (if d then some z else none) (mkBias b n),
             rawW := z, rawD := if d then some z else none, bias := mkBias b n }
  | ["conv", h, w, c, f, kh, kw, sh, sw, ph, pw, dh, dw, b] => do
      let g : Geom := ⟨← parseNat? h, ← parseNat? w, ← parseNat? c, ← parseNat? f, ← parseNat? kh, ← parseNat? kw,
        ← parseNat? sh, ← parseNat? sw, ← parseNat? ph, ← parseNat? pw, ← parseNat? dh, ← parseNat? dw⟩
      let b ← parseBool? b
      if g.sh = 0 || g.sw = 0 || g.KH = 0 || g.KW = 0 then none else
      some { kind := "conv", inshape := [g.C, g.H, g.W], outshape := [g.F, g.OH, g.OW], g := g,
             bias := mkBias b g.F, K := to4 g.C g.KH g.KW (List.replicate (g.F * g.C * g.KH * g.KW) 0) }
  | _ => none

def both (s : String) : String := "M " ++ s ++ " || S " ++ s

def fwdCmd (s : DState) (B : Nat) (x : List Int) : Option String :=
  match s.kind with
  | "dense" =>
    if x.length ≠ B * s.M then none else
    let xs := if s.M = 0 then [] else chunks s.M x
    let m := denseFwd s.W2 s.bias xs
    let sp := xs.map (denseSpecRow s.Nn s.M s.W2 s.bias)
    some ("M " ++ showT (B :: s.outshape) (flat2 m) ++ " || S " ++ showT (B :: s.outshape) (flat2 sp))
  | "direct" =>
    if x.length ≠ B * s.M then none else
    let xs := chunks s.M x
    let m := directFwd s.w1 s.bias xs
    let sp := xs.map (directSpecRow s.M s.w1 s.bias)
    some ("M " ++ showT (B :: s.outshape) (flat2 m) ++ " || S " ++ showT (B :: s.outshape) (flat2 sp))
  | "lateral" =>
    if x.length ≠ B * s.M then none else
    let xs := chunks s.M x
    let m := s.lat.fwd xs
    let sp := xs.map (lateralSpecRow s.M s.rawW s.bias)
    some ("M " ++ showT (B :: s.outshape) (flat2 m) ++ " || S " ++ showT (B :: s.outshape) (flat2 sp))
  | "conv" =>
    let g := s.g
    if x.length ≠ B * (g.C * g.H * g.W) then none else
    let xs := (chunks (g.C * g.H * g.W) x).map (to3 g.H g.W)
    let m := xs.map (convFwd g s.K s.bias)
    let sp := xs.map (convSpec g s.K s.bias)
    let shape := [B, g.F, outSizeSpec g.H g.ph g.dh g.KH g.sh, outSizeSpec g.W g.pw g.dw g.KW g.sw]
    some ("M " ++ showT (B :: s.outshape) (m.map flat3).flatten ++ " || S " ++ showT shape (sp.map flat3).flatten)
  | _ => none

/-- SPEC of what the receptive views are for: the weight-shaped pairing `Σ_r post · pre` that the
trainers compute by broadcasting the two views against each other (`B × weight.shape`). -/
def outerSpec (s : DState) (B R' : Nat) (pre post : List Int) : List Int :=
  let sum (n : Nat) (f : Nat → Int) : Int := (List.range n).foldl (fun a i => a + f i) 0
  match s.kind with
  | "direct" =>
    (List.range (B * s.M)).map fun k => sum R' fun r => vget post k * vget pre (k * R' + r)
  | "conv" =>
    let g := s.g
    (List.range (B * g.F * g.N)).map fun k =>
      let n := k % g.N; let f := (k / g.N) % g.F; let b := k / (g.N * g.F)
      sum g.L fun l => vget post ((b * g.F + f) * g.L + l) * vget pre (((b * g.N + n) * g.L + l) * R' + (if R' = 1 then 0 else f))
  | _ =>
    (List.range (B * s.Nn * s.M)).map fun k =>
      let m := k % s.M; let n := (k / s.M) % s.Nn; let b := k / (s.M * s.Nn)
      vget post (b * s.Nn + n) * vget pre ((b * s.M + m) * R' + (if R' = 1 then 0 else n))

def recvCmd (s : DState) (B R : Nat) (pre post : List Int) : Option String :=
  let R' := if R = 0 then 1 else R
  let fmt (p q : List Nat × List Int) (wshape : List Nat) : String :=
    let bc := match bcast (inner q.1) (inner p.1) with
      | some r => if r = wshape then "ok" else showShape r
      | none => "incompatible"
    "M pre=" ++ showT p.1 p.2 ++ " post=" ++ showT q.1 q.2 ++ " || S wshape=" ++ showShape wshape ++ " bc=" ++ bc ++
      " outer=" ++ showT (B :: wshape) (outerSpec s B R' pre post)
  match s.kind with
  | "dense" | "lateral" =>
    if pre.length ≠ B * s.M * R' || post.length ≠ B * s.Nn || (R' ≠ 1 && R' ≠ s.Nn) then none else
    some (fmt (presynDense B s.M R' pre) (postsynDense B s.Nn post) [s.Nn, s.M])
  | "direct" =>
    if pre.length ≠ B * s.M * R' || post.length ≠ B * s.Nn then none else
    some (fmt (presynDirect B s.M R' pre) (postsynDirect B s.Nn post) [s.M])
  | "conv" =>
    let g := s.g
    if pre.length ≠ B * g.N * g.L * R' || post.length ≠ B * g.F * g.L || (R' ≠ 1 && R' ≠ g.F) then none else
    some (fmt (presynConv g B R' pre) (postsynConv g B post) [g.F, g.C, g.KH, g.KW])
  | _ => none

def showParams (s : DState) : String :=
  match s.kind with
  | "lateral" =>
    let n := s.M
    "M w=" ++ showInts (flat2 s.lat.weight) ++ " d=" ++ showOM s.lat.delay ++ " b=" ++ showOV s.lat.bias ++
    " || S w=" ++ showInts (flat2 (offDiag n s.rawW)) ++ " d=" ++ showOM (s.rawD.map (offDiag n)) ++ " b=" ++ showOV s.bias
  | "dense" => both ("w=" ++ showInts (flat2 s.W2) ++ " b=" ++ showOV s.bias)
  | "direct" => both ("w=" ++ showInts s.w1 ++ " b=" ++ showOV s.bias)
  | "conv" => both ("w=" ++ showInts (s.K.map flat3).flatten ++ " b=" ++ showOV s.bias)
  | _ => "bad-op"

def dstep (s : DState) (line : String) : DState × String :=
  let toks := splitNonEmpty line " "
  let bad := (s, "bad-op")
  match toks with
  | "begin" :: rest => match beginCmd (rest.filter fun t => !t.startsWith "syn=") with
    | some s' => (s', "ok")
    | none => bad
  | ["params"] => (s, showParams s)
  | ["setw", v] => match parseInts? v with
    | none => bad
    | some v => match s.kind with
      | "dense" => match toMat? s.Nn s.M v with
        | some m => ({ s with W2 := m }, "ok")
        | none => bad
      | "direct" => if v.length = s.M then ({ s with w1 := v }, "ok") else bad
      | "lateral" => match toMat? s.M s.M v with
        | some m => ({ s with lat := s.lat.step (.setW m), rawW := m }, "ok")
        | none => bad
      | "conv" =>
        let g := s.g
        if v.length = g.F * g.C * g.KH * g.KW then ({ s with K := to4 g.C g.KH g.KW v }, "ok") else bad
      | _ => bad
  | ["setb", v] => match parseInts? v with
    | none => bad
    | some v =>
      if v.length ≠ (if s.kind = "conv" then s.g.F else s.Nn) then bad else
      match s.bias with
      | none => (s, "ok")                      -- `hasattr(self, "bias_")` is false: assignment ignored
      | some _ => ({ s with bias := some v, lat := s.lat.step (.setB v) }, "ok")
  | ["setd", v] => match parseInts? v, s.kind with
    | some v, "lateral" => match toMat? s.M s.M v with
      | some m => ({ s with lat := s.lat.step (.setD m), rawD := s.rawD.map fun _ => m }, "ok")
      | none => bad
    | _, _ => bad
  | [op, p, n] =>
    if (op = "updw" || op = "updd") && s.kind = "lateral" then
      match parseParts? s.M p, parseParts? s.M n with
      | some pos, some neg =>
        let f := accumulate s.M s.M pos neg
        if op = "updw" then
          ({ s with lat := s.lat.step (.updW f),
                    rawW := if pos.isEmpty && neg.isEmpty then offDiag s.M s.rawW else specAccum s.M (offDiag s.M s.rawW) pos neg }, "ok")
        else
          ({ s with lat := s.lat.step (.updD f),
                    rawD := s.rawD.map fun d =>
                      if pos.isEmpty && neg.isEmpty then offDiag s.M d else specAccum s.M (offDiag s.M d) pos neg }, "ok")
      | _, _ => bad
    else match op, parseNat? p, parseInts? n with
      | "fwd", some B, some x => match fwdCmd s B x with
        | some r => (s, r)
        | none => bad
      | "like", some B, some x =>
        if s.kind = "conv" then
          let g := s.g
          if x.length ≠ B * (g.C * g.H * g.W) then bad else
          let xs := (chunks (g.C * g.H * g.W) x).map (to3 g.H g.W)
          let m := xs.map fun x => ((likeInputInt g (unfold g x)).map (·.flatten)).flatten
          let sp := xs.map fun x => ((List.range g.C).map fun c => ((List.range g.H).map fun i => (List.range g.W).map fun j =>
            if covered g i j then some (get3 x c i j) else none).flatten).flatten
          (s, "M syn=" ++ showShape [B, g.N, g.L] ++ " back=" ++ showShape (B :: s.inshape) ++ ":" ++ showOI m.flatten ++
              " || S syn=" ++ showShape [B, g.C * g.KH * g.KW, outSizeSpec g.H g.ph g.dh g.KH g.sh * outSizeSpec g.W g.pw g.dw g.KW g.sw] ++
              " back=" ++ showShape (B :: s.inshape) ++ ":" ++ showOI sp.flatten)
        else if s.kind = "none" || x.length ≠ B * s.M then bad else
          let t := likeSynLinear (B :: s.inshape, x)
          let back := likeInputLinear s.inshape t
          (s, "M syn=" ++ showShape t.1 ++ " back=" ++ showT back.1 back.2 ++
              " || S syn=" ++ showShape [B, s.M] ++ " back=" ++ showT (B :: s.inshape) x)
      | "unfold", some B, some x =>
        let g := s.g
        if s.kind ≠ "conv" || x.length ≠ B * (g.C * g.H * g.W) then bad else
        let xs := (chunks (g.C * g.H * g.W) x).map (to3 g.H g.W)
        (s, both (showT [B, g.N, g.L] (xs.map fun x => flat2 (unfold g x)).flatten))
      | "likeinput", some B, some x =>
        let g := s.g
        if s.kind ≠ "conv" || g.N * g.L = 0 || x.length ≠ B * (g.N * g.L) then bad else
        let ds := (chunks (g.N * g.L) x).map (chunks g.L)
        (s, both (showShape (B :: s.inshape) ++ ":" ++ showOI (ds.map fun d => ((likeInputInt g d).map (·.flatten)).flatten).flatten))
      | _, _, _ => bad
  | ["geom"] =>
    let g := s.g
    if s.kind ≠ "conv" then bad else
    (s, "M out=" ++ toString (outSizeCode g.H g.ph g.dh g.KH g.sh) ++ "x" ++ toString (outSizeCode g.W g.pw g.dw g.KW g.sw) ++
        " || S out=" ++ toString (outSizeSpec g.H g.ph g.dh g.KH g.sh) ++ "x" ++ toString (outSizeSpec g.W g.pw g.dw g.KW g.sw))
  | ["recv", b, r, pre, post] => match parseNat? b, parseNat? r, parseInts? pre, parseInts? post with
    | some B, some R, some pre, some post => match recvCmd s B R pre post with
      | some o => (s, o)
      | none => bad
    | _, _, _, _ => bad
  | _ => bad

def main : IO Unit := do
  loop (← IO.getStdin) ({} : DState) dstep
