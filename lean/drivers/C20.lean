import InfernoVerif.Model.Interp
import InfernoVerif.Model.Dist
import InfernoVerif.Model.Isi
import InfernoVerif.Model.VP
import InfernoVerif.Drv.Proto
/-
Driver for C20 (stateless: one request per line, one response per line).

  k  <kernel> <hex>…  [adj=<none|neg|half|inc>]     Float kernel of Model/Interp.lean
        → `M <hex>[,<hex>]`
  rt <pair> <sample> <s> <prev> <next> <dt> [<param>] [adj=…]
        → `M <hex> || S <hex>`   M: interp ∘ extrap computed by the Float model,
                                  S: the sample (what the theorem says the composition is over ℝ)
  d  <Class.method> <hex>… [erf:<arg>:<val>] [lgamma:<arg>:<val>] [gammaincc:<a>:<x>:<val>] [expm1:<arg>:<val>]
        → `M <hex>[,<hex>]`      Float formula of Model/Dist.lean; the opaque torch primitives answer
                                  with the value observed in the real run iff the model calls them on
                                  (numerically) the same argument, NaN-marker otherwise (`opaque-miss`)
  isi <T|F time_first> <n> <dt as p/q> <rows as 0/1 strings joined by |, `-` for none>
        → `M <mat> || S <mat>`   M: Isi.isi (statement-by-statement), S: Isi.specIsi
  vp <T|F cost is tensor> <cost p/q|inf> <t0 p/q,…|-> <t1 …>
        → `M <p/q> || S <p/q>`   M: VP.victor_purpura_pair_dist, S: VP.vpRec on the reversed trains

Floats cross the pipe as 16-hex-digit IEEE-754 bit patterns.
-/
open Proto

/-! ## hex / rational tokens -/

def hexVal? (c : Char) : Option Nat :=
  if '0' ≤ c ∧ c ≤ '9' then some (c.toNat - '0'.toNat)
  else if 'a' ≤ c ∧ c ≤ 'f' then some (c.toNat - 'a'.toNat + 10)
  else if 'A' ≤ c ∧ c ≤ 'F' then some (c.toNat - 'A'.toNat + 10)
  else none

def parseHexFloat? (s : String) : Option Float :=
  if s.length ≠ 16 then none else
  (s.toList.foldlM (fun (acc : Nat) c => do some (acc * 16 + (← hexVal? c))) 0).map
    fun n => Float.ofBits (UInt64.ofNat n)

def showHexFloat (x : Float) : String :=
  let ds := Nat.toDigits 16 x.toBits.toNat
  String.ofList (List.replicate (16 - ds.length) '0' ++ ds)

def parseRat? (s : String) : Option Rat :=
  match s.splitOn "/" with
  | [n] => do some ((← parseInt? n : Int) : Rat)
  | [n, d] => do
      let n ← parseInt? n; let d ← parseNat? d
      if d = 0 then none else some ((n : Rat) / (d : Rat))
  | _ => none

def showRat (q : Rat) : String := s!"{q.num}/{q.den}"

def parseRats? (s : String) : Option (List Rat) :=
  if s = "-" then some [] else (s.splitOn ",").mapM parseRat?

/-! ## interpolation / extrapolation kernels -/
namespace K
open InfernoVerif.Interp.F

def adjustOf? : String → Option (Option (Float → Float))
  | "adj=none" => some none
  | "adj=neg" => some (some fun x => -x)
  | "adj=half" => some (some fun x => x * 0.5)
  | "adj=inc" => some (some fun x => x + 1.0)
  | _ => none

def one (x : Float) : String := showHexFloat x
def two (p : Float × Float) : String := showHexFloat p.1 ++ "," ++ showHexFloat p.2

def kernel (name : String) (a : List Float) (adj : Option (Float → Float)) : Option String :=
  match name, a with
  | "interp_previous", [p, n, s, dt] => some (one (interp_previous p n s dt))
  | "interp_next", [p, n, s, dt] => some (one (interp_next p n s dt))
  | "interp_nearest", [p, n, s, dt] => some (one (interp_nearest p n s dt))
  | "interp_linear", [p, n, s, dt] => some (one (interp_linear p n s dt))
  | "interp_expdecay", [p, n, s, dt, tc] => some (one (interp_expdecay p n s dt tc))
  | "interp_expratedecay", [p, n, s, dt, rc] => some (one (interp_expratedecay p n s dt rc))
  | "extrap_previous", [x, s, p, n, dt] => some (two (extrap_previous x s p n dt))
  | "extrap_next", [x, s, p, n, dt] => some (two (extrap_next x s p n dt))
  | "extrap_neighbors", [x, s, p, n, dt] => some (two (extrap_neighbors x s p n dt))
  | "extrap_nearest", [x, s, p, n, dt] => some (two (extrap_nearest x s p n dt))
  | "extrap_linear_forward", [x, s, p, n, dt] => some (two (extrap_linear_forward x s p n dt adj))
  | "extrap_linear_backward", [x, s, p, n, dt] => some (two (extrap_linear_backward x s p n dt adj))
  | "extrap_expdecay", [x, s, p, n, dt, tc] => some (two (extrap_expdecay x s p n dt tc))
  | "extrap_expratedecay", [x, s, p, n, dt, rc] => some (two (extrap_expratedecay x s p n dt rc))
  | _, _ => none

/-- interp ∘ extrap for a named matching pair -/
def roundtrip (pair : String) (a : List Float) (adj : Option (Float → Float)) : Option Float :=
  match pair, a with
  | "previous", [x, s, p, n, dt] => let e := extrap_previous x s p n dt; some (interp_previous e.1 e.2 s dt)
  | "next", [x, s, p, n, dt] => let e := extrap_next x s p n dt; some (interp_next e.1 e.2 s dt)
  | "nearest", [x, s, p, n, dt] => let e := extrap_nearest x s p n dt; some (interp_nearest e.1 e.2 s dt)
  | "linear_forward", [x, s, p, n, dt] =>
      let e := extrap_linear_forward x s p n dt adj; some (interp_linear e.1 e.2 s dt)
  | "linear_backward", [x, s, p, n, dt] =>
      let e := extrap_linear_backward x s p n dt adj; some (interp_linear e.1 e.2 s dt)
  | "expdecay", [x, s, p, n, dt, tc] =>
      let e := extrap_expdecay x s p n dt tc; some (interp_expdecay e.1 e.2 s dt tc)
  | "expratedecay", [x, s, p, n, dt, rc] =>
      let e := extrap_expratedecay x s p n dt rc; some (interp_expratedecay e.1 e.2 s dt rc)
  | "neighbors_previous", [x, s, p, n, dt] => let e := extrap_neighbors x s p n dt; some (interp_previous e.1 e.2 s dt)
  | "neighbors_next", [x, s, p, n, dt] => let e := extrap_neighbors x s p n dt; some (interp_next e.1 e.2 s dt)
  | "neighbors_nearest", [x, s, p, n, dt] => let e := extrap_neighbors x s p n dt; some (interp_nearest e.1 e.2 s dt)
  | "neighbors_linear", [x, s, p, n, dt] => let e := extrap_neighbors x s p n dt; some (interp_linear e.1 e.2 s dt)
  | _, _ => none
end K

/-! ## distributions -/
namespace D
open InfernoVerif.Dist.F

/-- marker returned by an opaque primitive called on an argument the real code never passed
(a quiet NaN with a recognisable payload) -/
def miss : Float := Float.ofBits 0x7FF8DEADBEEF0000

def fabs (x : Float) : Float := if x < 0 then -x else x
def fmax (a b : Float) : Float := if a < b then b else a

def close (a b : Float) : Bool :=
  a == b || (a.isNaN && b.isNaN) ||
    fabs (a - b) ≤ 1e-12 * fmax 1 (fmax (fabs a) (fabs b))

structure Tab where
  erf : List (Float × Float) := []
  lgamma : List (Float × Float) := []
  gammaincc : List (Float × Float × Float) := []
  expm1 : List (Float × Float) := []

def look1 (t : List (Float × Float)) (x : Float) : Float :=
  match t.find? (fun e => close e.1 x) with
  | some e => e.2
  | none => miss

def Tab.special (t : Tab) : Special where
  erf := look1 t.erf
  lgamma := look1 t.lgamma
  expm1 := look1 t.expm1
  gammaincc a x :=
    match t.gammaincc.find? (fun e => close e.1 a && close e.2.1 x) with
    | some e => e.2.2
    | none => miss

def parseTab? (toks : List String) : Option Tab :=
  toks.foldlM (fun (t : Tab) tok =>
    match tok.splitOn ":" with
    | ["erf", a, v] => do some { t with erf := (← parseHexFloat? a, ← parseHexFloat? v) :: t.erf }
    | ["lgamma", a, v] => do some { t with lgamma := (← parseHexFloat? a, ← parseHexFloat? v) :: t.lgamma }
    | ["expm1", a, v] => do some { t with expm1 := (← parseHexFloat? a, ← parseHexFloat? v) :: t.expm1 }
    | ["gammaincc", a, x, v] => do
        some { t with gammaincc := (← parseHexFloat? a, ← parseHexFloat? x, ← parseHexFloat? v) :: t.gammaincc }
    | _ => none) {}

def one (x : Float) : String := showHexFloat x
def two (p : Float × Float) : String := showHexFloat p.1 ++ "," ++ showHexFloat p.2

def formula (name : String) (a : List Float) (S : Special) : Option String :=
  match name, a with
  | "Poisson.pmf", [k, r] => some (one (Poisson.pmf S k r))
  | "Poisson.logpmf", [k, r] => some (one (Poisson.logpmf S k r))
  | "Poisson.cdf", [k, r] => some (one (Poisson.cdf S k r))
  | "Poisson.logcdf", [k, r] => some (one (Poisson.logcdf S k r))
  | "Poisson.mean", [r] => some (one (Poisson.mean r))
  | "Poisson.variance", [r] => some (one (Poisson.variance r))
  | "Normal.params_mv", [m, v] => some (two (Normal.params_mv m v))
  | "Normal.pdf", [x, l, s] => some (one (Normal.pdf x l s))
  | "Normal.logpdf", [x, l, s] => some (one (Normal.logpdf x l s))
  | "Normal.cdf", [x, l, s] => some (one (Normal.cdf S x l s))
  | "Normal.logcdf", [x, l, s] => some (one (Normal.logcdf S x l s))
  | "Normal.mean", [l] => some (one (Normal.mean l))
  | "Normal.variance", [s] => some (one (Normal.variance s))
  | "LogNormal.params_mv", [m, v] => some (two (LogNormal.params_mv m v))
  | "LogNormal.pdf", [x, l, s] => some (one (LogNormal.pdf x l s))
  | "LogNormal.logpdf", [x, l, s] => some (one (LogNormal.logpdf x l s))
  | "LogNormal.cdf", [x, l, s] => some (one (LogNormal.cdf S x l s))
  | "LogNormal.logcdf", [x, l, s] => some (one (LogNormal.logcdf S x l s))
  | "LogNormal.mean", [l, s] => some (one (LogNormal.mean l s))
  | "LogNormal.variance", [l, s] => some (one (LogNormal.variance S l s))
  | _, _ => none
end D

/-! ## ISI -/
namespace I
open InfernoVerif.Isi

def parseRow? (s : String) : Option (List Bool) :=
  if s = "-" then some [] else
  s.toList.mapM fun c => if c = '1' then some true else if c = '0' then some false else none

def parseRaster? (s : String) : Option (List (List Bool)) :=
  if s = "none" then some [] else (s.splitOn "|").mapM parseRow?

def showCell : Option Rat → String
  | some q => showRat q
  | none => "nan"

/-- `<rows>x<cols>;r|r|…` — the shape is explicit so that `2x0` and `0x2` differ -/
def showMat (nrows : Nat) (m : List (List (Option Rat))) : String :=
  let cols := match m with | [] => 0 | r :: _ => r.length
  s!"{nrows}x{if m.isEmpty then 0 else cols};" ++ "|".intercalate (m.map fun r => ",".intercalate (r.map showCell))
end I

/-! ## Victor–Purpura -/
namespace V
open InfernoVerif.VP

def parseCost? (s : String) : Option Cost :=
  if s = "inf" then some .top else (parseRat? s).map .fin
end V

def isTabTok (t : String) : Bool :=
  t.startsWith "erf:" || t.startsWith "lgamma:" || t.startsWith "gammaincc:" || t.startsWith "expm1:"

def respond (line : String) : String :=
  let toks := splitNonEmpty line " "
  match toks with
  | "k" :: name :: rest =>
    let adjT := rest.filter (·.startsWith "adj=")
    let args := rest.filter (fun t => !t.startsWith "adj=")
    match args.mapM parseHexFloat?, (adjT.head?.getD "adj=none" |> K.adjustOf?) with
    | some a, some adj =>
      match K.kernel name a adj with
      | some r => "M " ++ r
      | none => "bad-op"
    | _, _ => "bad-op"
  | "rt" :: pair :: rest =>
    let adjT := rest.filter (·.startsWith "adj=")
    let args := rest.filter (fun t => !t.startsWith "adj=")
    match args.mapM parseHexFloat?, (adjT.head?.getD "adj=none" |> K.adjustOf?) with
    | some a, some adj =>
      match K.roundtrip pair a adj, a.head? with
      | some r, some x => "M " ++ showHexFloat r ++ " || S " ++ showHexFloat x
      | _, _ => "bad-op"
    | _, _ => "bad-op"
  | "d" :: name :: rest =>
    let tabT := rest.filter isTabTok
    let args := rest.filter (fun t => !isTabTok t)
    match args.mapM parseHexFloat?, D.parseTab? tabT with
    | some a, some tab =>
      match D.formula name a tab.special with
      | some r => "M " ++ r
      | none => "bad-op"
    | _, _ => "bad-op"
  | ["isi", tf, n, dt, raster] =>
    match parseBool? tf, parseNat? n, parseRat? dt, I.parseRaster? raster with
    | some tf, some n, some dt, some sp =>
      let m := InfernoVerif.Isi.isi n sp dt tf
      let s := InfernoVerif.Isi.specIsi n sp dt tf
      let nrows (out : List (List (Option Rat))) := if tf then out.length else sp.length
      -- time-last: one output row per train; time-first: one output row per interval index
      "M " ++ I.showMat (nrows m) m ++ (if tf then s!" n={n}" else "") ++
        " || S " ++ I.showMat (nrows s) s ++ (if tf then s!" n={n}" else "")
    | _, _, _, _ => "bad-op"
  | ["vp", tensor, cost, t0, t1] =>
    match parseBool? tensor, V.parseCost? cost, parseRats? t0, parseRats? t1 with
    | some tensor, some cost, some t0, some t1 =>
      "M " ++ showRat (InfernoVerif.VP.victor_purpura_pair_dist t0 t1 cost tensor) ++
        " || S " ++ showRat (InfernoVerif.VP.vpRec cost t0.reverse t1.reverse)
    | _, _, _, _ => "bad-op"
  | _ => "bad-op"

def main : IO Unit := do
  loop (← IO.getStdin) () (fun _ l => ((), respond l))
