import InfernoVerif.Model.Reducer
import InfernoVerif.Gen.TraceF
import InfernoVerif.Gen.InterpolationF
import InfernoVerif.Gen.SmoothingF
import InfernoVerif.Drv.Proto
/-
Driver for C07: one `FoldReducer` over a tensor of `P` elements = `P` copies of the one-element
machine of `Model/Reducer.lean` with the same configuration.  Executes BOTH the code-shaped machine
`step` (ring storage, `_initial`, lazy initialise, align+flip, `select`) and the specification
machine `sstep` (list of fold values, newest first) with the GENERATED `Float` trace / interpolation
functions, and prints `M <out> || S <out>`.

  begin <dt> <dur> <incl> <kind…>
     kind:  NT <tau> <A> <target> <tol|N>     CT  <tau> <A> <target> <tol|N>
            SNT <tau> <A> <scale> <crit>      SCT <tau> <A> <scale> <crit>      crit: gt:<c> | ge:<c>
            CNT <tau> <A> <scale>             CCT <tau> <A> <scale>
            ELIG <tau>     EV <crit> <initial>     PT     EMA <alpha>     CA
  obs <inplace T/F> <values> <conds|->        → ok
  clear <keepshape T/F>                       → ok
  peek                                        → N | v,v,…
  dump                                        → N | row|row|…   (newest first; row = v,v,…)
  view S <tol> <t>   /  view T <tol> <t,t,…>  → N | err ValueError | v,v,…
  setdt <v>  /  setdur <v>                    → ok
  cfg                                         → n dt dur decay count initial
Doubles are 16 hex digits (bit patterns).
-/
open InfernoVerif.Reducer InfernoVerif.Select InfernoVerif.Gen InfernoVerif.Gen.Wire Proto
open InfernoVerif.Ring (Ring)

abbrev Obs := Float × Bool

/-- `max(math.ceil(duration / step_time) + bool(inclusive), 1)` in IEEE doubles -/
def recszF (dt dur : Float) (incl : Bool) : Nat :=
  (max ((Float.ceil (dur / dt)).toInt64.toInt + (if incl then 1 else 0)) 1).toNat

def liftObs (K : Kind Float Float) : Kind Float Obs :=
  { fold := fun p dt o s => K.fold p dt o.1 s, pre := K.pre, onClear := K.onClear, onDt := K.onDt,
    interp := K.interp, fill := K.fill, zero := K.zero, recsz := K.recsz, ops := K.ops }

def trK (trace : Obs → Option Float → Float → Float) (τ : Float) : Kind Float Obs :=
  traceKind Float.exp trace InterpolationF.interp_expdecay τ 0 recszF floatOps

/-- kind tokens → (kind, the attributes the constructor sets: `decay = math.exp(-dt / tau)`, `_count = 0`) -/
def mkKind (dt : Float) (toks : List String) : Option (Kind Float Obs × Params Float) :=
  let dec (τ : Float) : Params Float := ⟨Float.exp (-dt / τ), 0⟩
  match toks with
  | ["NT", tau, a, tgt, tol] => do
    let τ ← pReal tau; let A ← pReal a; let tg ← pReal tgt; let tl ← pOptReal tol
    some (trK (fun o s d => TraceF.trace_nearest o.1 s d A tg tl) τ, dec τ)
  | ["CT", tau, a, tgt, tol] => do
    let τ ← pReal tau; let A ← pReal a; let tg ← pReal tgt; let tl ← pOptReal tol
    some (trK (fun o s d => TraceF.trace_cumulative o.1 s d A tg tl) τ, dec τ)
  | ["SNT", tau, a, sc, crit] => do
    let τ ← pReal tau; let A ← pReal a; let sc ← pReal sc; let J ← pFnb crit
    some (trK (fun o s d => TraceF.trace_nearest_scaled o.1 s d A sc J) τ, dec τ)
  | ["SCT", tau, a, sc, crit] => do
    let τ ← pReal tau; let A ← pReal a; let sc ← pReal sc; let J ← pFnb crit
    some (trK (fun o s d => TraceF.trace_cumulative_scaled o.1 s d A sc J) τ, dec τ)
  | ["CNT", tau, a, sc] => do
    let τ ← pReal tau; let A ← pReal a; let sc ← pReal sc
    some (trK (fun o s d => TraceF.trace_nearest_scaled o.1 s d A sc (fun _ => o.2)) τ, dec τ)
  | ["CCT", tau, a, sc] => do
    let τ ← pReal tau; let A ← pReal a; let sc ← pReal sc
    some (trK (fun o s d => TraceF.trace_cumulative_scaled o.1 s d A sc (fun _ => o.2)) τ, dec τ)
  | ["ELIG", tau] => do
    let τ ← pReal tau
    -- `self.scale = 1 / self.time_constant`
    some (trK (fun o s d => TraceF.trace_cumulative_value o.1 s d (1 / τ)) τ, dec τ)
  | ["EV", crit, ini] => do
    let J ← pFnb crit; let i0 ← pReal ini
    some (eventKind (fun (o : Obs) => J o.1) i0 0 recszF floatOps, ⟨0, 0⟩)
  | ["PT"] => some (liftObs (passKind InterpolationF.interp_previous 0 recszF floatOps), ⟨0, 0⟩)
  | ["EMA", al] => do
    let a ← pReal al
    some (liftObs (emaKind SmoothingF.exponential_smoothing InterpolationF.interp_linear a 0 recszF floatOps), ⟨0, 0⟩)
  | ["CA"] => some (liftObs (caKind InterpolationF.interp_linear Float.ofNat 0 recszF floatOps), ⟨0, 0⟩)
  | _ => none

structure DS where
  K : Kind Float Obs
  m : List (State Float)
  s : List (SState Float)

def pConds (s : String) (n : Nat) : Option (List Bool) :=
  if s = "-" then some (List.replicate n false) else (s.splitOn ",").mapM pBool

def anyErr (os : List (Out Float)) : Bool := os.any fun o => match o with
  | .runtimeError => true | _ => false

/-- combine the per-element outputs of one operation into one answer -/
def showOuts (os : List (Out Float)) : String :=
  match os with
  | [] => "?"
  | o0 :: _ =>
    if anyErr os then "err RuntimeError" else
    match o0 with
    | .unit => "ok"
    | .none => "N"
    | .runtimeError => "err RuntimeError"
    | .val _ =>
      ",".intercalate (os.map fun o => match o with | .val (some x) => sReal x | _ => "?")
    | .hist h0 =>
      let cols := os.map fun o => match o with | .hist h => h | _ => []
      "|".intercalate ((List.range h0.length).map fun k =>
        ",".intercalate (cols.map fun c => match c[k]? with | some x => sReal x | none => "?"))
    | .sel _ =>
      if os.any (fun o => match o with | .sel .valueError => true | _ => false) then "err ValueError"
      else ",".intercalate (os.map fun o => match o with | .sel (.ok x) => sReal x | _ => "?")

def applyM (K : Kind Float Obs) (cols : List (State Float)) (ops : List (Op Float Obs)) :
    List (State Float) × List (Out Float) :=
  ((cols.zip ops).map fun co => step K co.1 co.2).unzip

def applyS (K : Kind Float Obs) (cols : List (SState Float)) (ops : List (Op Float Obs)) :
    List (SState Float) × List (Out Float) :=
  ((cols.zip ops).map fun co => sstep K co.1 co.2).unzip

def both (st : DS) (opsOf : Nat → List (Op Float Obs)) : DS × String :=
  let (m', mo) := applyM st.K st.m (opsOf st.m.length)
  let (s', so) := applyS st.K st.s (opsOf st.s.length)
  ({ st with m := m', s := s' }, "M " ++ showOuts mo ++ " || S " ++ showOuts so)

def b2s (b : Bool) : String := if b then "T" else "F"

def dstep (st : DS) (line : String) : DS × String :=
  match splitNonEmpty line " " with
  | "begin" :: dt :: dur :: incl :: kind =>
    match pReal dt, pReal dur, pBool incl with
    | some dt, some dur, some incl =>
      match mkKind dt kind with
      | some (K, p) => (⟨K, [init K dt dur incl p], [sabs (init K dt dur incl p)]⟩, "ok")
      | none => (st, "bad-op")
    | _, _, _ => (st, "bad-op")
  | ["obs", ip, vals, conds] =>
    match pBool ip, pVec vals with
    | some ip, some vs =>
      match pConds conds vs.length with
      | some cs =>
        if cs.length ≠ vs.length then (st, "bad-op") else
        -- the storage takes the shape of the first observation after (de)initialisation
        let st1 : Option DS :=
          if vs.length = st.m.length then some st
          else match st.m.head?, st.s.head? with
            | some m0, some s0 =>
              if m0.data.isNone then some { st with m := List.replicate vs.length m0, s := List.replicate vs.length s0 }
              else none
            | _, _ => none
        match st1 with
        | some st1 => both st1 fun _ => (vs.zip cs).map fun vc => Op.observe vc ip
        | none => (st, "M err ValueError || S err ValueError")
      | none => (st, "bad-op")
    | _, _ => (st, "bad-op")
  | ["clear", k] =>
    match pBool k with
    | some k => both st fun n => List.replicate n (Op.clear k)
    | none => (st, "bad-op")
  | ["peek"] => both st fun n => List.replicate n Op.peek
  | ["dump"] => both st fun n => List.replicate n Op.dump
  | ["view", "S", tol, t] =>
    match pReal tol, pReal t with
    | some tol, some t => both st fun n => List.replicate n (Op.view t tol false)
    | _, _ => (st, "bad-op")
  | ["view", "T", tol, ts] =>
    match pReal tol, pVec ts with
    | some tol, some ts =>
      if ts.length ≠ st.m.length then (st, "bad-op")
      else both st fun _ => ts.map fun t => Op.view t tol true
    | _, _ => (st, "bad-op")
  | ["setdt", v] =>
    match pReal v with
    | some v => both st fun n => List.replicate n (Op.setDt v)
    | none => (st, "bad-op")
  | ["setdur", v] =>
    match pReal v with
    | some v => both st fun n => List.replicate n (Op.setDur v)
    | none => (st, "bad-op")
  | ["cfg"] =>
    match st.m.head?, st.s.head? with
    | some m, some s =>
      (st, s!"M {m.n} {sReal m.dt} {sReal m.dur} {sReal m.p.decay} {m.p.count} {b2s m.initial} || " ++
           s!"S {s.n} {sReal s.dt} {sReal s.dur} {sReal s.p.decay} {s.p.count} {b2s s.hist.isNone}")
    | _, _ => (st, "bad-op")
  | _ => (st, "bad-op")

def main : IO Unit := do
  let K0 : Kind Float Obs := liftObs (passKind InterpolationF.interp_previous 0 recszF floatOps)
  let s0 := init K0 1 0 false ⟨0, 0⟩
  loop (← IO.getStdin) (⟨K0, [s0], [sabs s0]⟩ : DS) dstep
