import InfernoVerif.Model.Updater
import InfernoVerif.Drv.Proto
/-
Driver for C10: executes BOTH the code-shaped machine `step` and the specification machine
`sstep` of `Model/Updater.lean` on each request line and prints `M … || S …`.

A tensor of `E` positions is `E` copies of the scalar machine (all modelled code is
element-wise); vector payloads are comma separated, one value per position.  Two number modes:
`begin Q E` — core `Rat`, values `n/d` (exact; power families unavailable → `bad-op`);
`begin F E` — `Float`, values as 16 hex digits of the IEEE bit pattern.
-/
open InfernoVerif.Updater Proto

class Codec (α : Type) where
  parse? : String → Option α
  render : α → String

def parseRat? (s : String) : Option Rat :=
  match s.splitOn "/" with
  | [n] => do some ((← n.toInt?) : Rat)
  | [n, d] => do
      let n ← n.toInt?; let d ← d.toNat?
      if d = 0 then none else some (mkRat n d)
  | _ => none

instance : Codec Rat := ⟨parseRat?, fun q => if q.den = 1 then toString q.num else s!"{q.num}/{q.den}"⟩

def hexVal? (c : Char) : Option Nat :=
  if '0' ≤ c ∧ c ≤ '9' then some (c.toNat - '0'.toNat)
  else if 'a' ≤ c ∧ c ≤ 'f' then some (c.toNat - 'a'.toNat + 10) else none

def parseHex64? (s : String) : Option UInt64 :=
  if s.length ≠ 16 then none else
  s.toList.foldlM (fun (acc : UInt64) c => do some (acc * 16 + (← hexVal? c).toUInt64)) 0

def hexDigit (n : Nat) : Char := if n < 10 then Char.ofNat (48 + n) else Char.ofNat (87 + n)
def showHex64 (u : UInt64) : String :=
  String.ofList ((List.range 16).map fun i => hexDigit ((u >>> (4 * (15 - i)).toUInt64) &&& 15).toNat)

instance : Codec Float := ⟨fun s => (parseHex64? s).map Float.ofBits, fun x => showHex64 x.toBits⟩
instance : NatCast Float := ⟨Float.ofNat⟩

section Generic
variable {α : Type} [Add α] [Sub α] [Mul α] [Div α] [Neg α] [Zero α] [One α] [LT α] [DecidableLT α]
  [Max α] [Min α] [NatCast α] [Codec α]

def parseVec? (E : Nat) (s : String) : Option (List α) := do
  let vs ← (s.splitOn ",").mapM Codec.parse?
  if vs.length = E then some vs else none

/-- `N` = Python `None`, else a vector: per position an `Option α` -/
def parseOptVec? (E : Nat) (s : String) : Option (List (Option α)) :=
  if s = "N" then some (List.replicate E none) else (parseVec? E s).map (·.map some)

def parseOptScalar? (s : String) : Option (Option α) :=
  if s = "N" then some none else (Codec.parse? s).map some

def parseNames (s : String) : List String := if s = "-" then [] else s.splitOn ","

/-- reduction token → `Option (List α → α)` (`N` = no reduction argument / `None`) -/
def parseRed? (s : String) : Option (Option (List α → α)) :=
  match s.splitOn ":" with
  | ["N"] => some none
  | ["sum"] => some (some rsum)
  | ["mean"] => some (some rmean)
  | ["amax"] => some (some rmax)
  | ["amin"] => some (some rmin)
  | ["first"] => some (some rfirst)
  | ["last"] => some (some rlast)
  | ["ssum", c] => do some (some (rscaledsum (← Codec.parse? c)))
  | _ => none

/-- half bounding configuration: `none | mult L | smult L R | sharp L | power L P | spower L P R` -/
def parseHalf? (pw : Option (α → α → α)) (upper : Bool) (toks : List String) :
    Option (Option (α → α → α)) :=
  match toks with
  | ["none"] => some none
  | ["mult", l] => do
      let l : α ← Codec.parse? l
      some (some (if upper then fun x u => bound_upper_multiplicative x u l
                  else fun x u => bound_lower_multiplicative x u l))
  | ["smult", l, r] => do
      let l : α ← Codec.parse? l; let r : α ← Codec.parse? r
      some (some (if upper then fun x u => bound_upper_scaled_multiplicative x u l r
                  else fun x u => bound_lower_scaled_multiplicative x u l r))
  | ["sharp", l] => do
      let l : α ← Codec.parse? l
      some (some (if upper then fun x u => bound_upper_sharp x u l
                  else fun x u => bound_lower_sharp x u l))
  | ["power", l, p] => do
      let f ← pw
      let _ : HPow α α α := ⟨f⟩
      let l : α ← Codec.parse? l; let p : α ← Codec.parse? p
      some (some (if upper then fun x u => bound_upper_power x u l p
                  else fun x u => bound_lower_power x u l p))
  | ["spower", l, p, r] => do
      let f ← pw
      let _ : HPow α α α := ⟨f⟩
      let l : α ← Codec.parse? l; let p : α ← Codec.parse? p; let r : α ← Codec.parse? r
      some (some (if upper then fun x u => bound_upper_scaled_power x u l p r
                  else fun x u => bound_lower_scaled_power x u l p r))
  | _ => none

/-- full bounding configuration: `none | mult MX MN | smult MX MN | sharp MX MN |
power MX MN UP LP | spower MX MN UP LP` (limits may be `N`) -/
def parseFull? (pw : Option (α → α → α)) (toks : List String) : Option (Option (FullBound α)) :=
  match toks with
  | ["none"] => some none
  | ["mult", mx, mn] => do some (some (FullBound.multiplicative (← parseOptScalar? mx) (← parseOptScalar? mn)))
  | ["smult", mx, mn] => do some (some (FullBound.scaled_multiplicative (← parseOptScalar? mx) (← parseOptScalar? mn)))
  | ["sharp", mx, mn] => do some (some (FullBound.sharp (← parseOptScalar? mx) (← parseOptScalar? mn)))
  | ["power", mx, mn, up, lp] => do
      let f ← pw
      let _ : HPow α α α := ⟨f⟩
      some (some (FullBound.power (← parseOptScalar? mx) (← parseOptScalar? mn) (← Codec.parse? up) (← Codec.parse? lp)))
  | ["spower", mx, mn, up, lp] => do
      let f ← pw
      let _ : HPow α α α := ⟨f⟩
      some (some (FullBound.scaled_power (← parseOptScalar? mx) (← parseOptScalar? mn) (← Codec.parse? up) (← Codec.parse? lp)))
  | _ => none

/-- one request line → the operation for each of the `E` positions -/
def parseOps? (pw : Option (α → α → α)) (E : Nat) (toks : List String) : Option (List (Op α)) :=
  let rep (op : Op α) : Option (List (Op α)) := some (List.replicate E op)
  match toks with
  | ["new", ps, r] => do rep (.newUpdater (parseNames ps) (← parseRed? r))
  | ["delupdater"] => rep .delUpdater
  | ["param", p, vs] => do some ((← parseVec? E vs).map fun v => .setParam p v)
  | ["setpos", p, vs] => do some ((← parseOptVec? E vs).map fun v => .setPos p v)
  | ["setneg", p, vs] => do some ((← parseOptVec? E vs).map fun v => .setNeg p v)
  | ["setacc", p, "one", vs] => do some ((← parseOptVec? E vs).map fun v => .setAcc p (.one v))
  | ["setacc", p, "pair", vp, vn] => do
      some (((← parseOptVec? E vp).zip (← parseOptVec? E vn)).map fun v => .setAcc p (.pair v.1 v.2))
  | ["getpos", p] => rep (.getPos p)
  | ["getneg", p] => rep (.getNeg p)
  | ["delpos", p] => rep (.delPos p)
  | ["delneg", p] => rep (.delNeg p)
  | ["delacc", p] => rep (.delAcc p)
  | ["accclear", p] => rep (.accClear p)
  | ["reduction", p, r] => do rep (.reduction p (← parseRed? r))
  | "upperbound" :: p :: rest => do rep (.upperbound p (← parseHalf? pw true rest))
  | "lowerbound" :: p :: rest => do rep (.lowerbound p (← parseHalf? pw false rest))
  | "fullbound" :: p :: rest => do rep (.fullbound p (← parseFull? pw rest))
  | ["accupdate", p] => rep (.accUpdate p)
  | ["update", c] => do rep (.update (← parseBool? c))
  | ["updatesome", ps, c] => do rep (.updatesome (parseNames ps) (← parseBool? c))
  | ["clear"] => rep .clear
  | _ => none

def showErr : Err → String
  | .TypeError => "TypeError" | .KeyError => "KeyError" | .AttributeError => "AttributeError"
  | .RuntimeError => "RuntimeError" | .Other => "Other"

/-- the `E` per-position outputs of one operation must be of one kind -/
def showOuts (outs : List (Out α)) : String :=
  match outs with
  | [] => "ok"
  | .unit :: _ => if outs.all (fun | .unit => true | _ => false) then "ok" else "nonuniform"
  | .unsupported :: _ => "unsupported"
  | .err e :: _ =>
    if outs.all (fun | .err e' => e' == e | _ => false) then "err " ++ showErr e else "nonuniform"
  | .val none :: _ => if outs.all (fun | .val none => true | _ => false) then "None" else "nonuniform"
  | .val (some _) :: _ =>
    match outs.mapM (fun | .val (some v) => some (Codec.render v) | _ => none) with
    | some vs => "val " ++ ",".intercalate vs
    | none => "nonuniform"

def showParams (names : List String) (ps : List (List (String × α))) : String :=
  ";".intercalate (names.map fun n =>
    n ++ "=" ++ ",".intercalate (ps.map fun l => match alookup l n with | some v => Codec.render v | none => "?"))

def cacheFlag (c : Option (Option α)) : String := match c with | some _ => "F" | none => "S"

def showM (ms : List (Module α)) : String :=
  match ms with
  | [] => "empty"
  | m0 :: _ =>
    showParams (m0.params.map (·.1)) (ms.map (·.params)) ++ " | " ++
    (match m0.updater with
     | none => "noupdater"
     | some u => " ".intercalate (u.accs.map fun pa =>
         s!"{pa.1}:{pa.2.pos.length},{pa.2.neg.length},{cacheFlag pa.2.posCache},{cacheFlag pa.2.negCache}"))

def showS (ss : List (SModule α)) : String :=
  match ss with
  | [] => "empty"
  | m0 :: _ =>
    showParams (m0.params.map (·.1)) (ss.map (·.params)) ++ " | " ++
    (match m0.updater with
     | none => "noupdater"
     | some u => " ".intercalate (u.map fun pa => s!"{pa.1}:{pa.2.pos.length},{pa.2.neg.length}"))

structure GState (α : Type) where
  E : Nat
  ms : List (Module α)
  ss : List (SModule α)
  /-- parameter values before the most recent `update` / `updatesome` (for `checksharp`) -/
  prevM : List (List (String × α)) := []
  prevS : List (List (String × α)) := []

/-- every position of parameter `p` lies in `[lo, hi]` -/
def inRange (ps : List (List (String × α))) (p : String) (lo hi : α) : String :=
  if ps.all (fun l => match alookup l p with
      | some v => !(decide (v < lo)) && !(decide (hi < v))
      | none => false) then "in" else "out"

/-- sharp dependence: a position that was at/over `mx` did not rise, at/under `mn` did not fall -/
def notFurther (prev cur : List (List (String × α))) (p : String) (mx mn : α) : String :=
  if (prev.zip cur).all (fun pc => match alookup pc.1 p, alookup pc.2 p with
      | some a, some b =>
        (decide (a < mx) || !(decide (a < b))) && (decide (mn < a) || !(decide (b < a)))
      | _, _ => false) then "in" else "out"

def gstep (pw : Option (α → α → α)) (st : GState α) (toks : List String) : GState α × String :=
  match toks with
  | ["module", decl] =>
    -- `module w=v1,v2;b=v1,v2`: a fresh module with these parameters and no updater
    match (decl.splitOn ";").mapM (fun d => match d.splitOn "=" with
        | [n, vs] => (parseVec? (α := α) st.E vs).map fun v => (n, v)
        | _ => none) with
    | none => (st, "bad-op")
    | some nvs =>
      let ps : List (List (String × α)) :=
        (List.range st.E).map fun i => nvs.filterMap fun nv => (nv.2[i]?).map fun v => (nv.1, v)
      ({ st with ms := ps.map fun p => ⟨p, none⟩, ss := ps.map fun p => ⟨p, none⟩ }, "ok")
  | ["dump"] => (st, "M " ++ showM st.ms ++ " || S " ++ showS st.ss)
  | ["checkrange", p, lo, hi] =>
    match (Codec.parse? lo : Option α), (Codec.parse? hi : Option α) with
    | some lo, some hi =>
      (st, "M " ++ inRange (st.ms.map (·.params)) p lo hi ++ " || S " ++ inRange (st.ss.map (·.params)) p lo hi)
    | _, _ => (st, "bad-op")
  | ["checksharp", p, mx, mn] =>
    match (Codec.parse? mx : Option α), (Codec.parse? mn : Option α) with
    | some mx, some mn =>
      (st, "M " ++ notFurther st.prevM (st.ms.map (·.params)) p mx mn
        ++ " || S " ++ notFurther st.prevS (st.ss.map (·.params)) p mx mn)
    | _, _ => (st, "bad-op")
  | _ =>
    match parseOps? pw st.E toks with
    | none => (st, "bad-op")
    | some ops =>
      let rm := (st.ms.zip ops).map fun mo => step mo.1 mo.2
      let rs := (st.ss.zip ops).map fun so => sstep so.1 so.2
      let isUpd := match toks with | "update" :: _ => true | "updatesome" :: _ => true | _ => false
      ({ st with ms := rm.map (·.1), ss := rs.map (·.1),
                 prevM := if isUpd then st.ms.map (·.params) else st.prevM,
                 prevS := if isUpd then st.ss.map (·.params) else st.prevS },
        "M " ++ showOuts (rm.map (·.2)) ++ " || S " ++ showOuts (rs.map (·.2)))

end Generic

inductive DState where
  | q (s : GState Rat)
  | f (s : GState Float)

def dstep (st : DState) (line : String) : DState × String :=
  let toks := splitNonEmpty line " "
  match toks with
  | "begin" :: "Q" :: e :: _ => match parseNat? e with       -- further tokens: harness tags
    | some e => (.q { E := e, ms := [], ss := [] }, "ok")
    | none => (st, "bad-op")
  | "begin" :: "F" :: e :: _ => match parseNat? e with
    | some e => (.f { E := e, ms := [], ss := [] }, "ok")
    | none => (st, "bad-op")
  | _ =>
    match st with
    | .q s => let r := gstep none s toks; (.q r.1, r.2)
    | .f s => let r := gstep (some Float.pow) s toks; (.f r.1, r.2)

def main : IO Unit := do
  loop (← IO.getStdin) (DState.q { E := 1, ms := [], ss := [] }) dstep
