-- Root of the `InfernoVerif` library.
import InfernoVerif.Model.Ring
import InfernoVerif.Model.RingOps
import InfernoVerif.Lemmas.Ring
import InfernoVerif.Drv.Proto
import InfernoVerif.Props.C01
