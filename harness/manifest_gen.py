"""Regenerates /verif/MANIFEST.json from the table below + which corr modules exist.
A property is *claimed* when READY[id] is set; everything else is listed under not_applicable
with the reason it is not claimed yet.   usage: /venv/bin/python harness/manifest_gen.py
"""
import json
from pathlib import Path

VERIF = Path(__file__).resolve().parent.parent

TECH = "Lean 4 machine-checked proof about an executable model + per-run correspondence check (differential execution of model and implementation) and implementation-side failing-input search"

READY = {
    "C01": dict(
        text="Refinement theorem ring_run_refines (Lean 4, core only): for every record size, element type, dtype conversion and EVERY finite operation list, the code-shaped ring machine (pointer + storage, one function per Python branch) produces the outputs of the plain list-of-observations machine; corollaries: in-place = out-of-place, tensor offset = scalar offset, whole-record / wrapping range reads, push-then-read, dtype adoption. Tied to RecordTensor by an after-every-operation correspondence check (exhaustive single steps for n<=4 from every pointer position, seeded random sequences with malformed ops).",
        note="Trusted: Lean kernel + propext/Classical.choice/Quot.sound; hand-written model of torch slicing/cat/roll/gather/scatter validated by correspondence only; integer offsets, align index in [0,n); CPU; int64/float32 dtype classes.",
        tech="Lean 4 refinement proof by induction over operation lists + differential correspondence check against RecordTensor",
        ref="DESIGN.md §6 C01"),
    "C03": dict(
        text="Theorems about the thresholding/integration/adaptation kernels GENERATED from /repo's source on every run (translator): spike iff out-of-refractory and integrated voltage >= threshold, same-step reset, refractory window of max(1, ceil(refrac_t/dt)) steps for EVERY input sequence / threshold sequence / voltage dynamics (induction), 0 <= refrac <= refrac_t invariant, spike attribute == output for refrac_t > 0 (negation witness for refrac_t = 0: known finding D4). Class wiring of the 8 neuron models tied by per-step correspondence; real trajectories judged against an independent contract oracle.",
        note="Trusted: Lean kernel + standard axioms; translator (validated per run by differential execution of the Float copies vs the Python originals); hand-written class wiring validated by correspondence; theorems over exact reals — float rounding that changes a discrete outcome is partial (float); adaptive classes compared at batch size 1.",
        tech="Lean 4 proofs (induction over trajectories) about definitions regenerated from the Python AST + translator validation + per-step correspondence of the class wiring + contract search",
        ref="DESIGN.md §6 C03"),
    "C04": dict(
        text="Theorems (Lean 4 + Mathlib, over the reals, for EVERY spike train and injected-current sequence): the per-step recurrences of the four synapse classes equal the closed-form impulse-response sums (Q/dt pulse; plus injected current; Q/tau*exp(-(n-k)dt/tau); difference of exponentials), the spike record equals the input, a read at k steps of delay returns the value of step n-k (zero before the start — from the ring-buffer theorem pushes_then_read of C01), off-grid reads are the synapse's interpolation of the two bracketing steps, selectors beyond the supported delay give the overbound value (the value at the limit when none), in-place = out-of-place, clear restores the initial state. Tied to the four real classes by per-step correspondence (current, spike, current_at, spike_at) against the executable model and the independently computed closed forms.",
        note="Trusted: Lean kernel + standard axioms; hand-written model of the recurrences and of _synparam_at (on top of the C01 ring and C02 select models) validated by correspondence; dyadic dt/charges/delays so grid and range decisions are exact, exp compared at 1e-9; tolerance >= 0; per-element model (C11 covers batch independence).",
        tech="Lean 4 proofs by induction over spike trains (recurrence = closed-form sum; delayed read = ring-buffer history) + per-step correspondence with the real synapse classes",
        ref="DESIGN.md §6 C04"),
    "C02": dict(
        text="Theorems (Lean 4 + Mathlib, over the reals, every ring size / pointer / offset / time / kernel; dt > 0, tol >= 0): select on the grid (within tolerance) returns the stored observation without interpolating; off the grid it returns interp(older bracket, newer bracket, time since the older one, dt) with adjacent in-range brackets; scalar-time and tensor-time paths agree; select/insert raise exactly on out-of-range times; insert writes exactly on the grid, extrapolates onto the two bracketing slots off the grid (in-place, writerange and scatter paths identical) and touches no other slot; insert-then-select returns the sample for every shipped pair (theorems about the GENERATED kernels) with negation witnesses for necessary hypotheses (mismatched pair, end points, tol < 0). The exact rational run of the driver is proved to be the real-number run. Tied by after-every-op correspondence on real RecordTensors (dyadic dt, exhaustive small sweeps) and relational scalar-vs-tensor / round-trip checks on the real code.",
        note="Trusted: Lean kernel + standard axioms; translator for the interpolation/extrapolation kernels (validated per run); hand-written model of select/insert index logic on the C01 ring validated by correspondence; non-dyadic dt (0.3, 1.3) reported as partial (float).",
        tech="Lean 4 case-law and algebraic round-trip proofs over generated kernels + exact-rational correspondence with RecordTensor.select/insert",
        ref="DESIGN.md §6 C02"),
    "C05": dict(
        text="Theorems (Lean 4, generic over commutative semirings): dense = x W^T + b, direct = x*w + b, lateral = off-diagonal part (and the diagonal of weight and delay is zero after EVERY sequence of assignments and updater applications — induction); conv2d as computed (unfold, flattened-kernel matmul, reshape, bias) equals the 2-D cross-correlation for ALL H, W, C, F, kernel, stride, padding, dilation, with the floor output-size formula characterised as the count of fitting windows; like_input(like_synaptic(x)) = count*x on every input position; receptive views broadcast to the documented weight-shaped result. Tied by exact integer-valued correspondence against real connections (geometry grid, F.conv2d as a second opinion only).",
        note="Trusted: Lean kernel + standard axioms; hand-written models of F.linear / F.unfold / F.fold / einops reshapes validated by correspondence; integer-valued tensors so float32 is exact; non-finite values assigned to a lateral weight (inf*0 = NaN on the diagonal) are outside the modelled domain.",
        tech="Lean 4 index-bijection / sum re-indexing proofs and an invariant over assignment histories + exact correspondence with the real connection classes",
        ref="DESIGN.md §6 C05"),
    "C06": dict(
        text="Theorems (Lean 4 + Mathlib): for delays d_{o,i} = k_{o,i}*dt within the supported maximum, the delayed dense/lateral, direct and conv forward equals the undelayed map applied to presynaptic contributions taken k_{o,i} steps back (zero before the start / last clear) — built from C04's delayed-read theorem and the linear-map models; zero delays or a zero maximum give the undelayed output; syncurrent/synspike show the same shifted values; off-grid delays read the synapse's interpolated history. Tied by a relational run on the REAL code: delayed connection vs an independently stepped undelayed twin shifted per synapse, 4 connection kinds x 4 synapse kinds, heterogeneous delays, clear mid-run.",
        note="Trusted: as C04/C05 plus the selector construction model; dt = 1.3 compared at 1e-6 relative — partial (float).",
        tech="Lean 4 composition proof (ring-buffer history + linear map) + relational differential run against an undelayed twin",
        ref="DESIGN.md §6 C06"),
    "C07": dict(
        text="Theorems (Lean 4 + Mathlib) about the fold steps GENERATED from core/trace.py and core/math.py, for every observation sequence (induction): cumulative trace = sum over matching events of A*d^(n-k) (d = exp(-dt/tau)), nearest trace = A*d^(n-last) and 0 before the first event, scaled/conditional variants, event reducer = time since the last event, pass-through, cumulative average, exponential smoothing closed form; the FoldReducer state machine (lazy initialise, push, peek, dump = align then flip, clear(keepshape), view through C02's select, dt/duration setters through C13's resize) refines the list-of-fold-values specification over ALL op sequences; clear-then-run = fresh run on complete output streams; reducer-specific view interpolation. Tied by per-op correspondence on all 11 real reducer classes (exhaustive boolean histories + random streams) against model, spec machine and independently computed closed forms.",
        note="Trusted: Lean kernel + standard axioms; translator (validated per run); hand-written reducer machine validated by correspondence. Side condition stated in the theorems: refinement with dt/duration assignments requires fill = 0 (growing a record pads with zeros, not the reducer's fill) — negation witness resize_after_clear_witness; inf/nan initial values modelled by one absorbing value.",
        tech="Lean 4 closed forms by induction over event histories (recurrence lemma) + refinement of the reducer state machine + correspondence with the real reducers",
        ref="DESIGN.md §6 C07"),
    "C08": dict(
        text="Theorems (Lean 4 + Mathlib) on a per-weight model built from the GENERATED trace recurrences: for every pre/post spike history of every length, the summed STDP updates equal the documented double sum over spike pairs (cumulative: all pairs, simultaneous pairs counted in both halves as the code does; nearest: most recent partner only), presynaptic times shifted by the delay (delayed-record mode = frozen mode = shifted train, via the ring-buffer history theorem); MSTDP scales by the (per-sample) signal; MSTDPET filter z(t+1) = z(t)*exp(-dt/tau_z) + c(t+1)/tau_z; triplet factor = 1 + slow trace of the triggering population one step earlier; batch sum/mean. Tied by correspondence on real Serial layers with forced post spikes: EXHAUSTIVE over all 4^T histories of 1x1 cells (T = 5 quick, 7 thorough) + random populations, all sign modes, trace modes, delay modes, signals.",
        note="Trusted: Lean kernel + standard axioms; translator; hand-written trainer wiring (amplitudes, which trace, routing) validated by correspondence; Real/Float model copies textually identical (checked per run); StableSTDP variants and off-grid delays not covered.",
        tech="Lean 4 pair-sum identities by induction over steps (recurrence = closed form) + exhaustive short-history correspondence with the real trainers",
        ref="DESIGN.md §6 C08"),
    "C09": dict(
        text="Theorems (Lean 4 + Mathlib) on the routing tables of all trainer families transcribed from each forward's match statement (definitions shared between reals, rationals and floats): for non-negative magnitudes both parts are non-negative and pos - neg = sgn(eta_post)*dpost + sgn(eta_pre)*dpre for every sign mode; Hebbian direction; reward sign flips; kernel clamp split nets to the signed kernel; potentiation goes through the upper bound and depression through the lower (via C10). Homeostasis: FULL statement kept visible and FALSE for the code — proved instead: pos = max k 0, pos - neg = |k|, witness with a negative depressive part (known finding D9, pinned by the existing test suite). Tied by running every exported trainer on small real layers in all sign combinations and reading the real accumulators.",
        note="Trusted: Lean kernel + standard axioms; hand transcription of the routing tables validated by correspondence against the real accumulators; D9 is re-observed on every run and printed as KNOWN-FINDING (key C09:homeostasis:neg-part-sign); any other violation is still reported.",
        tech="Lean 4 finite sign-table case analysis with real inequalities + correspondence with the real trainers' accumulators",
        ref="DESIGN.md §6 C09"),
    "C10": dict(
        text="Theorems (Lean 4 + Mathlib): the Accumulator/Updater machine (parts, cached reductions, bind selection, update/clear/updatesome, constructor reduction) refines, over EVERY op list, the specification whose apply step is literally old + ub(reduce pos) - lb(reduce neg); cache coherence is an invariant with no hypothesis on the configured functions; order independence of sum/mean/max over List.Perm; no parts => no change; second apply after clear is a no-op; multiplicative / scaled multiplicative / scaled power (real exponents >= 1) dependence keeps a parameter inside [min, max] over update histories of ARBITRARY length (induction); sharp dependence never moves a parameter further beyond a reached limit; a constructor reduction is the one used. Bounding functions are single polymorphic definitions instantiated at reals, rationals and floats. Tied by random op interleavings on real Updatable objects with all 15 bounding functions, dyadic values compared exactly.",
        note="Trusted: Lean kernel + standard axioms; hand-written machine and bounding formulas validated by correspondence (the 13 translatable bounding functions are also regenerated and validated by the translator); full power bounds with non-integer exponents outside the limits produce NaN in floats and are excluded from the real-number spec.",
        tech="Lean 4 refinement + invariants by induction over operation / update histories + exact correspondence with the real Accumulator/Updater",
        ref="DESIGN.md §6 C10"),
    "C11": dict(
        text="Theorems (Lean 4, core only; deliberately thin): for map-structured batched components projection commutes with stepping over every input sequence; row-wise ring reads/writes with per-position offsets touch only their own column (from C01's per-position refinement lemmas); an expanded selector gives sample b, synapse i the offset of synapse i; a batched accumulation with sum-reduction equals the sum of the single-sample accumulations over whole runs. The claim rests mainly on the tie: a relational (2-safety) comparison on the REAL code — a batch-B component vs B separately constructed batch-1 copies with the same parameters, every step, every state attribute: 8 neuron classes (adaptation frozen), 4 synapses, 4 connections with/without heterogeneous delays, Serial/Biclique/RecurrentSerial, all 12 trainers with sum reduction.",
        note="Trusted: Lean kernel + standard axioms; nothing of the real code is re-executed in Lean for this property (no driver). torch picks different summation orders for different batch sizes: half of the connection/layer/trainer cases run in exact dyadic arithmetic with strict torch.equal, the rest compare only floating-point entries downstream of a reduction at 1e-12/1e-9 (spikes, pointers, records exact).",
        tech="Lean 4 projection/linearity lemmas (thin) + relational differential check batch-B vs B independent batch-1 runs on the real code",
        ref="DESIGN.md §6 C11"),
    "C12": dict(
        text="Theorems (Lean 4, core only): a generic component with save (exactly the persistent entries), strict load and a view of what step reads; resume_equiv / checkpoint_anywhere: restoring a checkpoint taken after ANY prefix into a same-configuration target yields the uninterrupted run for EVERY continuation; composition of components; instances proved for the C01 ring machine (data + pointer), plain and optional buffers, reducer flags/counter, fold reducers, neurons, synapses, accumulators with pending parts (cache cleared on load), the classifier (derived buffers recomputed by the load hook); shape/key mismatches are rejected; excluded cases (lazy shapes, feedback buffer None vs tensor, pending-part count mismatch) are rejected, never silently accepted; necessity witnesses for D31, D32 and a dropped hook. Tied by key-set introspection of every real state_dict, machine correspondence through save/load, and REAL resume runs: every checkpoint step k of runs of length 8/20, serialised through torch.save/load, restored into fresh / stepped / other-data targets, all outputs and the full state compared with torch.equal.",
        note="Trusted: Lean kernel + standard axioms; hand-written persistence model validated by introspection and correspondence; the state of a target after a REJECTED load is not modelled (torch loads non-atomically).",
        tech="Lean 4 generic resume theorem (load(save s) agrees with s on every field step reads) + real checkpoint/restore differential at every step",
        ref="DESIGN.md §6 C12"),
    "C13": dict(
        text="Theorems (Lean 4, core only): resizing a record from EVERY well-formed ring state keeps the newest min(old,new) observations at the same offsets and fills older new slots with zeros; the size formula max(ceil(duration/dt)+inclusive, 1) over rationals (ceil is the least m with m*dt >= duration) is an invariant over any op sequence in which no setter raised (generic in how the quotient is rounded, so also for the float quotient); temporal setters do not fail on uninitialised storage; the code-shaped machine (setters, reconstrain, push, value := ignored, initialize) refines the newest-first-list specification over all op lists; constraint bookkeeping: valid iff all constraints hold, incompatible add refused without side effect, remove never alters data, edit resizes only the edited dim. Tied by per-op correspondence from every ring state and storage kind, strict/non-strict, positive/negative dims.",
        note="Trusted: Lean kernel + standard axioms; hand-written model of ShapedTensor/RecordTensor resize and constraint helpers validated by correspondence; size formula over exact rationals, IEEE quotient divergences counted in the evidence — partial (float); a non-strict user constraint aliasing the record dim is outside the claimed domain (setter raises after storing dt).",
        tech="Lean 4 refinement and invariants by induction over setter / reconstrain sequences + correspondence with RecordTensor / ShapedTensor",
        ref="DESIGN.md §6 C13"),
    "C14": dict(
        text="Theorems (Lean 4, core only) on a model of the configuration plumbing (BatchMixin, DelayedMixin, RecordReducer, synapse/neuron/connection forwarding, synapse replacement): ANY setter sequence ending in configuration c yields exactly the state (reported getters and sizes of all internal records) of constructing with c (induction over setter lists, per component kind), and assigning one attribute leaves every other reported attribute unchanged (frame); invalid assignments change nothing. Tied by a relational check on the REAL code: setter-built vs freshly constructed neurons, the four synapses, connections (incl. synapse replacement) and reducers — getters, recordsz of every internal RecordTensor, and identical outputs from a cleared state on seeded inputs.",
        note="Trusted: Lean kernel + standard axioms; hand-written configuration model validated by correspondence; the equal-outputs clause is checked on the real code only (the Lean model carries sizes, not record contents).",
        tech="Lean 4 induction over setter sequences (path independence + frame) + relational differential check setter-built vs constructor-built",
        ref="DESIGN.md §6 C14"),
    "C15": dict(
        text="Theorems (Lean 4, core only) on an explicit state machine of layer / cells / shared per-cell monitor map / trainers (cells, pool) / monitors, modelled literally from the repaired code, over every finite op list of the property's alphabet (register_cell, del_cell, add/del_monitor, trainer and layer train/eval, layer step, trainer step, clear, drop-last-reference): a well-formedness invariant (handle consistency, registered iff trainer trains, every alive monitor held by an alive owner) is preserved by all ops; every listed monitor's observation count equals the specification count (+1 per layer step while trainer and layer both train; 0 at creation / after clear) under the hypothesis that no layer step of the history raised; ops addressed to (T, c) leave every field of every other (T', c') monitor unchanged; listings are exact and duplicate-free; no dangling handle. D18 (second trainer on a cell redirects cell.monitors) is stated as an explicit hypothesis with negation witnesses proved by decide, re-observed on the real code every run and printed as KNOWN-FINDING. Tied by random and scripted programs on one or two real trainers over real layers with shared populations, comparing counts, registered flags, hook-list lengths, the three listings and exception classes after every op.",
        note="Trusted: Lean kernel + standard axioms; hand-written lifecycle model validated by correspondence; CPython's collector modelled as 'finalise when the last reference is dropped'. Unproved full statements kept as comments: NoAbort from single registration per cell, group keys are registered cell names, hook-list length = sum of distinct pool sizes. Known finding D18 (key C15:second-trainer-redirects-cell-monitors) is suppressed; any other violation is reported.",
        tech="Lean 4 invariant over operation sequences of a lifecycle state machine + decide-proved negation witnesses + correspondence with real trainers/monitor pools",
        ref="DESIGN.md §6 C15, Appendix G"),
    "C16": dict(
        text="Theorems (Lean 4; Mathlib for the post-conditions): a state machine of one module with any number of hooks (registered, alive, enable flags, pre/post position, ordered handle dictionaries) refines its specification over every finite op list (register, deregister, train/eval, module call, manual StateHook call with force / ignore_mode, flag assignment, object deletion): a hook runs in its position exactly once per module call iff registered, alive and enabled for the current mode; manual-call rule; after deregistration or deletion it never runs again and no handle remains; second registration rejected as the code does; no dangling handle. Post-conditions over the reals for the same generic clamp/normalise definitions the driver runs on floats: min <= clamp x <= max (and one-sided); p-norm of the normalised vector equals |scale| for every real p != 0 when the norm is >= eps (bridged to Mathlib's PiLp norm), zero vectors stay zero. Tied by random programs on real modules with counting probe hooks (call counts, dictionary lengths, exception classes, gc) and by Clamping/Normalization hooks on real tensors.",
        note="Trusted: Lean kernel + standard axioms; hand-written hook machine validated by correspondence; collector modelled as 'finaliser runs when the last reference is dropped' (reference cycles created by user code out of scope); for p < 0 Mathlib reads 0^p as 0 while IEEE gives inf; order of hooks within one position is model-level only.",
        tech="Lean 4 firing-predicate proofs over operation sequences + real-analysis post-conditions (Mathlib PiLp) + correspondence with real hooks",
        ref="DESIGN.md §6 C16"),
    "C17": dict(
        text="Theorems (Lean 4, core only), for arbitrary components (any state type, step and clear): serial layer = neuron(transform(connection(x))); biclique: every group receives pre_i(combine of all post_j(conn_j x_j)), one shared combination; recurrent-serial: the two generic forward passes with stored feedback equal the specification step, the first step sees zero feedback and later steps the previous feedback output (induction over runs); clear yields a layer observationally equivalent to a fresh twin carrying the same parameters, and every continuation after clear reproduces the fresh twin's outputs. Tied to real Serial/Biclique/RecurrentSerial layers by tape replay (what each real component received/returned/was cleared), a manually composed twin (bit-identical outputs), and clear-and-replay at every prefix; output shapes checked on the real layers.",
        note="Trusted: Lean kernel + standard axioms; components are abstract in the theorems (their own contracts are C03-C06); hand-written layer wiring validated by tape replay.",
        tech="Lean 4 wiring equations and replay-after-clear by induction over steps, generic in the components + tape-replay correspondence with real layers",
        ref="DESIGN.md §6 C17"),
    "C18": dict(
        text="Theorems (Lean 4 + Mathlib): the EventReducer fold equals the true time since the last event (induction), hence t_delta = t_post_last - t_pre_last - d, no change before both sides have spiked, causal branch iff t_delta >= 0; DelayAdjustedKernelSTDP with the GENERATED exponential half kernels equals DelayAdjustedSTDP (and the D variants) for all four sign modes and sum/mean; zero delays reduce to the unadjusted kernel form; three-factor variants scale by scalar / per-sample signals. Tied by cross-implementation differentials on the real code (kernel vs dedicated rule, delay 0 vs unadjusted) and code vs the formula from true last-spike times.",
        note="Trusted: Lean kernel + standard axioms; translator for the half kernels; hand-written trainer wiring validated by correspondence; the per-step delay is a model input; post spikes forced through ExactNeuron (so D4 does not interfere).",
        tech="Lean 4 equalities between generated formulas and event-time bookkeeping by induction + cross-implementation differential on the real trainers",
        ref="DESIGN.md §6 C18"),
    "C19": dict(
        text="Theorems (Lean 4) about a model of each encoder's deterministic post-processing with the SAMPLED TENSOR AS A PARAMETER, i.e. for every possible sample sequence (= all generator seeds): output has exactly `steps` rows time-first, rate 0 is silent, a step spikes iff a cumulative interval time falls in it, two spikes of one element are >= refrac/dt steps apart offline and online (induction), Bernoulli probability clamp; the encoder Module constructor/setter state machine keeps frequency*refrac < 1000 under compensation over every setter history. Tied to the code by sample replay (cloned torch.Generator state, same draws) with exact comparison, and by a search over seeds x intensities x steps x dt x frequency x refrac x compensate x online/offline on functional API and Modules.",
        note="Trusted: Lean kernel + standard axioms; hand-written model of the pipeline (cumsum/clamp/long/scatter, count-down) validated by sample replay; the sampler's call pattern (which draws, which shapes, which order) is a recorded assumption re-validated on every case by generator-state equality; sampler statistics are not claimed; float knife-edge cumsum covered by a monotone-rounding lemma.",
        tech="Lean 4 proofs quantified over all sample sequences (induction over intervals / steps) + sample-replay correspondence with the real encoders + configuration search",
        ref="DESIGN.md §6 C19"),
    "C20": dict(
        text="Theorems (Lean 4 + Mathlib): interp/extrap round trips for every shipped pair with the exact guards (and negation witnesses where a guard is necessary), linear interpolation between/at the brackets; Normal pdf = gaussianPDFReal hence integral 1, mean, variance; Poisson pmf = e^-l l^k/k!, sums to 1, mean and variance sums; LogNormal pdf/cdf/params round trips; exp(log-density) = density, logcdf = log cdf; ISI re-integrates to the spike times; Victor-Purpura distance (the code's dynamic programme shown equal to the recurrence) is non-negative, symmetric, bounded, zero on identical trains, and satisfies the triangle inequality for every cost in [0, inf]. Tied to the code by bit-level differential execution of the Float models against the real functions and exhaustive small-raster / small-train enumeration on the real code.",
        note="Trusted: Lean kernel + standard axioms; Mathlib; hand-written Float/Real formula copies kept textually parallel (checked per run) and validated by differential execution; torch erf/lgamma/gammaincc carried as opaque symbols. NOT proved (outside installed Mathlib; numeric exploration only, listed in evidence as numeric_only_subclaims): cdf = integral of pdf for Normal/LogNormal, Poisson cdf = regularised incomplete gamma, LogNormal moments by integration.",
        tech="Lean 4 + Mathlib proofs of algebraic / measure-theoretic identities and metric laws + differential execution of the executable models against the implementation",
        ref="DESIGN.md §6 C20"),
}


# glue added by site extraction (DESIGN §12.2): appended to the level text / note / technique of the property
GLUE = {
    "C02": "The time arithmetic of the select model (range tests, snap-to-grid shift, on-grid test, sample_at) is proved equal (Props/C02Glue.lean) to the expressions REGENERATED from RecordTensor.select on every run.",
    "C05": "The convolution output-size formula of the model (integer floor division) is proved equal (Props/C05Glue.lean), for every positive stride, to the float-division + math.floor expression REGENERATED from Conv2D.__init__ on every run.",
    "C03": "The class wiring executed by the driver (Model/NeuronF.lean: which kernel, time constant, threshold, input, reset rule, adaptation update per class) is proved equal (Props/C03GlueF.lean) to the _integrate_v / forward call sites REGENERATED from the neuron classes on every run.",
    "C01": "Pointer arithmetic: Ring.unwind is proved equal (Props/C13Glue.lean) to _unwind_ptr as REGENERATED from core/infrastructure.py on every run.",
    "C04": "The per-step recurrences of the model are proved equal (Props/C04Glue.lean) to the right-hand sides of self.current / pos_current / neg_current, the delta-plus pulse and the spike_to_current closure REGENERATED from the synapse classes' source on every run (site extraction).",
    "C07": "What each of the twelve reducer classes supplies (fold, interpolate, decay update) is proved equal (Props/C07Glue.lean) to the bodies of its methods REGENERATED from observe/reducers/*.py on every run.",
    "C08": "The routing tables used by the model are proved equal (Props/C09Glue.lean) to the match statements REGENERATED from each trainer's forward on every run.",
    "C09": "Every routing table, match subject, assigned updater attribute and clamp split of Model/Split.lean is proved equal (Props/C09Glue.lean) to Gen/Routes.lean, REGENERATED on every run from the match statements / updater assignments inside each trainer's forward (site extraction).",
    "C13": "The size formula recSize (over rationals and reals) and Synapse.recordsz are proved equal (Props/C13Glue.lean) to the three inline size expressions REGENERATED from RecordTensor's constructor, dt setter and duration setter on every run; the three copies are proved to agree.",
    "C14": "The record-size formula behind every setter is tied to the source by Props/C13Glue.lean (regenerated size expressions).",
    "C18": "t_delta, the exponential terms (which rate / time constant on which branch) and the delay trainers' tables are proved equal (Props/C18Glue.lean, Props/C09Glue.lean) to the expressions REGENERATED from the delay-adjusted and kernel trainers' forward methods on every run.",
    "C19": "The formula-level steps of the rational encoder model (refractory conversion, interval scale, sample*scale+refrac, spike tests, Bernoulli probability) are proved equal on finite values (Props/C19Glue.lean) to the expressions REGENERATED from neural/functional/encoding.py on every run.",
    "C20": "Every distribution formula of Model/DistR.lean is proved equal (Props/C20GlueDist.lean), for every choice of the opaque primitives erf / lgamma / gammaincc / expm1, to the method bodies REGENERATED from stats/distributions.py on every run.",
}


def main():
    props = [json.loads(l) for l in (VERIF / "properties.jsonl").read_text().splitlines() if l.strip()]
    checks, na = [], []
    for p in props:
        pid = p["id"]
        if pid in READY and (VERIF / "harness" / "corr" / f"{pid.lower()}.py").exists():
            r = dict(READY[pid])
            if pid in GLUE:
                r["text"] = r["text"] + " " + GLUE[pid]
                r["note"] = r["note"] + " Site extraction (harness/sites.py) is part of the trusted translator; its output is validated per run against the compiled source expression."
                r["tech"] = r.get("tech", TECH) + " + glue theorems to definitions regenerated from the source (translator / site extraction)"
            checks.append({
                "property_id": pid,
                "quick_cmd": f"./check {pid} --tier quick",
                "thorough_cmd": f"./check {pid} --tier thorough",
                "evidence_file": f"evidence/{pid}.json",
                "replay_cmd_template": f"./check {pid} --replay {{path}}",
                "engine": "lean-proof+correspondence",
                "level_claimed": {"category": "proof", "text": r["text"], "design_ref": r["ref"]},
                "level_note": r["note"],
                "technique": r.get("tech", TECH),
            })
        else:
            na.append({"property_id": pid, "reason": "not claimed (no check built); see DESIGN.md"})
    man = {
        "version": 1,
        "setup_cmd": "cd /verif && harness/setup.sh",
        "hooks": {"guard": "INFERNO_VERIF",
                  "enable": "no source hook is needed: every property is observed through public API; the guard variable is declared but unused",
                  "baseline_off_cmd": "cd /repo && /venv/bin/python -m pytest -ra -q -p no:cacheprovider --timeout=900 --continue-on-collection-errors",
                  "source_commits": [], "add_only": True},
        "engines": [{"name": "lean-proof+correspondence", "path": "check",
                     "serves_properties": [c["property_id"] for c in checks],
                     "kind_free_text": "Lean 4 theorems about executable models (lean/InfernoVerif), tied to /repo on every run by (a) a Python-AST->Lean translator for formula-level code, re-validated by differential execution, and (b) correspondence checks that run hand-written models and the real code on the same operation sequences; verdict logic in harness/runner.py"}],
        "checks": checks,
        "not_applicable": na,
        "notes": "See DESIGN.md. KNOWN_FINDINGS.txt lists recorded findings (printed as KNOWN-FINDING, exit 0) and defects repaired by fix: commits in /repo.",
    }
    (VERIF / "MANIFEST.json").write_text(json.dumps(man, indent=1))
    print("claimed:", [c["property_id"] for c in checks])


if __name__ == "__main__":
    main()
