"""Regenerates /verif/MANIFEST.json from the table below + which corr modules exist.
A property is *claimed* when READY[id] is set; everything else is listed under not_applicable
with the reason it is not claimed yet.   usage: /venv/bin/python harness/manifest_gen.py
"""
import json
from pathlib import Path

VERIF = Path(__file__).resolve().parent.parent

TECH = "Lean 4 machine-checked proof about an executable model + per-run correspondence check (differential execution of model and implementation) and implementation-side failing-input search"

READY = {
    "C01": dict(
        text="Refinement theorem ring_run_refines (Lean 4, core only): for every record size, element type, dtype conversion and EVERY finite operation list, the code-shaped ring machine (pointer + storage, one function per Python branch) produces the outputs of the plain list-of-observations machine; corollaries: in-place = out-of-place, tensor offset = scalar offset, whole-record / wrapping range reads, push-then-read, dtype adoption. Tied to RecordTensor by an after-every-operation correspondence check (exhaustive single steps for n<=4 from every pointer position, seeded random sequences with malformed ops).",
        note="Trusted: Lean kernel + propext/Classical.choice/Quot.sound; hand-written model of torch slicing/cat/roll/gather/scatter validated by correspondence only; integer offsets, align index in [0,n); CPU; int64/float32 dtype classes.",
        tech="Lean 4 refinement proof by induction over operation lists + differential correspondence check against RecordTensor",
        ref="DESIGN.md §6 C01"),
    "C03": dict(
        text="Theorems about the thresholding/integration/adaptation kernels GENERATED from /repo's source on every run (translator): spike iff out-of-refractory and integrated voltage >= threshold, same-step reset, refractory window of max(1, ceil(refrac_t/dt)) steps for EVERY input sequence / threshold sequence / voltage dynamics (induction), 0 <= refrac <= refrac_t invariant, spike attribute == output for refrac_t > 0 (negation witness for refrac_t = 0: known finding D4). Class wiring of the 8 neuron models tied by per-step correspondence; real trajectories judged against an independent contract oracle.",
        note="Trusted: Lean kernel + standard axioms; translator (validated per run by differential execution of the Float copies vs the Python originals); hand-written class wiring validated by correspondence; theorems over exact reals — float rounding that changes a discrete outcome is partial (float); adaptive classes compared at batch size 1.",
        tech="Lean 4 proofs (induction over trajectories) about definitions regenerated from the Python AST + translator validation + per-step correspondence of the class wiring + contract search",
        ref="DESIGN.md §6 C03"),
    "C04": dict(
        text="Theorems (Lean 4 + Mathlib, over the reals, for EVERY spike train and injected-current sequence): the per-step recurrences of the four synapse classes equal the closed-form impulse-response sums (Q/dt pulse; plus injected current; Q/tau*exp(-(n-k)dt/tau); difference of exponentials), the spike record equals the input, a read at k steps of delay returns the value of step n-k (zero before the start — from the ring-buffer theorem pushes_then_read of C01), off-grid reads are the synapse's interpolation of the two bracketing steps, selectors beyond the supported delay give the overbound value (the value at the limit when none), in-place = out-of-place, clear restores the initial state. Tied to the four real classes by per-step correspondence (current, spike, current_at, spike_at) against the executable model and the independently computed closed forms.",
        note="Trusted: Lean kernel + standard axioms; hand-written model of the recurrences and of _synparam_at (on top of the C01 ring and C02 select models) validated by correspondence; dyadic dt/charges/delays so grid and range decisions are exact, exp compared at 1e-9; tolerance >= 0; per-element model (C11 covers batch independence).",
        tech="Lean 4 proofs by induction over spike trains (recurrence = closed-form sum; delayed read = ring-buffer history) + per-step correspondence with the real synapse classes",
        ref="DESIGN.md §6 C04"),
    "C19": dict(
        text="Theorems (Lean 4) about a model of each encoder's deterministic post-processing with the SAMPLED TENSOR AS A PARAMETER, i.e. for every possible sample sequence (= all generator seeds): output has exactly `steps` rows time-first, rate 0 is silent, a step spikes iff a cumulative interval time falls in it, two spikes of one element are >= refrac/dt steps apart offline and online (induction), Bernoulli probability clamp; the encoder Module constructor/setter state machine keeps frequency*refrac < 1000 under compensation over every setter history. Tied to the code by sample replay (cloned torch.Generator state, same draws) with exact comparison, and by a search over seeds x intensities x steps x dt x frequency x refrac x compensate x online/offline on functional API and Modules.",
        note="Trusted: Lean kernel + standard axioms; hand-written model of the pipeline (cumsum/clamp/long/scatter, count-down) validated by sample replay; the sampler's call pattern (which draws, which shapes, which order) is a recorded assumption re-validated on every case by generator-state equality; sampler statistics are not claimed; float knife-edge cumsum covered by a monotone-rounding lemma.",
        tech="Lean 4 proofs quantified over all sample sequences (induction over intervals / steps) + sample-replay correspondence with the real encoders + configuration search",
        ref="DESIGN.md §6 C19"),
    "C20": dict(
        text="Theorems (Lean 4 + Mathlib): interp/extrap round trips for every shipped pair with the exact guards (and negation witnesses where a guard is necessary), linear interpolation between/at the brackets; Normal pdf = gaussianPDFReal hence integral 1, mean, variance; Poisson pmf = e^-l l^k/k!, sums to 1, mean and variance sums; LogNormal pdf/cdf/params round trips; exp(log-density) = density, logcdf = log cdf; ISI re-integrates to the spike times; Victor-Purpura distance (the code's dynamic programme shown equal to the recurrence) is non-negative, symmetric, bounded, zero on identical trains, and satisfies the triangle inequality for every cost in [0, inf]. Tied to the code by bit-level differential execution of the Float models against the real functions and exhaustive small-raster / small-train enumeration on the real code.",
        note="Trusted: Lean kernel + standard axioms; Mathlib; hand-written Float/Real formula copies kept textually parallel (checked per run) and validated by differential execution; torch erf/lgamma/gammaincc carried as opaque symbols. NOT proved (outside installed Mathlib; numeric exploration only, listed in evidence as numeric_only_subclaims): cdf = integral of pdf for Normal/LogNormal, Poisson cdf = regularised incomplete gamma, LogNormal moments by integration.",
        tech="Lean 4 + Mathlib proofs of algebraic / measure-theoretic identities and metric laws + differential execution of the executable models against the implementation",
        ref="DESIGN.md §6 C20"),
}


def main():
    props = [json.loads(l) for l in (VERIF / "properties.jsonl").read_text().splitlines() if l.strip()]
    checks, na = [], []
    for p in props:
        pid = p["id"]
        if pid in READY and (VERIF / "harness" / "corr" / f"{pid.lower()}.py").exists():
            r = READY[pid]
            checks.append({
                "property_id": pid,
                "quick_cmd": f"./check {pid} --tier quick",
                "thorough_cmd": f"./check {pid} --tier thorough",
                "evidence_file": f"evidence/{pid}.json",
                "replay_cmd_template": f"./check {pid} --replay {{path}}",
                "engine": "lean-proof+correspondence",
                "level_claimed": {"category": "proof", "text": r["text"], "design_ref": r["ref"]},
                "level_note": r["note"],
                "technique": r.get("tech", TECH),
            })
        else:
            na.append({"property_id": pid, "reason": "check under construction in this session (not yet claimed); see DESIGN.md §6 for the plan"})
    man = {
        "version": 1,
        "setup_cmd": "cd /verif && harness/setup.sh",
        "hooks": {"guard": "INFERNO_VERIF",
                  "enable": "no source hook is needed: every property is observed through public API; the guard variable is declared but unused",
                  "baseline_off_cmd": "cd /repo && /venv/bin/python -m pytest -ra -q -p no:cacheprovider --timeout=900 --continue-on-collection-errors",
                  "source_commits": [], "add_only": True},
        "engines": [{"name": "lean-proof+correspondence", "path": "check",
                     "serves_properties": [c["property_id"] for c in checks],
                     "kind_free_text": "Lean 4 theorems about executable models (lean/InfernoVerif), tied to /repo on every run by (a) a Python-AST->Lean translator for formula-level code, re-validated by differential execution, and (b) correspondence checks that run hand-written models and the real code on the same operation sequences; verdict logic in harness/runner.py"}],
        "checks": checks,
        "not_applicable": na,
        "notes": "See DESIGN.md. KNOWN_FINDINGS.txt lists recorded findings (printed as KNOWN-FINDING, exit 0) and defects repaired by fix: commits in /repo.",
    }
    (VERIF / "MANIFEST.json").write_text(json.dumps(man, indent=1))
    print("claimed:", [c["property_id"] for c in checks])


if __name__ == "__main__":
    main()
