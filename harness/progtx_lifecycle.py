"""Statement-level translator, monitor pool and trainer bookkeeping (DESIGN §12.5, property C15):
`inferno/observe/pooling.py` — `Observable.monitors`, `Observable.add_monitor`, `MonitorPool.monitors`,
`named_monitors`, `pool`, `add_observed`, `get_observed`, `del_observed`, `add_monitor`, `get_monitor`,
`del_monitor` — and `inferno/learn/base.py` — `CellTrainer.monitors`, `named_monitors`, `cells`, `named_cells`,
`add_cell`, `del_cell`, `add_monitor`, `get_monitor`, `del_monitor`, `train`, `clear`, `update` — → Lean programs
over the worlds `LW` / `OW` (`Gen/LifecyclePrelude.lean`), regenerated on every run as `Gen/LifecycleProg.lean`
(core Lean only).

What is kept from the source, statement by statement and in SOURCE ORDER: every membership test with the
exception class it guards (`ValueError`, `RuntimeError`, `AttributeError`, `KeyError`), the `rgetitem` lookup and
the `unique` / "return the existing monitor" cascade of `MonitorPool.add_monitor`, the `None if unique else
self.pool` argument, the body of `Observable.add_monitor` (realignment, the `not pool` path, `tags | {"_attr":
attr}`, the alias loop with its two `continue`s — dead or foreign basis, missing name —, the `_tags` comparison,
the `break` on the observable itself, the alias / construct-and-tag tail, the write to `self.__monitors`), the
deregistration when the pool is not training, the creation of the group and the insertion, the `shared` set and
the loop of `del_observed`, the `any(… is target …)` test and the empty-group removal of `del_monitor`, the order
`del_observed` → `aux_states_` → `cells_` → `add_observed` of `add_cell`, the loops of `train` / `clear` over the
pool's `monitors`, and the comprehensions of the listing properties (`unique(chain.from_iterable(…))`, the nested
generators of `named_monitors`, the filtered generator + dictionary copy of `pool`).

Translation rules beyond `progtx.Tx` (anything else raises `TranslateError` naming the node):
* dictionaries (`dict`, `nn.ModuleDict`, `WeakValueDictionary`) are association lists; `k in d`, `d[k]`,
  `d[k] = v`, `del d[k]`, `d[a][b] = v`, `del d[a][b]`, `.values()`, `.items()`, `len` are prelude functions that
  raise `KeyError` like the real ones;
* a generator / set comprehension becomes `filter` / `map` / `flatMap` over lists, evaluated where it is created
  (a loop over a generator must not assign to an attribute or delete — checked); an element expression that may
  raise makes it a `mapE`; loop targets `a, b` are projections `.1` / `.2` of one bound variable;
* `for` loops are `foldlM` over the carried locals (and `self` when the body calls anything); `continue` / `break`
  are leaves of the body returning the carry with a `brk_` flag tested first in every iteration;
* an `if` one of whose branches returns / continues / breaks while another falls through gets the rest of the
  block as the continuation of each branch that falls through (the text of the rest is repeated);
* `if x:` on an optional object (`Monitor | None`, the `pool` argument) is a `match` refining `x`; a `Monitor`,
  an updater and a generator are truthy (no `__bool__` / `__len__`);
* a call of another translated method is a call of its generated definition on the same world
  (`self.monitor_pool_.m(…)` → `MonitorPool_m self …`; a method of an observable → `viaObs`); a translated
  property or a method marked `pure` (its body is checked to be statements without assignment to attributes) may be
  read inside an expression, any other call only as a statement, as the whole right-hand side of an assignment or
  as the whole returned value;
* decisions instead of user code: `updater(**kwargs)` appends the updater to the returned list of calls;
  `return self` returns `()`.
Vocabulary standing for code outside the two classes (documented in the prelude): `self.realign_attribute`,
`constructor(attr, basis)`, `monitor.register()` / `.deregister()` / `.clear()`, `Module.train`, `cell.updater`.

`Props/C15GlueProg.lean` proves the generated programs equal to the operations of `Model/Lifecycle.lean :: step`.
"""
from __future__ import annotations

import ast
import hashlib
import json

import progtx
from progtx import Tx
from translate import GEN, REPO, TranslateError, lname

SRC_POOL = "inferno/observe/pooling.py"
SRC_BASE = "inferno/learn/base.py"

# ------------------------------------------------------------------------------------------------ kinds
# atoms; composite kinds are tuples ("opt", k) ("list", k) ("dict", k) ("pair", k1, k2); "none" = the constant None
ATOMS = {"name": "Nat", "mon": "Nat", "obs": "Nat", "aux": "Nat", "updater": "Nat", "nat": "Nat", "tags": "Nat",
         "layer": "Nat", "fulltags": "Nat × Path", "bool": "Bool", "unit": "Unit", "attrsel": "AttrSel", "path": "Path",
         "ctor": "Ctor"}
MONDICT = ("dict", "mon")
GROUPS = ("dict", MONDICT)
OBSDICT = ("dict", "obs")
AUXDICT = ("dict", "aux")
POOL = ("list", ("pair", "obs", MONDICT))
OPTSEQ = ("optseq",)                   # Sequence[str] | None
OBJECTS = ("mon", "obs", "updater", "aux")      # truthy objects compared by identity


def ty(k) -> str:
    if k == OPTSEQ:
        return "Option (List Nat)"
    if isinstance(k, tuple):
        if k[0] == "opt":
            return f"Option {aty(k[1])}"
        if k[0] == "list":
            return f"List {aty(k[1])}"
        if k[0] == "dict":
            return f"List (Nat × {aty(k[1])})"
        if k[0] == "pair":
            return f"{aty(k[1])} × {aty(k[2])}"
    return ATOMS[k]


def aty(k) -> str:
    t = ty(k)
    return f"({t})" if " " in t else t


# functions, in emission order (callees first).  key = name of the generated definition.  `decorator` picks a
# property getter; `state` = world type; `kwarg` = (name, kind) of a translated `**name` parameter;
# `passthrough` = a `**kwargs` only handed on; `pure` = may be read inside expressions (checked)
METHODS = {
    "Observable_monitors": {"src": SRC_POOL, "cls": "Observable", "py": "monitors", "decorator": "property",
                            "state": "OW", "params": {}, "ret": MONDICT, "pure": True},
    "Observable_add_monitor": {"src": SRC_POOL, "cls": "Observable", "py": "add_monitor", "state": "OW",
                               "params": {"name": "name", "attr": "attrsel", "constructor": "ctor",
                                          "pool": ("opt", POOL)},
                               "kwarg": ("tags", "tags"), "ret": "mon", "locals": {"found": ("opt", "mon")}},
    "MonitorPool_monitors": {"src": SRC_POOL, "cls": "MonitorPool", "py": "monitors", "decorator": "property",
                             "state": "LW", "params": {}, "ret": ("list", "mon"), "pure": True},
    "MonitorPool_named_monitors": {"src": SRC_POOL, "cls": "MonitorPool", "py": "named_monitors",
                                   "decorator": "property", "state": "LW", "params": {},
                                   "ret": ("list", ("pair", ("pair", "name", "name"), "mon")), "pure": True},
    "MonitorPool_pool": {"src": SRC_POOL, "cls": "MonitorPool", "py": "pool", "decorator": "property",
                         "state": "LW", "params": {}, "ret": POOL, "pure": True},
    "MonitorPool_add_observed": {"src": SRC_POOL, "cls": "MonitorPool", "py": "add_observed", "state": "LW",
                                 "params": {"name": "name", "value": "obs"}, "ret": "obs"},
    "MonitorPool_get_observed": {"src": SRC_POOL, "cls": "MonitorPool", "py": "get_observed", "state": "LW",
                                 "params": {"name": "name"}, "ret": "obs", "pure": True},
    "MonitorPool_del_observed": {"src": SRC_POOL, "cls": "MonitorPool", "py": "del_observed", "state": "LW",
                                 "params": {"name": "name"}, "ret": "unit"},
    "MonitorPool_add_monitor": {"src": SRC_POOL, "cls": "MonitorPool", "py": "add_monitor", "state": "LW",
                                "params": {"observed": "name", "name": "name", "attr": "attrsel",
                                           "constructor": "ctor", "unique": "bool"},
                                "kwarg": ("tags", "tags"), "ret": "mon"},
    "MonitorPool_get_monitor": {"src": SRC_POOL, "cls": "MonitorPool", "py": "get_monitor", "state": "LW",
                                "params": {"observed": "name", "monitor": "name"}, "ret": ("opt", "mon"),
                                "pure": True},
    "MonitorPool_del_monitor": {"src": SRC_POOL, "cls": "MonitorPool", "py": "del_monitor", "state": "LW",
                                "params": {"observed": "name", "monitor": "name"}, "ret": "unit"},
    "CellTrainer_monitors": {"src": SRC_BASE, "cls": "CellTrainer", "py": "monitors", "decorator": "property",
                             "state": "LW", "params": {}, "ret": ("list", "mon"), "pure": True},
    "CellTrainer_named_monitors": {"src": SRC_BASE, "cls": "CellTrainer", "py": "named_monitors",
                                   "decorator": "property", "state": "LW", "params": {},
                                   "ret": ("list", ("pair", ("pair", "name", "name"), "mon")), "pure": True},
    "CellTrainer_cells": {"src": SRC_BASE, "cls": "CellTrainer", "py": "cells", "decorator": "property",
                          "state": "LW", "params": {}, "ret": ("list", ("pair", "obs", ("opt", "aux"))),
                          "pure": True},
    "CellTrainer_named_cells": {"src": SRC_BASE, "cls": "CellTrainer", "py": "named_cells", "decorator": "property",
                                "state": "LW", "params": {},
                                "ret": ("list", ("pair", "name", ("pair", "obs", ("opt", "aux")))), "pure": True},
    "CellTrainer_add_cell": {"src": SRC_BASE, "cls": "CellTrainer", "py": "add_cell", "state": "LW",
                             "params": {"name": "name", "cell": "obs", "state": ("opt", "aux"), "params": OPTSEQ},
                             "ret": ("pair", "obs", ("opt", "aux"))},
    "CellTrainer_del_cell": {"src": SRC_BASE, "cls": "CellTrainer", "py": "del_cell", "state": "LW",
                             "params": {"name": "name"}, "ret": "unit"},
    "CellTrainer_add_monitor": {"src": SRC_BASE, "cls": "CellTrainer", "py": "add_monitor", "state": "LW",
                                "params": {"cell": "name", "name": "name", "attr": "attrsel", "monitor": "ctor",
                                           "unique": "bool"},
                                "kwarg": ("tags", "tags"), "ret": "mon"},
    "CellTrainer_get_monitor": {"src": SRC_BASE, "cls": "CellTrainer", "py": "get_monitor", "state": "LW",
                                "params": {"cell": "name", "name": "name"}, "ret": ("opt", "mon"), "pure": True},
    "CellTrainer_del_monitor": {"src": SRC_BASE, "cls": "CellTrainer", "py": "del_monitor", "state": "LW",
                                "params": {"cell": "name", "name": "name"}, "ret": "unit"},
    "CellTrainer_train": {"src": SRC_BASE, "cls": "CellTrainer", "py": "train", "state": "LW",
                          "params": {"mode": "bool"}, "ret": "unit"},
    "CellTrainer_clear": {"src": SRC_BASE, "cls": "CellTrainer", "py": "clear", "state": "LW", "params": {},
                          "passthrough": "kwargs", "ret": "unit"},
    "CellTrainer_update": {"src": SRC_BASE, "cls": "CellTrainer", "py": "update", "state": "LW", "params": {},
                           "passthrough": "kwargs", "ret": ("list", "updater"), "calls": True},
}

# containers of `self`: class -> attribute -> (field of the world, kind)
FIELDS = {
    "MonitorPool": {"monitors_": ("monitors_", GROUPS), "observed_": ("observed_", OBSDICT),
                    "training": ("poolTraining", "bool")},
    "CellTrainer": {"cells_": ("cells_", OBSDICT), "aux_states_": ("aux_states_", AUXDICT)},
    "Observable": {},
}
WRITABLE = {"monitors_", "observed_", "cells_", "aux_states_"}
VOCAB_METHODS = {"Observable": {"realign_attribute"}}     # methods that stay prelude vocabulary
CALLS = "updater_calls"          # pseudo-local of a method with `calls`: the updaters called so far
BRK = "brk_"

HEADER = """import InfernoVerif.Gen.LifecyclePrelude
/-! GENERATED by harness/progtx_lifecycle.py from inferno/observe/pooling.py (classes `Observable`, `MonitorPool`)
and inferno/learn/base.py (class `CellTrainer`) — do not edit.
Whole bodies as programs over the worlds `LW` (a trainer and its monitor pool) / `OW` (an observable); an
exception carries the world at the raise.  Vocabulary: Gen/LifecyclePrelude.lean. -/
set_option linter.unusedVariables false
namespace InfernoVerif.Gen.LifecycleProg
open InfernoVerif.Lifecycle InfernoVerif.Gen.LifecyclePrelude
"""


def is_getter(f: ast.FunctionDef) -> bool:
    return [ast.unparse(d) for d in f.decorator_list] == ["property"]


class LifeTx(Tx):
    SRC = SRC_POOL               # per instance: the source file of the function being translated
    CLS = "MonitorPool"          # per instance: its class
    METHODS = METHODS
    LEAN_TY = ATOMS
    STATE_TY = "LW"
    DROPPED_PARAMS: set = set()
    OUT = "LifecycleProg.lean"
    NAMESPACE = "InfernoVerif.Gen.LifecycleProg"
    HEADER = HEADER

    def __init__(self, name: str, fdef: ast.FunctionDef, sigs: dict):
        super().__init__(name, fdef, sigs)
        self.CLS = self.spec["cls"]
        self.SRC = self.spec["src"]
        self.STATE_TY = self.spec["state"]
        self.loops: list[dict] = []

    def err(self, node, msg):
        where = f"{self.SRC}::{self.CLS}.{self.spec['py']}:{getattr(node, 'lineno', '?')}"
        raise TranslateError(where, f"{msg}: {ast.unparse(node)[:140] if isinstance(node, ast.AST) else node}")

    @property
    def monad(self) -> str:
        return f"Except (Err × {self.STATE_TY})"

    def tmp(self, stem="r") -> str:
        self.fresh += 1
        return f"{stem}{self.fresh}_"

    # ------------------------------------------------------------------ name resolution
    def self_attr(self, n) -> str | None:
        if isinstance(n, ast.Attribute) and isinstance(n.value, ast.Name) and n.value.id == "self":
            return n.attr
        return None

    def method_key(self, cls: str, py: str, getter: bool) -> str | None:
        for key, spec in self.METHODS.items():
            if spec["cls"] == cls and spec["py"] == py and (spec.get("decorator") == "property") == getter:
                return key
        return None

    def receiver_class(self, n, env) -> str | None:
        """class of the object an expression denotes, when a method / property of it is used"""
        if isinstance(n, ast.Name) and n.id == "self":
            return self.CLS
        if self.self_attr(n) == "monitor_pool_" and self.CLS == "CellTrainer":
            return "MonitorPool"
        return None

    # ------------------------------------------------------------------ expressions
    def pure_ex(self, n, env):
        v, k = self.ex(n, env)
        if "←" in v:
            self.err(n, "this position needs an expression that cannot raise")
        return v, k

    def ex(self, n, env):
        if isinstance(n, ast.Constant):
            if n.value is None:
                return "none", "none"
            if isinstance(n.value, bool):
                return ("true" if n.value else "false"), "bool"
            self.err(n, "unsupported constant")
        if isinstance(n, ast.Name):
            if n.id == "self":
                if self.CLS == "Observable":
                    return "self.me", "obs"
                self.err(n, "`self` used as a value")
            if n.id not in env:
                self.err(n, "unknown name")
            return env[n.id]
        if isinstance(n, ast.Attribute):
            return self.attribute(n, env)
        if isinstance(n, ast.Tuple) and len(n.elts) == 2 and not any(isinstance(e, ast.Starred) for e in n.elts):
            a, ka = self.ex(n.elts[0], env)
            b, kb = self.ex(n.elts[1], env)
            return f"({a}, {b})", ("pair", ka, kb)
        if isinstance(n, ast.UnaryOp) and isinstance(n.op, ast.Not):
            return f"(!{self.truth(n.operand, env)})", "bool"
        if isinstance(n, ast.BoolOp):
            return self.boolop(n, env)
        if isinstance(n, ast.BinOp) and isinstance(n.op, ast.BitOr):
            a, ka = self.ex(n.left, env)
            r = n.right
            if ka == "tags" and isinstance(r, ast.Dict) and len(r.keys) == 1 and isinstance(r.keys[0], ast.Constant) \
                    and r.keys[0].value == "_attr":
                b, kb = self.ex(r.values[0], env)
                if kb == "path":
                    return f"(tags_with_attr {a} {b})", "fulltags"
            self.err(n, "unsupported dictionary union")
        if isinstance(n, ast.Compare) and len(n.ops) == 1:
            return self.compare(n, env)
        if isinstance(n, ast.IfExp):
            return self.ifexp(n, env)
        if isinstance(n, ast.Subscript):
            return self.subscript(n, env)
        if isinstance(n, ast.Call):
            return self.call(n, env)
        if isinstance(n, (ast.GeneratorExp, ast.SetComp)):
            return self.comprehension(n.generators, n.elt, env)
        if isinstance(n, ast.DictComp):
            # {k: v for k, v in d.items()}  — a shallow copy
            g = n.generators
            if len(g) == 1 and not g[0].ifs and isinstance(g[0].target, ast.Tuple) and len(g[0].target.elts) == 2 \
                    and all(isinstance(e, ast.Name) for e in g[0].target.elts) \
                    and isinstance(n.key, ast.Name) and isinstance(n.value, ast.Name) \
                    and [n.key.id, n.value.id] == [e.id for e in g[0].target.elts] and n.key.id != n.value.id \
                    and isinstance(g[0].iter, ast.Call) and isinstance(g[0].iter.func, ast.Attribute) \
                    and g[0].iter.func.attr == "items" and not g[0].iter.args and not g[0].iter.keywords:
                d, kd = self.ex(g[0].iter.func.value, env)
                if isinstance(kd, tuple) and kd[0] == "dict":
                    return f"(dict_copy {d})", kd
            self.err(n, "unsupported dictionary comprehension")
        self.err(n, "unsupported expression")

    def attribute(self, n: ast.Attribute, env):
        a = self.self_attr(n)
        if a is not None:
            if a in FIELDS[self.CLS]:
                fld, kind = FIELDS[self.CLS][a]
                return f"self.{fld}", kind
            if a == "__monitors" and self.CLS == "Observable":
                return "(Observable___monitors self)", MONDICT
            if a == "monitor_pool_" and self.CLS == "CellTrainer":
                self.err(n, "the pool used as a value")
        # a translated property of self / of the pool
        cls = self.receiver_class(n.value, env)
        if cls is not None:
            self.check_unique_def(n, cls, n.attr)
            key = self.method_key(cls, n.attr, getter=True)
            if key is None:
                self.err(n, f"{cls}.{n.attr} is not a translated property")
            if self.METHODS[key]["state"] != self.STATE_TY:
                self.err(n, "property of an object in another world")
            return f"(← {key} self).2", self.METHODS[key]["ret"]
        if n.attr == "updater":
            v, k = self.ex(n.value, env)
            if k == "obs" and self.STATE_TY == "LW":
                return f"(Cell_updater self {v})", ("opt", "updater")
        self.err(n, "unsupported attribute")

    def check_unique_def(self, node, cls: str, attr: str):
        """`attr` must be defined exactly as the located functions say: a property and a plain method of the same
        name, or an attribute of a base class, would change what the expression means"""
        cdef = self.CLASSES[cls]
        defs = [f for f in cdef.body if isinstance(f, ast.FunctionDef) and f.name == attr]
        if not defs:
            self.err(node, f"{cls}.{attr} is not defined in the class body")
        kinds = {tuple(ast.unparse(d) for d in f.decorator_list) for f in defs}
        if len(defs) != 1 or not kinds <= {(), ("property",)}:
            self.err(node, f"{cls}.{attr} has {len(defs)} definitions / unsupported decorators")

    def truth(self, n, env) -> str:
        """Python truth value of an expression in a condition"""
        v, k = self.ex(n, env)
        if k == "bool":
            return v
        if isinstance(k, tuple) and k[0] == "opt" and (k[1] in OBJECTS or k[1] == POOL):
            return f"{v}.isSome"            # a Module / a generator defines no __bool__ / __len__: truthy unless None
        if k == OPTSEQ:
            return f"(optseq_truthy {v})"
        if k == "nat":
            return f"(decide ({v} ≠ 0))"
        self.err(n, f"truth value of kind {k}")

    def boolop(self, n: ast.BoolOp, env):
        # hasattr(X, "_tags") and X._tags == T
        if isinstance(n.op, ast.And) and len(n.values) == 2 and self.STATE_TY == "OW":
            a, b = n.values
            if isinstance(a, ast.Call) and ast.unparse(a.func) == "hasattr" and len(a.args) == 2 \
                    and isinstance(a.args[1], ast.Constant) and a.args[1].value == "_tags" \
                    and isinstance(b, ast.Compare) and len(b.ops) == 1 and isinstance(b.ops[0], ast.Eq) \
                    and isinstance(b.left, ast.Attribute) and b.left.attr == "_tags" \
                    and ast.unparse(b.left.value) == ast.unparse(a.args[0]):
                m, km = self.ex(a.args[0], env)
                t, kt = self.pure_ex(b.comparators[0], env)
                if km == "mon" and kt == "fulltags":
                    return f"(Monitor_tags_eq self {m} {t})", "bool"
        parts = [self.truth(x, env) for x in n.values]
        if any("←" in p for p in parts[1:]):
            self.err(n, "operand after the first of and/or is not pure (short-circuit would be lost)")
        return "(" + (" && " if isinstance(n.op, ast.And) else " || ").join(parts) + ")", "bool"

    def compare(self, n: ast.Compare, env):
        op, rhs = n.ops[0], n.comparators[0]
        if isinstance(op, (ast.In, ast.NotIn)):
            x, kx = self.ex(n.left, env)
            d, kd = self.ex(rhs, env)
            neg = "!" if isinstance(op, ast.NotIn) else ""
            if isinstance(kd, tuple) and kd[0] == "dict" and kx == "name":
                return f"({neg}dict_contains {d} {x})", "bool"
            if isinstance(kd, tuple) and kd[0] == "list" and kd[1] == kx and kx in OBJECTS:
                return f"({neg}set_contains {d} {x})", "bool"
            self.err(n, f"membership of kind {kx} in kind {kd}")
        a, ka = self.ex(n.left, env)
        b, kb = self.ex(rhs, env)
        if isinstance(op, (ast.Is, ast.IsNot)):
            if kb == "none" and isinstance(ka, tuple) and ka[0] == "opt":
                return (f"{a}.isNone" if isinstance(op, ast.Is) else f"{a}.isSome"), "bool"
            if ka == kb and (ka in OBJECTS or (isinstance(ka, tuple) and ka[0] == "opt" and ka[1] == "layer")):
                return f"(decide ({a} {'=' if isinstance(op, ast.Is) else '≠'} {b}))", "bool"
            self.err(n, f"identity comparison on kinds {ka}, {kb}")
        if isinstance(op, (ast.Eq, ast.NotEq)) and ka == kb and (ka == "name" or ka in OBJECTS):
            # names are strings; objects only through id(…) (the kind of `id(x)` is the kind of `x`)
            if ka in OBJECTS and not (self.is_id(n.left) and self.is_id(rhs)):
                self.err(n, "== on objects")
            return f"(decide ({a} {'=' if isinstance(op, ast.Eq) else '≠'} {b}))", "bool"
        self.err(n, f"unsupported comparison on kinds {ka}, {kb}")

    def is_id(self, n) -> bool:
        return isinstance(n, ast.Call) and isinstance(n.func, ast.Name) and n.func.id == "id"

    def ifexp(self, n: ast.IfExp, env):
        c = self.truth(n.test, env)
        if "←" in c:
            self.err(n, "condition of a conditional expression is not pure")
        a, ka = self.ex(n.body, env)
        b, kb = self.ex(n.orelse, env)
        if ka == "none" and kb != "none":
            k = ("opt", kb)
            a, b = "none", f"(some {b})"
        elif kb == "none" and ka != "none":
            k = ("opt", ka)
            a, b = f"(some {a})", "none"
        else:
            self.err(n, "unsupported conditional expression")
        if "←" not in a + b:
            return f"(if {c} then {a} else {b})", k
        return f"(← (do if {c} then pure {a} else pure {b} : {self.monad} _))", k

    def subscript(self, n: ast.Subscript, env):
        v, k = self.ex(n.value, env)
        if isinstance(k, tuple) and k[0] == "dict":
            i, ki = self.ex(n.slice, env)
            if ki == "name":
                return f"(← dict_getitem self {v} {i})", k[1]
        if isinstance(k, tuple) and k[0] == "pair" and isinstance(n.slice, ast.Constant) and n.slice.value in (0, 1):
            return f"{v}.{n.slice.value + 1}", k[1 + n.slice.value]
        self.err(n, f"unsupported subscript on kind {k}")

    def comprehension(self, gens, elt, env):
        """`elt for T1 in I1 if C1 for T2 in I2 …` -> filter / map / flatMap (mapE when `elt` may raise)"""
        g, rest = gens[0], gens[1:]
        if g.is_async:
            self.err(g.iter, "async comprehension")
        it, kit = self.ex(g.iter, env)
        if not (isinstance(kit, tuple) and kit[0] == "list"):
            self.err(g.iter, f"comprehension over kind {kit}")
        var = self.tmp("e")
        env2 = self.bind_target(g.target, var, kit[1], env)
        src = it
        for c in g.ifs:
            cv = self.truth(c, env2)
            if "←" in cv:
                self.err(c, "filter of a comprehension is not pure")
            src = f"({src}.filter (fun {var} => {cv}))"
        if rest:
            inner, kin = self.comprehension(rest, elt, env2)
            if "←" in inner:
                self.err(elt, "nested comprehension whose element may raise")
            return f"({src}.flatMap (fun {var} => {inner}))", kin
        e, ke = self.ex(elt, env2)
        if "←" in e:
            return f"(← mapE (fun {var} => (do pure {e} : {self.monad} _)) {src})", ("list", ke)
        return f"({src}.map (fun {var} => {e}))", ("list", ke)

    def bind_target(self, target, var: str, kind, env) -> dict:
        env2 = dict(env)
        if isinstance(target, ast.Name):
            env2[target.id] = (var, kind)
            return env2
        if isinstance(target, ast.Tuple) and len(target.elts) == 2 and all(isinstance(e, ast.Name) for e in target.elts) \
                and isinstance(kind, tuple) and kind[0] == "pair":
            env2[target.elts[0].id] = (f"{var}.1", kind[1])
            env2[target.elts[1].id] = (f"{var}.2", kind[2])
            return env2
        self.err(target, f"unsupported loop target for elements of kind {kind}")

    def lambda1(self, n, env, kind):
        """`lambda x: body` applied to elements of `kind` -> (lean function text, kind of the body)"""
        if not (isinstance(n, ast.Lambda) and len(n.args.args) == 1 and not n.args.vararg and not n.args.kwarg
                and not n.args.kwonlyargs and not n.args.defaults and not n.args.posonlyargs):
            self.err(n, "unsupported function argument")
        var = self.tmp("x")
        env2 = dict(env)
        env2[n.args.args[0].arg] = (var, kind)
        body, kb = self.pure_ex(n.body, env2)
        return f"(fun {var} => {body})", kb

    def call(self, n: ast.Call, env):
        f = n.func
        ftxt = ast.unparse(f)
        nokw = not n.keywords
        if ftxt == "id" and len(n.args) == 1 and nokw:
            v, k = self.ex(n.args[0], env)
            if k in OBJECTS:
                return f"(id {v})", k
        if ftxt == "len" and len(n.args) == 1 and nokw:
            v, k = self.ex(n.args[0], env)
            if isinstance(k, tuple) and k[0] in ("dict", "list"):
                return f"{v}.length", "nat"
        if ftxt == "rgetitem" and len(n.args) == 3 and nokw and isinstance(n.args[1], ast.Tuple) \
                and len(n.args[1].elts) == 2 and isinstance(n.args[2], ast.Constant) and n.args[2].value is None:
            d, kd = self.ex(n.args[0], env)
            a, ka = self.pure_ex(n.args[1].elts[0], env)
            b, kb = self.pure_ex(n.args[1].elts[1], env)
            if isinstance(kd, tuple) and kd[0] == "dict" and isinstance(kd[1], tuple) and kd[1][0] == "dict" \
                    and ka == "name" and kb == "name":
                return f"(rgetitem2 {d} {a} {b})", ("opt", kd[1][1])
        if ftxt == "getitem" and len(n.args) in (2, 3) and nokw:
            d, kd = self.ex(n.args[0], env)
            a, ka = self.pure_ex(n.args[1], env)
            if isinstance(kd, tuple) and kd[0] == "dict" and ka == "name":
                if len(n.args) == 2:
                    return f"(← getitem self {d} {a})", kd[1]
                if isinstance(n.args[2], ast.Constant) and n.args[2].value is None:
                    return f"(dict_get {d} {a})", ("opt", kd[1])
        if ftxt == "getattr" and len(n.args) == 3 and nokw and isinstance(n.args[2], ast.Constant) \
                and n.args[2].value is None:
            d, kd = self.ex(n.args[0], env)
            a, ka = self.pure_ex(n.args[1], env)
            if kd == AUXDICT and ka == "name":          # a ModuleDict: its entries are its submodules
                return f"(ModuleDict_getattr {d} {a})", ("opt", kd[1])
        if ftxt == "hasattr" and len(n.args) == 2 and nokw:
            u, ku = self.ex(n.args[0], env)
            p, kp = self.pure_ex(n.args[1], env)
            if ku == ("opt", "updater") and kp == "name":
                return f"(Updater_hasattr self {u} {p})", "bool"
        if ftxt == "unique" and len(n.args) == 1 and nokw:
            v, k = self.ex(n.args[0], env)
            if k == ("list", "mon"):
                return f"(unique_ids {v})", k
            if k == ("list", ("opt", "updater")):
                return f"(unique_opt_ids {v})", k
        if ftxt == "chain.from_iterable" and len(n.args) == 1 and nokw:
            v, k = self.ex(n.args[0], env)
            if isinstance(k, tuple) and k[0] == "list" and isinstance(k[1], tuple) and k[1][0] == "list":
                return f"(chain_from_iterable {v})", k[1]
        if ftxt == "any" and len(n.args) == 1 and nokw:
            v, k = self.ex(n.args[0], env)
            if k == ("list", "bool"):
                return f"(py_any {v})", "bool"
        if ftxt in ("filter", "map") and len(n.args) == 2 and nokw:
            v, k = self.ex(n.args[1], env)
            if isinstance(k, tuple) and k[0] == "list":
                fn, kf = self.lambda1(n.args[0], env, k[1])
                if ftxt == "filter" and kf == "bool":
                    return f"({v}.filter {fn})", k
                if ftxt == "map":
                    return f"({v}.map {fn})", ("list", kf)
        if ftxt == "MapAccessor" and len(n.args) == 1 and nokw:
            v, k = self.ex(n.args[0], env)
            if isinstance(k, tuple) and k[0] == "dict":
                return f"(MapAccessor {v})", k
        if ftxt == "nn.ModuleDict" and not n.args and nokw:
            return "([] : List (Nat × Nat))", MONDICT
        if isinstance(f, ast.Attribute) and f.attr in ("values", "items") and not n.args and nokw:
            v, k = self.ex(f.value, env)
            if isinstance(k, tuple) and k[0] == "dict":
                if f.attr == "values":
                    return f"(dict_values {v})", ("list", k[1])
                return f"(dict_items {v})", ("list", ("pair", "name", k[1]))
        # o.__basis()   (name-mangled: any Observable, from inside class Observable)
        if isinstance(f, ast.Attribute) and f.attr == "__basis" and not n.args and nokw and self.CLS == "Observable":
            o, ko = self.pure_ex(f.value, env)
            if ko == "obs":
                return f"(Observable___basis self {o})", ("opt", "layer")
        if ftxt == "self.realign_attribute" and len(n.args) == 1 and nokw and self.CLS == "Observable":
            self.check_vocab_method(n, "Observable", "realign_attribute")
            a, ka = self.pure_ex(n.args[0], env)
            if ka == "attrsel":
                return f"(← Observable_realign_attribute self {a})", "path"
        # pure translated methods may be read inside an expression
        tgt = self.callee(n, env)
        if tgt is not None and self.METHODS[tgt[0]].get("pure"):
            return f"(← {self.method_call(n, tgt, env)}).2", self.METHODS[tgt[0]]["ret"]
        self.err(n, "unsupported call")

    def check_vocab_method(self, node, cls, attr):
        """a method of the class that stays vocabulary must exist as a plain method"""
        defs = [f for f in self.CLASSES[cls].body if isinstance(f, ast.FunctionDef) and f.name == attr]
        if len(defs) != 1 or defs[0].decorator_list:
            self.err(node, f"{cls}.{attr} is not a plain method of the class")

    # ------------------------------------------------------------------ calls of translated methods
    def callee(self, c: ast.Call, env):
        """-> (key, receiver text or None, args, keywords) for a call of a translated method"""
        f = c.func
        if not isinstance(f, ast.Attribute):
            return None
        cls = self.receiver_class(f.value, env)
        if cls is not None:
            defs = [d for d in self.CLASSES[cls].body if isinstance(d, ast.FunctionDef) and d.name == f.attr]
            if not defs or f.attr in VOCAB_METHODS.get(cls, ()):
                return None
            self.check_unique_def(c, cls, f.attr)
            key = self.method_key(cls, f.attr, getter=False)
            if key is None:
                self.err(c, f"{cls}.{f.attr} is not a translated method (a property called?)")
            return key, None, list(c.args), c.keywords
        # a method of an observable, from the pool
        if self.STATE_TY == "LW" and not (isinstance(f.value, ast.Name) and f.value.id in env
                                          and env[f.value.id][1] != "obs"):
            try:
                r, kr = self.ex(f.value, env)
            except TranslateError:
                return None
            if kr == "obs":
                self.check_unique_def(c, "Observable", f.attr)
                key = self.method_key("Observable", f.attr, getter=False)
                if key is None:
                    self.err(c, f"Observable.{f.attr} is not translated")
                return key, r, list(c.args), c.keywords
        return None

    def method_call(self, c: ast.Call, tgt, env) -> str:
        key, recv, args, keywords = tgt
        spec, sig = self.METHODS[key], self.sigs[key]
        names = sig["order"]
        bound, kw = {}, None
        for i, x in enumerate(args):
            if isinstance(x, ast.Starred) or i >= len(names):
                self.err(c, "unsupported positional arguments")
            bound[names[i]] = x
        for k in keywords:
            if k.arg is None:
                if kw is not None:
                    self.err(c, "two ** arguments")
                kw = k.value
            elif k.arg in sig["posonly"] or k.arg not in names or k.arg in bound:
                self.err(c, "unsupported keyword arguments")
            else:
                bound[k.arg] = k.value
        out = []
        for p in names:
            node = bound.get(p, sig["defaults"].get(p))
            if node is None:
                self.err(c, f"missing argument {p}")
            v, k = self.ex(node, env)
            want = spec["params"][p]
            v = self.coerce(node, v, k, want, f"argument {p} of {key}")
            out.append(v)
        if spec.get("kwarg"):
            if kw is None:
                self.err(c, f"{key} needs its ** argument")
            v, k = self.pure_ex(kw, env)
            if k != spec["kwarg"][1]:
                self.err(kw, f"** argument of kind {k}")
            out.append(v)
        elif kw is not None:
            v, k = self.pure_ex(kw, env)
            if k != "passthrough" or not spec.get("passthrough"):
                self.err(c, "unsupported ** argument")
        args_txt = "".join(" " + a for a in out)
        if recv is None:
            if spec["state"] != self.STATE_TY:
                self.err(c, "call into another world")
            return f"{key} self{args_txt}"
        return f"viaObs self ({key} (obsWorld self {recv}){args_txt})"

    def coerce(self, node, v: str, k, want, what: str) -> str:
        if k == want:
            return v
        if isinstance(want, tuple) and want[0] == "opt":
            if k == "none":
                return "none"
            if k == want[1]:
                return f"(some {v})"
        if want == OPTSEQ and k == "none":
            return "none"
        self.err(node, f"{what}: kind {k}, expected {want}")

    # ------------------------------------------------------------------ statements
    def has_exit(self, stmts, kinds=(ast.Return, ast.Break, ast.Continue)) -> bool:
        for s in stmts:
            if isinstance(s, kinds):
                return True
            if isinstance(s, ast.If) and (self.has_exit(s.body, kinds) or self.has_exit(s.orelse, kinds)):
                return True
            if isinstance(s, ast.For) and self.has_exit(s.body, (ast.Return,)):
                return True
        return False

    def terminates(self, stmts) -> bool:
        if stmts and isinstance(stmts[-1], (ast.Continue, ast.Break)):
            return True
        if stmts and isinstance(stmts[-1], ast.If):
            s = stmts[-1]
            return bool(s.orelse) and self.terminates(s.body) and self.terminates(s.orelse)
        return bool(stmts) and isinstance(stmts[-1], (ast.Return, ast.Raise))

    def mutates(self, stmts) -> bool:
        """may the statements change the world?  (anything but rebinding locals / branching / leaving a loop)"""
        for s in stmts:
            if isinstance(s, ast.If):
                if self.mutates(s.body) or self.mutates(s.orelse):
                    return True
            elif isinstance(s, ast.Assign) and all(isinstance(t, ast.Name) for t in s.targets) \
                    and not (isinstance(s.value, ast.Call) and self.is_world_call(s.value)):
                continue
            elif isinstance(s, (ast.Continue, ast.Break, ast.Raise)):
                continue
            elif isinstance(s, ast.Expr) and isinstance(s.value, ast.Constant):
                continue
            else:
                return True
        return False

    def is_world_call(self, c: ast.Call) -> bool:
        """a call whose result is (world, value): a constructor call or a translated method that is not pure"""
        if isinstance(c.func, ast.Name):
            return self.spec["params"].get(c.func.id) == "ctor"
        if isinstance(c.func, ast.Attribute):
            v = c.func.value
            if (isinstance(v, ast.Name) and v.id == "self") or self.self_attr(v) == "monitor_pool_":
                key = self.method_key(self.receiver_class(v, {}), c.func.attr, getter=False)
                return key is not None and not self.METHODS[key].get("pure")
            if c.func.attr in {s["py"] for s in self.METHODS.values() if s["cls"] == "Observable"
                               and s.get("decorator") is None}:
                return True
        return False

    def assigned(self, stmts) -> list[str]:
        out = super().assigned(stmts)
        for s in stmts:
            if isinstance(s, ast.For):
                for x in self.assigned(list(s.body)):
                    if x not in out:
                        out.append(x)

        def calls(ss):
            return any((isinstance(s, ast.Expr) and isinstance(s.value, ast.Call) and isinstance(s.value.func, ast.Name)
                        and self.spec.get("calls"))
                       or (isinstance(s, ast.If) and (calls(s.body) or calls(s.orelse)))
                       or (isinstance(s, ast.For) and calls(s.body)) for s in ss)
        if self.spec.get("calls") and calls(stmts) and CALLS not in out:
            out.append(CALLS)
        return out

    def ret_value(self, e, env) -> str:
        """text of the value a `pure (self, ·)` leaf carries (with the method's pseudo-locals)"""
        return e

    def block(self, stmts, env, alias, d, cont) -> str:
        if not stmts:
            return cont(env, alias, d)
        s, rest = stmts[0], stmts[1:]
        I = self.ind(d)
        nxt = lambda e, a, dd: self.block(rest, e, a, dd, cont)   # noqa: E731
        if isinstance(s, ast.Expr) and isinstance(s.value, ast.Constant) and isinstance(s.value.value, str):
            return nxt(env, alias, d)
        if isinstance(s, ast.Raise):
            exc = s.exc.func.id if isinstance(s.exc, ast.Call) and isinstance(s.exc.func, ast.Name) else None
            if exc not in progtx.ERRS:
                self.err(s, "unsupported exception")
            return f"{I}throw (Err.{exc}, self)\n"
        if isinstance(s, (ast.Continue, ast.Break)):
            if not self.loops:
                self.err(s, "outside a loop")
            return self.loop_leaf(env, d, isinstance(s, ast.Break))
        if isinstance(s, ast.Return):
            if self.loops:
                self.err(s, "return inside a loop")
            return self.ret_stmt(s, env, d)
        if isinstance(s, ast.Expr) and isinstance(s.value, ast.Call):
            return self.call_stmt(s.value, env, alias, d, nxt)
        if isinstance(s, ast.Assign) and len(s.targets) == 1:
            return self.assign(s, env, alias, d, nxt)
        if isinstance(s, ast.Delete) and len(s.targets) == 1:
            return self.delete(s, env, alias, d, nxt)
        if isinstance(s, ast.If):
            return self.if_stmt(s, rest, env, alias, d, cont)
        if isinstance(s, ast.For):
            return self.for_stmt(s, rest, env, alias, d, cont)
        self.err(s, "unsupported statement")

    def ret_stmt(self, s: ast.Return, env, d) -> str:
        I = self.ind(d)
        want = self.spec["ret"]
        if self.spec.get("calls"):
            if s.value is not None:
                self.err(s, "a method returning its calls returns a value")
            return f"{I}pure (self, {env[CALLS][0]})\n"
        if s.value is None:
            if want != "unit":
                self.err(s, "bare return")
            return f"{I}pure (self, ())\n"
        if isinstance(s.value, ast.Name) and s.value.id == "self" and want == "unit" and self.CLS != "Observable":
            return f"{I}pure (self, ())\n"          # `return self` (fluent interface)
        if isinstance(s.value, ast.Call):
            tgt = self.callee(s.value, env)
            if tgt is not None and not self.METHODS[tgt[0]].get("pure"):
                if self.METHODS[tgt[0]]["ret"] != want:
                    self.err(s, f"returns kind {self.METHODS[tgt[0]]['ret']}, expected {want}")
                return f"{I}{self.method_call(s.value, tgt, env)}\n"
        v, k = self.ex(s.value, env)
        v = self.coerce(s, v, k, want, "returned value")
        return f"{I}pure (self, {v})\n"

    def set_field(self, fld: str, val: str, d) -> str:
        return f"{self.ind(d)}let self := {{ self with {fld} := {val} }}\n"

    def dict_target(self, t, env):
        """`self.<D>[k]` / `self.<D>[a][b]` with `<D>` a container of self -> (field, kind, [key texts])"""
        keys = []
        node = t
        while isinstance(node, ast.Subscript):
            k, kk = self.pure_ex(node.slice, env)
            if kk != "name":
                self.err(t, f"key of kind {kk}")
            keys.insert(0, k)
            node = node.value
        a = self.self_attr(node)
        if a is None or a not in FIELDS[self.CLS] or a not in WRITABLE or not 1 <= len(keys) <= 2:
            return None
        fld, kind = FIELDS[self.CLS][a]
        return fld, kind, keys

    def assign(self, s: ast.Assign, env, alias, d, nxt) -> str:
        I = self.ind(d)
        t, val = s.targets[0], s.value
        if isinstance(t, ast.Name):
            if t.id == "self":
                self.err(s, "assignment to self")
            # (world, value) results
            if isinstance(val, ast.Call):
                call_txt, kind = None, None
                if isinstance(val.func, ast.Name) and env.get(val.func.id, ("", ""))[1] == "ctor" \
                        and self.STATE_TY == "OW" and len(val.args) == 2 and not val.keywords:
                    a, ka = self.pure_ex(val.args[0], env)
                    b, kb = self.pure_ex(val.args[1], env)
                    if ka != "path" or kb != ("opt", "layer"):
                        self.err(val, f"constructor arguments of kinds {ka}, {kb}")
                    call_txt, kind = f"MonitorConstructor_call self {env[val.func.id][0]} {a} {b}", "mon"
                else:
                    tgt = self.callee(val, env)
                    if tgt is not None and not self.METHODS[tgt[0]].get("pure"):
                        call_txt, kind = self.method_call(val, tgt, env), self.METHODS[tgt[0]]["ret"]
                if call_txt is not None:
                    r = self.tmp("r")
                    env2 = dict(env)
                    env2[t.id] = (lname(t.id), kind)
                    return (f"{I}let {r} ← ({call_txt})\n{I}let self := {r}.1\n{I}let {lname(t.id)} := {r}.2\n"
                            + nxt(env2, alias, d))
            v, k = self.ex(val, env)
            if k == "none":
                # `found = None`: the kind comes from the later assignments of the same name in this function
                k = self.optional_kind(t.id, s)
                v = f"(none : {ty(k)})"
            elif t.id in env and env[t.id][1] != k:
                old = env[t.id][1]
                if isinstance(old, tuple) and old[0] == "opt" and old[1] == k:
                    v, k = f"(some {v})", old
                elif not (old, k) in (("attrsel", "path"), ("tags", "fulltags"), (("opt", "mon"), "mon")):
                    self.err(s, f"local rebound from kind {old} to kind {k}")
            env2 = dict(env)
            env2[t.id] = (lname(t.id), k)
            return f"{I}let {lname(t.id)} := {v}\n" + nxt(env2, alias, d)
        # monitor._tags = tags
        if isinstance(t, ast.Attribute) and t.attr == "_tags" and self.STATE_TY == "OW":
            m, km = self.pure_ex(t.value, env)
            v, k = self.pure_ex(val, env)
            if km == "mon" and k == "fulltags":
                return f"{I}let self := (← Monitor_set_tags self {m} {v})\n" + nxt(env, alias, d)
        # self.__monitors[name] = monitor
        if isinstance(t, ast.Subscript) and self.self_attr(t.value) == "__monitors" and self.CLS == "Observable":
            i, ki = self.pure_ex(t.slice, env)
            v, k = self.pure_ex(val, env)
            if ki == "name" and k == "mon":
                return f"{I}let self := (Observable___monitors_setitem self {i} {v})\n" + nxt(env, alias, d)
        # self.<D>[k] = v   /   self.<D>[a][b] = v
        if isinstance(t, ast.Subscript):
            tgt = self.dict_target(t, env)
            if tgt is not None:
                fld, kind, keys = tgt
                v, k = self.pure_ex(val, env)
                if len(keys) == 1 and k == kind[1]:
                    return self.set_field(fld, f"(dict_setitem self.{fld} {keys[0]} {v})", d) + nxt(env, alias, d)
                if len(keys) == 2 and isinstance(kind[1], tuple) and kind[1][0] == "dict" and k == kind[1][1]:
                    return self.set_field(fld, f"(← dict_setitem2 self self.{fld} {keys[0]} {keys[1]} {v})", d) \
                        + nxt(env, alias, d)
                self.err(s, f"value of kind {k} stored in a container of kind {kind}")
        self.err(s, "unsupported assignment")

    def optional_kind(self, name: str, at: ast.Assign):
        """the kind of a local initialised with `None` is declared in the method's spec (`locals`)"""
        k = self.spec.get("locals", {}).get(name)
        if k is None:
            self.err(at, f"the optional local {name} has no declared kind")
        return k

    def delete(self, s: ast.Delete, env, alias, d, nxt) -> str:
        tgt = self.dict_target(s.targets[0], env) if isinstance(s.targets[0], ast.Subscript) else None
        if tgt is None:
            self.err(s, "unsupported del")
        fld, kind, keys = tgt
        if len(keys) == 1:
            return self.set_field(fld, f"(← dict_delitem self self.{fld} {keys[0]})", d) + nxt(env, alias, d)
        if not (isinstance(kind[1], tuple) and kind[1][0] == "dict"):
            self.err(s, "two keys on a flat dictionary")
        return self.set_field(fld, f"(← dict_delitem2 self self.{fld} {keys[0]} {keys[1]})", d) + nxt(env, alias, d)

    def call_stmt(self, c: ast.Call, env, alias, d, nxt) -> str:
        I = self.ind(d)
        f = c.func
        ftxt = ast.unparse(f)
        # Module.train(self, mode)
        if ftxt == "Module.train" and self.CLS == "CellTrainer" and len(c.args) == 2 and not c.keywords \
                and ast.unparse(c.args[0]) == "self":
            if [ast.unparse(b) for b in self.CLASSES["CellTrainer"].bases] != ["Module"]:
                self.err(c, "CellTrainer is not a direct subclass of Module")
            v, k = self.pure_ex(c.args[1], env)
            if k == "bool":
                return f"{I}let self := (Module_train self {v})\n" + nxt(env, alias, d)
        # monitor.register() / .deregister() / .clear(**kwargs)
        if isinstance(f, ast.Attribute) and isinstance(f.value, ast.Name) and env.get(f.value.id, ("", ""))[1] == "mon" \
                and self.STATE_TY == "LW" and not c.args:
            m = env[f.value.id][0]
            if f.attr in ("register", "deregister") and not c.keywords:
                return f"{I}let self := (Monitor_{f.attr} self {m})\n" + nxt(env, alias, d)
            if f.attr == "clear" and len(c.keywords) == 1 and c.keywords[0].arg is None \
                    and env.get(ast.unparse(c.keywords[0].value), ("", ""))[1] == "passthrough":
                return f"{I}let self := (Monitor_clear self {m})\n" + nxt(env, alias, d)
        # updater(**kwargs)
        if isinstance(f, ast.Name) and env.get(f.id, ("", ""))[1] == ("opt", "updater") and self.spec.get("calls") \
                and not c.args and len(c.keywords) == 1 and c.keywords[0].arg is None \
                and env.get(ast.unparse(c.keywords[0].value), ("", ""))[1] == "passthrough":
            n = env[CALLS][0]
            return f"{I}let {n} := {n} ++ [(← Updater_call self {env[f.id][0]})]\n" + nxt(env, alias, d)
        tgt = self.callee(c, env)
        if tgt is not None:
            return f"{I}let self := (← {self.method_call(c, tgt, env)}).1\n" + nxt(env, alias, d)
        self.err(c, "unsupported call statement")

    # ------------------------------------------------------------------ conditionals
    def if_stmt(self, s: ast.If, rest, env, alias, d, cont) -> str:
        body, orelse = list(s.body), list(s.orelse)
        after = cont if not rest else (lambda e, a, dd: self.block(rest, e, a, dd, cont))
        if self.terminates(body) and self.terminates(orelse):
            if rest:
                self.err(rest[0], "unreachable statement")
            return self.branch(s.test, body, orelse, env, alias, d, cont)
        if self.terminates(body) or self.terminates(orelse) or self.has_exit(body + orelse) or not rest:
            # the rest of the block continues every branch that falls through
            return self.branch(s.test, body, orelse, env, alias, d, after)
        return self.join_if(s, body, orelse, rest, env, alias, d, cont)

    def refine(self, test, env):
        """`if x:` / `if not x:` / `if x is None:` / `if x is not None:` on a local optional object
        -> (name, positive?) when the test is `x is something`"""
        neg = False
        t = test
        if isinstance(t, ast.UnaryOp) and isinstance(t.op, ast.Not):
            neg, t = True, t.operand
        if isinstance(t, ast.Compare) and len(t.ops) == 1 and isinstance(t.ops[0], (ast.Is, ast.IsNot)) \
                and isinstance(t.comparators[0], ast.Constant) and t.comparators[0].value is None:
            neg = neg != isinstance(t.ops[0], ast.Is)
            t = t.left
        if isinstance(t, ast.Name) and t.id in env:
            k = env[t.id][1]
            if isinstance(k, tuple) and k[0] == "opt" and (k[1] in OBJECTS or k[1] == POOL) \
                    and env[t.id][0].isidentifier():
                return t.id, not neg
        return None

    def branch(self, test, body, orelse, env, alias, d, cont) -> str:
        I = self.ind(d)
        r = self.refine(test, env)
        if r is not None:
            nm, pos = r
            v, k = env[nm]
            some_b, none_b = (body, orelse) if pos else (orelse, body)
            env_s = dict(env)
            env_s[nm] = (v, k[1])
            return (f"{I}match {v} with\n{I}| some {v} =>\n" + self.block(some_b, env_s, alias, d + 1, cont)
                    + f"{I}| none =>\n" + self.block(none_b, env, alias, d + 1, cont))
        c = self.truth(test, env)
        return (f"{I}if {c} then\n" + self.block(body, env, alias, d + 1, cont)
                + f"{I}else\n" + self.block(orelse, env, alias, d + 1, cont))

    def carried(self, stmts, env) -> list[str]:
        return [x for x in self.assigned(stmts) if x in env]

    def carry_txt(self, names, env, with_self=True, brk=None) -> str:
        parts = (["self"] if with_self else []) + [env[x][0] for x in names] + ([brk] if brk is not None else [])
        return parts[0] if len(parts) == 1 else "(" + ", ".join(parts) + ")"

    def unpack(self, var: str, parts: list[str], d) -> str:
        """`let p1 := var.1; let p2 := var.2.1; …` for a right-nested tuple"""
        if len(parts) == 1:
            return "" if parts[0] == var else f"{self.ind(d)}let {parts[0]} := {var}\n"
        out = ""
        for i, p in enumerate(parts):
            proj = ".2" * i + (".1" if i < len(parts) - 1 else "")
            out += f"{self.ind(d)}let {p} := {var}{proj}\n"
        return out

    def join_if(self, s, body, orelse, rest, env, alias, d, cont) -> str:
        """a conditional without exits that falls through into `rest`: its branches return the world and the
        locals they rebind"""
        I = self.ind(d)
        names = self.carried(body + orelse, env)     # a local first bound inside is unknown after the conditional
        parts = ["self"] + [env[x][0] for x in names]
        leaf = lambda e, a, dd: f"{self.ind(dd)}pure {self.carry_txt(names, e)}\n"   # noqa: E731
        inner = self.branch(s.test, body, orelse, env, alias, d + 1, leaf)
        var = "self" if len(parts) == 1 else self.tmp("c")
        out = f"{I}let {var} ← (do\n{inner}{I}  : {self.monad} _)\n" + self.unpack(var, parts, d)
        return out + self.block(rest, env, alias, d, cont)

    # ------------------------------------------------------------------ loops
    def loop_leaf(self, env, d, broke: bool) -> str:
        L = self.loops[-1]
        brk = ("true" if broke else "false") if L["brk"] else None
        return f"{self.ind(d)}pure {self.carry_txt(L['names'], env, L['self'], brk)}\n"

    def for_stmt(self, s: ast.For, rest, env, alias, d, cont) -> str:
        I = self.ind(d)
        if s.orelse:
            self.err(s, "for … else")
        body = list(s.body)
        if self.has_exit(body, (ast.Return,)):
            self.err(s, "return inside a loop")
        for x in ast.walk(s):
            if isinstance(x, ast.Delete) or (isinstance(x, ast.Assign) and not all(isinstance(t, ast.Name) for t in x.targets)):
                self.err(x, "a loop body assigning to an attribute / deleting (the iterated generator may read it)")
        it, kit = self.ex(s.iter, env)
        if kit == OPTSEQ:
            it, kit = f"(← optseq_iter self {it})", ("list", "name")
        if not (isinstance(kit, tuple) and kit[0] == "list"):
            self.err(s.iter, f"loop over kind {kit}")
        names = self.carried(body, env)          # a local first bound inside is unknown after the loop
        with_self = self.mutates(body)
        has_brk = self.has_exit(body, (ast.Break,))
        if not with_self and not names:
            with_self = True                 # a loop that can only raise
        var = self.tmp("e")
        env_b = self.bind_target(s.target, var, kit[1], env)
        for nm in ([s.target.id] if isinstance(s.target, ast.Name) else [e.id for e in s.target.elts]):
            if nm in env:
                self.err(s, "loop variable shadows a local")
        parts = (["self"] if with_self else []) + [env[x][0] for x in names] + ([BRK] if has_brk else [])
        single = len(parts) == 1
        acc = parts[0] if single else self.tmp("c")
        self.loops.append({"names": names, "self": with_self, "brk": has_brk})
        try:
            inner = self.block(body, env_b, alias, d + 2 + (1 if has_brk else 0), lambda e, a, dd: self.loop_leaf(e, dd, False))
        finally:
            self.loops.pop()
        J = self.ind(d + 2)
        head = self.unpack(acc, parts, d + 2)
        if has_brk:
            keep = self.carry_txt(names, env, with_self, BRK)
            inner = f"{J}if {BRK} then\n{J}  pure {keep}\n{J}else\n{inner}"
        init = self.carry_txt(names, env, with_self, "false" if has_brk else None)
        out = (f"{I}let {acc} ← ({it}).foldlM (fun {acc} {var} => (do\n{head}{inner}{J}: {self.monad} _)) {init}\n")
        out += self.unpack(acc, [p for p in parts], d) if not single else ""
        return out + self.block(rest, env, alias, d, cont)

    # ------------------------------------------------------------------ whole function
    def check_pure(self):
        """a function marked `pure` must not change the world: no assignment to attributes / subscripts, no del,
        no call statement, no call of a translated function that is not pure"""
        for x in ast.walk(self.fdef):
            if isinstance(x, (ast.Delete, ast.AugAssign, ast.For, ast.While)) or \
                    (isinstance(x, ast.Assign) and not all(isinstance(t, ast.Name) for t in x.targets)) or \
                    (isinstance(x, ast.Expr) and not isinstance(x.value, ast.Constant)):
                self.err(x, "statement in a function that must not change the world")
            if isinstance(x, ast.Call) and self.is_world_call(x):
                self.err(x, "call that may change the world in a function that must not")

    def emit(self) -> str:
        spec, sig = self.spec, self.sigs[self.name]
        where = f"{self.SRC}::{self.CLS}.{spec['py']}"
        if sig["order"] != list(spec["params"]):
            raise TranslateError(where, f"signature changed: {sig['order']} (expected {list(spec['params'])})")
        kw = spec.get("kwarg", (None,))[0] or spec.get("passthrough")
        if (sig["vararg"], sig["kwarg"]) != (None, kw):
            raise TranslateError(where, f"signature changed: *{sig['vararg']}, **{sig['kwarg']}")
        if spec.get("pure"):
            self.check_pure()
        env = {p: (lname(p), k) for p, k in spec["params"].items()}
        plist = [(lname(p), ty(k)) for p, k in spec["params"].items()]
        if spec.get("kwarg"):
            env[spec["kwarg"][0]] = (lname(spec["kwarg"][0]), spec["kwarg"][1])
            plist.append((lname(spec["kwarg"][0]), ty(spec["kwarg"][1])))
        if spec.get("passthrough"):
            env[spec["passthrough"]] = ("", "passthrough")
        ret = spec["ret"]
        if spec.get("calls"):
            env[CALLS] = (CALLS, ret)
            tail = lambda e, a, dd: f"{self.ind(dd)}pure (self, {e[CALLS][0]})\n"   # noqa: E731
        elif ret == "unit":
            tail = lambda e, a, dd: f"{self.ind(dd)}pure (self, ())\n"   # noqa: E731
        else:
            tail = lambda e, a, dd: self.err(self.fdef, "falls off the end without returning")   # noqa: E731
        body = self.block(list(self.fdef.body), env, {}, 1, tail)
        if spec.get("calls"):
            body = f"  let {CALLS} := ([] : {ty(ret)})\n" + body
        ptxt = "".join(f" ({p} : {t})" for p, t in plist)
        return (f"def {self.name} (self : {self.STATE_TY}){ptxt} : {self.monad} ({self.STATE_TY} × {aty(ret)}) := do\n"
                + body)


LifeTx.CLASSES = {}


def locate(classes: dict, key: str, spec: dict) -> ast.FunctionDef:
    where = f"{spec['src']}::{spec['cls']}.{spec['py']}"
    if spec["cls"] not in classes:
        raise TranslateError(spec["src"], f"class {spec['cls']} not found")
    want = [spec["decorator"]] if spec.get("decorator") else []
    found = [n for n in classes[spec["cls"]].body if isinstance(n, ast.FunctionDef) and n.name == spec["py"]
             and [ast.unparse(d) for d in n.decorator_list] == want]
    if len(found) != 1:
        raise TranslateError(where, f"{len(found)} definitions with decorators {want}")
    return found[0]


def signature(f: ast.FunctionDef, where: str) -> dict:
    a = f.args
    pos = [x.arg for x in a.posonlyargs + a.args]
    if not pos or pos[0] != "self":
        raise TranslateError(where, "first parameter is not self")
    pos = pos[1:]
    order = pos + [x.arg for x in a.kwonlyargs]
    defaults = dict(zip(pos[len(pos) - len(a.defaults):], a.defaults))
    defaults.update({x.arg: dflt for x, dflt in zip(a.kwonlyargs, a.kw_defaults) if dflt is not None})
    return {"order": order, "defaults": defaults, "posonly": [x.arg for x in a.posonlyargs if x.arg != "self"],
            "vararg": a.vararg.arg if a.vararg else None, "kwarg": a.kwarg.arg if a.kwarg else None}


def regenerate() -> dict:
    """regenerates Gen/LifecycleProg.lean; same return shape as `progtx.regenerate_class`"""
    T = LifeTx
    srcs, classes = {}, {}
    for src in sorted({s["src"] for s in T.METHODS.values()}):
        srcs[src] = (REPO / src).read_text()
        for n in ast.parse(srcs[src]).body:
            if isinstance(n, ast.ClassDef) and n.name in {s["cls"] for s in T.METHODS.values() if s["src"] == src}:
                classes[n.name] = n
    T.CLASSES = classes
    fdefs = {k: locate(classes, k, s) for k, s in T.METHODS.items()}
    sigs = {k: signature(f, f"{T.METHODS[k]['src']}::{T.METHODS[k]['cls']}.{T.METHODS[k]['py']}")
            for k, f in fdefs.items()}
    text = T.HEADER
    info = {}
    for k, s in T.METHODS.items():
        seg = ast.get_source_segment(srcs[s["src"]], fdefs[k]) or ""
        sha = hashlib.sha256(seg.encode()).hexdigest()[:16]
        dec = f" (`@{s['decorator']}`)" if s.get("decorator") else ""
        text += (f"\n/-- from `{s['src']}` :: `{s['cls']}.{s['py']}`{dec} (sha256 of source segment {sha}) -/\n"
                 + T(k, fdefs[k], sigs).emit())
        info[k] = sha
    text += f"\nend {T.NAMESPACE}\n"
    p = GEN / T.OUT
    changed = not p.exists() or p.read_text() != text
    if changed:
        p.write_text(text)
    return {"functions": info, "rewritten": changed}


if __name__ == "__main__":
    print(json.dumps(regenerate(), indent=1))
