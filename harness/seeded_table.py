"""Prints the markdown table of seeded (independent) breaking changes from seeded/*/meta.json."""
import json
from pathlib import Path
rows = []
for d in sorted(Path("/verif/seeded").iterdir(), key=lambda p: (p.name.split("-")[0], int(p.name.split("-")[1]))):
    m = json.loads((d / "meta.json").read_text())
    r = m["check_result"]
    first = r["verdict"].split(" (")[0].replace("VIOLATION no-failing-input-found", "tie/proof only").replace("VIOLATION", "replay")
    cur = m.get("current_result")
    if cur:
        r = cur
        verdict = cur["verdict"] + ("" if cur["verdict"] == first else f" (first run: {first})")
        other = {k: v for k, v in (cur.get("other_checks") or {}).items()}
        if other:
            verdict += "; " + ", ".join(f"{k}: {v['verdict']}" for k, v in other.items())
    else:
        verdict = first
        other = r.get("other_checks")
        if other:
            verdict += "; " + ", ".join(f"{k}: replay" for k in other)
    summ = " ".join((m.get("summary") or "").split())
    if len(summ) > 150:
        summ = summ[:147] + "…"
    key = r.get("key") or ""
    rows.append(f"| {d.name} | {summ} | {verdict} | `{key}` |")
print("| seeded change | what it does | result of `./check` for its property | finding key |\n|---|---|---|---|")
print("\n".join(rows))
