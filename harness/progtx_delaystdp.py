"""Statement-level translator, delay-adjusted / kernel / homeostasis trainers (DESIGN §12.5, properties C18 / C09):
the WHOLE `forward` bodies of

* `DelayAdjustedSTDP`, `DelayAdjustedSTDPD`     (`inferno/learn/trainers/delay_adj_two_factor_stdp.py`),
* `DelayAdjustedMSTDP`, `DelayAdjustedMSTDPD`   (`inferno/learn/trainers/delay_adj_three_factor_stdp.py`),
* `KernelSTDP`, `DelayAdjustedKernelSTDP`, `DelayAdjustedKernelSTDPD` (`inferno/learn/trainers/kernel_stdp.py`),
* `LinearHomeostasis`                           (`inferno/learn/trainers/homeostasis.py`)

→ Lean `Except Err` programs over the world `Trainer` of `Gen/DelaySTDPPrelude.lean`, regenerated on every run as
`Gen/DelaySTDPProg.lean` (core Lean only).  `Props/C18GlueProg.lean` proves the parts the generated programs hand to the
updater equal to the functions of `Model/DelaySTDP.lean` / `Model/Split.lean`.

What is kept from the source, statement by statement and in SOURCE ORDER: the loop over the units (`for … in self` /
`for name, (…) in zip(self.cells_, self)`), the `cells` filter, the `training` / `updater` gate and its `continue`, WHICH
monitor is read (`monitors["spike_post"]` …, `KeyError`) and HOW (`peek()` / `view(selector, tolerance)` under
`state.delayed and cell.connection.delayedby`), which receptive reshape of the connection is applied to which of them,
the operand order of `t_pre - t_post - cell.connection.delay.unsqueeze(-1)` (with the `unsqueeze`), every tensor
operation of the partial updates (`abs`, `/ (-tc)`, `torch.exp`, `abs(lr) * (… >= 0).to(dtype=…)`, `nansum(-1)`, the
`clamp_min / clamp_max` of the kernel and homeostasis splits, `mean(dim=-1)`), `state.batchreduce(·, 0)`, the reward
scaling of both branches of the three-factor rules (`isinstance(signal, torch.Tensor)`, the column view, `argwhere`,
index selection, the `torch.cat` table, `… if d.numel() else None`; `abs(signal * scale)`), the kernel calls with their
keyword dictionaries (`state.kernel_post_kwargs | {k: v for k, v in state.kernel_post_tensor_kwargs.named_buffers()}`),
the `match (…, …)` tables, the attribute of `cell.updater` that is assigned and the tuple assigned to it, the
`target` defaulting of `LinearHomeostasis` (a rebinding of a local of the enclosing function: it is carried from one
iteration of the loop to the next, as in Python) with its `RuntimeError`, and the `param` cascade with its `ValueError`.

Monadic primitives (those that can raise) are bound in source evaluation order to temporaries `tN_` (A-normal form), so
`simp only [bind, Except.bind, …]` unfolds the programs.  Anything outside this sub-language raises `TranslateError`
naming the node — never guessed.  Methods are located by class and method name.
"""
from __future__ import annotations

import ast
import hashlib
import json

from progtx import Tx, ERRS
from translate import GEN, REPO, TranslateError, lname

TRAINER = "Trainer ({st}) α {eps} ν"

# auxiliary state: Lean type, attribute -> kind
STATES = {
    "DAState": ("DAState α", {"lr_pos": "float", "lr_neg": "float", "tc_pos": "float", "tc_neg": "float",
                              "batchreduce": "red"}),
    "KState": ("KState α κ", {"kernel_post": "kernel", "kernel_pre": "kernel", "kernel_post_kwargs": "kw",
                              "kernel_pre_kwargs": "kw", "kernel_post_tensor_kwargs": "bufmod",
                              "kernel_pre_tensor_kwargs": "bufmod", "batchreduce": "red"}),
    "KStateD": ("KState α κ", {"kernel_post": "kernel", "kernel_pre": "kernel", "kernel_post_kwargs": "kw",
                               "kernel_pre_kwargs": "kw", "kernel_post_tensor_kwargs": "bufmod",
                               "kernel_pre_tensor_kwargs": "bufmod", "batchreduce": "red",
                               "delayed": "bool", "tolerance": "float"}),
    "HState": ("HState α ν", {"plasticity": "float", "target": "opttarget", "param": "str", "batchreduce": "red"}),
}

LEAN_TY = {"signal": "Signal α", "float": "α", "optcells": "Option (List String)", "opttarget": "Option (Target α ν)"}

TWO = "inferno/learn/trainers/delay_adj_two_factor_stdp.py"
THREE = "inferno/learn/trainers/delay_adj_three_factor_stdp.py"
KERNEL = "inferno/learn/trainers/kernel_stdp.py"
HOMEO = "inferno/learn/trainers/homeostasis.py"

# generated definitions, in emission order.  `eps`: element type of receptive-format tensors ("opt": `Option α`, NaN
# possible; "plain": `α`); `ntops`: the body does arithmetic on tensors in the neuron's layout
METHODS = {
    "DelayAdjustedSTDP_forward": {"src": TWO, "cls": "DelayAdjustedSTDP", "py": "forward", "state": "DAState",
                                  "eps": "opt", "params": {}},
    "DelayAdjustedSTDPD_forward": {"src": TWO, "cls": "DelayAdjustedSTDPD", "py": "forward", "state": "DAState",
                                   "eps": "opt", "params": {}},
    "DelayAdjustedMSTDP_forward": {"src": THREE, "cls": "DelayAdjustedMSTDP", "py": "forward", "state": "DAState",
                                   "eps": "opt", "params": {"signal": "signal", "scale": "float", "cells": "optcells"}},
    "DelayAdjustedMSTDPD_forward": {"src": THREE, "cls": "DelayAdjustedMSTDPD", "py": "forward", "state": "DAState",
                                    "eps": "opt", "params": {"signal": "signal", "scale": "float", "cells": "optcells"}},
    "KernelSTDP_forward": {"src": KERNEL, "cls": "KernelSTDP", "py": "forward", "state": "KStateD", "eps": "opt",
                           "params": {}},
    "DelayAdjustedKernelSTDP_forward": {"src": KERNEL, "cls": "DelayAdjustedKernelSTDP", "py": "forward",
                                        "state": "KState", "eps": "opt", "params": {}},
    "DelayAdjustedKernelSTDPD_forward": {"src": KERNEL, "cls": "DelayAdjustedKernelSTDPD", "py": "forward",
                                         "state": "KState", "eps": "opt", "params": {}},
    "LinearHomeostasis_forward": {"src": HOMEO, "cls": "LinearHomeostasis", "py": "forward", "state": "HState",
                                  "eps": "plain", "ntops": True, "params": {"target": "opttarget", "cells": "optcells"}},
}

HEADER = """import InfernoVerif.Gen.DelaySTDPPrelude
/-! GENERATED by harness/progtx_delaystdp.py from inferno/learn/trainers/{delay_adj_two_factor_stdp,
delay_adj_three_factor_stdp, kernel_stdp, homeostasis}.py (the `forward` methods of `DelayAdjustedSTDP`,
`DelayAdjustedSTDPD`, `DelayAdjustedMSTDP`, `DelayAdjustedMSTDPD`, `KernelSTDP`, `DelayAdjustedKernelSTDP`,
`DelayAdjustedKernelSTDPD`, `LinearHomeostasis`) — do not edit.
Whole method bodies as `Except Err` programs over the world `Trainer`, seen at one position of the trained parameter;
vocabulary: Gen/DelaySTDPPrelude.lean. -/
set_option linter.unusedVariables false
namespace InfernoVerif.Gen.DelaySTDPProg
open InfernoVerif.Gen.DelaySTDPPrelude

variable {α ν κ : Type} [Add α] [Sub α] [Mul α] [Div α] [Neg α] [Zero α] [One α] [Max α] [Min α] [LE α] [DecidableLE α]
  [LT α] [DecidableLT α] [DecidableEq α] [NatCast α] [TorchFn α]
"""

UNIT_NAMES = ("cell", "state", "monitors")


def is_const(n, v) -> bool:
    return isinstance(n, ast.Constant) and type(n.value) is type(v) and n.value == v


def is_neg1(n) -> bool:
    return isinstance(n, ast.UnaryOp) and isinstance(n.op, ast.USub) and is_const(n.operand, 1)


class DTx(Tx):
    METHODS = METHODS
    LEAN_TY = LEAN_TY
    OUT = "DelaySTDPProg.lean"
    NAMESPACE = "InfernoVerif.Gen.DelaySTDPProg"
    HEADER = HEADER
    DROPPED_PARAMS: set = set()

    def __init__(self, name: str, fdef: ast.FunctionDef, sigs: dict):
        super().__init__(name, fdef, sigs)
        self.SRC, self.CLS = self.spec["src"], self.spec["cls"]
        self.state_fields = STATES[self.spec["state"]][1]
        self.rec = "rec" if self.spec["eps"] == "opt" else "recn"
        self.pending: list[str] = []       # A-normal form: `let tN_ ← …` lines of the statement being translated
        self.loop_leaf = None               # text of `continue` / falling off the loop body
        self.in_loop = False

    def err(self, node, msg):
        raise TranslateError(f"{self.SRC}::{self.CLS}.{self.spec['py']}:{getattr(node, 'lineno', '?')}",
                             f"{msg}: {ast.unparse(node)[:140] if isinstance(node, ast.AST) else node}")

    # ------------------------------------------------------------------ A-normal form
    def bind(self, text: str) -> str:
        """binds a monadic primitive to a fresh temporary (in evaluation order) and returns the temporary"""
        self.fresh += 1
        t = f"t{self.fresh}_"
        self.pending.append(f"let {t} ← {text}")
        return t

    def flush(self, d) -> str:
        out = "".join(f"{self.ind(d)}{line}\n" for line in self.pending)
        self.pending = []
        return out

    def pure_ex(self, n, env):
        """an expression that must not raise (operand of a short-circuit operator after the first, …)"""
        k = len(self.pending)
        v = self.ex(n, env)
        if len(self.pending) != k:
            self.err(n, "operand is not pure here (evaluation order / short-circuit would be lost)")
        return v

    # ------------------------------------------------------------------ expressions
    def truth(self, n, env) -> str:
        """Python truth value of an expression used as a condition"""
        v, k = self.ex(n, env)
        if k == "bool":
            return v
        if k == "optfloat":
            return f"(truthyOptFloat {v})"
        if k == "optupdater":               # `Updater` is an `nn.Module` (no `__bool__` / `__len__`): truthy unless None
            return f"{v}.isSome"
        if k == "int":
            return f"(decide ({v} ≠ 0))"
        self.err(n, f"truth value of kind {k}")

    def ex(self, n, env):
        if isinstance(n, ast.Constant):
            if n.value is None:
                return "none", "none"
            if isinstance(n.value, str):
                return json.dumps(n.value, ensure_ascii=False), "str"
            self.err(n, "unsupported constant")
        if isinstance(n, ast.Name):
            if n.id not in env:
                self.err(n, "unknown name")
            return env[n.id]
        if isinstance(n, ast.Attribute):
            return self.attribute(n, env)
        if isinstance(n, ast.UnaryOp):
            if isinstance(n.op, ast.Not):
                return f"(!{self.truth(n.operand, env)})", "bool"
            v, k = self.ex(n.operand, env)
            if isinstance(n.op, ast.USub) and k in ("float", "pw"):
                return f"(-{v})", k
            self.err(n, f"unsupported unary operation on kind {k}")
        if isinstance(n, ast.BoolOp):
            return self.boolop(n, env)
        if isinstance(n, ast.BinOp):
            return self.binop(n, env)
        if isinstance(n, ast.Compare) and len(n.ops) == 1:
            return self.compare(n, env)
        if isinstance(n, ast.IfExp):
            return self.ifexp(n, env)
        if isinstance(n, ast.Subscript):
            return self.subscript(n, env)
        if isinstance(n, ast.Call):
            return self.call(n, env)
        if isinstance(n, ast.DictComp):
            return self.dictcomp(n, env)
        self.err(n, "unsupported expression")

    def attribute(self, n: ast.Attribute, env):
        if isinstance(n.value, ast.Name) and n.value.id == "self":
            if n.attr == "training":
                return f"{env['self'][0]}.training", "bool"
            self.err(n, "unsupported attribute of self")
        v, k = self.ex(n.value, env)
        a = n.attr
        if k == "cell" and a == "training":
            return f"{v}.training", "bool"
        if k == "cell" and a == "updater":
            return f"{v}.updater", "optupdater"
        if k == "cell" and a == "connection":
            return f"{v}.connection", "conn"
        if k == "conn" and a in ("delay", "delayedby", "selector"):
            return f"{v}.{a}", {"delay": "optparam", "delayedby": "optfloat", "selector": "optnt"}[a]
        if k == "state":
            if a not in self.state_fields:
                self.err(n, f"attribute of the auxiliary state not known for {self.CLS}")
            return f"{v}.{a}", self.state_fields[a]
        if k in ("rec", "recn") and a == "dtype":
            return v, "dtype:" + k
        if k == "b" and a == "ndim":
            return v, "ndim:b"
        self.err(n, f"unsupported attribute of kind {k}")

    def boolop(self, n: ast.BoolOp, env):
        # `x is not None and <test using x>`: the second operand sees `x` refined
        if isinstance(n.op, ast.And) and len(n.values) == 2:
            a = n.values[0]
            if isinstance(a, ast.Compare) and len(a.ops) == 1 and isinstance(a.ops[0], ast.IsNot) \
                    and is_const(a.comparators[0], None) and isinstance(a.left, ast.Name) \
                    and env.get(a.left.id, ("", ""))[1] == "optcells":
                nm = a.left.id
                env_s = dict(env)
                env_s[nm] = (env[nm][0], "cells")
                b = self.pure_truth(n.values[1], env_s)
                return f"(Option.elim {env[nm][0]} false (fun {env[nm][0]} => {b}))", "bool"
        parts = [self.truth(n.values[0], env)] + [self.pure_truth(x, env) for x in n.values[1:]]
        return "(" + (" && " if isinstance(n.op, ast.And) else " || ").join(parts) + ")", "bool"

    def pure_truth(self, n, env) -> str:
        k = len(self.pending)
        v = self.truth(n, env)
        if len(self.pending) != k:
            self.err(n, "operand after the first of and/or is not pure (short-circuit would be lost)")
        return v

    def binop(self, n: ast.BinOp, env):
        a, ka = self.ex(n.left, env)
        b, kb = self.ex(n.right, env)
        op = type(n.op)
        if op is ast.Sub:
            if ka == "rec" and kb == "rec":
                return self.bind(f"recSub {a} {b}"), "rec"
            if ka == "rec" and kb == "paramU":
                return f"(recSubParamU {a} {b})", "rec"
            if ka == "opttarget" and kb == "nt" and self.spec.get("ntops"):
                return self.bind(f"ntRsub N {a} {b}"), "nt"
        if op is ast.Div:
            if ka == "rec" and kb == "float":
                return f"(recDivScalar {a} {b})", "rec"
            if ka == "nt" and kb == "opttarget" and self.spec.get("ntops"):
                return self.bind(f"ntDiv N {a} {b}"), "nt"
        if op is ast.Mult:
            if ka == "rec" and kb == "rec":
                return self.bind(f"recMul {a} {b}"), "rec"
            if ka == "float" and kb == "rec":
                return f"(scalarMulRec {a} {b})", "rec"
            if ka == "float" and kb == "float":
                return f"({a} * {b})", "float"
            if ka == "pw" and kb == "float":
                return f"({a} * {b})", "pw"
            if ka in ("sigten", "b") and kb == "float":
                return f"(bMulScalar {a} {b})", "b"
            if ka == "b" and kb == "bcol":
                return self.bind(f"bMulCol {a} {b}"), "b"
        if op is ast.Add and ka == "pw" and kb == "pw":
            return f"({a} + {b})", "pw"
        if op is ast.BitOr and ka == "kw" and kb == "kw":
            return f"(dictUnion {a} {b})", "kw"
        self.err(n, f"unsupported arithmetic on kinds {ka}, {kb}")

    def compare(self, n: ast.Compare, env):
        op, rhs = n.ops[0], n.comparators[0]
        if isinstance(op, (ast.Is, ast.IsNot)) and is_const(rhs, None):
            v, k = self.ex(n.left, env)
            if k in ("opttarget", "optcells"):
                return (f"{v}.isNone" if isinstance(op, ast.Is) else f"{v}.isSome"), "bool"
            self.err(n, f"comparison with None on kind {k}")
        if isinstance(op, ast.NotIn):
            a, ka = self.ex(n.left, env)
            b, kb = self.ex(rhs, env)
            if ka == "str" and kb == "cells":
                return f"(!(strIn {a} {b}))", "bool"
            self.err(n, f"unsupported membership test on kinds {ka}, {kb}")
        if isinstance(op, ast.Eq):
            a, ka = self.ex(n.left, env)
            b, kb = self.ex(rhs, env)
            if ka == "str" and kb == "str":
                return f"(decide ({a} = {b}))", "bool"
            self.err(n, f"unsupported comparison on kinds {ka}, {kb}")
        if isinstance(op, (ast.GtE, ast.Lt)) and is_const(rhs, 0):
            v, k = self.ex(n.left, env)
            ge = isinstance(op, ast.GtE)
            if k == "rec":
                return f"({'recGe0' if ge else 'recLt0'} {v})", "recb"
            if k == "float":
                return f"(decide ({v} {'≥' if ge else '<'} 0))", "bool"
            if k == "sigten":
                return v, "sigcmp:" + ("ge" if ge else "lt")
            self.err(n, f"unsupported comparison with 0 on kind {k}")
        self.err(n, "unsupported comparison")

    def ifexp(self, n: ast.IfExp, env):
        c = self.truth(n.test, env)
        saved = self.pending
        self.pending = []
        a, ka = self.ex(n.body, env)
        pa, self.pending = self.pending, []
        b, kb = self.ex(n.orelse, env)
        pb, self.pending = self.pending, saved
        if {ka, kb} == {"pw", "none"}:
            a = f"(some {a})" if ka == "pw" else "none"
            b = f"(some {b})" if kb == "pw" else "none"
            ka = kb = "optpw"
        if ka != kb:
            self.err(n, f"conditional expression of kinds {ka}, {kb}")
        if not pa and not pb:
            return f"(if {c} then {a} else {b})", ka
        # a branch can raise: only the chosen branch is evaluated
        ta = "(do " + "; ".join(pa + [f"pure {a}"]) + ")"
        tb = "(do " + "; ".join(pb + [f"pure {b}"]) + ")"
        return self.bind(f"(if {c} then {ta} else {tb} : Except Err _)"), ka

    def subscript(self, n: ast.Subscript, env):
        v, k = self.ex(n.value, env)
        if k == "monitors" and isinstance(n.slice, ast.Constant) and isinstance(n.slice.value, str):
            return self.bind(f"getitem {v} {json.dumps(n.slice.value)}"), "monitor"
        if k == "b":
            i, ki = self.ex(n.slice, env)
            if ki == "idx":
                return self.bind(f"bIndex {v} {i}"), "b"
        self.err(n, f"unsupported subscript on kind {k}")

    def dictcomp(self, n: ast.DictComp, env):
        """`{k: v for k, v in <module>.named_buffers()}`"""
        if len(n.generators) == 1:
            g = n.generators[0]
            it = g.iter
            if not g.ifs and not g.is_async and isinstance(g.target, ast.Tuple) and len(g.target.elts) == 2 \
                    and all(isinstance(e, ast.Name) for e in g.target.elts) \
                    and isinstance(n.key, ast.Name) and isinstance(n.value, ast.Name) \
                    and [e.id for e in g.target.elts] == [n.key.id, n.value.id] and n.key.id != n.value.id \
                    and isinstance(it, ast.Call) and isinstance(it.func, ast.Attribute) \
                    and it.func.attr == "named_buffers" and not it.args and not it.keywords:
                v, k = self.ex(it.func.value, env)
                if k == "bufmod":
                    return f"(dictOfPairs {v}.named_buffers)", "kw"
        self.err(n, "unsupported dictionary comprehension")

    def dim_last(self, n: ast.Call, start: int) -> bool:
        """the remaining arguments are `-1` / `dim=-1`"""
        rest = list(n.args[start:])
        if len(rest) == 1 and not n.keywords:
            return is_neg1(rest[0])
        return not rest and [k.arg for k in n.keywords] == ["dim"] and is_neg1(n.keywords[0].value)

    def call(self, n: ast.Call, env):
        f = n.func
        ftxt = ast.unparse(f)
        nokw = not n.keywords
        if ftxt == "abs" and len(n.args) == 1 and nokw:
            v, k = self.ex(n.args[0], env)
            if k == "float":
                return f"(TorchFn.abs {v})", "float"
            self.err(n, f"abs of kind {k}")
        if ftxt == "torch.exp" and len(n.args) == 1 and nokw:
            v, k = self.ex(n.args[0], env)
            if k == "rec":
                return f"(torchExp {v})", "rec"
        if ftxt == "torch.nansum" and n.args and self.dim_last(n, 1):
            v, k = self.ex(n.args[0], env)
            if k == "rec":
                return f"(recNansumLast {v})", "b"
        if ftxt == "torch.cat" and len(n.args) == 2 and nokw and isinstance(n.args[0], ast.Tuple) \
                and len(n.args[0].elts) == 2 and is_const(n.args[1], 0):
            a, ka = self.ex(n.args[0].elts[0], env)
            b, kb = self.ex(n.args[0].elts[1], env)
            if ka == "b" and kb == "b":
                return f"(torchCat0 {a} {b})", "b"
        if isinstance(f, ast.Attribute):
            # torch.argwhere(<signal cmp 0>).view(-1)
            if f.attr == "view" and len(n.args) == 1 and nokw and is_neg1(n.args[0]) and isinstance(f.value, ast.Call) \
                    and ast.unparse(f.value.func) == "torch.argwhere" and len(f.value.args) == 1 and not f.value.keywords:
                v, k = self.ex(f.value.args[0], env)
                if k.startswith("sigcmp:"):
                    return f"({'argwhereGe0' if k.endswith('ge') else 'argwhereLt0'} {v})", "idx"
                self.err(n, f"argwhere of kind {k}")
            # x.view(-1, *repeat(1, y.ndim - 1))
            if f.attr == "view" and len(n.args) == 2 and nokw and is_neg1(n.args[0]) and isinstance(n.args[1], ast.Starred):
                r = n.args[1].value
                if isinstance(r, ast.Call) and ast.unparse(r.func) == "repeat" and len(r.args) == 2 and not r.keywords \
                        and is_const(r.args[0], 1) and isinstance(r.args[1], ast.BinOp) and isinstance(r.args[1].op, ast.Sub) \
                        and is_const(r.args[1].right, 1):
                    y, ky = self.ex(r.args[1].left, env)
                    x, kx = self.ex(f.value, env)
                    if ky == "ndim:b" and kx == "b":
                        return f"(viewAsColumnOf {x} {y})", "bcol"
                self.err(n, "unsupported view")
            if isinstance(f.value, ast.Name) and f.value.id == "state" and env.get("state", ("", ""))[1] == "state":
                st = env["state"][0]
                if f.attr == "batchreduce" and len(n.args) == 2 and nokw and is_const(n.args[1], 0) \
                        and self.state_fields.get("batchreduce") == "red":
                    v, k = self.ex(n.args[0], env)
                    if k == "b":
                        return f"(callReduce0 {st}.batchreduce {v})", "pw"
                    self.err(n, f"batch reduction of kind {k}")
                if self.state_fields.get(f.attr) == "kernel" and len(n.args) == 1 and len(n.keywords) == 1 \
                        and n.keywords[0].arg is None:
                    v, k = self.ex(n.args[0], env)
                    kw, kk = self.ex(n.keywords[0].value, env)
                    if k == "rec" and kk == "kw":
                        return f"({st}.{f.attr} {v} {kw})", "rec"
                    self.err(n, f"kernel call on kinds {k}, {kk}")
            v, k = self.ex(f.value, env)
            a = f.attr
            if k == "monitor" and a == "peek" and not n.args and nokw:
                return f"{v}.peek", "nt"
            if k == "monitor" and a == "view" and len(n.args) == 2 and nokw:
                s, ks = self.ex(n.args[0], env)
                t, kt = self.ex(n.args[1], env)
                if ks == "optnt" and kt == "float":
                    return f"({v}.view {s} {t})", "nt"
                self.err(n, f"view on kinds {ks}, {kt}")
            if k == "conn" and a in ("postsyn_receptive", "presyn_receptive") and len(n.args) == 1 and nokw:
                x, kx = self.ex(n.args[0], env)
                if kx == "nt":
                    return f"({v}.{a} {x})", self.rec
                self.err(n, f"{a} of kind {kx}")
            if k == "conn" and a == "like_bias" and len(n.args) == 1 and nokw:
                x, kx = self.ex(n.args[0], env)
                if kx == "pw":
                    return f"({v}.like_bias {x})", "pw"
            if k == "optparam" and a == "unsqueeze" and len(n.args) == 1 and nokw and is_neg1(n.args[0]):
                return self.bind(f"unsqueezeLast {v}"), "paramU"
            if a == "abs" and not n.args and nokw:
                if k == "rec":
                    return f"(recAbs {v})", "rec"
                if k == "b":
                    return f"(bAbs {v})", "b"
            if k == "recb" and a == "to" and not n.args and [x.arg for x in n.keywords] == ["dtype"]:
                d, kd = self.ex(n.keywords[0].value, env)
                if kd == "dtype:rec":
                    return f"(recBoolTo {v})", "rec"
                self.err(n, f"conversion to kind {kd}")
            if k == "rec" and a == "nansum" and self.dim_last(n, 0):
                return f"(recNansumLast {v})", "b"
            if k == "recn" and a == "mean" and self.dim_last(n, 0) and n.keywords:
                return f"(recMeanLast {v})", "b"
            if a in ("clamp_min", "clamp_max") and len(n.args) == 1 and nokw and is_const(n.args[0], 0.0):
                fn = "ClampMin0" if a == "clamp_min" else "ClampMax0"
                if k == "rec":
                    return f"(rec{fn} {v})", "rec"
                if k == "b":
                    return f"(b{fn} {v})", "b"
            if k == "b" and a == "numel" and not n.args and nokw:
                return f"(bNumel {v})", "int"
            self.err(n, f"unsupported call on kind {k}")
        self.err(n, "unsupported call")

    def parts(self, n, env) -> str:
        """the tuple `(pos, neg)` assigned to `cell.updater.<p>`"""
        if not (isinstance(n, ast.Tuple) and len(n.elts) == 2):
            self.err(n, "value assigned to the updater is not a pair")
        out = []
        for e in n.elts:
            v, k = self.ex(e, env)
            if k == "pw":
                out.append(f"some {v}")
            elif k in ("none", "optpw"):
                out.append(v)
            else:
                self.err(e, f"part of kind {k}")
        return f"({out[0]}, {out[1]})"

    # ------------------------------------------------------------------ statements
    def terminates(self, stmts) -> bool:
        if not stmts:
            return False
        s = stmts[-1]
        if isinstance(s, (ast.Raise, ast.Continue)):
            return True
        if isinstance(s, ast.If):
            return bool(s.orelse) and self.terminates(s.body) and self.terminates(s.orelse)
        if isinstance(s, ast.Match):
            return all(self.terminates(c.body) for c in s.cases) and any(self.wild(c.pattern) for c in s.cases)
        return False

    def assigned(self, stmts) -> list[str]:
        out = []

        def add(x):
            if x not in out:
                out.append(x)
        for s in stmts:
            if isinstance(s, ast.Assign):
                for t in s.targets:
                    for e in (t.elts if isinstance(t, ast.Tuple) else [t]):
                        if isinstance(e, ast.Name):
                            add(e.id)
            elif isinstance(s, ast.If):
                for x in self.assigned(s.body) + self.assigned(s.orelse):
                    add(x)
            elif isinstance(s, ast.Match):
                for c in s.cases:
                    for x in self.assigned(c.body):
                        add(x)
            elif isinstance(s, (ast.For, ast.With, ast.While, ast.Try)):
                self.err(s, "unsupported statement")
        return out

    def mutates_cell(self, stmts) -> bool:
        return any(isinstance(x, ast.Assign) and any(self.updater_target(t) for t in x.targets)
                   for s in stmts for x in ast.walk(s))

    def updater_target(self, t) -> str | None:
        """`cell.updater.<p>` -> p"""
        if isinstance(t, ast.Attribute) and isinstance(t.value, ast.Attribute) and t.value.attr == "updater" \
                and isinstance(t.value.value, ast.Name) and t.value.value.id == "cell":
            return t.attr
        return None

    def block(self, stmts, env, alias, d, cont) -> str:
        if not stmts:
            return cont(env, alias, d)
        s, rest = stmts[0], stmts[1:]
        I = self.ind(d)
        nxt = lambda e, a, dd: self.block(rest, e, a, dd, cont)   # noqa: E731
        if isinstance(s, ast.Expr) and isinstance(s.value, ast.Constant) and isinstance(s.value.value, str):
            return nxt(env, alias, d)
        if isinstance(s, ast.Raise):
            exc = s.exc.func.id if isinstance(s.exc, ast.Call) and isinstance(s.exc.func, ast.Name) else None
            if exc not in ERRS:
                self.err(s, "unsupported exception")
            return f"{I}throw Err.{exc}\n"
        if isinstance(s, ast.Continue):
            if not self.in_loop:
                self.err(s, "continue outside the loop over the units")
            return self.loop_leaf(env, d)
        if isinstance(s, ast.Assign) and len(s.targets) == 1:
            return self.assign(s, env, alias, d, nxt)
        if isinstance(s, ast.If):
            return self.if_stmt(s, rest, env, alias, d, cont)
        if isinstance(s, ast.Match):
            return self.match_stmt(s, rest, env, alias, d, cont)
        if isinstance(s, ast.For):
            return self.for_stmt(s, rest, env, alias, d, cont)
        self.err(s, "unsupported statement")

    def assign(self, s: ast.Assign, env, alias, d, nxt) -> str:
        I = self.ind(d)
        t = s.targets[0]
        p = self.updater_target(t)
        if p is not None:
            if env.get("cell", ("", ""))[1] != "cell":
                self.err(s, "assignment to the updater outside the loop over the units")
            v = self.parts(s.value, env)
            c = env["cell"][0]
            return self.flush(d) + f"{I}let {c} ← updater_setattr {c} {json.dumps(p)} {v}\n" + nxt(env, alias, d)
        if isinstance(t, ast.Tuple) and isinstance(s.value, ast.Tuple) and len(t.elts) == len(s.value.elts) \
                and all(isinstance(a, ast.Name) for a in t.elts):
            # Python evaluates the whole right-hand side first
            vals = [self.ex(b, env) for b in s.value.elts]
            names = [a.id for a in t.elts]
            if any(isinstance(x, ast.Name) and x.id in names for b in s.value.elts for x in ast.walk(b)) \
                    and len(set(names)) != len(names):
                self.err(s, "unsupported tuple assignment")
            out = self.flush(d)
            env = dict(env)
            tmp = []
            for a, (v, k) in zip(names, vals):
                self.local_ok(s, a, k, env)
                tmp.append((a, v, k))
            # right-hand sides must not mention a name bound earlier in this same statement
            for i, (a, v, k) in enumerate(tmp):
                for b in s.value.elts[i + 1:]:
                    if any(isinstance(x, ast.Name) and x.id == a for x in ast.walk(b)):
                        self.err(s, "tuple assignment reads a name it rebinds")
                out += f"{I}let {lname(a)} := {v}\n"
                env[a] = (lname(a), k)
            return out + nxt(env, alias, d)
        if isinstance(t, ast.Name):
            v, k = self.ex(s.value, env)
            self.local_ok(s, t.id, k, env)
            env = dict(env)
            env[t.id] = (lname(t.id), k)
            return self.flush(d) + f"{I}let {lname(t.id)} := {v}\n" + nxt(env, alias, d)
        self.err(s, "unsupported assignment")

    def local_ok(self, s, name, kind, env):
        if name in ("self",) + UNIT_NAMES or name == "name":
            self.err(s, f"rebinding of {name}")
        if kind in ("none", "dtype:rec", "dtype:recn", "ndim:b") or kind.startswith("sigcmp:"):
            self.err(s, f"local of kind {kind}")
        # a straight-line rebinding may change the kind (Lean's `let` shadows); paths that are joined must agree
        # (checked by `join`) and so must a loop-carried local (checked by `for_stmt`)

    def carry(self, names, env, with_cell=True):
        items = ([env["cell"][0]] if with_cell else []) + [env[x][0] for x in names]
        return items[0] if len(items) == 1 else "(" + ", ".join(items) + ")"

    def join(self, head_fn, bodies, rest, env, alias, d, cont) -> str:
        """a conditional whose branches fall through into `rest`: the branches return the cell (when they assign to
        its updater) and the locals they (re)bind, then `rest` continues"""
        I = self.ind(d)
        falling = [b for b in bodies if not self.terminates(b)]
        cand = []
        for b in falling:
            for x in self.assigned(b):
                if x not in cand:
                    cand.append(x)
        names = [x for x in cand if x in env or all(x in self.assigned(b) for b in falling)]
        with_cell = any(self.mutates_cell(b) for b in bodies)
        if not names and not with_cell:
            self.err(bodies[0][0] if bodies and bodies[0] else rest[0], "conditional without effect")
        kinds = {}

        def leaf(e, a, dd):
            for x in names:
                if x not in e:
                    self.err(rest[0] if rest else x, f"{x} is not bound on every path")
                if kinds.setdefault(x, e[x][1]) != e[x][1]:
                    self.err(rest[0] if rest else x, f"{x} has kinds {kinds[x]} and {e[x][1]} on different paths")
            return f"{self.ind(dd)}pure {self.carry(names, e, with_cell)}\n"
        inner = head_fn(leaf, d + 1)
        env2 = dict(env)
        for x in names:
            env2[x] = (lname(x), kinds.get(x, env.get(x, ("", ""))[1]))
        pat = self.carry(names, env2, with_cell)
        return f"{I}let {pat} ← (do\n{inner}{I}  : Except Err _)\n" + self.block(rest, env2, alias, d, cont)

    def if_stmt(self, s: ast.If, rest, env, alias, d, cont) -> str:
        body, orelse = list(s.body), list(s.orelse)
        if self.terminates(body) and not self.terminates(orelse):
            orelse, rest = orelse + rest, []          # the statements after the `if` are its else-continuation
        elif orelse and self.terminates(orelse) and not self.terminates(body):
            body, rest = body + rest, []
        if rest and not (self.terminates(body) and self.terminates(orelse)):
            return self.join(lambda leaf, dd: self.branch(s.test, body, orelse, env, alias, dd, leaf),
                             [body, orelse], rest, env, alias, d, cont)
        return self.branch(s.test, body, orelse, env, alias, d, cont)

    def branch(self, test, body, orelse, env, alias, d, cont) -> str:
        I = self.ind(d)
        # isinstance(signal, torch.Tensor) refines the reward signal
        if isinstance(test, ast.Call) and ast.unparse(test.func) == "isinstance" and len(test.args) == 2 \
                and isinstance(test.args[0], ast.Name) and env.get(test.args[0].id, ("", ""))[1] == "signal" \
                and ast.unparse(test.args[1]) == "torch.Tensor":
            nm = test.args[0].id
            v = env[nm][0]
            env_t, env_f = dict(env), dict(env)
            env_t[nm] = (v, "sigten")
            env_f[nm] = (v, "float")
            return (f"{I}match {v} with\n{I}| .tensor {v} =>\n" + self.block(body, env_t, alias, d + 1, cont)
                    + f"{I}| .float {v} =>\n" + self.block(orelse, env_f, alias, d + 1, cont))
        # `x is None` on an optional local: plain test (no refinement is needed by the bodies)
        c = self.truth(test, env)
        pre = self.flush(d)
        return (pre + f"{I}if {c} then\n" + self.block(body, env, alias, d + 1, cont)
                + f"{I}else\n" + self.block(orelse, env, alias, d + 1, cont))

    def wild(self, p) -> bool:
        if isinstance(p, ast.MatchAs) and p.pattern is None and p.name is None:
            return True
        return isinstance(p, ast.MatchSequence) and all(self.wild(x) for x in p.patterns)

    def pattern(self, case: ast.match_case, arity: int) -> str:
        p = case.pattern
        if case.guard is not None:
            self.err(case.guard, "guarded case")
        if isinstance(p, ast.MatchAs) and p.pattern is None and p.name is None:
            return ", ".join(["_"] * arity)
        if isinstance(p, ast.MatchSequence) and len(p.patterns) == arity:
            out = []
            for x in p.patterns:
                if isinstance(x, ast.MatchSingleton) and isinstance(x.value, bool):
                    out.append("true" if x.value else "false")
                elif isinstance(x, ast.MatchAs) and x.pattern is None and x.name is None:
                    out.append("_")
                else:
                    self.err(x, "unsupported pattern")
            return ", ".join(out)
        self.err(p, "unsupported pattern")

    def match_stmt(self, s: ast.Match, rest, env, alias, d, cont) -> str:
        if not (isinstance(s.subject, ast.Tuple) and s.subject.elts):
            self.err(s.subject, "unsupported match subject")
        subj = []
        for e in s.subject.elts:
            v, k = self.ex(e, env)
            if k != "bool":
                self.err(e, f"match subject of kind {k}")
            subj.append(v)
        pre = self.flush(d)
        arity = len(subj)
        bodies = [list(c.body) for c in s.cases]

        def head(leaf, dd, rest_in_cases):
            I = self.ind(dd)
            out = f"{I}match {', '.join(subj)} with\n"
            for c, b in zip(s.cases, bodies):
                out += f"{I}| {self.pattern(c, arity)} =>\n" + self.block(b + rest_in_cases, env, alias, dd + 1, leaf)
            # Python: no case matched -> the statement does nothing.  Lean's exhaustiveness check refuses a table with a
            # missing combination unless the source has a wildcard case, so nothing is added here.
            return out
        if rest and not all(self.terminates(b) for b in bodies):
            return pre + self.join(lambda leaf, dd: head(leaf, dd, []), bodies, rest, env, alias, d, cont)
        return pre + head(cont, d, [])

    # ------------------------------------------------------------------ the loop over the units
    def for_stmt(self, s: ast.For, rest, env, alias, d, cont) -> str:
        I = self.ind(d)
        if self.in_loop or s.orelse:
            self.err(s, "unsupported loop")
        it, tg = ast.unparse(s.iter), ast.unparse(s.target)
        if it == "self" and tg == "(cell, state, monitors)":
            fn, named = "forUnits", False
        elif it == "zip(self.cells_, self)" and tg == "(name, (cell, state, monitors))":
            fn, named = "forNamedUnits", True
        else:
            self.err(s, "unsupported loop header")
        for x in ast.walk(s):
            if isinstance(x, (ast.Break, ast.Return)):
                self.err(x, "break / return inside the loop")
        if any(x in env for x in UNIT_NAMES + (("name",) if named else ())):
            self.err(s, "loop variable shadows a local")
        body = list(s.body)
        carried = [x for x in self.assigned(body) if x in env]
        env_b = dict(env)
        env_b["cell"] = ("cell", "cell")
        env_b["state"] = ("state", "state")
        env_b["monitors"] = ("monitors", "monitors")
        if named:
            env_b["name"] = ("name", "str")
        ctuple = "()" if not carried else (env[carried[0]][0] if len(carried) == 1 else
                                           "(" + ", ".join(env[x][0] for x in carried) + ")")
        cpat = "_c" if not carried else ctuple

        def leaf(e, dd):
            for x in carried:
                if e[x][1] != env[x][1]:
                    self.err(s, f"loop-carried local {x} changes kind")
            c = "()" if not carried else (e[carried[0]][0] if len(carried) == 1 else
                                          "(" + ", ".join(e[x][0] for x in carried) + ")")
            return f"{self.ind(dd)}pure ({e['cell'][0]}, {c})\n"
        self.in_loop, self.loop_leaf = True, leaf
        inner = self.block(body, env_b, alias, d + 2, lambda e, a, dd: leaf(e, dd))
        self.in_loop, self.loop_leaf = False, None
        sv = env["self"][0]
        head = f"fun {sv} {cpat} {'name ' if named else ''}cell state monitors"
        out = (f"{I}let ({sv}, {cpat if carried else '_'}) ← {fn} {sv} {ctuple} ({head} => (do\n{inner}"
               f"{I}    : Except Err _))\n")
        return out + self.block(rest, env, alias, d, cont)

    # ------------------------------------------------------------------ whole method
    def emit(self) -> str:
        sig = self.sigs[self.name]
        if sig["order"] != list(self.spec["params"]) or sig["vararg"] or sig["kwarg"]:
            raise TranslateError(f"{self.SRC}::{self.CLS}.{self.spec['py']}",
                                 f"signature changed: {sig['order']} (expected {list(self.spec['params'])})")
        st = STATES[self.spec["state"]][0]
        eps = "(Option α)" if self.spec["eps"] == "opt" else "α"
        ty = TRAINER.format(st=st, eps=eps)
        env = {p: (lname(p), k) for p, k in self.spec["params"].items()}
        env["self"] = ("self", "trainer")
        ptxt = "".join(f" ({lname(p)} : {self.LEAN_TY[k]})" for p, k in self.spec["params"].items())
        ntops = " (N : NTOps α ν)" if self.spec.get("ntops") else ""
        body = self.block(list(self.fdef.body), env, {}, 1, lambda e, a, dd: f"{self.ind(dd)}pure ({e['self'][0]}, ())\n")
        return f"def {self.name}{ntops} (self : {ty}){ptxt} :\n    Except Err ({ty} × Unit) := do\n" + body


def locate(tree, spec: dict) -> ast.FunctionDef:
    where = f"{spec['src']}::{spec['cls']}.{spec['py']}"
    cls = [n for n in tree.body if isinstance(n, ast.ClassDef) and n.name == spec["cls"]]
    if len(cls) != 1:
        raise TranslateError(spec["src"], f"class {spec['cls']}: {len(cls)} definitions")
    found = [n for n in cls[0].body if isinstance(n, ast.FunctionDef) and n.name == spec["py"] and not n.decorator_list]
    if len(found) != 1:
        raise TranslateError(where, f"{len(found)} definitions")
    return found[0]


def signature(f: ast.FunctionDef, where: str) -> dict:
    a = f.args
    pos = [x.arg for x in a.posonlyargs + a.args]
    if not pos or pos[0] != "self":
        raise TranslateError(where, "first parameter is not self")
    return {"order": pos[1:] + [x.arg for x in a.kwonlyargs], "vararg": a.vararg.arg if a.vararg else None,
            "kwarg": a.kwarg.arg if a.kwarg else None}


def regenerate() -> dict:
    """regenerates Gen/DelaySTDPProg.lean; same return shape as `progtx.regenerate_class`"""
    T = DTx
    srcs, trees = {}, {}
    text = T.HEADER
    info = {}
    for key, spec in T.METHODS.items():
        if spec["src"] not in srcs:
            srcs[spec["src"]] = (REPO / spec["src"]).read_text()
            trees[spec["src"]] = ast.parse(srcs[spec["src"]])
        fdef = locate(trees[spec["src"]], spec)
        sigs = {key: signature(fdef, f"{spec['src']}::{spec['cls']}.{spec['py']}")}
        seg = ast.get_source_segment(srcs[spec["src"]], fdef) or ""
        sha = hashlib.sha256(seg.encode()).hexdigest()[:16]
        text += (f"\n/-- from `{spec['src']}` :: `{spec['cls']}.{spec['py']}` (sha256 of source segment {sha}) -/\n"
                 + T(key, fdef, sigs).emit())
        info[key] = sha
    text += f"\nend {T.NAMESPACE}\n"
    p = GEN / T.OUT
    changed = not p.exists() or p.read_text() != text
    if changed:
        p.write_text(text)
    return {"functions": info, "rewritten": changed}


if __name__ == "__main__":
    print(json.dumps(regenerate(), indent=1))
