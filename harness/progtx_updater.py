"""Statement-level translator, updater classes (DESIGN §12.5, property C10): whole METHOD BODIES of
`Accumulator`, `Updater` and `Updatable` (`inferno/neural/modeling.py`) → Lean programs over the private states
`AccS` / `UpdS` / `ModS` (`Gen/UpdaterPrelude.lean`), regenerated on every run as `Gen/UpdaterProg.lean` (core Lean
only, executable).

What is kept from the source, statement by statement and in SOURCE ORDER: the constructor's field
initialisations (`torch.sum`, `lambda x, p, n: p - n`, the two `functools.cache`d closures `calc_pos` /
`calc_neg`, which are translated as functions of their own and looked up through `self._pos_cache = cache(calc_pos)`),
the property getters / setters / deleters of `pos` and `neg` (`is not None` test, `append`, `cache_clear()`),
`reduction` (truthiness of `fn`, both `cache_clear()`s), `upperbound` / `lowerbound` / `fullbound` (the
`isinstance(self.bind, list)` conversion, the list index that is assigned, the closures with their captured
`max` / `min` / `kwargs`), `clear` (`del self.pos; del self.neg`), the four-way `pos / neg is None` cascade of
`update` with the `isinstance` test, the indices, the argument order, `torch.zeros_like` and the unary minus,
`forward`; `Updater.__init__` (`argtest.members`, `weakref.ref`, the dict comprehension of fresh accumulators, the
`if reduction:` loop), `Updater.clear`, `Updater.forward` (default to all keys, the dead-reference
`RuntimeError`, the `setattr(module, p, self.updates_[p](getattr(module, p)))` loop with Python's evaluation
order); `Updatable.clear` / `update` / `updatesome`.

Dropped (not modelled, listed in `DROPPED_STMTS`): `Module.__init__(...)`, the state-dict hook of `Accumulator`
(`sdhook` and its registration), the dynamic `self.__class__ = type(...)` of `Updater.__init__` (property sugar
`updater.<name>`: `getattr(self.updater, p)` in `Updatable.updatesome` is the prelude primitive `dynGetattr`, which
models the generated property — `_getacc_` returns `self.updates_[attr]`, any other name is an `AttributeError`;
`_getacc_` / `_setacc_` / `_delacc_` themselves and the `updater` setter / deleter are not translated), doc strings,
and `**kwargs` that are only handed on to other translated methods.

Objects are references.  A method called on a sub-object is run on the sub-object's state and written back, also
when it raises: `subCall` for an accumulator fetched from `self.updates_[k]`, `forValues` for
`for acc in self.updates_.values(): acc.m(…)`, `updaterCall` for `self.updater…` of an `Updatable` (the rest of the
expression is translated as a program of the updater, `self.updater` ↦ `self`; the updater's weak reference designates
the module itself, as `Model/Updater.lean` assumes).  A strong reference obtained from `self._parent_module()` reads and
writes the referent through the state (`refGetattr` / `refSetattr`).

Exceptions keep Python's semantics: a program is a `Prog σ ρ = Except (Err × σ) (σ × ρ)` — the error side carries
the state at the raise point.  Every raising primitive is bound by its own `let t_ ← …` in Python's evaluation order
(callee, then arguments left to right).  `Props/C10GlueProg.lean` proves the generated programs equal to the
functions of `Model/Updater.lean`.  Anything outside this sub-language raises `TranslateError` naming the node.

Several classes and nested functions are translated, so this module has its own `regenerate()` (same return shape
as `progtx.regenerate_class`).  Methods are located by class / method name / decorator, never by line number.
"""
from __future__ import annotations

import ast
import hashlib
import json

import progtx
from progtx import Tx
from translate import GEN, REPO, TranslateError, lname

SRC = "inferno/neural/modeling.py"

# kinds:  ten optten optlim plist reduce optreduce bindv half full halflist halfbounding opthalfbounding
#         fullbounding optfullbounding kw str strs attrs accdict acc accnew weakref optmodref modref cache
#         stacked int bool none unit excten updself optupd upd
LEAN_TY = {
    "ten": "α", "optten": "Option α", "optlim": "Option α", "optreduce": "Option (Reduce α)",
    "opthalfbounding": "Option (HalfBounding α κ)", "optfullbounding": "Option (FullBounding α κ)", "kw": "κ",
    "strs": "List String", "attrs": "List (String × α)", "unit": "Unit", "bool": "Bool",
}
STATES = {"acc": "AccS α", "upd": "UpdS α", "mod": "ModS α"}
# instance attributes: class -> attribute -> kind
FIELDS = {
    "Accumulator": {"_pos": "plist", "_neg": "plist", "reduce": "reduce", "bind": "bindv",
                    "_pos_cache": "cache", "_neg_cache": "cache"},
    "Updater": {"updates_": "accdict", "_parent_module": "weakref"},
    "Updatable": {"updater_": "optupd"},
}
STATE_OF = {"Accumulator": "acc", "Updater": "upd", "Updatable": "mod"}
OPT_BASE = {"optten": "ten", "optlim": "ten", "optreduce": "reduce", "opthalfbounding": "halfbounding",
            "optfullbounding": "fullbounding"}

# functions, in emission order (callees first).  key = name of the generated definition; `py` = Python method,
# `nested` = a function defined inside it; `decorator` picks a property getter / setter / deleter; `ctor` =
# "total" (a term) / "raising" (`Except Err state`); `drop` = parameters not translated (only handed on);
# `vararg` = the `*name` parameter is translated (kind in `params`)
METHODS = {
    "Accumulator_calc_pos": {"cls": "Accumulator", "py": "__init__", "nested": "calc_pos", "params": {}, "ret": "optten"},
    "Accumulator_calc_neg": {"cls": "Accumulator", "py": "__init__", "nested": "calc_neg", "params": {}, "ret": "optten"},
    "Accumulator___init__": {"cls": "Accumulator", "py": "__init__", "ctor": "total", "params": {}, "ret": "unit"},
    "Accumulator_pos": {"cls": "Accumulator", "py": "pos", "decorator": "property", "params": {}, "ret": "optten"},
    "Accumulator_pos_setter": {"cls": "Accumulator", "py": "pos", "decorator": "pos.setter",
                               "params": {"value": "optten"}, "ret": "unit"},
    "Accumulator_pos_deleter": {"cls": "Accumulator", "py": "pos", "decorator": "pos.deleter", "params": {}, "ret": "unit"},
    "Accumulator_neg": {"cls": "Accumulator", "py": "neg", "decorator": "property", "params": {}, "ret": "optten"},
    "Accumulator_neg_setter": {"cls": "Accumulator", "py": "neg", "decorator": "neg.setter",
                               "params": {"value": "optten"}, "ret": "unit"},
    "Accumulator_neg_deleter": {"cls": "Accumulator", "py": "neg", "decorator": "neg.deleter", "params": {}, "ret": "unit"},
    "Accumulator_reduction": {"cls": "Accumulator", "py": "reduction", "params": {"fn": "optreduce"}, "ret": "unit"},
    "Accumulator_upperbound": {"cls": "Accumulator", "py": "upperbound",
                               "params": {"bound": "opthalfbounding", "max": "optlim", "kwargs": "kw"}, "ret": "unit"},
    "Accumulator_lowerbound": {"cls": "Accumulator", "py": "lowerbound",
                               "params": {"bound": "opthalfbounding", "min": "optlim", "kwargs": "kw"}, "ret": "unit"},
    "Accumulator_fullbound": {"cls": "Accumulator", "py": "fullbound",
                              "params": {"bound": "optfullbounding", "max": "optlim", "min": "optlim", "kwargs": "kw"},
                              "ret": "unit"},
    "Accumulator_clear": {"cls": "Accumulator", "py": "clear", "params": {}, "drop": ["kwargs"], "ret": "unit"},
    "Accumulator_update": {"cls": "Accumulator", "py": "update", "params": {"param": "ten"}, "drop": ["kwargs"],
                           "ret": "optten"},
    "Accumulator_forward": {"cls": "Accumulator", "py": "forward", "params": {"param": "ten"}, "drop": ["kwargs"],
                            "ret": "ten"},
    "Updater___init__": {"cls": "Updater", "py": "__init__", "ctor": "raising",
                         "params": {"module": "attrs", "params": "strs", "reduction": "optreduce"},
                         "drop": ["kwargs"], "ret": "unit"},
    "Updater_clear": {"cls": "Updater", "py": "clear", "params": {}, "drop": ["kwargs"], "ret": "unit"},
    "Updater_forward": {"cls": "Updater", "py": "forward", "params": {"params": "strs"}, "drop": ["kwargs"], "ret": "unit"},
    "Updatable_updater": {"cls": "Updatable", "py": "updater", "decorator": "property", "params": {}, "ret": "optupd"},
    "Updatable_updatable": {"cls": "Updatable", "py": "updatable", "decorator": "property", "params": {}, "ret": "bool"},
    "Updatable_clear": {"cls": "Updatable", "py": "clear", "params": {}, "drop": ["kwargs"], "ret": "unit"},
    "Updatable_update": {"cls": "Updatable", "py": "update", "params": {"clear": "bool"}, "drop": ["kwargs"], "ret": "unit"},
    "Updatable_updatesome": {"cls": "Updatable", "py": "updatesome", "params": {"params": "strs", "clear": "bool"},
                             "drop": ["kwargs"], "ret": "unit"},
}
LEAN_TY["str"] = "String"
LEAN_TY["optupd"] = "Option (List (String × AccS α))"

# statements of the constructors that are not translated (exact `ast.unparse` text, or a prefix ending in `(`)
DROPPED_STMTS = {
    "Accumulator": ["Module.__init__(self)", "self.register_load_state_dict_post_hook(sdhook)"],
    "Updater": ["Module.__init__(self, **kwargs)", "self.__class__ = type("],
}
DROPPED_NESTED = {"Accumulator": {"sdhook"}}


def is_self(n, attr=None):
    return (isinstance(n, ast.Attribute) and isinstance(n.value, ast.Name) and n.value.id == "self"
            and (attr is None or n.attr == attr))


class UpdaterTx(Tx):
    SRC = SRC
    CLS = "Accumulator"
    METHODS = METHODS
    LEAN_TY = LEAN_TY
    STATE_TY = "AccS α"
    DROPPED_PARAMS = set()
    OUT = "UpdaterProg.lean"
    NAMESPACE = "InfernoVerif.Gen.UpdaterProg"
    HEADER = """import InfernoVerif.Gen.UpdaterPrelude
/-! GENERATED by harness/progtx_updater.py from inferno/neural/modeling.py (classes Accumulator, Updater, Updatable)
— do not edit.  Whole method bodies as programs `Prog σ ρ = Except (Err × σ) (σ × ρ)` over the private states
`AccS` / `UpdS` / `ModS`; vocabulary: Gen/UpdaterPrelude.lean. -/
set_option linter.unusedVariables false
namespace InfernoVerif.Gen.UpdaterProg
open InfernoVerif.Updater InfernoVerif.Gen.UpdProg

variable {α κ : Type} [Add α] [Sub α] [Neg α] [Zero α]
"""
    CACHES: dict = {}       # class -> {cache attribute: nested function}, read from the constructors by `regenerate`
    PROPS: dict = {}        # class -> {property name: {"get": key, "set": key, "del": key}}
    BYNAME: dict = {}       # (class, python method name) -> key, for plain methods

    def __init__(self, name, fdef, sigs):
        self.name, self.fdef, self.sigs = name, fdef, sigs
        self.spec = self.METHODS[name]
        self.cls = self.spec["cls"]
        self.CLS = self.cls + "." + self.spec["py"] + ("." + self.spec["nested"] if self.spec.get("nested") else "")
        self.state = STATE_OF[self.cls]
        self.STATE_TY = STATES[self.state]
        self.ctor = self.spec.get("ctor")
        self.fresh = 0
        self.pre: list[str] = []          # hoisted `let` lines of the statement being translated
        self.prov: dict[str, str] = {}    # lean name of an accumulator fetched from `self.updates_` -> its key text
        self.noself = False               # inside a closure / total constructor: `self` must not be read

    def err(self, node, msg):
        raise TranslateError(f"{self.SRC}::{self.CLS}:{getattr(node, 'lineno', '?')}",
                             f"{msg}: {ast.unparse(node)[:140] if isinstance(node, ast.AST) else node}")

    # ------------------------------------------------------------------ hoisting (A-normal form)
    def tmp(self, stem="t"):
        self.fresh += 1
        return f"{stem}{self.fresh}_"

    def hoist(self, text):
        """bind a raising plain primitive (`Except Err _`) by its own `let`"""
        if self.noself:
            self.err(text, "raising primitive inside a closure / total constructor")
        t = self.tmp()
        self.pre.append(f"let {t} ← {text}" if self.ctor else f"let {t} ← raiseWith self ({text})")
        return t

    def hoist_call(self, text):
        """a translated method called on `self`: returns the text of its return value; `self` is rebound"""
        if self.noself or self.ctor:
            self.err(text, "method call on self inside a closure / constructor")
        r = self.tmp("r")
        self.pre.append(f"let {r} ← {text}")
        self.pre.append(f"let self := {r}.1")
        return f"{r}.2"

    def flush(self, d):
        I = self.ind(d)
        out = "".join(I + l.replace("\n", "\n" + I) + "\n" for l in self.pre)
        self.pre = []
        return out

    def coerce(self, node, v, k, want):
        if k == want or (k, want) in (("optlim", "optten"), ("optten", "optlim")):
            return v
        if k == "none" and want in OPT_BASE:
            return "none"
        if want in OPT_BASE and OPT_BASE[want] == k:
            return f"(some {v})"
        if want == "bindv" and k == "full":
            return f"BindV.fn {v}"
        if want == "bindv" and k == "halflist":
            return f"BindV.list {v}"
        if want == "cache" and k == "cache":
            return v
        self.err(node, f"value of kind {k} where {want} is expected")

    # ------------------------------------------------------------------ expressions
    def field(self, n):
        """`self.<attr>` naming an instance attribute of the current class -> (attr, kind)"""
        if is_self(n) and n.attr in FIELDS[self.cls]:
            return n.attr, FIELDS[self.cls][n.attr]
        return None

    def ex(self, n, env):
        if isinstance(n, ast.Constant):
            if isinstance(n.value, bool):
                return ("true" if n.value else "false"), "bool"
            if isinstance(n.value, int):
                return (f"({n.value} : Int)" if n.value >= 0 else f"(-{-n.value} : Int)"), "int"
            if n.value is None:
                return "none", "none"
            if isinstance(n.value, str):
                return json.dumps(n.value), "str"
            self.err(n, "unsupported constant")
        if isinstance(n, ast.Name):
            if n.id not in env:
                self.err(n, "unknown name")
            return env[n.id]
        if isinstance(n, ast.Attribute):
            f = self.field(n)
            if f is not None:
                if self.noself:
                    self.err(n, "instance attribute read inside a closure / total constructor")
                return f"self.{f[0]}", f[1]
            if is_self(n) and n.attr in self.PROPS.get(self.cls, {}):
                return self.hoist_call(f"{self.PROPS[self.cls][n.attr]['get']} self"), \
                    self.METHODS[self.PROPS[self.cls][n.attr]["get"]]["ret"]
            if ast.unparse(n) == "torch.sum":
                return "torchSum", "reduce"
            return self.attribute(n, env)
        if isinstance(n, ast.UnaryOp):
            v, k = self.ex(n.operand, env)
            if isinstance(n.op, ast.Not):
                return f"(!{self.truth(n.operand, v, k)})", "bool"
            if isinstance(n.op, ast.USub) and k == "ten":
                return f"(-{v})", "ten"
            self.err(n, f"unsupported unary operation on kind {k}")
        if isinstance(n, ast.BinOp):
            a, ka = self.ex(n.left, env)
            b, kb = self.ex(n.right, env)
            if isinstance(n.op, (ast.Add, ast.Sub)) and ka == "ten" and kb == "ten":
                return f"({a} {'+' if isinstance(n.op, ast.Add) else '-'} {b})", "ten"
            self.err(n, f"unsupported arithmetic on kinds {ka}, {kb}")
        if isinstance(n, ast.Compare) and len(n.ops) == 1 and isinstance(n.ops[0], (ast.Is, ast.IsNot)) \
                and isinstance(n.comparators[0], ast.Constant) and n.comparators[0].value is None:
            v, k = self.ex(n.left, env)
            if k in OPT_BASE or k == "optupd":
                return f"({v}.{'isNone' if isinstance(n.ops[0], ast.Is) else 'isSome'})", "bool"
            self.err(n, f"comparison with None on kind {k}")
        if isinstance(n, ast.Lambda):
            return self.lam(n, env)
        if isinstance(n, ast.List):
            if len(n.elts) == 1 and isinstance(n.elts[0], ast.Starred):          # [*plist]: a list copy
                v, k = self.ex(n.elts[0].value, env)
                if k == "plist":
                    return v, "tenlist"
            parts = [self.ex(e, env) for e in n.elts]
            if parts and all(k == "half" for _, k in parts):
                return "[" + ", ".join(p for p, _ in parts) + "]", "halflist"
            self.err(n, "unsupported list display")
        if isinstance(n, ast.DictComp):
            return self.dictcomp(n, env)
        if isinstance(n, ast.Subscript):
            return self.subscript(n, env)
        if isinstance(n, ast.Call):
            return self.call(n, env)
        self.err(n, "unsupported expression")

    def attribute(self, n, env):
        self.err(n, "unsupported attribute")

    def truth(self, node, v, k):
        """Python truthiness of a value of kind `k` as a `Bool` text"""
        if k == "bool":
            return v
        if k == "int":
            return f"(decide ({v} ≠ 0))"
        if k == "strs":
            return f"(!{v}.isEmpty)"
        self.err(node, f"truthiness of kind {k}")

    def lam(self, n: ast.Lambda, env):
        a = n.args
        if a.vararg or a.kwarg or a.kwonlyargs or a.posonlyargs:
            self.err(n, "unsupported lambda signature")
        names = [x.arg for x in a.args]
        nd = len(a.defaults)
        free, dflt = names[:len(names) - nd], names[len(names) - nd:]
        lenv = dict(env)
        for nm, d in zip(dflt, a.defaults):          # default values are evaluated where the lambda is defined
            if not isinstance(d, ast.Name):
                self.err(n, "lambda default must be a name")
            lenv[nm] = self.ex(d, env)
        for nm in free:
            lenv[nm] = (lname(nm), "ten")
        if len(free) not in (2, 3):
            self.err(n, "lambda must take (x, p) or (x, p, n)")
        save, self.noself = self.noself, True
        npre = len(self.pre)
        v, k = self.ex(n.body, lenv)
        self.noself = save
        if len(self.pre) != npre:
            self.err(n, "raising primitive inside a lambda")
        hdr = "fun " + " ".join(lname(x) for x in free) + " => "
        if len(free) == 2 and k == "ten":
            return f"({hdr}{v})", "half"
        if len(free) == 3 and k == "ten":
            return f"({hdr}pure {v})", "full"
        if len(free) == 3 and k == "excten":
            return f"({hdr}{v})", "full"
        self.err(n, f"lambda of {len(free)} parameters with a body of kind {k}")

    def dictcomp(self, n: ast.DictComp, env):
        if len(n.generators) != 1:
            self.err(n, "unsupported comprehension")
        g = n.generators[0]
        if g.ifs or g.is_async or not isinstance(g.target, ast.Name):
            self.err(n, "unsupported comprehension")
        it, ki = self.ex(g.iter, env)
        if ki != "strs":
            self.err(n, f"comprehension over kind {ki}")
        lenv = dict(env)
        lenv[g.target.id] = (lname(g.target.id), "str")
        save, self.noself = self.noself, True
        npre = len(self.pre)
        kx, kk = self.ex(n.key, lenv)
        vx, vk = self.ex(n.value, lenv)
        self.noself = save
        if len(self.pre) != npre:
            self.err(n, "raising primitive inside a comprehension")
        if kk == "str" and vk == "accnew":
            return f"(dictComp {it} (fun {lname(g.target.id)} => ({kx}, {vx})))", "accdict:raw"
        self.err(n, f"comprehension of kinds {kk}: {vk}")

    def int_const(self, n):
        if isinstance(n, ast.Constant) and isinstance(n.value, int) and not isinstance(n.value, bool):
            return n.value
        if isinstance(n, ast.UnaryOp) and isinstance(n.op, ast.USub) and isinstance(n.operand, ast.Constant) \
                and isinstance(n.operand.value, int):
            return -n.operand.value
        return None

    def subscript(self, n, env):
        v, k = self.ex(n.value, env)
        if k == "bindv":
            i = self.int_const(n.slice)
            if i is None:
                self.err(n, "index of self.bind must be an integer literal")
            return self.hoist(f"getItem {v} ({i} : Int)"), "half"
        if k == "accdict":
            key, kk = self.ex(n.slice, env)
            if kk != "str":
                self.err(n, f"key of kind {kk}")
            t = self.hoist(f"dictGetItem {v} {key}")
            self.prov[t] = key
            return t, "acc"
        self.err(n, f"unsupported subscript on kind {k}")

    def pos_args(self, n: ast.Call, drop_kwargs_ok=True):
        """positional arguments of a call; `**kwargs` is accepted (and ignored) only when `kwargs` is a dropped
        parameter of the current method (handed on, never read)"""
        for kw in n.keywords:
            if kw.arg is None and isinstance(kw.value, ast.Name) and kw.value.id in self.spec.get("drop", []) \
                    and drop_kwargs_ok:
                continue
            self.err(n, "unsupported keyword argument")
        return list(n.args)

    def callee_args(self, n: ast.Call, key, env):
        """argument texts of a call of the translated method `key` (positional, in the callee's parameter order)"""
        want = list(self.METHODS[key]["params"].items())
        args = self.pos_args(n)
        if len(args) == 1 and isinstance(args[0], ast.Starred) and len(want) == 1:       # f(*params)
            v, k = self.ex(args[0].value, env)
            return [self.coerce(n, v, k, want[0][1])]
        if any(isinstance(a, ast.Starred) for a in args) or len(args) > len(want):
            self.err(n, "unsupported arguments")
        sig = self.sigs[key]
        out = []
        for i, (p, kind) in enumerate(want):
            if i < len(args):
                if sig["vararg"] == p:                     # f(a) for f(*params): a one-element tuple
                    v, k = self.ex(args[i], env)
                    if k != "str" or kind != "strs" or len(args) != len(want):
                        self.err(n, "unsupported variadic call")
                    out.append(f"[{v}]")
                    continue
                v, k = self.ex(args[i], env)
                out.append(self.coerce(args[i], v, k, kind))
            elif sig["vararg"] == p:
                out.append("[]")
            elif p in sig["defaults"]:
                v, k = self.ex(sig["defaults"][p], env)
                out.append(self.coerce(n, v, k, kind))
            else:
                self.err(n, f"missing argument {p}")
        return out

    def call(self, n: ast.Call, env):
        f = n.func
        ftxt = ast.unparse(f)
        r = self.call_pre(n, env)
        if r is not None:
            return r
        if ftxt == "len" and len(n.args) == 1 and not n.keywords:
            v, k = self.ex(n.args[0], env)
            if k == "plist":
                return f"({v}.length : Int)", "int"
        if ftxt == "isinstance" and len(n.args) == 2 and not n.keywords and ast.unparse(n.args[1]) == "list":
            v, k = self.ex(n.args[0], env)
            if k == "bindv":
                return f"(isList {v})", "bool"
        if ftxt == "nn.ParameterList" and not n.args and not n.keywords:
            return "nnParameterList", "plist"
        if ftxt == "cache" and len(n.args) == 1 and isinstance(n.args[0], ast.Name) and not n.keywords:
            if n.args[0].id not in self.CACHES.get(self.cls, {}).values():
                self.err(n, "functools.cache of something that is not a translated nested function")
            return "functoolsCache", "cache"
        if ftxt == "torch.stack" and len(n.args) == 2 and not n.keywords and self.int_const(n.args[1]) == 0:
            v, k = self.ex(n.args[0], env)
            if k == "tenlist":
                return self.hoist(f"torchStack0 {v}"), "stacked"
        if ftxt == "torch.zeros_like" and len(n.args) == 1 and not n.keywords:
            v, k = self.ex(n.args[0], env)
            if k == "ten":
                return f"(zerosLike {v})", "ten"
        if ftxt == "weakref.ref" and len(n.args) == 1 and not n.keywords:
            v, k = self.ex(n.args[0], env)
            if k == "attrs":
                return f"(weakrefRef {v})", "weakref"
        if ftxt == "nn.ModuleDict" and len(n.args) == 1 and not n.keywords:
            v, k = self.ex(n.args[0], env)
            if k == "accdict:raw":
                return f"(nnModuleDict {v})", "accdict"
        if ftxt == "Accumulator" and not n.args and not n.keywords:
            return "Accumulator___init__", "accnew"
        if ftxt == "argtest.members" and len(n.args) == 3 and not n.keywords and isinstance(n.args[0], ast.Constant) \
                and isinstance(n.args[2], ast.Starred):
            o, ko = self.ex(n.args[1], env)
            a, ka = self.ex(n.args[2].value, env)
            if ko == "attrs" and ka == "strs":
                self.hoist(f"argtestMembers {o} {a}")
                return o, "attrs"
        if ftxt == "getattr" and len(n.args) == 2 and not n.keywords:
            o, ko = self.ex(n.args[0], env)
            a, ka = self.ex(n.args[1], env)
            if ko == "modref" and ka == "str":
                return self.hoist(f"refGetattr self._parent_module {a}"), "ten"
        # a property getter / plain method of the current class called on `self`
        if is_self(f) and (self.cls, f.attr) in self.BYNAME:
            key = self.BYNAME[(self.cls, f.attr)]
            args = self.callee_args(n, key, env)
            return self.hoist_call(" ".join([key, "self"] + args)), self.METHODS[key]["ret"]
        if isinstance(f, ast.Attribute) and f.attr == "keys" and not n.args and not n.keywords:
            v, k = self.ex(f.value, env)
            if k == "accdict":
                return f"(dictKeys {v})", "strs"
        # calling a callable value
        if isinstance(f, (ast.Attribute, ast.Subscript, ast.Name)):
            if isinstance(f, ast.Name) and f.id not in env:
                self.err(n, "unsupported call")
            fv, fk = self.ex(f, env)
            if fk == "cache" and not n.args and not n.keywords:              # self._pos_cache()
                attr = f.attr
                fn = "Accumulator_" + self.CACHES[self.cls][attr]
                return self.hoist_call(f"cached (fun s_ => s_.{attr}) (fun s_ c_ => {{ s_ with {attr} := c_ }}) {fn} self"), \
                    self.METHODS[fn]["ret"]
            if fk == "weakref" and not n.args and not n.keywords:            # self._parent_module()
                return fv, "optmodref"
            if fk == "reduce" and len(n.args) == 2 and not n.keywords and self.int_const(n.args[1]) == 0:
                x, kx = self.ex(n.args[0], env)
                if kx == "stacked":
                    return self.hoist(f"callReduce0 {fv} {x}"), "ten"
            if fk == "half" and len(n.args) == 2 and not n.keywords:
                a = [self.ex(x, env) for x in n.args]
                if all(k == "ten" for _, k in a):
                    return f"({fv} {a[0][0]} {a[1][0]})", "ten"
            if fk == "bindv" and len(n.args) == 3 and not n.keywords:
                a = [self.ex(x, env) for x in n.args]
                if all(k == "ten" for _, k in a):
                    return self.hoist(f"callFull {fv} {a[0][0]} {a[1][0]} {a[2][0]}"), "ten"
            if fk in ("halfbounding", "fullbounding"):
                nt = 2 if fk == "halfbounding" else 3
                nl = 1 if fk == "halfbounding" else 2
                kws = [kw for kw in n.keywords]
                if len(n.args) == nt + nl and len(kws) == 1 and kws[0].arg is None:
                    a = [self.ex(x, env) for x in n.args]
                    kv, kk = self.ex(kws[0].value, env)
                    if all(k == "ten" for _, k in a[:nt]) and all(k == "optlim" for _, k in a[nt:]) and kk == "kw":
                        txt = "(" + " ".join([fv] + [x for x, _ in a] + [kv]) + ")"
                        return txt, ("ten" if fk == "halfbounding" else "excten")
            if fk == "acc" and fv in self.prov:                              # Module.__call__ -> forward
                args = self.callee_args(n, "Accumulator_forward", env)
                return self.sub_call(n, fv, "Accumulator_forward", args), self.METHODS["Accumulator_forward"]["ret"]
        self.err(n, "unsupported call")

    def call_pre(self, n: ast.Call, env):
        """calls tried before the callee is evaluated as a value: `self(...)` (`Module.__call__` -> `forward`),
        `<accumulator>.m(...)`, `getattr(self, p)` on an updater (the property generated by `Updater.__init__`)"""
        f = n.func
        if isinstance(f, ast.Name) and f.id == "self" and (self.cls, "forward") in self.BYNAME:
            key = self.BYNAME[(self.cls, "forward")]
            args = self.callee_args(n, key, env)
            return self.hoist_call(" ".join([key, "self"] + args)), self.METHODS[key]["ret"]
        if ast.unparse(f) == "getattr" and len(n.args) == 2 and not n.keywords and isinstance(n.args[0], ast.Name) \
                and n.args[0].id == "self" and self.cls == "Updater":
            a, ka = self.ex(n.args[1], env)
            if ka == "str":
                t = self.hoist(f"dynGetattr self.updates_ {a}")
                self.prov[t] = a
                return t, "acc"
        if isinstance(f, ast.Attribute) and ("Accumulator", f.attr) in self.BYNAME and not is_self(f):
            npre = len(self.pre)
            try:
                v, k = self.ex(f.value, env)
            except TranslateError:
                del self.pre[npre:]
                return None
            if k == "acc" and v in self.prov:
                key = self.BYNAME[("Accumulator", f.attr)]
                args = self.callee_args(n, key, env)
                return self.sub_call(n, v, key, args), self.METHODS[key]["ret"]
            del self.pre[npre:]
        return None

    def sub_call(self, node, acc, key, args):
        """a translated Accumulator method called on the accumulator `acc` fetched from `self.updates_[k]`"""
        if self.ctor or self.noself:
            self.err(node, "sub-object call inside a constructor / closure")
        k = self.prov[acc]
        r = self.tmp("r")
        self.pre.append(f"let {r} ← subCall self (fun s_ v_ => {{ s_ with updates_ := dictSetItem s_.updates_ {k} v_ }}) "
                        f"({' '.join([key, acc] + args)})")
        self.pre.append(f"let self := {r}.1")
        return f"{r}.2"

    # ------------------------------------------------------------------ statements
    def throw(self, exc):
        return f"throw Err.{exc}" if self.ctor else f"throw (Err.{exc}, self)"

    def ret(self, v):
        return f"pure (self, {v})"

    def dropped(self, s) -> bool:
        txt = ast.unparse(s)
        for pat in DROPPED_STMTS.get(self.cls, []) if self.ctor else []:
            if txt == pat or (pat.endswith("(") and txt.startswith(pat)):
                return True
        return False

    def block(self, stmts, env, alias, d, cont) -> str:
        if not stmts:
            return cont(env, alias, d)
        if self.pre:
            self.err(stmts[0], "internal: unflushed hoisted bindings")
        s, rest = stmts[0], stmts[1:]
        I = self.ind(d)
        nxt = lambda e, a, dd: self.block(rest, e, a, dd, cont)   # noqa: E731
        if isinstance(s, ast.Expr) and isinstance(s.value, ast.Constant) and isinstance(s.value.value, str):
            return nxt(env, alias, d)
        if self.dropped(s):
            return nxt(env, alias, d)
        if isinstance(s, ast.Raise):
            exc = s.exc.func.id if isinstance(s.exc, ast.Call) and isinstance(s.exc.func, ast.Name) else None
            if exc not in progtx.ERRS or exc not in ("TypeError", "KeyError", "AttributeError", "RuntimeError"):
                self.err(s, "unsupported exception")
            return f"{I}{self.throw(exc)}\n"
        if isinstance(s, ast.Return):
            want = self.spec["ret"]
            if s.value is None:
                if want != "unit":
                    self.err(s, "bare return")
                return f"{I}{self.ret('()')}\n"
            v, k = self.ex(s.value, env)
            if want == "optten" and k == "ten":
                v = f"some {v}"
            elif want == "optten" and k == "none":
                v = "none"
            elif k != want:
                self.err(s, f"returns kind {k}, expected {want}")
            return self.flush(d) + f"{I}{self.ret(v)}\n"
        if isinstance(s, ast.Expr) and isinstance(s.value, ast.Call):
            return self.call_stmt(s.value, env, alias, d, nxt)
        if isinstance(s, ast.Assign) and len(s.targets) == 1:
            return self.assign(s, env, alias, d, nxt)
        if isinstance(s, ast.Delete) and len(s.targets) == 1:
            return self.delete(s, env, alias, d, nxt)
        if isinstance(s, ast.If):
            return self.if_stmt(s, rest, env, alias, d, cont)
        if isinstance(s, ast.For):
            return self.for_stmt(s, env, alias, d, nxt)
        self.err(s, "unsupported statement")

    def set_field(self, d, attr, v):
        return f"{self.ind(d)}let self := {{ self with {attr} := {v} }}\n"

    def view_call(self, c: ast.Call, env):
        """a call statement of an `Updatable` that goes through `self.updater` (exactly once): the property is read,
        then the rest of the expression is translated as a program of the UPDATER (`self.updater` ↦ `self`) and run
        on the referenced object by `updaterCall`; `None` raises `TypeError` when called, `AttributeError` when an
        attribute is taken"""
        hits = [x for x in ast.walk(c) if is_self(x, "updater")]
        if len(hits) != 1:
            return False
        node = hits[0]
        parent = next(x for x in ast.walk(c) if any(ch is node for ch in ast.iter_child_nodes(x)))
        if isinstance(parent, ast.Call) and parent.func is node:
            on_none = "TypeError"
        elif isinstance(parent, ast.Attribute) or (isinstance(parent, ast.Call) and ast.unparse(parent.func) == "getattr"
                                                   and parent.args and parent.args[0] is node):
            on_none = "AttributeError"
        else:
            self.err(c, "unsupported use of self.updater")
        ref, k = self.ex(node, env)                       # the property read
        if k != "optupd":
            self.err(c, f"self.updater of kind {k}")

        class R(ast.NodeTransformer):
            def visit_Attribute(self_, x):
                if x is node:
                    return ast.copy_location(ast.Name(id="self", ctx=ast.Load()), x)
                return self_.generic_visit(x)
        import copy
        sub = copy.copy(self)
        sub.cls, sub.state, sub.CLS = "Updater", "upd", self.CLS + "[self.updater]"
        sub.pre, sub.prov = [], {}
        sub.fresh = self.fresh
        inner = R().visit(c)                              # `node` is a node of `c` itself: rewritten in place
        ast.fix_missing_locations(inner)
        sub.ex(inner, env)
        self.fresh = sub.fresh
        r = self.tmp("r")
        lines = "".join(f"\n    {l}" for l in sub.pre)
        self.pre.append(f"let {r} ← updaterCall self {ref} Err.{on_none} (fun self => do{lines}\n    pure (self, ()))")
        self.pre.append(f"let self := {r}.1")
        return True

    def call_stmt(self, c: ast.Call, env, alias, d, nxt) -> str:
        f = c.func
        if self.cls == "Updatable" and self.view_call(c, env):
            return self.flush(d) + nxt(env, alias, d)
        if isinstance(f, ast.Attribute) and self.field(f.value) is not None and not c.keywords:
            attr, kind = self.field(f.value)
            if f.attr == "append" and kind == "plist" and len(c.args) == 1:
                v, k = self.ex(c.args[0], env)
                if k == "ten":
                    return self.flush(d) + self.set_field(d, attr, f"(plistAppend self.{attr} {v})") + nxt(env, alias, d)
            if f.attr == "cache_clear" and kind == "cache" and not c.args:
                return self.set_field(d, attr, "cacheClear") + nxt(env, alias, d)
        if ast.unparse(f) == "setattr" and len(c.args) == 3 and not c.keywords:
            o, ko = self.ex(c.args[0], env)
            a, ka = self.ex(c.args[1], env)
            v, kv = self.ex(c.args[2], env)
            if ko == "modref" and ka == "str" and kv == "ten":
                return self.flush(d) + self.set_field(d, "_parent_module", f"(refSetattr self._parent_module {a} {v})") \
                    + nxt(env, alias, d)
        # any other call evaluated for its effect: a translated method / property
        v, k = self.ex(c, env)
        return self.flush(d) + nxt(env, alias, d)

    def delete(self, s: ast.Delete, env, alias, d, nxt) -> str:
        t = s.targets[0]
        if is_self(t) and t.attr in self.PROPS.get(self.cls, {}) and "del" in self.PROPS[self.cls][t.attr]:
            self.hoist_call(f"{self.PROPS[self.cls][t.attr]['del']} self")
            return self.flush(d) + nxt(env, alias, d)
        self.err(s, "unsupported del")

    def assign(self, s: ast.Assign, env, alias, d, nxt) -> str:
        I = self.ind(d)
        t = s.targets[0]
        if isinstance(t, ast.Tuple) and isinstance(s.value, ast.Tuple) and len(t.elts) == len(s.value.elts):
            if not all(isinstance(a, ast.Name) for a in t.elts):
                self.err(s, "unsupported tuple target")
            env = dict(env)
            vals = [self.ex(b, env) for b in s.value.elts]          # the right-hand side first, left to right
            out = self.flush(d)
            for a, (v, k) in zip(t.elts, vals):
                out += f"{I}let {lname(a.id)} := {v}\n"
                env[a.id] = (lname(a.id), k)
            return out + nxt(env, alias, d)
        if isinstance(t, ast.Name):
            v, k = self.ex(s.value, env)
            out = self.flush(d)
            if t.id == "_":
                return out + nxt(env, alias, d)
            env = dict(env)
            env[t.id] = (lname(t.id), k)
            return out + f"{I}let {lname(t.id)} := {v}\n" + nxt(env, alias, d)
        fld = self.field(t)
        if fld is not None:
            v, k = self.ex(s.value, env)
            v = self.coerce(s, v, k, fld[1])
            return self.flush(d) + self.set_field(d, fld[0], v) + nxt(env, alias, d)
        if isinstance(t, ast.Subscript) and self.field(t.value) is not None and self.field(t.value)[1] == "bindv":
            i = self.int_const(t.slice)
            v, k = self.ex(s.value, env)
            if i is not None and k == "half":
                b = self.hoist(f"setItem self.bind ({i} : Int) {v}")
                return self.flush(d) + self.set_field(d, "bind", b) + nxt(env, alias, d)
        self.err(s, "unsupported assignment")

    def for_stmt(self, s: ast.For, env, alias, d, nxt) -> str:
        I = self.ind(d)
        if s.orelse or not isinstance(s.target, ast.Name):
            self.err(s, "unsupported loop")
        var = s.target.id
        it = s.iter
        wrap = (lambda t: f"dropState ({t})") if self.ctor else (lambda t: t)
        # for acc in self.updates_.values(): acc.m(...)      (the value objects are mutated in place)
        if isinstance(it, ast.Call) and isinstance(it.func, ast.Attribute) and it.func.attr == "values" \
                and not it.args and not it.keywords and self.field(it.func.value) is not None \
                and self.field(it.func.value)[1] == "accdict":
            attr = self.field(it.func.value)[0]
            body = ""
            for b in s.body:
                c = b.value if isinstance(b, ast.Expr) and isinstance(b.value, ast.Call) else None
                if c is None or not (isinstance(c.func, ast.Attribute) and isinstance(c.func.value, ast.Name)
                                     and c.func.value.id == var and ("Accumulator", c.func.attr) in self.BYNAME):
                    self.err(b, "loop over accumulators: only method calls on the loop variable are supported")
                key = self.BYNAME[("Accumulator", c.func.attr)]
                save, self.noself = self.noself, True              # the arguments may not read `self`
                args = self.callee_args(c, key, env)
                self.noself = save
                if self.pre:
                    self.err(b, "raising primitive in an argument inside a loop over accumulators")
                body += f"{I}    let {lname(var)} := (← {' '.join([key, lname(var)] + args)}).1\n"
            head = (f"forValues self (fun s_ => s_.{attr}) (fun s_ d_ => {{ s_ with {attr} := d_ }}) "
                    f"(fun {lname(var)} => do\n{body}{I}    pure {lname(var)})")
            return f"{I}let self ← {wrap(head)}\n" + nxt(env, alias, d)
        # for p in <names>: body       (the body threads `self`; it may raise but not return)
        v, k = self.ex(it, env)
        if k == "strs" and not self.pre and not self.ctor:
            if self.terminates(s.body) or any(x in env for x in self.assigned(s.body)):
                self.err(s, "loop body returns or rebinds an outer local")
            benv = dict(env)
            benv[var] = (lname(var), "str")
            leaf = lambda e, a, dd: f"{self.ind(dd)}pure self\n"   # noqa: E731
            body = self.block(list(s.body), benv, alias, d + 2, leaf)
            return (f"{I}let self ← forEach {v} self (fun self {lname(var)} => do\n{body}{I}  )\n"
                    + nxt(env, alias, d))
        self.err(s, f"unsupported loop over kind {k}")

    def if_stmt(self, s: ast.If, rest, env, alias, d, cont) -> str:
        I = self.ind(d)
        body, orelse = list(s.body), list(s.orelse)
        # `if c: x = e` with nothing else: a conditional rebinding
        if not orelse and len(body) == 1 and isinstance(body[0], ast.Assign) and isinstance(body[0].targets[0], ast.Name):
            nm = body[0].targets[0].id
            if nm in env:
                tv, tk = self.ex(s.test, env)
                c = self.truth(s.test, tv, tk)
                v, k = self.ex(body[0].value, env)
                if self.pre:
                    self.err(s, "raising primitive in a conditional rebinding")
                if k == env[nm][1]:
                    return f"{I}let {env[nm][0]} := if {c} then {v} else {env[nm][0]}\n" + self.block(rest, env, alias, d, cont)
                self.err(s, f"conditional rebinding of kind {env[nm][1]} by kind {k}")
        if self.terminates(body) and not self.terminates(orelse):
            orelse, rest = orelse + rest, []
        if rest and (not self.terminates(body) or (orelse and not self.terminates(orelse))):
            return self.join_if(s, body, orelse, rest, env, alias, d, cont)
        return self.branch(s.test, body, orelse, env, alias, d, cont if not rest else
                           (lambda e, a, dd: self.block(rest, e, a, dd, cont)))

    def opt_test(self, t, env):
        """`x is not None` / `x is None` / bare `x` / `not x` on a local of an optional kind
        -> (name, lean text, base kind, positive?)"""
        pos = True
        if isinstance(t, ast.UnaryOp) and isinstance(t.op, ast.Not):
            pos, t = False, t.operand
        if isinstance(t, ast.Compare) and len(t.ops) == 1 and isinstance(t.ops[0], (ast.Is, ast.IsNot)) \
                and isinstance(t.comparators[0], ast.Constant) and t.comparators[0].value is None:
            if isinstance(t.ops[0], ast.Is):
                pos = not pos
            t = t.left
            truthy = False
        else:
            truthy = True
        if isinstance(t, ast.Name) and t.id in env:
            v, k = env[t.id]
            if k in OPT_BASE and (not truthy or OPT_BASE[k] in ("reduce", "halfbounding", "fullbounding")):
                return t.id, v, OPT_BASE[k], pos          # a callable object is truthy; a tensor's truth is refused
            if k == "optmodref" and truthy:
                return t.id, v, "modref", pos             # an `nn.Module` without `__len__` / `__bool__` is truthy
            if k == "optupd":
                return t.id, v, "upd", pos
        return None

    def branch(self, test, body, orelse, env, alias, d, cont) -> str:
        I = self.ind(d)
        o = self.opt_test(test, env)
        if o is not None:
            nm, v, base, pos = o
            some_b, none_b = (body, orelse) if pos else (orelse, body)
            env_s = dict(env)
            env_s[nm] = (lname(nm), base)
            out = f"{I}match {v} with\n{I}| some {lname(nm)} =>\n" + self.block(some_b, env_s, alias, d + 1, cont)
            out += f"{I}| none =>\n" + self.block(none_b, env, alias, d + 1, cont)
            return out
        if isinstance(test, ast.BoolOp) and isinstance(test.op, ast.And) and len(test.values) == 2:
            o1, o2 = self.opt_test(test.values[0], env), self.opt_test(test.values[1], env)
            if o1 is not None and o2 is not None and o1[3] and o2[3] and o1[0] != o2[0]:
                env_s = dict(env)
                env_s[o1[0]] = (lname(o1[0]), o1[2])
                env_s[o2[0]] = (lname(o2[0]), o2[2])
                out = f"{I}match {o1[1]}, {o2[1]} with\n{I}| some {lname(o1[0])}, some {lname(o2[0])} =>\n"
                out += self.block(body, env_s, alias, d + 1, cont)
                out += f"{I}| _, _ =>\n" + self.block(orelse, env, alias, d + 1, cont)
                return out
        tv, tk = self.ex(test, env)
        c = self.truth(test, tv, tk)
        out = self.flush(d)
        out += f"{I}if {c} then\n" + self.block(body, env, alias, d + 1, cont)
        out += f"{I}else\n" + self.block(orelse, env, alias, d + 1, cont)
        return out

    def join_if(self, s, body, orelse, rest, env, alias, d, cont) -> str:
        """a conditional that falls through into `rest`: its branches return the state, then `rest` continues"""
        I = self.ind(d)
        names = [x for x in self.assigned(body + orelse) if x in env]
        if names:
            self.err(s, "conditional that rebinds locals and falls through")
        leaf = lambda e, a, dd: f"{self.ind(dd)}pure self\n"   # noqa: E731
        inner = self.branch(s.test, body, orelse, env, alias, d + 1, leaf)
        ty = "Except Err _" if self.ctor else "Except (Err × _) _"
        return f"{I}let self ← (do\n{inner}{I}  : {ty})\n" + self.block(rest, env, alias, d, cont)

    # ------------------------------------------------------------------ whole function
    def params(self):
        """the Python parameters in order (self excluded), `*name` and `**name` included"""
        a = self.fdef.args
        out = [x.arg for x in a.posonlyargs + a.args if x.arg != "self"]
        if a.vararg:
            out.append(a.vararg.arg)
        out += [x.arg for x in a.kwonlyargs]
        if a.kwarg:
            out.append(a.kwarg.arg)
        return out

    def emit(self) -> str:
        spec = self.spec
        if spec.get("nested"):
            inner = next((x for x in self.fdef.body if isinstance(x, ast.FunctionDef) and x.name == spec["nested"]), None)
            if inner is None:
                raise TranslateError(f"{self.SRC}::{self.CLS}", "nested function not found")
            a = inner.args
            if a.args or a.vararg or a.kwarg or a.kwonlyargs or a.posonlyargs:
                raise TranslateError(f"{self.SRC}::{self.CLS}", "nested function takes parameters")
            body_stmts, real = list(inner.body), []
        else:
            body_stmts, real = list(self.fdef.body), self.params()
        want = list(spec["params"]) + list(spec.get("drop", []))
        if sorted(real) != sorted(want) or [p for p in real if p in spec["params"]] != list(spec["params"]):
            raise TranslateError(f"{self.SRC}::{self.CLS}", f"signature changed: {real} (expected {want})")
        env = {p: (lname(p), k) for p, k in spec["params"].items()}
        ptxt = "".join(f" ({lname(p)} : {self.LEAN_TY[k]})" for p, k in spec["params"].items())
        if self.ctor == "total":
            return self.emit_total_ctor(body_stmts, env, ptxt)
        if self.ctor == "raising":
            return self.emit_raising_ctor(body_stmts, env, ptxt)
        ret = self.LEAN_TY[spec["ret"]]
        tail = (lambda e, a, dd: f"{self.ind(dd)}{self.ret('()')}\n") if spec["ret"] == "unit" else \
               (lambda e, a, dd: self.err(self.fdef, "falls off the end without returning"))
        body = self.block(body_stmts, env, {}, 1, tail)
        if self.pre:
            self.err(self.fdef, "internal: unflushed hoisted bindings")
        return (f"def {self.name} (self : {self.STATE_TY}){ptxt} : "
                f"Except (Err × {self.STATE_TY}) ({self.STATE_TY} × {ret}) := do\n" + body)

    def ctor_fields(self, stmts, env):
        """leading part of a constructor: `self.<field> = e` in source order (dropped statements and nested
        function definitions skipped) until every instance attribute is assigned -> (assignments, lets, rest)"""
        need = list(FIELDS[self.cls])
        got, lets = {}, ""
        i = 0
        save, self.noself = self.noself, True
        while i < len(stmts) and len(got) < len(need):
            s = stmts[i]
            i += 1
            if isinstance(s, ast.Expr) and isinstance(s.value, ast.Constant) and isinstance(s.value.value, str):
                continue
            if self.dropped(s):
                continue
            if isinstance(s, ast.FunctionDef):
                if s.name in self.CACHES.get(self.cls, {}).values() or s.name in DROPPED_NESTED.get(self.cls, set()):
                    continue
                self.err(s, "unexpected nested function")
            if isinstance(s, ast.Assign) and len(s.targets) == 1 and isinstance(s.targets[0], ast.Name) \
                    and s.targets[0].id == "_":
                self.noself = False
                self.ex(s.value, env)
                self.noself = True
                lets += self.flush(1)
                continue
            if isinstance(s, ast.Assign) and len(s.targets) == 1 and self.field(s.targets[0]) is not None:
                attr, kind = self.field(s.targets[0])
                if attr in got:
                    self.err(s, "instance attribute assigned twice in the constructor")
                v, k = self.ex(s.value, env)
                if self.pre:
                    self.err(s, "raising primitive in a field initialiser")
                got[attr] = self.coerce(s, v, k, kind)
                continue
            self.err(s, "unsupported constructor statement before all instance attributes are assigned")
        self.noself = save
        if len(got) < len(need):
            self.err(self.fdef, f"constructor does not assign {[a for a in need if a not in got]}")
        return got, lets, stmts[i:]

    def emit_total_ctor(self, stmts, env, ptxt) -> str:
        got, lets, rest = self.ctor_fields(stmts, env)
        if lets:
            self.err(self.fdef, "raising statement in a total constructor")
        for s in rest:
            if isinstance(s, ast.FunctionDef) and (s.name in self.CACHES.get(self.cls, {}).values()
                                                   or s.name in DROPPED_NESTED.get(self.cls, set())):
                continue
            if not self.dropped(s):
                self.err(s, "unsupported statement in a total constructor")
        flds = "".join(f"    {a} := {v}\n" for a, v in got.items())
        return f"def {self.name}{ptxt} : {self.STATE_TY} :=\n  {{\n{flds}  }}\n"

    def emit_raising_ctor(self, stmts, env, ptxt) -> str:
        got, lets, rest = self.ctor_fields(stmts, env)
        flds = ", ".join(f"{a} := {v}" for a, v in got.items())
        body = lets + f"  let self : {self.STATE_TY} := {{ {flds} }}\n"
        body += self.block(rest, env, {}, 1, lambda e, a, dd: f"{self.ind(dd)}pure self\n")
        return f"def {self.name}{ptxt} : Except Err ({self.STATE_TY}) := do\n" + body


# ---------------------------------------------------------------------- locating the functions

def locate(tree, key, spec) -> ast.FunctionDef:
    cls = next((n for n in tree.body if isinstance(n, ast.ClassDef) and n.name == spec["cls"]), None)
    if cls is None:
        raise TranslateError(SRC, f"class {spec['cls']} not found")
    want = spec.get("decorator")
    hits = []
    for n in cls.body:
        if isinstance(n, ast.FunctionDef) and n.name == spec["py"]:
            decs = [ast.unparse(x) for x in n.decorator_list]
            if (want is None and not decs) or (want is not None and want in decs):
                hits.append(n)
    if len(hits) != 1:
        raise TranslateError(f"{SRC}::{spec['cls']}", f"method {spec['py']} (decorator {want}): {len(hits)} definitions found")
    return hits[0]


def signature(f: ast.FunctionDef) -> dict:
    a = f.args
    pos = [x.arg for x in a.posonlyargs + a.args if x.arg != "self"]
    defaults = dict(zip(pos[len(pos) - len(a.defaults):], a.defaults))
    defaults.update({x.arg: dflt for x, dflt in zip(a.kwonlyargs, a.kw_defaults) if dflt is not None})
    return {"defaults": defaults, "vararg": a.vararg.arg if a.vararg else None,
            "kwarg": a.kwarg.arg if a.kwarg else None}


def read_caches(tree) -> dict:
    """`self.<attr> = cache(<nested function>)` in the constructors"""
    out = {}
    for cls in (n for n in tree.body if isinstance(n, ast.ClassDef) and n.name in FIELDS):
        init = next((n for n in cls.body if isinstance(n, ast.FunctionDef) and n.name == "__init__"), None)
        if init is None:
            continue
        nested = {n.name for n in init.body if isinstance(n, ast.FunctionDef)}
        for s in init.body:
            if isinstance(s, ast.Assign) and len(s.targets) == 1 and is_self(s.targets[0]) \
                    and isinstance(s.value, ast.Call) and ast.unparse(s.value.func) == "cache" \
                    and len(s.value.args) == 1 and isinstance(s.value.args[0], ast.Name) \
                    and s.value.args[0].id in nested:
                out.setdefault(cls.name, {})[s.targets[0].attr] = s.value.args[0].id
    return out


def regenerate() -> dict:
    """regenerates Gen/UpdaterProg.lean; same return shape as `progtx.regenerate_class`"""
    T = UpdaterTx
    src = (REPO / T.SRC).read_text()
    tree = ast.parse(src)
    T.CACHES = read_caches(tree)
    for cls, attrs in FIELDS.items():
        for a, k in attrs.items():
            if k == "cache" and a not in T.CACHES.get(cls, {}):
                raise TranslateError(f"{T.SRC}::{cls}", f"self.{a} is not a functools.cache of a nested function")
    for cls, m in T.CACHES.items():
        for a, fn in m.items():
            if f"{cls}_{fn}" not in T.METHODS or T.METHODS[f"{cls}_{fn}"].get("nested") != fn:
                raise TranslateError(f"{T.SRC}::{cls}", f"cached nested function {fn} is not translated")
    T.PROPS, T.BYNAME = {}, {}
    for k, s in T.METHODS.items():
        dec = s.get("decorator")
        if s.get("nested") or s.get("ctor") or dec == "staticmethod":
            continue
        if dec is None:
            T.BYNAME[(s["cls"], s["py"])] = k
        else:
            role = "get" if dec == "property" else {"setter": "set", "deleter": "del"}[dec.split(".")[1]]
            T.PROPS.setdefault(s["cls"], {}).setdefault(s["py"], {})[role] = k
    fdefs = {k: locate(tree, k, s) for k, s in T.METHODS.items()}
    sigs = {k: signature(f) for k, f in fdefs.items()}
    text = T.HEADER
    info = {}
    for k, s in T.METHODS.items():
        node = fdefs[k]
        if s.get("nested"):
            node = next((x for x in node.body if isinstance(x, ast.FunctionDef) and x.name == s["nested"]), None)
            if node is None:
                raise TranslateError(f"{T.SRC}::{s['cls']}.{s['py']}", f"nested function {s['nested']} not found")
        seg = ast.get_source_segment(src, node) or ""
        sha = hashlib.sha256(seg.encode()).hexdigest()[:16]
        dec = f" (`@{s['decorator']}`)" if s.get("decorator") else ""
        qual = f"{s['cls']}.{s['py']}" + (f".{s['nested']}" if s.get("nested") else "")
        text += f"\n/-- from `{T.SRC}` :: `{qual}`{dec} (sha256 of source segment {sha}) -/\n" + T(k, fdefs[k], sigs).emit()
        info[k] = sha
    text += f"\nend {T.NAMESPACE}\n"
    GEN.mkdir(parents=True, exist_ok=True)
    p = GEN / T.OUT
    changed = not p.exists() or p.read_text() != text
    if changed:
        p.write_text(text)
    return {"functions": info, "rewritten": changed}


if __name__ == "__main__":
    print(json.dumps(regenerate(), indent=1))
