"""Sequence correspondence: run generated operation sequences on the real objects and on a
Lean driver, compare after every operation, shrink disagreements.

A *case* is a list of protocol lines (first line(s) configure, e.g. `begin …`).  The real side
is an executor object with `exec(line) -> (m_view, s_view)`: what the real code shows in the
code-shaped model's terms and in the specification's terms (often identical).  The driver
answers each line with `M <m> || S <s>` (or a bare token such as `ok` / `bad-op`).
"""
from __future__ import annotations

from typing import Callable

from runner import Exploration, Finding


def split_resp(resp: str) -> tuple[str, str]:
    if resp.startswith("M ") and " || S " in resp:
        m, s = resp[2:].split(" || S ", 1)
        return m.strip(), s.strip()
    return resp.strip(), resp.strip()


def exec_real(make_exec: Callable, case: list[str]) -> list[tuple[str, str]]:
    ex = make_exec()
    out = []
    for line in case:
        try:
            r = ex.exec(line)
        except Exception as e:  # an executor bug must not masquerade as a verdict
            r = (f"harness-exception {type(e).__name__}: {e}", f"harness-exception {type(e).__name__}: {e}")
        if isinstance(r, str):
            r = (r, r)
        out.append(r)
    return out


def compare_case(case, real, resp):
    """first disagreement: (index, kind, expected(driver), observed(real)) or None.
    spec disagreements take precedence at the same index."""
    for i, ((rm, rs), line) in enumerate(zip(real, resp)):
        dm, ds = split_resp(line)
        if rs != ds:
            return (i, "spec", ds, rs)
        if rm != dm:
            return (i, "model", dm, rm)
    return None


# per-driver rewriting of request lines: an operation that is DIFFERENT for the implementation but the same for the model /
# specification (e.g. "assign through a uint8 offset tensor" vs "assign through an int64 one") is sent to the driver in its
# canonical form.  DRIVER_MAP[driver] = function(line) -> line
DRIVER_MAP: dict = {}


def to_driver(driver: str, lines: list[str]) -> list[str]:
    f = DRIVER_MAP.get(driver)
    return [f(l) for l in lines] if f else lines


def run_cases(ctx, driver: str, cases: list[list[str]], make_exec: Callable, ex: Exploration,
              key_of: Callable, prop: str, nontrivial: Callable | None = None,
              max_findings: int = 8, shrink: bool = True) -> None:
    """Executes all cases on both sides (one driver process), records findings into `ex`."""
    flat = [l for c in cases for l in c]
    reals = [exec_real(make_exec, c) for c in cases]
    resp = ctx.run_driver(driver, to_driver(driver, flat))
    pos = 0
    nfound = 0
    for case, real in zip(cases, reals):
        r = resp[pos:pos + len(case)]
        pos += len(case)
        ex.evaluations += len(case)
        ex.traces_validated += 1
        if nontrivial is None or nontrivial(case, real):
            ex.nontriv(tuple(case))
        d = compare_case(case, real, r)
        if d is None:
            continue
        if any(x.startswith("harness-exception") for x in (d[2], d[3])) or "bad-op" in d[2]:
            raise RuntimeError(f"harness/driver protocol failure on {case[:d[0]+1]}: {d}")
        nfound += 1
        if nfound > max_findings:
            continue
        small = shrink_case(ctx, driver, case[: d[0] + 1], make_exec, d[1]) if shrink else case[: d[0] + 1]
        real2 = exec_real(make_exec, small)
        resp2 = ctx.run_driver(driver, to_driver(driver, small))
        d2 = compare_case(small, real2, resp2) or d
        ex.findings.append(Finding(
            kind=d2[1], key=key_of(small, d2), what=f"op `{small[d2[0]]}`: expected `{d2[2]}` observed `{d2[3]}`",
            case={"ops": small, "index": d2[0], "expected": d2[2], "observed": d2[3],
                  "disagreement": "code vs specification" if d2[1] == "spec" else "code vs code-shaped model"}))


def shrink_case(ctx, driver, case, make_exec, kind, max_tries: int = 60):
    """Greedy one-op-at-a-time deletion keeping a disagreement of the same kind (the header
    line(s) starting with `begin` are kept)."""
    tries = 0

    def fails(c):
        real = exec_real(make_exec, c)
        resp = ctx.run_driver(driver, to_driver(driver, c))
        d = compare_case(c, real, resp)
        if d is None or d[1] != kind:
            return False
        if any(x.startswith("harness-exception") for x in (d[2], d[3])) or "bad-op" in d[2]:
            return False
        return True

    cur = list(case)
    changed = True
    while changed and tries < max_tries:
        changed = False
        for i in range(len(cur) - 2, 0, -1):
            if cur[i].startswith("begin"):
                continue
            cand = cur[:i] + cur[i + 1:]
            tries += 1
            if tries > max_tries:
                break
            if fails(cand):
                cur = cand
                changed = True
    return cur
