"""Statement-level translator, layer classes (DESIGN §12.5, property C17): the wiring / forward / clear code of
`inferno/neural/network.py` — `Layer.clear`, `Layer.get_neuron`, `Layer.forward`; `Serial.wiring`, `Serial.forward`;
the `match combine` statement of `Biclique.__init__` with its nested closure `combinefn`, `Biclique.wiring`;
`RecurrentSerial.wiring`, `RecurrentSerial.forward`, `RecurrentSerial.clear` — → Lean `Except Err` programs over the
layer states of `Gen/LayerPrelude.lean`, regenerated on every run as `Gen/LayerProg.lean` (core Lean only).

What is kept from the source, statement by statement and in SOURCE ORDER: which connections run (the dictionary
comprehension over `inputs.items()` with the `self.connections_[k]` look-up and its `KeyError`), the
`capture_intermediate` branches and what each returns, the `self.wiring(res, **kwargs)` dispatch (a parameter of
`Layer_forward`; the classes' `<Class>_wiring_kw` bind the keywords with Python's rule), the neuron comprehension, the
`submodules` loops of `clear`; the dictionary displays, look-ups, `res[0][name]` / `res[1][name]` / `res[name]`
unpackings of `Serial`; the `match` of `Biclique.__init__` (subject, literal alternatives, the closure with
`ein.reduce(list(tensors.values()), "s ... -> ...", combine.lower())`, the `ValueError`), the two comprehensions of
`Biclique.wiring` (post-input transform once per connection output, `combine` per neuron group, pre-output transform);
the `forward_pass` branch of `RecurrentSerial.wiring`, and of `RecurrentSerial.forward` the `feedback_spikes is None`
initialisation with `torch.zeros_like(self.get_neuron(…).spike)`, both `Layer.forward(self, {…}, capture_intermediate=
True, forward_pass=…)` passes with their input dictionaries, the `tuple(args) if args else ()` extras, the update of
`feedback_spikes` and the returned tuples; `get_neuron`'s `try / except KeyError: raise AttributeError`.

Dropped (only handed on to component calls / user callables, never read): `connection_kwargs`, `neuron_kwargs`, the
`*_kwargs` parameters of `RecurrentSerial.forward`, locals computed from them (`ckw`, `nkw`), and the user's own
`**kwargs`.  Keywords that `Layer.forward` receives beyond its named parameters (`forward_pass=True`) are KEPT: they
are its `**kwargs`, handed to `wiring`.

Every raising primitive is bound by its own `let t_ ← …` in Python's evaluation order (A-normal form).  A method is
emitted in one of three modes: `state` (threads `self`: `Except Err (S × ρ)`; a raising primitive with a small result
is run as `withSelf self prim` for universe reasons, see the prelude), `reader` (reads `self`, returns a component),
`small` (`wiring` and the `Biclique` constructor slice: `self` is read only, `Except Err ρ`; an assignment to `self.…`
or a component call is refused).  `self.m(…)` / `Layer.m(self, …)` are resolved along the base classes defined in
the source file; `type(self)` is assumed to be the class being translated (no further subclass overriding `wiring`),
and the translator checks that `Biclique` inherits `forward` / `clear`, `Serial` inherits `clear` and nobody overrides
`get_neuron`.  `Props/C17GlueProg.lean` proves the generated programs equal to the step functions of
`Model/Layer.lean`.  Anything outside this sub-language raises `TranslateError` naming the node.
"""
from __future__ import annotations

import ast
import hashlib
import json

import progtx
from progtx import Tx
from translate import GEN, REPO, TranslateError, lname

SRC = "inferno/neural/network.py"

# kinds: bool str int ten tens optten optseq dict:ten dict:tens dict:fn conndict neurdict conn neur fn1 fnmany
#        combine fwdret serialret recret kwargs dropped none unit
LEAN_TY = {
    "bool": "Bool", "str": "String", "ten": "τ", "tens": "List τ", "optseq": "Option (List τ)", "dict:ten": "Dict τ",
    "dict:tens": "Dict (List τ)", "neur": "Neur τ", "combine": "Combine τ", "fwdret": "FwdRet τ",
    "serialret": "SerialRet τ", "recret": "RecRet τ", "kwargs": "Kwargs", "unit": "Unit",
}
BIG = {"conn", "neur", "conndict", "neurdict"}          # kinds living in `Type 1`
STATES = {"Layer": "LayerSt τ", "Serial": "SerialS τ", "Biclique": "BicliqueS τ", "RecurrentSerial": "RecS τ"}
KW_NAMES = {"forward_pass"}                             # constructors of `LayerPrelude.Kw`

# functions, in emission order (callees first).  key = name of the generated definition.
# `mode`: state / reader / small;  `drop`: parameters only handed on;  `vararg`: translated `*name`;
# `kwargs`: the `**name` parameter is kept (kind kwargs);  `virtual`: methods of `self` dispatched through a parameter;
# `nested`: a function defined inside `py` (`captures`: its free variables);  `slice`: only that statement of `py`
# is translated and `target` is the attribute whose assigned value the program returns
METHODS = {
    "Layer_clear": {"cls": "Layer", "py": "clear", "mode": "state", "params": {"submodules": "bool"},
                    "drop": ["kwargs"], "ret": "unit"},
    "Layer_get_neuron": {"cls": "Layer", "py": "get_neuron", "mode": "reader", "params": {"name": "str"}, "ret": "neur"},
    "Layer_forward": {"cls": "Layer", "py": "forward", "mode": "state",
                      "params": {"inputs": "dict:tens", "capture_intermediate": "bool"},
                      "drop": ["connection_kwargs", "neuron_kwargs"], "kwargs": "kwargs", "virtual": ["wiring"],
                      "ret": "fwdret"},
    "Serial_wiring": {"cls": "Serial", "py": "wiring", "mode": "small", "params": {"inputs": "dict:ten"},
                      "drop": ["kwargs"], "ret": "dict:ten"},
    "Serial_forward": {"cls": "Serial", "py": "forward", "mode": "state", "vararg": ("inputs", "tens"),
                       "params": {"capture_intermediate": "bool"},
                       "drop": ["connection_kwargs", "neuron_kwargs", "kwargs"], "ret": "serialret"},
    "Biclique___init___combinefn": {"cls": "Biclique", "py": "__init__", "nested": "combinefn", "mode": "small",
                                    "captures": {"combine": "combine"}, "params": {"tensors": "dict:ten"},
                                    "drop": ["kwargs"], "ret": "ten"},
    "Biclique___init___combine": {"cls": "Biclique", "py": "__init__", "slice": "match", "target": "_combine",
                                  "mode": "small", "params": {"combine": "combine"}, "ret": "combine"},
    "Biclique_wiring": {"cls": "Biclique", "py": "wiring", "mode": "small", "params": {"inputs": "dict:ten"},
                        "drop": ["kwargs"], "ret": "dict:ten"},
    "RecurrentSerial_wiring": {"cls": "RecurrentSerial", "py": "wiring", "mode": "small",
                               "params": {"inputs": "dict:ten", "forward_pass": "bool"}, "drop": ["kwargs"],
                               "ret": "dict:ten"},
    "RecurrentSerial_forward": {"cls": "RecurrentSerial", "py": "forward", "mode": "state", "vararg": ("inputs", "tens"),
                                "params": {"lateral_connection_args": "optseq", "feedback_connection_args": "optseq",
                                           "capture_intermediate": "bool"},
                                "drop": ["feedfwd_connection_kwargs", "lateral_connection_kwargs",
                                         "feedback_connection_kwargs", "feedfwd_neuron_kwargs", "feedback_neuron_kwargs",
                                         "kwargs"], "ret": "recret"},
    "RecurrentSerial_clear": {"cls": "RecurrentSerial", "py": "clear", "mode": "state",
                              "params": {"clear_feedback": "bool", "submodules": "bool"}, "drop": ["kwargs"], "ret": "unit"},
}

# instance attributes: class -> attribute -> (field of the state structure, kind).  Private names (`__x`) are mangled
# per class, so they are visible in their own class only; the `Layer` fields are reached as `self.layer.…` from a subclass.
FIELDS = {
    "Layer": {"connections_": ("conns", "conndict"), "neurons_": ("neurs", "neurdict")},
    "Serial": {"__connection_name": ("cn", "str"), "__neuron_name": ("nn", "str"), "_transform": ("trans", "fn1")},
    "Biclique": {"post_input": ("post_input", "dict:fn"), "pre_output": ("pre_output", "dict:fn"),
                 "_combine": ("_combine", "combine")},
    "RecurrentSerial": {
        "feedback_spikes": ("feedback_spikes", "optten"),
        "__feedfwd_connection_name": ("ffc", "str"), "__lateral_connection_name": ("latc", "str"),
        "__feedback_connection_name": ("fbc", "str"), "__feedfwd_neuron_name": ("ffn", "str"),
        "__feedback_neuron_name": ("fbn", "str"),
        "_feedfwd_out_transform": ("ffOut", "fn1"), "_lateral_out_transform": ("latOut", "fn1"),
        "_feedback_out_transform": ("fbOut", "fn1"), "_lateral_in_transform": ("latIn", "fnmany"),
        "_feedback_in_transform": ("fbIn", "fnmany"),
    },
}
# (class, method) that must NOT be defined by the class (the glue theorems rely on the inherited body)
INHERITED = [("Biclique", "forward"), ("Biclique", "clear"), ("Biclique", "get_neuron"), ("Serial", "clear"),
             ("Serial", "get_neuron"), ("RecurrentSerial", "get_neuron")]

HEADER = """import InfernoVerif.Gen.LayerPrelude
/-! GENERATED by harness/progtx_layer.py from inferno/neural/network.py (classes `Layer`, `Serial`, `Biclique`,
`RecurrentSerial`) — do not edit.
Whole bodies as `Except Err` programs over the layer states of Gen/LayerPrelude.lean (the vocabulary); every raising
primitive is bound by its own `let` in Python's evaluation order. -/
set_option linter.unusedVariables false
namespace InfernoVerif.Gen.LayerProg
open InfernoVerif.Layer InfernoVerif.Gen.LayerPrelude

variable {τ : Type}
"""


def class_map(tree) -> dict:
    return {n.name: n for n in tree.body if isinstance(n, ast.ClassDef)}


def mro(classes: dict, cls: str) -> list[str]:
    """base classes defined in the source file, depth first, left to right"""
    out = [cls]
    for b in classes[cls].bases:
        if isinstance(b, ast.Name) and b.id in classes:
            for c in mro(classes, b.id):
                if c not in out:
                    out.append(c)
    return out


def lstr(s: str) -> str:
    """a Lean string literal"""
    if not all(32 <= ord(c) < 127 and c not in '"\\' for c in s):
        raise TranslateError(SRC, f"string literal outside printable ASCII: {s!r}")
    return json.dumps(s)


class LayerTx(Tx):
    SRC = SRC
    CLS = "Layer"                # per instance: the class of the method being translated
    METHODS = METHODS
    LEAN_TY = LEAN_TY
    STATE_TY = "LayerSt τ"
    DROPPED_PARAMS: set = set()
    OUT = "LayerProg.lean"
    NAMESPACE = "InfernoVerif.Gen.LayerProg"
    HEADER = HEADER
    CLASSES: dict = {}           # filled by `regenerate`: class name -> ast.ClassDef

    def __init__(self, name: str, fdef: ast.FunctionDef, sigs: dict):
        self.name, self.fdef, self.sigs = name, fdef, sigs
        self.spec = self.METHODS[name]
        self.CLS = self.spec["cls"]
        self.STATE_TY = STATES[self.CLS]
        self.mode = self.spec["mode"]
        self.noself = bool(self.spec.get("nested") or self.spec.get("slice"))
        self.fresh = 0
        self.pre: list[str] = []          # hoisted `let` lines of the statement being translated
        self.prov: dict[str, tuple] = {}  # lean name of a module fetched from a ModuleDict -> (dict attribute, key text)

    def err(self, node, msg):
        where = f"{self.SRC}::{self.CLS}.{self.spec['py']}" + (f".{self.spec['nested']}" if self.spec.get("nested") else "")
        raise TranslateError(f"{where}:{getattr(node, 'lineno', '?')}",
                             f"{msg}: {ast.unparse(node)[:140] if isinstance(node, ast.AST) else node}")

    # ------------------------------------------------------------------ hoisting (A-normal form)
    def tmp(self, stem="t"):
        self.fresh += 1
        return f"{stem}{self.fresh}_"

    def hoist(self, text: str, kind: str) -> str:
        """bind a raising primitive by its own `let`; -> the text of its value"""
        t = self.tmp()
        if self.mode == "small" or kind in BIG:
            self.pre.append(f"let {t} ← {text}")
            return t
        self.pre.append(f"let {t} ← withSelf self ({text})")
        return f"{t}.2"

    def flush(self, d) -> str:
        I = self.ind(d)
        out = "".join(I + l.replace("\n", "\n" + I) + "\n" for l in self.pre)
        self.pre = []
        return out

    # ------------------------------------------------------------------ name resolution
    def self_attr(self, n) -> str | None:
        if isinstance(n, ast.Attribute) and isinstance(n.value, ast.Name) and n.value.id == "self":
            return n.attr
        return None

    def field(self, node, attr: str):
        """`self.<attr>` naming an instance attribute -> (text of the field, kind, owner class)"""
        for c in mro(self.CLASSES, self.CLS):
            if attr in FIELDS.get(c, {}):
                if attr.startswith("__") and not attr.endswith("__") and c != self.CLS:
                    self.err(node, f"private attribute of class {c} read from class {self.CLS}")
                fld, kind = FIELDS[c][attr]
                via = "self." if c == self.CLS else "self.layer."
                if c != self.CLS and c != "Layer":
                    self.err(node, f"attribute of the intermediate base class {c}")
                return via + fld, kind, c
        return None

    def set_field(self, d, node, attr: str, v: str) -> str:
        f = self.field(node, attr)
        fld = f[0].split(".")[-1]
        if f[2] == self.CLS:
            return f"{self.ind(d)}let self := {{ self with {fld} := {v} }}\n"
        return f"{self.ind(d)}let self := {{ self with layer := {{ self.layer with {fld} := {v} }} }}\n"

    def resolve(self, node, attr: str, start: str | None = None) -> str:
        """the generated definition `self.<attr>(…)` refers to: first class along the bases defining `attr`"""
        for c in mro(self.CLASSES, start or self.CLS):
            defs = [f for f in self.CLASSES[c].body if isinstance(f, ast.FunctionDef) and f.name == attr]
            if not defs:
                continue
            for key, spec in self.METHODS.items():
                if spec["cls"] == c and spec["py"] == attr and not spec.get("nested") and not spec.get("slice"):
                    if len(defs) != 1 or defs[0].decorator_list:
                        self.err(node, f"{c}.{attr}: decorated or defined twice")
                    return key
            self.err(node, f"{attr} resolves to {c}.{attr}, which is not translated")
        self.err(node, f"{attr} is not defined by a class of the source file")

    def state_arg(self, node, key: str) -> tuple[str, str]:
        """how the callee `key` sees `self`: (argument text, write-back text with `{}` for the new state)"""
        c = self.METHODS[key]["cls"]
        if c == self.CLS:
            return "self", "{}"
        if c == "Layer" and "Layer" in mro(self.CLASSES, self.CLS):
            return "self.layer", "{{ self with layer := {} }}"
        self.err(node, f"call of a method of class {c} from class {self.CLS}")

    # ------------------------------------------------------------------ dropped values
    def is_dropped(self, n, env) -> bool:
        """an expression built only from dropped parameters / locals, private names, `{}`, `None`"""
        if isinstance(n, ast.Name):
            return env.get(n.id, ("", ""))[1] == "dropped"
        if isinstance(n, ast.Constant):
            return n.value is None
        if isinstance(n, ast.Dict):
            return all(k is not None and (self.is_name_attr(k) or isinstance(k, ast.Constant)) for k in n.keys) and \
                all(self.is_dropped(v, env) for v in n.values)
        if isinstance(n, ast.BinOp) and isinstance(n.op, ast.BitOr):
            return self.is_dropped(n.left, env) and self.is_dropped(n.right, env)
        if isinstance(n, ast.IfExp):
            return all(self.is_dropped(x, env) for x in (n.test, n.body, n.orelse))
        if isinstance(n, ast.Call) and isinstance(n.func, ast.Attribute) and n.func.attr == "get" and not n.keywords \
                and self.is_dropped(n.func.value, env) and len(n.args) == 2 and isinstance(n.args[0], ast.Name) \
                and isinstance(n.args[1], ast.Dict) and not n.args[1].keys:
            return True
        return False

    def is_name_attr(self, n) -> bool:
        a = self.self_attr(n)
        if a is None or self.noself:
            return False
        f = self.field(n, a)
        return f is not None and f[1] == "str"

    def passthrough_ok(self, n: ast.Call, env, allow_named=()) -> None:
        """keywords of a call to a component / user callable: only `**<dropped>`"""
        for kw in n.keywords:
            if kw.arg is None and self.is_dropped(kw.value, env):
                continue
            if kw.arg in allow_named:
                continue
            self.err(n, "unsupported keyword argument")

    # ------------------------------------------------------------------ expressions
    def ex(self, n, env):
        """-> (lean text, kind); raising primitives are hoisted into `self.pre` in evaluation order"""
        if isinstance(n, ast.Constant):
            if isinstance(n.value, bool):
                return ("true" if n.value else "false"), "bool"
            if isinstance(n.value, int):
                return (f"({n.value} : Int)" if n.value >= 0 else f"(-{-n.value} : Int)"), "int"
            if n.value is None:
                return "none", "none"
            if isinstance(n.value, str):
                return lstr(n.value), "str"
            self.err(n, "unsupported constant")
        if isinstance(n, ast.Name):
            if n.id == "self":
                self.err(n, "`self` used as a value")
            if n.id not in env:
                self.err(n, "unknown name")
            if env[n.id][1] == "dropped":
                self.err(n, "a dropped (pass-through) value is read")
            return env[n.id]
        if isinstance(n, ast.Attribute):
            a = self.self_attr(n)
            if a is not None:
                if self.noself:
                    self.err(n, "instance attribute read inside a constructor slice / closure")
                f = self.field(n, a)
                if f is None:
                    self.err(n, "unknown instance attribute")
                return f[0], f[1]
            if n.attr == "spike":
                v, k = self.ex(n.value, env)
                if k == "neur":
                    return f"(moduleSpike {v})", "ten"
            self.err(n, "unsupported attribute")
        if isinstance(n, ast.Tuple) and not n.elts:
            return "[]", "tens"
        if isinstance(n, ast.UnaryOp) and isinstance(n.op, ast.Not):
            return f"(!{self.truth(n.operand, env)})", "bool"
        if isinstance(n, ast.BinOp):
            a, ka = self.ex(n.left, env)
            b, kb = self.ex(n.right, env)
            if isinstance(n.op, ast.Add) and ka == "ten" and kb == "ten":
                return f"(E.add {a} {b})", "ten"
            if isinstance(n.op, ast.Add) and ka == "tens" and kb == "tens":
                return f"({a} ++ {b})", "tens"
            if isinstance(n.op, ast.BitOr) and ka == "dict:ten" and kb == "dict:ten":
                return f"(dictUnion {a} {b})", "dict:ten"
            self.err(n, f"unsupported arithmetic on kinds {ka}, {kb}")
        if isinstance(n, ast.Compare) and len(n.ops) == 1 and isinstance(n.ops[0], (ast.Is, ast.IsNot)) \
                and isinstance(n.comparators[0], ast.Constant) and n.comparators[0].value is None:
            v, k = self.ex(n.left, env)
            if k in ("optten", "optseq"):
                return (f"{v}.isNone" if isinstance(n.ops[0], ast.Is) else f"{v}.isSome"), "bool"
            self.err(n, f"comparison with None on kind {k}")
        if isinstance(n, ast.IfExp):
            # `tuple(x) if x else ()`
            if isinstance(n.test, ast.Name) and env.get(n.test.id, ("", ""))[1] == "optseq" \
                    and ast.unparse(n.body) == f"tuple({n.test.id})" and isinstance(n.orelse, ast.Tuple) and not n.orelse.elts:
                return f"(optSeqTuple {env[n.test.id][0]})", "tens"
            self.err(n, "unsupported conditional expression")
        if isinstance(n, ast.Dict):
            return self.dict_display(n, env)
        if isinstance(n, ast.DictComp):
            return self.dictcomp(n, env)
        if isinstance(n, ast.Subscript):
            return self.subscript(n, env)
        if isinstance(n, ast.Call):
            return self.call(n, env)
        self.err(n, "unsupported expression")

    def truth(self, n, env) -> str:
        v, k = self.ex(n, env)
        if k == "bool":
            return v
        self.err(n, f"truth value of kind {k}")

    def dict_display(self, n: ast.Dict, env):
        items, kinds = [], set()
        for k, v in zip(n.keys, n.values):
            if k is None:
                self.err(n, "`**` in a dictionary display")
            kt, kk = self.ex(k, env)
            vt, vk = self.ex(v, env)
            if kk != "str":
                self.err(k, f"dictionary key of kind {kk}")
            items.append(f"({kt}, {vt})")
            kinds.add(vk)
        if len(kinds) != 1 or not kinds <= {"ten", "tens"}:
            self.err(n, f"dictionary display with values of kinds {sorted(kinds)}")
        return f"(dictDisplay [{', '.join(items)}])", "dict:" + kinds.pop()

    def dictcomp(self, n: ast.DictComp, env):
        """`{k: <value> for k, v in <dict>.items()}`"""
        if len(n.generators) != 1:
            self.err(n, "unsupported comprehension")
        g = n.generators[0]
        if g.ifs or g.is_async or not (isinstance(g.target, ast.Tuple) and len(g.target.elts) == 2
                                       and all(isinstance(e, ast.Name) for e in g.target.elts)):
            self.err(n, "unsupported comprehension")
        kn, vn = (e.id for e in g.target.elts)
        it = g.iter
        if not (isinstance(it, ast.Call) and isinstance(it.func, ast.Attribute) and it.func.attr == "items"
                and not it.args and not it.keywords):
            self.err(n, "comprehension not over `<dict>.items()`")
        d, kd = self.ex(it.func.value, env)
        if not kd.startswith("dict:"):
            self.err(it, f"comprehension over kind {kd}")
        if not (isinstance(n.key, ast.Name) and n.key.id == kn) or kn == vn or kn in env or vn in env:
            self.err(n, "the comprehension's key must be the (fresh) loop key")
        elem = {"dict:ten": "ten", "dict:tens": "tens", "dict:fn": "fn1"}[kd]
        benv = dict(env)
        benv[kn] = (lname(kn), "str")
        benv[vn] = (lname(vn), elem)
        save, self.pre = self.pre, []
        v, kv = self.ex(n.value, benv)
        body_pre, self.pre = self.pre, save
        if kv != "ten":
            self.err(n.value, f"comprehension value of kind {kv}")
        lines = "".join(f"\n    {l}" for l in body_pre)
        if self.mode == "state":
            r = self.tmp("r")
            self.pre.append(f"let {r} ← dictCompM {d} self (fun self {lname(kn)} {lname(vn)} => (do{lines}\n"
                            f"    pure (self, {v})\n    : Except Err _))")
            self.pre.append(f"let self := {r}.1")
            return f"{r}.2", "dict:ten"
        if any("let self :=" in l for l in body_pre):
            self.err(n, "component call in a method that does not thread the state")
        t = self.tmp()
        self.pre.append(f"let {t} ← dictCompE {d} (fun {lname(kn)} {lname(vn)} => (do{lines}\n"
                        f"    pure {v}\n    : Except Err _))")
        return t, "dict:ten"

    def int_const(self, n):
        if isinstance(n, ast.Constant) and isinstance(n.value, int) and not isinstance(n.value, bool):
            return n.value
        if isinstance(n, ast.UnaryOp) and isinstance(n.op, ast.USub) and isinstance(n.operand, ast.Constant) \
                and isinstance(n.operand.value, int) and not isinstance(n.operand.value, bool):
            return -n.operand.value
        return None

    def subscript(self, n, env):
        v, k = self.ex(n.value, env)
        i = self.int_const(n.slice)
        if k == "fwdret" and i is not None:
            return self.hoist(f"fwdGetItemInt {v} ({i} : Int)", "dict:ten"), "dict:ten"
        if isinstance(n.slice, (ast.Slice, ast.Tuple)) or i is not None:
            self.err(n, f"unsupported subscript on kind {k}")
        key, kk = self.ex(n.slice, env)
        if kk != "str":
            self.err(n, f"subscript of kind {kk} on kind {k}")
        if k == "fwdret":
            return self.hoist(f"fwdGetItemStr {v} {key}", "ten"), "ten"
        if k in ("dict:ten", "dict:tens", "dict:fn"):
            elem = {"dict:ten": "ten", "dict:tens": "tens", "dict:fn": "fn1"}[k]
            return self.hoist(f"dictGetItem {v} {key}", elem), elem
        if k in ("conndict", "neurdict"):
            elem = "conn" if k == "conndict" else "neur"
            t = self.hoist(f"dictGetItem {v} {key}", elem)
            attr = self.self_attr(n.value)
            if attr is not None:
                self.prov[t] = (n.value, attr, key)
            return t, elem
        self.err(n, f"unsupported subscript on kind {k}")

    def call(self, n: ast.Call, env):
        f = n.func
        ftxt = ast.unparse(f)
        if ftxt == "torch.zeros_like" and len(n.args) == 1 and not n.keywords:
            v, k = self.ex(n.args[0], env)
            if k == "ten":
                return f"(E.zeros_like {v})", "ten"
        if ftxt == "isinstance" and len(n.args) == 2 and not n.keywords and ast.unparse(n.args[1]) == "str":
            v, k = self.ex(n.args[0], env)
            if k == "combine":
                return f"(isStr {v})", "bool"
        if ftxt == "list" and len(n.args) == 1 and not n.keywords and isinstance(n.args[0], ast.Call) \
                and isinstance(n.args[0].func, ast.Attribute) and n.args[0].func.attr == "values" \
                and not n.args[0].args and not n.args[0].keywords:
            v, k = self.ex(n.args[0].func.value, env)
            if k == "dict:ten":
                return f"(dictValues {v})", "tens"
        if ftxt == "ein.reduce" and len(n.args) == 3 and not n.keywords:
            a = [self.ex(x, env) for x in n.args]
            if [k for _, k in a] == ["tens", "str", "str"]:
                return self.hoist(f"ein_reduce E {a[0][0]} {a[1][0]} {a[2][0]}", "ten"), "ten"
        if isinstance(f, ast.Attribute) and f.attr == "lower" and not n.args and not n.keywords:
            v, k = self.ex(f.value, env)
            if k == "combine":
                return self.hoist(f"str_lower {v}", "str"), "str"
        # methods of self:  self.m(…)  /  <Class>.m(self, …)
        tgt = self.callee(n, env)
        if tgt is not None:
            return self.method_call(n, *tgt, env)
        # the virtual `self.wiring(res, **kwargs)` of class Layer
        a = self.self_attr(f)
        if a is not None and a in self.spec.get("virtual", []) and not self.noself:
            self.check_abstract(n, a)
            if len(n.args) == 1 and len(n.keywords) == 1 and n.keywords[0].arg is None:
                x, kx = self.ex(n.args[0], env)
                kw, kkw = self.ex(n.keywords[0].value, env)
                if kx == "dict:ten" and kkw == "kwargs":
                    return self.hoist(f"{a} self {x} {kw}", "dict:ten"), "dict:ten"
            self.err(n, "unsupported call of a virtual method")
        # calling a value: a user callable, `_combine`, a component
        if isinstance(f, (ast.Attribute, ast.Subscript, ast.Name)) and not (isinstance(f, ast.Name) and f.id not in env):
            fv, fk = self.ex(f, env)
            if fk in ("fn1", "fnmany") and len(n.args) == 1:
                self.passthrough_ok(n, env)
                x, kx = self.ex(n.args[0], env)
                if kx == "ten":
                    return f"({fv} {x})", ("ten" if fk == "fn1" else "tens")
                if kx == "optten" and self.self_attr(n.args[0]) is not None:
                    return f"({fv} {self.hoist(f'tensorOf {x}', 'ten')})", ("ten" if fk == "fn1" else "tens")
            if fk == "combine" and len(n.args) == 1 and self.self_attr(f) is not None:
                self.passthrough_ok(n, env)
                x, kx = self.ex(n.args[0], env)
                if kx == "dict:ten":
                    return self.hoist(f"callCombine {fv} {x}", "ten"), "ten"
            if fk in ("conn", "neur") and fv in self.prov and len(n.args) == 1:
                self.passthrough_ok(n, env)
                arg = n.args[0]
                if fk == "conn":
                    if not isinstance(arg, ast.Starred):
                        self.err(n, "a connection is called with `*inputs`")
                    x, kx = self.ex(arg.value, env)
                    want = "tens"
                else:
                    if isinstance(arg, ast.Starred):
                        self.err(n, "a neuron is called with one tensor")
                    x, kx = self.ex(arg, env)
                    want = "ten"
                if kx == want:
                    return self.module_call(n, fv, x), "ten"
        self.err(n, "unsupported call")

    def module_call(self, node, m: str, x: str) -> str:
        """`self.<dict>[k](…)`: the component is called, mutated in place, and stays in the dictionary"""
        if self.mode != "state":
            self.err(node, "component call in a method that does not thread the state")
        dnode, attr, key = self.prov[m]
        c = self.tmp("c")
        dtxt = self.field(dnode, attr)[0]
        self.pre.append(f"let {c} := (callModule {m} {x})")
        self.pre.append(self.set_field(0, dnode, attr, f"(moduleWriteBack {dtxt} {key} {c}.1)").rstrip("\n"))
        return f"{c}.2"

    def check_abstract(self, node, attr: str):
        defs = [f for f in self.CLASSES[self.CLS].body if isinstance(f, ast.FunctionDef) and f.name == attr]
        if len(defs) != 1 or [ast.unparse(d) for d in defs[0].decorator_list] != ["abstractmethod"]:
            self.err(node, f"{self.CLS}.{attr} is not an abstract method")

    def callee(self, c: ast.Call, env):
        """`self.m(…)` or `<Class>.m(self, …)` among the translated methods -> (key, argument nodes, keywords)"""
        f = c.func
        if self.noself or not isinstance(f, ast.Attribute) or not isinstance(f.value, ast.Name):
            return None
        if f.value.id == "self":
            if f.attr in self.spec.get("virtual", []) or self.field(f, f.attr) is not None:
                return None
            return self.resolve(c, f.attr), list(c.args), c.keywords
        if f.value.id in self.CLASSES and c.args and ast.unparse(c.args[0]) == "self":
            if f.value.id not in mro(self.CLASSES, self.CLS):
                self.err(c, f"{f.value.id} is not a base of {self.CLS}")
            return self.resolve(c, f.attr, start=f.value.id), list(c.args[1:]), c.keywords
        return None

    def method_call(self, c: ast.Call, key: str, args, keywords, env):
        spec, sig = self.METHODS[key], self.sigs[key]
        if self.mode == "small" or (self.mode == "reader" and spec["mode"] == "state"):
            self.err(c, "method call from a method that does not thread the state")
        names = sig["pos"]
        bound, extra_kw = {}, []
        if sig["vararg"] is not None and args:
            self.err(c, "positional arguments for a `*args` method")
        for i, x in enumerate(args):
            if isinstance(x, ast.Starred) or i >= len(names):
                self.err(c, "unsupported positional arguments")
            bound[names[i]] = x
        for kw in keywords:
            if kw.arg is None:
                if not self.is_dropped(kw.value, env):
                    self.err(c, "`**` of a value that is not a pass-through")
                continue
            if kw.arg in bound:
                self.err(c, f"argument {kw.arg} given twice")
            if kw.arg in sig["order"]:
                bound[kw.arg] = kw.value
            elif sig["kwarg"] is not None and spec.get("kwargs"):
                extra_kw.append(kw)
            else:
                self.err(c, f"unexpected keyword argument {kw.arg}")
        out = []
        for p in sig["order"]:
            node = bound.get(p, sig["defaults"].get(p))
            if p in spec.get("drop", []):
                if node is not None and not self.is_dropped(node, env):
                    self.err(node, f"argument {p} is not a pass-through")
                continue
            if node is None:
                self.err(c, f"missing argument {p}")
            v, k = self.ex(node, env)
            want = spec["params"][p]
            if k == "none" and want == "optseq":
                v, k = "none", "optseq"
            if k != want:
                self.err(node, f"argument {p} of {key}: kind {k}, expected {want}")
            out.append(v)
        if spec.get("kwargs"):
            items = []
            for kw in extra_kw:
                if kw.arg not in KW_NAMES:
                    self.err(c, f"keyword {kw.arg} handed on to `wiring` is not in the vocabulary")
                v, k = self.ex(kw.value, env)
                if k != "bool":
                    self.err(kw.value, f"keyword {kw.arg} of kind {k}")
                items.append(f"(Kw.{kw.arg}, {v})")
            out.append("[" + ", ".join(items) + "]")
        virt = []
        for m in spec.get("virtual", []):
            wk = self.resolve(c, m)                       # `type(self)` is the class being translated
            if self.METHODS[wk]["cls"] == spec["cls"]:
                self.err(c, f"virtual method {m} is not overridden by {self.CLS}")
            if spec["cls"] == self.CLS:
                self.err(c, "virtual dispatch from the base class itself")
            virt.append(f"(fun l_ => {wk}_kw E {{ self with layer := l_ }})")
        sarg, wb = self.state_arg(c, key)
        head = " ".join([key, "E"] + virt + [sarg] + out)
        if spec["mode"] == "state":
            r = self.tmp("r")
            self.pre.append(f"let {r} ← {head}")
            self.pre.append(f"let self := {wb.format(r + '.1')}")
            return f"{r}.2", spec["ret"]
        return self.hoist(head, spec["ret"]), spec["ret"]

    # ------------------------------------------------------------------ statements
    def ret_value(self, s: ast.Return, env) -> str:
        want = self.spec["ret"]
        n = s.value
        if n is None:
            if want != "unit":
                self.err(s, "bare return")
            return "()"
        if isinstance(n, ast.Tuple) and want in ("fwdret", "serialret", "recret"):
            if want == "recret" and len(n.elts) == 2 and isinstance(n.elts[0], ast.Tuple) and len(n.elts[0].elts) == 2:
                a, b, d = self.ex(n.elts[0].elts[0], env), self.ex(n.elts[0].elts[1], env), self.ex(n.elts[1], env)
                if (a[1], b[1], d[1]) == ("ten", "ten", "dict:ten"):
                    return f"(RecRet.captured {a[0]} {b[0]} {d[0]})"
            elif len(n.elts) == 2:
                a, b = self.ex(n.elts[0], env), self.ex(n.elts[1], env)
                if want == "fwdret" and (a[1], b[1]) == ("dict:ten", "dict:ten"):
                    return f"(FwdRet.captured {a[0]} {b[0]})"
                if want == "serialret" and (a[1], b[1]) == ("ten", "ten"):
                    return f"(SerialRet.pair {a[0]} {b[0]})"
                if want == "recret" and (a[1], b[1]) == ("ten", "ten"):
                    return f"(RecRet.pair {a[0]} {b[0]})"
            self.err(s, f"unsupported returned tuple for {want}")
        v, k = self.ex(n, env)
        if want == "fwdret" and k == "dict:ten":
            return f"(FwdRet.plain {v})"
        if want == "serialret" and k == "ten":
            return f"(SerialRet.single {v})"
        if k != want:
            self.err(s, f"returns kind {k}, expected {want}")
        return v

    def pure(self, v: str) -> str:
        return f"pure (self, {v})" if self.mode == "state" else f"pure {v}"

    def block(self, stmts, env, alias, d, cont) -> str:
        if not stmts:
            return cont(env, alias, d)
        if self.pre:
            self.err(stmts[0], "internal: unflushed hoisted bindings")
        s, rest = stmts[0], stmts[1:]
        I = self.ind(d)
        nxt = lambda e, a, dd: self.block(rest, e, a, dd, cont)   # noqa: E731
        if isinstance(s, ast.Expr) and isinstance(s.value, ast.Constant) and isinstance(s.value.value, str):
            return nxt(env, alias, d)
        if isinstance(s, ast.Raise):
            exc = s.exc.func.id if isinstance(s.exc, ast.Call) and isinstance(s.exc.func, ast.Name) else None
            if exc not in progtx.ERRS:
                self.err(s, "unsupported exception")
            return f"{I}throw Err.{exc}\n"
        if isinstance(s, ast.Return):
            v = self.ret_value(s, env)
            return self.flush(d) + f"{I}{self.pure(v)}\n"
        if isinstance(s, ast.Assign) and len(s.targets) == 1:
            return self.assign(s, rest, env, alias, d, nxt)
        if isinstance(s, ast.FunctionDef):
            return self.nested_def(s, env, alias, d, nxt)
        if isinstance(s, ast.If):
            return self.if_stmt(s, rest, env, alias, d, cont)
        if isinstance(s, ast.For):
            return self.for_stmt(s, env, alias, d, nxt)
        if isinstance(s, ast.Try):
            return self.try_stmt(s, rest, env, alias, d)
        if isinstance(s, ast.Match):
            return self.match_stmt(s, rest, env, alias, d, cont)
        self.err(s, "unsupported statement")

    def assign(self, s: ast.Assign, rest, env, alias, d, nxt) -> str:
        I = self.ind(d)
        t = s.targets[0]
        a = self.self_attr(t)
        if a is not None:
            if self.spec.get("slice") and a == self.spec["target"]:
                # constructor slice: the value stored in the target attribute is what the program returns
                if rest:
                    self.err(s, f"statements after the assignment to self.{a} in the translated slice")
                v, k = self.ex(s.value, env)
                if k != self.spec["ret"]:
                    self.err(s, f"self.{a} assigned a value of kind {k}")
                return self.flush(d) + f"{I}pure {v}\n"
            if self.mode != "state":
                self.err(s, "assignment to an instance attribute in a method that does not thread the state")
            f = self.field(t, a)
            if f is None:
                self.err(s, "assignment to an unknown instance attribute")
            v, k = self.ex(s.value, env)
            if f[1] == "optten" and k == "ten":
                v = f"some {v}"
            elif f[1] == "optten" and k == "none":
                v = "none"
            else:
                self.err(s, f"self.{a} assigned a value of kind {k}")
            return self.flush(d) + self.set_field(d, t, a, v) + nxt(env, alias, d)
        if isinstance(t, ast.Name):
            if self.is_dropped(s.value, env) and not (isinstance(s.value, ast.Constant)):
                env = dict(env)
                env[t.id] = (lname(t.id), "dropped")
                return nxt(env, alias, d)
            v, k = self.ex(s.value, env)
            if k in ("none", "dropped") or (t.id in env and env[t.id][1] != k):
                self.err(s, f"local bound to kind {k}")
            env = dict(env)
            env[t.id] = (lname(t.id), k)
            return self.flush(d) + f"{I}let {lname(t.id)} := {v}\n" + nxt(env, alias, d)
        self.err(s, "unsupported assignment")

    def nested_def(self, s: ast.FunctionDef, env, alias, d, nxt) -> str:
        """a nested function that is translated as a definition of its own: the local name denotes the closure"""
        key = next((k for k, sp in self.METHODS.items()
                    if sp["cls"] == self.CLS and sp["py"] == self.spec["py"] and sp.get("nested") == s.name), None)
        if key is None:
            self.err(s, "nested function that is not translated")
        caps = self.METHODS[key]["captures"]
        for c, k in caps.items():
            if env.get(c, ("", ""))[1] != k:
                self.err(s, f"captured variable {c} is not a local of kind {k}")
        if self.METHODS[key]["ret"] != "ten" or list(self.METHODS[key]["params"].values()) != ["dict:ten"]:
            self.err(s, "closure of an unsupported type")
        env = dict(env)
        env[s.name] = (f"(Combine.fn ({key} E {' '.join(env[c][0] for c in caps)}))", "combine")
        return nxt(env, alias, d)

    def if_stmt(self, s: ast.If, rest, env, alias, d, cont) -> str:
        body, orelse = list(s.body), list(s.orelse)
        if not orelse and len(body) == 1 and isinstance(body[0], ast.Assign) and isinstance(body[0].targets[0], ast.Name):
            self.err(s, "conditional rebinding of a local")
        return super().if_stmt(s, rest, env, alias, d, cont)

    def branch(self, test, body, orelse, env, alias, d, cont) -> str:
        I = self.ind(d)
        c = self.truth(test, env)
        return (self.flush(d) + f"{I}if {c} then\n" + self.block(body, env, alias, d + 1, cont)
                + f"{I}else\n" + self.block(orelse, env, alias, d + 1, cont))

    def join_if(self, s, body, orelse, rest, env, alias, d, cont) -> str:
        if self.mode != "state":
            self.err(s, "conditional that falls through in a method that does not thread the state")
        if [x for x in self.assigned(body + orelse) if x in env]:
            self.err(s, "conditional that rebinds locals and falls through")
        I = self.ind(d)
        leaf = lambda e, a, dd: f"{self.ind(dd)}pure self\n"   # noqa: E731
        inner = self.branch(s.test, body, orelse, env, alias, d + 1, leaf)
        return f"{I}let self ← (do\n{inner}{I}  : Except Err _)\n" + self.block(rest, env, alias, d, cont)

    def for_stmt(self, s: ast.For, env, alias, d, nxt) -> str:
        """`for x in self.<ModuleDict>.values(): x.clear(**kwargs)`"""
        I = self.ind(d)
        it = s.iter
        if s.orelse or not isinstance(s.target, ast.Name) or s.target.id in env or self.mode != "state":
            self.err(s, "unsupported loop")
        if not (isinstance(it, ast.Call) and isinstance(it.func, ast.Attribute) and it.func.attr == "values"
                and not it.args and not it.keywords and self.self_attr(it.func.value) is not None):
            self.err(s, "loop not over `self.<ModuleDict>.values()`")
        attr = self.self_attr(it.func.value)
        f = self.field(it.func.value, attr)
        if f is None or f[1] not in ("conndict", "neurdict"):
            self.err(s, "loop not over a ModuleDict of components")
        var = lname(s.target.id)
        body = ""
        for b in s.body:
            c = b.value if isinstance(b, ast.Expr) and isinstance(b.value, ast.Call) else None
            if c is None or not (isinstance(c.func, ast.Attribute) and isinstance(c.func.value, ast.Name)
                                 and c.func.value.id == s.target.id and c.func.attr == "clear" and not c.args):
                self.err(b, "loop over components: only `<loop variable>.clear(**kwargs)` is supported")
            self.passthrough_ok(c, env)
            body += f"\n  let {var} := (moduleClear {var})"
        val = f"(forValues {f[0]} (fun {var} =>{body}\n  {var}))"
        return self.set_field(d, it.func.value, attr, val.replace("\n", "\n" + I)) + nxt(env, alias, d)

    def try_stmt(self, s: ast.Try, rest, env, alias, d) -> str:
        """`try: <body> except <Class>: <handler>` as the last statement of a method that does not change the state"""
        I = self.ind(d)
        if rest or s.orelse or s.finalbody or len(s.handlers) != 1 or self.mode == "state":
            self.err(s, "unsupported try statement")
        h = s.handlers[0]
        if h.name is not None or not isinstance(h.type, ast.Name) or h.type.id not in progtx.ERRS:
            self.err(s, "unsupported exception handler")
        if not self.terminates(list(s.body)) or not self.terminates(list(h.body)):
            self.err(s, "try / except whose branches do not all return or raise")
        dead = lambda e, a, dd: self.err(s, "falls through")   # noqa: E731
        body = self.block(list(s.body), env, alias, d + 2, dead)
        hand = self.block(list(h.body), env, alias, d + 2, dead)
        return (f"{I}exceptClass (do\n{body}{I}    : Except Err _) Err.{h.type.id} (do\n{hand}{I}    : Except Err _)\n")

    def match_stmt(self, s: ast.Match, rest, env, alias, d, cont) -> str:
        """`match <subject>: case "a" | "b": … case _: …` (string literal alternatives, a final wildcard)"""
        I = self.ind(d)
        if rest and not self.spec.get("slice"):
            self.err(s, "statements after a match")
        out, subj = self.subject(s.subject, env, d)
        cases = list(s.cases)
        last = cases[-1]
        if not (isinstance(last.pattern, ast.MatchAs) and last.pattern.pattern is None and last.pattern.name is None
                and last.guard is None):
            self.err(s, "match without a final wildcard case")
        dead = lambda e, a, dd: self.err(s, "a case falls through")   # noqa: E731

        def go(cs, dd):
            c = cs[0]
            if c is last:
                return self.block(list(c.body), env, alias, dd, dead)
            pats = c.pattern.patterns if isinstance(c.pattern, ast.MatchOr) else [c.pattern]
            lits = []
            for p in pats:
                if not (isinstance(p, ast.MatchValue) and isinstance(p.value, ast.Constant) and isinstance(p.value.value, str)):
                    self.err(c.pattern, "unsupported pattern")
                lits.append(lstr(p.value.value))
            if c.guard is not None:
                self.err(c.pattern, "guarded case")
            J = self.ind(dd)
            return (f"{J}if (matchLiterals {subj} [{', '.join(lits)}]) then\n"
                    + self.block(list(c.body), env, alias, dd + 1, dead)
                    + f"{J}else\n" + go(cs[1:], dd + 1))
        return out + go(cases, d)

    def subject(self, n, env, d):
        """the subject of the match: `(x.lower() if isinstance(x, str) else x)` evaluated branch by branch"""
        I = self.ind(d)
        if isinstance(n, ast.IfExp):
            c = self.truth(n.test, env)
            out = self.flush(d + 1)
            parts = []
            for br in (n.body, n.orelse):
                v, k = self.ex(br, env)
                if k == "str":
                    v, k = f"(Combine.str {v})", "combine"
                if k != "combine":
                    self.err(br, f"match subject of kind {k}")
                parts.append(self.flush(d + 2) + f"{self.ind(d + 2)}pure {v}\n")
            J = self.ind(d + 1)
            return (f"{I}let subject_ ← (do\n{out}{J}if {c} then\n{parts[0]}{J}else\n{parts[1]}{I}  : Except Err _)\n",
                    "subject_")
        v, k = self.ex(n, env)
        if k != "combine":
            self.err(n, f"match subject of kind {k}")
        return self.flush(d) + f"{I}let subject_ := {v}\n", "subject_"

    # ------------------------------------------------------------------ whole function
    def real_params(self, f: ast.FunctionDef):
        a = f.args
        out = [x.arg for x in a.posonlyargs + a.args if x.arg != "self"]
        if a.vararg:
            out.append("*" + a.vararg.arg)
        out += [x.arg for x in a.kwonlyargs]
        if a.kwarg:
            out.append("**" + a.kwarg.arg)
        return out

    def emit(self) -> str:
        spec = self.spec
        where = f"{self.SRC}::{self.CLS}.{spec['py']}"
        if spec.get("nested"):
            hits = [x for x in ast.walk(self.fdef) if isinstance(x, ast.FunctionDef) and x.name == spec["nested"]]
            if len(hits) != 1:
                raise TranslateError(where, f"{len(hits)} nested functions named {spec['nested']}")
            fn = hits[0]
            body_stmts = list(fn.body)
        elif spec.get("slice") == "match":
            hits = [x for x in self.fdef.body if isinstance(x, ast.Match)]
            if len(hits) != 1:
                raise TranslateError(where, f"{len(hits)} top-level match statements")
            fn = self.fdef
            body_stmts = [hits[0]]
        else:
            fn = self.fdef
            body_stmts = list(fn.body)
        real = self.real_params(fn)
        if spec.get("slice"):
            missing = [p for p in spec["params"] if p not in real]
            if missing:
                raise TranslateError(where, f"constructor parameters {missing} not found")
        else:
            want = {p: p for p in spec["params"]}
            if spec.get("vararg"):
                want[spec["vararg"][0]] = "*" + spec["vararg"][0]
            for p in spec.get("drop", []):
                want[p] = p
            if spec.get("kwargs"):
                want[spec["kwargs"]] = "**" + spec["kwargs"]
            got = [p.lstrip("*") for p in real]
            if sorted(got) != sorted(want) or [p for p in got if p in spec["params"]] != list(spec["params"]) \
                    or any(("**" + p) in real for p in spec["params"]) \
                    or (spec.get("vararg") and ("*" + spec["vararg"][0]) not in real) \
                    or (spec.get("kwargs") and ("**" + spec["kwargs"]) not in real):
                raise TranslateError(where, f"signature changed: {real} (expected {sorted(want.values())})")
        env, plist = {}, []
        for c, k in spec.get("captures", {}).items():
            env[c] = (lname(c), k)
            plist.append((lname(c), self.LEAN_TY[k]))
        if spec.get("vararg"):
            nm, k = spec["vararg"]
            env[nm] = (lname(nm), k)
            plist.append((lname(nm), self.LEAN_TY[k]))
        for p, k in spec["params"].items():
            env[p] = (lname(p), k)
            plist.append((lname(p), self.LEAN_TY[k]))
        for p in spec.get("drop", []):
            env[p] = (lname(p), "dropped")
        if spec.get("kwargs"):
            env[spec["kwargs"]] = (lname(spec["kwargs"]), "kwargs")
            plist.append((lname(spec["kwargs"]), "Kwargs"))
        ret = self.LEAN_TY[spec["ret"]]
        if spec["ret"] == "unit" and self.mode == "state":
            tail = lambda e, a, dd: f"{self.ind(dd)}pure (self, ())\n"   # noqa: E731
        else:
            tail = lambda e, a, dd: self.err(fn, "falls off the end without returning")   # noqa: E731
        body = self.block(body_stmts, env, {}, 1, tail)
        if self.pre:
            self.err(fn, "internal: unflushed hoisted bindings")
        virt = "".join(f" ({m} : LayerSt τ → Dict τ → Kwargs → Except Err (Dict τ))" for m in spec.get("virtual", []))
        selfp = "" if self.noself else f" (self : {self.STATE_TY})"
        ptxt = "".join(f" ({p} : {t})" for p, t in plist)
        rty = f"Except Err ({self.STATE_TY} × {ret})" if self.mode == "state" else f"Except Err ({ret})"
        text = f"def {self.name} (E : TOps τ){virt}{selfp}{ptxt} : {rty} := do\n" + body
        if spec["py"] == "wiring":
            text += "\n" + self.emit_kw(fn)
        return text

    def emit_kw(self, fn: ast.FunctionDef) -> str:
        """Python's binding of `self.wiring(inputs, **kwargs)` to this class's signature"""
        spec = self.spec
        named = [p for p in spec["params"] if p != "inputs"]
        lines = ""
        for i, p in enumerate(named, 1):
            if p not in KW_NAMES or spec["params"][p] != "bool":
                raise TranslateError(f"{self.SRC}::{self.CLS}.wiring", f"parameter {p} is not a keyword of the vocabulary")
            lines += f"  let b{i}_ ← kwBind kwargs Kw.{p}\n  let {lname(p)} := b{i}_.1\n  let kwargs := b{i}_.2\n"
        if fn.args.kwarg is None:
            lines += "  let _ ← kwDone kwargs\n"
        args = " ".join(["inputs"] + [lname(p) for p in named])
        return (f"/-- Python's binding of `self.wiring(inputs, **kwargs)` to the signature of `{self.CLS}.wiring` "
                f"(`{', '.join(self.real_params(fn))}`) -/\n"
                f"def {self.name}_kw (E : TOps τ) (self : {self.STATE_TY}) (inputs : Dict τ) (kwargs : Kwargs) : "
                f"Except Err (Dict τ) := do\n{lines}  {self.name} E self {args}\n")


def locate(classes: dict, key: str, spec: dict) -> ast.FunctionDef:
    where = f"{SRC}::{spec['cls']}.{spec['py']}"
    if spec["cls"] not in classes:
        raise TranslateError(SRC, f"class {spec['cls']} not found")
    found = [n for n in classes[spec["cls"]].body if isinstance(n, ast.FunctionDef) and n.name == spec["py"]
             and not n.decorator_list]
    if len(found) != 1:
        raise TranslateError(where, f"{len(found)} undecorated definitions")
    return found[0]


def signature(f: ast.FunctionDef) -> dict:
    a = f.args
    pos = [x.arg for x in a.posonlyargs + a.args]
    if not pos or pos[0] != "self":
        raise TranslateError(f"{SRC}::{f.name}", "first parameter is not self")
    pos = pos[1:]
    order = pos + [x.arg for x in a.kwonlyargs]
    defaults = dict(zip(pos[len(pos) - len(a.defaults):], a.defaults))
    defaults.update({x.arg: dflt for x, dflt in zip(a.kwonlyargs, a.kw_defaults) if dflt is not None})
    return {"order": order, "pos": [] if a.vararg else pos, "defaults": defaults,
            "vararg": a.vararg.arg if a.vararg else None, "kwarg": a.kwarg.arg if a.kwarg else None}


def segment(src: str, key: str, spec: dict, fdef: ast.FunctionDef) -> str:
    node = fdef
    if spec.get("nested"):
        node = next((x for x in ast.walk(fdef) if isinstance(x, ast.FunctionDef) and x.name == spec["nested"]), fdef)
    elif spec.get("slice") == "match":
        node = next((x for x in fdef.body if isinstance(x, ast.Match)), fdef)
    return ast.get_source_segment(src, node) or ""


def regenerate() -> dict:
    """regenerates Gen/LayerProg.lean; same return shape as `progtx.regenerate_class`"""
    T = LayerTx
    src = (REPO / T.SRC).read_text()
    tree = ast.parse(src)
    classes = class_map(tree)
    for c in STATES:
        if c not in classes:
            raise TranslateError(T.SRC, f"class {c} not found")
    for c in ("Serial", "Biclique", "RecurrentSerial"):
        if mro(classes, c) != [c, "Layer"] + [x for x in mro(classes, "Layer")[1:]]:
            raise TranslateError(f"{T.SRC}::{c}", f"base classes changed: {mro(classes, c)}")
    for c, m in INHERITED:
        if any(isinstance(f, ast.FunctionDef) and f.name == m for f in classes[c].body):
            raise TranslateError(f"{T.SRC}::{c}", f"{m} is overridden (the glue relies on the inherited Layer.{m})")
    T.CLASSES = classes
    fdefs = {k: locate(classes, k, s) for k, s in T.METHODS.items()}
    sigs = {k: signature(f) for k, f in fdefs.items()}
    text = T.HEADER
    info = {}
    for k, s in T.METHODS.items():
        sha = hashlib.sha256(segment(src, k, s, fdefs[k]).encode()).hexdigest()[:16]
        qual = f"{s['cls']}.{s['py']}" + (f".{s['nested']}" if s.get("nested") else "")
        what = ", the `match` statement" if s.get("slice") else ""
        text += f"\n/-- from `{T.SRC}` :: `{qual}`{what} (sha256 of source segment {sha}) -/\n" + T(k, fdefs[k], sigs).emit()
        info[k] = sha
    text += f"\nend {T.NAMESPACE}\n"
    GEN.mkdir(parents=True, exist_ok=True)
    p = GEN / T.OUT
    changed = not p.exists() or p.read_text() != text
    if changed:
        p.write_text(text)
    return {"functions": info, "rewritten": changed}


if __name__ == "__main__":
    print(json.dumps(regenerate(), indent=1))
