"""What `translate.py` translates: per generated Lean module, the source file and, per function,
the kind of every parameter (by *name*, never by line number).

kinds: real | bool | vec (the trailing adaptation axis) | int | opt <kind> | fn (ℝ→ℝ) | fnb (ℝ→Bool)
"""
R, B, V = "real", "bool", "vec"

SPEC = {
    "NeuronDynamics": {
        "file": "inferno/neural/functional/neuron_dynamics.py",
        "functions": {
            "voltage_thresholding_constant": {"params": {
                "inputs": R, "refracs": R, "dynamics": "fn", "voltages": "opt real",
                "step_time": R, "reset_v": R, "thresh_v": R, "refrac_t": R}},
            "voltage_thresholding_linear": {"params": {
                "inputs": R, "refracs": R, "dynamics": "fn", "voltages": "opt real",
                "step_time": R, "rest_v": R, "v_slope": R, "v_intercept": R, "thresh_v": R, "refrac_t": R}},
            "voltage_integration_linear": {"params": {
                "masked_inputs": R, "voltages": R, "step_time": R, "time_constant": R, "rest_v": R, "resistance": R}},
            "voltage_integration_quadratic": {"params": {
                "masked_inputs": R, "voltages": R, "step_time": R, "rest_v": R, "crit_v": R, "affinity": R,
                "time_constant": R, "resistance": R}},
            "voltage_integration_exponential": {"params": {
                "masked_inputs": R, "voltages": R, "step_time": R, "rest_v": R, "rheobase_v": R, "sharpness": R,
                "time_constant": R, "resistance": R}},
        },
    },
    "NeuronAdaptation": {
        "file": "inferno/neural/functional/neuron_adaptation.py",
        "functions": {
            "adaptive_currents_linear": {"params": {
                "adaptations": V, "voltages": R, "spikes": B, "step_time": R, "rest_v": R, "time_constant": V,
                "voltage_coupling": V, "spike_increment": V, "refracs": "opt real"}},
            "adaptive_thresholds_linear_voltage": {"params": {
                "adaptations": V, "voltages": R, "step_time": R, "rest_v": R, "adapt_rate": V, "rebound_rate": V,
                "adapt_reset_min": "opt vec", "spikes": "opt bool", "refracs": "opt real"}},
            "adaptive_thresholds_linear_spike": {"params": {
                "adaptations": V, "spikes": B, "step_time": R, "time_constant": V, "spike_increment": V,
                "refracs": "opt real"}},
            "apply_adaptive_currents": {"params": {"current": R, "adaptations": V}},
            "apply_adaptive_thresholds": {"params": {"threshold": R, "adaptations": V}},
        },
    },
    "Trace": {
        "file": "inferno/core/trace.py",
        "functions": {
            "trace_nearest": {"params": {"observation": R, "trace": "opt real", "decay": R, "amplitude": R,
                                         "target": R, "tolerance": "opt real"}},
            "trace_cumulative": {"params": {"observation": R, "trace": "opt real", "decay": R, "amplitude": R,
                                            "target": R, "tolerance": "opt real"}},
            "trace_nearest_scaled": {"params": {"observation": R, "trace": "opt real", "decay": R, "amplitude": R,
                                                "scale": R, "matchfn": "fnb"}},
            "trace_cumulative_scaled": {"params": {"observation": R, "trace": "opt real", "decay": R, "amplitude": R,
                                                   "scale": R, "matchfn": "fnb"}},
            "trace_cumulative_value": {"params": {"observation": R, "trace": "opt real", "decay": R, "scale": R}},
            "exp_trace_nearest": {"params": {"observation": R, "trace": "opt real", "step_time": R, "time_constant": R,
                                             "amplitude": R, "target": R, "tolerance": "opt real"}},
            "exprate_trace_nearest": {"params": {"observation": R, "trace": "opt real", "step_time": R, "rate_constant": R,
                                                 "amplitude": R, "target": R, "tolerance": "opt real"}},
            "exp_trace_cumulative": {"params": {"observation": R, "trace": "opt real", "step_time": R, "time_constant": R,
                                                "amplitude": R, "target": R, "tolerance": "opt real"}},
            "exprate_trace_cumulative": {"params": {"observation": R, "trace": "opt real", "step_time": R, "rate_constant": R,
                                                    "amplitude": R, "target": R, "tolerance": "opt real"}},
        },
    },
    "StdKernels": {
        "file": "inferno/functional/stdkernels.py",
        "functions": {
            "exp_stdp_post_kernel": {"params": {"diff": R, "learning_rate": R, "time_constant": R}},
            "exp_stdp_pre_kernel": {"params": {"diff": R, "learning_rate": R, "time_constant": R}},
        },
    },
    "Interpolation": {
        "file": "inferno/functional/interpolation.py",
        "functions": {
            "interp_previous": {"params": {"prev_data": R, "next_data": R, "sample_at": R, "step_time": R}},
            "interp_next": {"params": {"prev_data": R, "next_data": R, "sample_at": R, "step_time": R}},
            "interp_nearest": {"params": {"prev_data": R, "next_data": R, "sample_at": R, "step_time": R}},
            "interp_linear": {"params": {"prev_data": R, "next_data": R, "sample_at": R, "step_time": R}},
            "interp_expdecay": {"params": {"prev_data": R, "next_data": R, "sample_at": R, "step_time": R, "time_constant": R}},
            "interp_expratedecay": {"params": {"prev_data": R, "next_data": R, "sample_at": R, "step_time": R, "rate_constant": R}},
        },
    },
    "Extrapolation": {
        "file": "inferno/functional/extrapolation.py",
        "functions": {
            "extrap_previous": {"params": {"sample": R, "sample_at": R, "prev_data": R, "next_data": R, "step_time": R}},
            "extrap_next": {"params": {"sample": R, "sample_at": R, "prev_data": R, "next_data": R, "step_time": R}},
            "extrap_neighbors": {"params": {"sample": R, "sample_at": R, "prev_data": R, "next_data": R, "step_time": R}},
            "extrap_nearest": {"params": {"sample": R, "sample_at": R, "prev_data": R, "next_data": R, "step_time": R}},
            "extrap_linear_forward": {"params": {"sample": R, "sample_at": R, "prev_data": R, "next_data": R, "step_time": R, "adjust": "opt fn"}},
            "extrap_linear_backward": {"params": {"sample": R, "sample_at": R, "prev_data": R, "next_data": R, "step_time": R, "adjust": "opt fn"}},
            "extrap_expdecay": {"params": {"sample": R, "sample_at": R, "prev_data": R, "next_data": R, "step_time": R, "time_constant": R}},
            "extrap_expratedecay": {"params": {"sample": R, "sample_at": R, "prev_data": R, "next_data": R, "step_time": R, "rate_constant": R}},
        },
    },
    "Smoothing": {
        "file": "inferno/core/math.py",
        "functions": {
            "exponential_smoothing": {"params": {"obs": R, "level": "opt real", "alpha": R}},
        },
    },
    "Bounding": {
        "file": "inferno/functional/bounding.py",
        "functions": {
            "bound_upper_power": {"params": {"param": R, "update": R, "limit": R, "power": R}},
            "bound_lower_power": {"params": {"param": R, "update": R, "limit": R, "power": R}},
            "bound_power": {"params": {"param": R, "pos": R, "neg": R, "max": "opt real", "min": "opt real",
                                       "upper_power": R, "lower_power": R}},
            "bound_upper_scaled_power": {"params": {"param": R, "update": R, "limit": R, "power": R, "range": R}},
            "bound_lower_scaled_power": {"params": {"param": R, "update": R, "limit": R, "power": R, "range": R}},
            "bound_upper_multiplicative": {"params": {"param": R, "update": R, "limit": R}},
            "bound_lower_multiplicative": {"params": {"param": R, "update": R, "limit": R}},
            "bound_multiplicative": {"params": {"param": R, "pos": R, "neg": R, "max": "opt real", "min": "opt real"}},
            "bound_upper_scaled_multiplicative": {"params": {"param": R, "update": R, "limit": R, "range": R}},
            "bound_lower_scaled_multiplicative": {"params": {"param": R, "update": R, "limit": R, "range": R}},
            "bound_upper_sharp": {"params": {"param": R, "update": R, "limit": R}},
            "bound_lower_sharp": {"params": {"param": R, "update": R, "limit": R}},
            "bound_sharp": {"params": {"param": R, "pos": R, "neg": R, "max": "opt real", "min": "opt real"}},
        },
    },
    # ---- sites: expressions inside methods (harness/sites.py) ---------------------------------
    "SynapseSites": {
        "sites": {
            "SingleExponentialCurrent_current": {
                "file": "inferno/neural/synapses/expcurrent.py", "cls": "SingleExponentialCurrent", "method": "forward",
                "target": "self.current",
                "rename": {"self.current": "current", "self.dt": "dt", "self.time_constant": "time_constant",
                           "self.spike_charge": "spike_charge", "inputs[0]": "x"},
                "params": {"current": R, "dt": R, "time_constant": R, "spike_charge": R, "x": R}},
            "DoubleExponentialCurrent_pos_current": {
                "file": "inferno/neural/synapses/expcurrent.py", "cls": "DoubleExponentialCurrent", "method": "forward",
                "target": "self.pos_current",
                "rename": {"self.pos_current": "pos_current", "self.dt": "dt", "self.tc_decay": "tc_decay",
                           "self.tc_rise": "tc_rise", "self.spike_charge": "spike_charge", "inputs[0]": "x"},
                "params": {"pos_current": R, "dt": R, "tc_decay": R, "tc_rise": R, "spike_charge": R, "x": R}},
            "DoubleExponentialCurrent_neg_current": {
                "file": "inferno/neural/synapses/expcurrent.py", "cls": "DoubleExponentialCurrent", "method": "forward",
                "target": "self.neg_current",
                "rename": {"self.neg_current": "neg_current", "self.dt": "dt", "self.tc_decay": "tc_decay",
                           "self.tc_rise": "tc_rise", "self.spike_charge": "spike_charge", "inputs[0]": "x"},
                "params": {"neg_current": R, "dt": R, "tc_decay": R, "tc_rise": R, "spike_charge": R, "x": R}},
            "DoubleExponentialCurrent_current": {
                "file": "inferno/neural/synapses/expcurrent.py", "cls": "DoubleExponentialCurrent", "method": "current",
                "target": "return",
                "rename": {"self.pos_current_.peek()": "pos", "self.neg_current_.peek()": "neg"},
                "params": {"pos": R, "neg": R}},
            "DeltaPlusCurrent_pulse": {
                "file": "inferno/neural/synapses/current.py", "cls": "DeltaPlusCurrent", "method": "forward",
                "target": "self.current", "peel": [("arg", "sum", 0), ("elt", 0)],
                "rename": {"self.dt": "dt", "self.spike_charge": "spike_charge", "inputs[0]": "x"},
                "params": {"x": R, "spike_charge": R, "dt": R}},
            "synparam_bounded_selector": {
                "file": "inferno/neural/synapses/mixins.py", "cls": None, "method": "_synparam_at", "target": "bounded_selector", "nth": 1,
                "rename": {"value.duration": "duration"}, "params": {"selector": R, "duration": R}},
            "synparam_overbound": {
                "file": "inferno/neural/synapses/mixins.py", "cls": None, "method": "_synparam_at", "target": "res", "nth": 3,
                "params": {"selector": R, "bounded_selector": R, "tolerance": R, "res": R, "overbound": R}},
            "DeltaCurrent_spike_to_current": {
                "file": "inferno/neural/synapses/current.py", "cls": "DeltaCurrent", "method": "__init__",
                "nested": "spike_to_current", "target": "return",
                "rename": {"synapse.dt": "dt", "synapse.spike_charge": "spike_charge"},
                "params": {"spikes": B, "spike_charge": R, "dt": R}},
        },
    },
    "DelaySTDPSites": {
        "sites": {
            **{f"{cls}_{nm}": {
                "file": f"inferno/learn/trainers/{fl}.py", "cls": cls, "method": "forward", "target": tgt, "peel": peel,
                "rename": ren, "params": par}
               for fl, cls, three in (("delay_adj_two_factor_stdp", "DelayAdjustedSTDP", False),
                                      ("delay_adj_two_factor_stdp", "DelayAdjustedSTDPD", False),
                                      ("delay_adj_three_factor_stdp", "DelayAdjustedMSTDP", True),
                                      ("delay_adj_three_factor_stdp", "DelayAdjustedMSTDPD", True),
                                      ("kernel_stdp", "DelayAdjustedKernelSTDP", None),
                                      ("kernel_stdp", "DelayAdjustedKernelSTDPD", None),
                                      ("kernel_stdp", "KernelSTDP", None))
               for nm, tgt, peel, ren, par in (
                   [("t_delta", "t_delta", [],
                     ({} if cls == "KernelSTDP" else {"cell.connection.delay.unsqueeze(-1)": "delay"}),
                     ({"t_pre": R, "t_post": R} if cls == "KernelSTDP" else {"t_pre": R, "t_post": R, "delay": R}))]
                   + ([] if three is None else [
                       ("t_delta_abs", "t_delta_abs", [], {}, {"t_delta": R}),
                       ("term_a", ("dpost" if three else ("dneg" if cls.endswith("D") else "dpos")),
                        ([("arg", "nansum", 0)] if three else ["batchreduce", "nansum"]),
                        ({"state.tc_neg": "tc", "state.lr_neg": "lr"} if cls.endswith("D") else {"state.tc_pos": "tc", "state.lr_pos": "lr"}),
                        {"t_delta": R, "t_delta_abs": R, "lr": R, "tc": R}),
                       ("term_b", ("dpre" if three else ("dpos" if cls.endswith("D") else "dneg")),
                        ([("arg", "nansum", 0)] if three else ["batchreduce", "nansum"]),
                        ({"state.tc_pos": "tc", "state.lr_pos": "lr"} if cls.endswith("D") else {"state.tc_neg": "tc", "state.lr_neg": "lr"}),
                        {"t_delta": R, "t_delta_abs": R, "lr": R, "tc": R}),
                   ]))},
        },
    },
    "Infra": {
        "file": "inferno/core/infrastructure.py",
        "functions": {
            "_unwind_ptr": {"params": {"pointer": "zint", "offset": "zint", "size": "zint"}},
            "_unwind_tensor_ptr": {"params": {"pointer": "zint", "offset": "zint", "size": "zint"}},
        },
        "sites": {
            # the record-size expression, at its three occurrences
            "RecordTensor_size_init": {
                "file": "inferno/core/infrastructure.py", "cls": "RecordTensor", "method": "__init__", "target": "size",
                "params": {"duration": R, "step_time": R, "inclusive": B}},
            "RecordTensor_size_dt": {
                "file": "inferno/core/infrastructure.py", "cls": "RecordTensor", "method": "dt", "target": "size",
                "rename": {"self.__duration": "duration", "self.__dt": "step_time", "self.__inclusive": "inclusive"},
                "params": {"duration": R, "step_time": R, "inclusive": B}},
            "RecordTensor_size_duration": {
                "file": "inferno/core/infrastructure.py", "cls": "RecordTensor", "method": "duration", "target": "size",
                "rename": {"self.__duration": "duration", "self.__dt": "step_time", "self.__inclusive": "inclusive"},
                "params": {"duration": R, "step_time": R, "inclusive": B}},
        },
    },
    "Distributions": {
        "sites": {
            nm: {"file": "inferno/stats/distributions.py", "cls": cls, "method": meth, "target": "body",
                 "rename": ren, "params": par}
            for nm, cls, meth, ren, par in (
                ("Poisson_logpmf", "Poisson", "logpmf", {"torch.special.xlogy": "xlogy", "torch.lgamma": "lgamma"},
                 {"support": R, "rate": R, "lgamma": "fn"}),
                ("Poisson_pmf", "Poisson", "pmf", {"Poisson.logpmf": "Poisson_logpmf"}, {"support": R, "rate": R, "lgamma": "fn"}),
                ("Poisson_cdf", "Poisson", "cdf", {"torch.special.gammaincc": "gammaincc"}, {"support": R, "rate": R, "gammaincc": "fn2"}),
                ("Poisson_logcdf", "Poisson", "logcdf", {"cls.cdf": "Poisson_cdf"}, {"support": R, "rate": R, "gammaincc": "fn2"}),
                ("Poisson_mean", "Poisson", "mean", {}, {"rate": R}),
                ("Poisson_variance", "Poisson", "variance", {}, {"rate": R}),
                ("Normal_params_mv", "Normal", "params_mv", {}, {"mean": R, "variance": R}),
                ("Normal_pdf", "Normal", "pdf", {}, {"support": R, "loc": R, "scale": R}),
                ("Normal_logpdf", "Normal", "logpdf", {"cls.pdf": "Normal_pdf"}, {"support": R, "loc": R, "scale": R}),
                ("Normal_cdf", "Normal", "cdf", {"torch.special.erf": "erf"}, {"support": R, "loc": R, "scale": R, "erf": "fn"}),
                ("Normal_logcdf", "Normal", "logcdf", {"cls.cdf": "Normal_cdf"}, {"support": R, "loc": R, "scale": R, "erf": "fn"}),
                ("Normal_mean", "Normal", "mean", {}, {"loc": R}),
                ("Normal_variance", "Normal", "variance", {}, {"scale": R}),
                ("LogNormal_params_mv", "LogNormal", "params_mv", {}, {"mean": R, "variance": R}),
                ("LogNormal_logpdf", "LogNormal", "logpdf", {}, {"support": R, "loc": R, "scale": R}),
                ("LogNormal_pdf", "LogNormal", "pdf", {"cls.logpdf": "LogNormal_logpdf"}, {"support": R, "loc": R, "scale": R}),
                ("LogNormal_cdf", "LogNormal", "cdf", {"Normal.cdf": "Normal_cdf"}, {"support": R, "loc": R, "scale": R, "erf": "fn"}),
                ("LogNormal_logcdf", "LogNormal", "logcdf", {"cls.cdf": "LogNormal_cdf"}, {"support": R, "loc": R, "scale": R, "erf": "fn"}),
                ("LogNormal_mean", "LogNormal", "mean", {}, {"loc": R, "scale": R}),
                ("LogNormal_variance", "LogNormal", "variance", {"torch.special.expm1": "expm1"}, {"loc": R, "scale": R, "expm1": "fn"}),
            )
        },
    },
    "EncoderSites": {
        "sites": {
            # homogeneous_poisson_exp_interval (offline)
            "exp_refrac_ms": {"file": "inferno/neural/functional/encoding.py", "cls": None, "method": "homogeneous_poisson_exp_interval",
                              "target": "refrac", "nth": 0, "params": {"step_time": R, "refrac": "opt real"}},
            "exp_refrac_steps": {"file": "inferno/neural/functional/encoding.py", "cls": None, "method": "homogeneous_poisson_exp_interval",
                                 "target": "refrac", "nth": 1, "params": {"refrac": R, "step_time": R}},
            "exp_scale": {"file": "inferno/neural/functional/encoding.py", "cls": None, "method": "homogeneous_poisson_exp_interval",
                          "target": "res", "nth": 0, "params": {"inputs": R, "step_time": R}},
            "exp_scale_compensated": {"file": "inferno/neural/functional/encoding.py", "cls": None, "method": "homogeneous_poisson_exp_interval",
                                      "target": "res", "nth": 1, "params": {"res": R, "refrac": R}},
            "exp_nbins": {"file": "inferno/neural/functional/encoding.py", "cls": None, "method": "homogeneous_poisson_exp_interval",
                          "target": "nbins", "params": {"steps": R, "refrac": R}},
            "exp_interval": {"file": "inferno/neural/functional/encoding.py", "cls": None, "method": "homogeneous_poisson_exp_interval",
                             "target": "res", "nth": 2,
                             "rename": {"res.new_empty(nbins, *inputs.shape).exponential_(1.0, generator=generator)": "sample"},
                             "params": {"sample": R, "res": R, "refrac": R}},
            # … and online
            "expon_refrac_ms": {"file": "inferno/neural/functional/encoding.py", "cls": None, "method": "homogeneous_poisson_exp_interval_online",
                                "target": "refrac", "nth": 0, "params": {"step_time": R, "refrac": "opt real"}},
            "expon_refrac_steps": {"file": "inferno/neural/functional/encoding.py", "cls": None, "method": "homogeneous_poisson_exp_interval_online",
                                   "target": "refrac", "nth": 1, "params": {"refrac": R, "step_time": R}},
            "expon_scale": {"file": "inferno/neural/functional/encoding.py", "cls": None, "method": "homogeneous_poisson_exp_interval_online",
                            "target": "inputs", "nth": 0, "params": {"inputs": R, "step_time": R}},
            "expon_scale_compensated": {"file": "inferno/neural/functional/encoding.py", "cls": None, "method": "homogeneous_poisson_exp_interval_online",
                                        "target": "inputs", "nth": 1, "params": {"inputs": R, "refrac": R}},
            "expon_first_interval": {"file": "inferno/neural/functional/encoding.py", "cls": None, "method": "homogeneous_poisson_exp_interval_online",
                                     "target": "intervals",
                                     "rename": {"torch.empty_like(inputs).exponential_(1.0, generator=generator)": "sample"},
                                     "params": {"sample": R, "inputs": R, "refrac": R}},
            "expon_spike": {"file": "inferno/neural/functional/encoding.py", "cls": None, "method": "homogeneous_poisson_exp_interval_online",
                            "target": "spikes", "params": {"intervals": R}},
            "expon_next_interval": {"file": "inferno/neural/functional/encoding.py", "cls": None, "method": "homogeneous_poisson_exp_interval_online",
                                    "target": "intervals[spikes]",
                                    "rename": {"torch.empty_like(intervals[spikes]).exponential_(1.0, generator=generator)": "sample",
                                               "inputs[spikes]": "inputs"},
                                    "params": {"sample": R, "inputs": R, "refrac": R}},
            # poisson_interval (offline / online): rate -> expected interval in steps, the validity mask, the online spike test
            "poi_mask": {"file": "inferno/neural/functional/encoding.py", "cls": None, "method": "poisson_interval",
                         "target": "mask", "params": {"inputs": R}},
            "poi_mean_interval": {"file": "inferno/neural/functional/encoding.py", "cls": None, "method": "poisson_interval",
                                  "target": "inputs", "params": {"inputs": R, "step_time": R}},
            "poion_mask": {"file": "inferno/neural/functional/encoding.py", "cls": None, "method": "poisson_interval_online",
                           "target": "mask", "params": {"inputs": R}},
            "poion_mean_interval": {"file": "inferno/neural/functional/encoding.py", "cls": None, "method": "poisson_interval_online",
                                    "target": "inputs", "params": {"inputs": R, "step_time": R}},
            "poion_spike": {"file": "inferno/neural/functional/encoding.py", "cls": None, "method": "poisson_interval_online",
                            "target": "spikes", "params": {"intervals": R, "mask": B}},
            # Bernoulli approximations: spike probability per step
            "bern_prob": {"file": "inferno/neural/functional/encoding.py", "cls": None, "method": "homogenous_poisson_bernoulli_approx",
                          "target": "res", "params": {"inputs": R, "step_time": R}},
            "bern_prob_clamped": {"file": "inferno/neural/functional/encoding.py", "cls": None, "method": "homogenous_poisson_bernoulli_approx",
                                  "target": "return", "peel": ["bool", ("arg", "bernoulli", 0), ("arg", "repeat", 0)], "params": {"res": R}},
            "bernon_prob": {"file": "inferno/neural/functional/encoding.py", "cls": None, "method": "homogenous_poisson_bernoulli_approx_online",
                            "target": "res", "params": {"inputs": R, "step_time": R}},
            "inhom_prob": {"file": "inferno/neural/functional/encoding.py", "cls": None, "method": "inhomogeneous_poisson_bernoulli_approx",
                           "target": "res", "params": {"inputs": R, "step_time": R}},
            "inhom_prob_clamped": {"file": "inferno/neural/functional/encoding.py", "cls": None, "method": "inhomogeneous_poisson_bernoulli_approx",
                                   "target": "return", "peel": ["bool", ("arg", "bernoulli", 0)], "params": {"res": R}},
        },
    },
    "ReducerSites": {
        "uses": ["Trace", "Interpolation", "Smoothing"],
        "sites": {
            **{f"{cls}_{nm}": dict(d, file="inferno/observe/reducers/trace.py", cls=cls)
               for cls, scaled, cond in (("NearestTraceReducer", False, False), ("CumulativeTraceReducer", False, False),
                                         ("ScaledNearestTraceReducer", True, False), ("ScaledCumulativeTraceReducer", True, False),
                                         ("ConditionalNearestTraceReducer", True, True), ("ConditionalCumulativeTraceReducer", True, True))
               for nm, d in (
                   ("fold", {"method": "fold", "target": "body",
                             "rename": ({"self.decay": "decay", "self.amplitude": "amplitude", "self.scale": "scale",
                                         ("partial(lambda o, c: c, c=cond)" if cond else "self.criterion"): "matchfn"} if scaled else
                                        {"self.decay": "decay", "self.amplitude": "amplitude", "self.target": "target", "self.tolerance": "tolerance",
                                         "self.data.dtype": "dtype"}),
                             "ignore_args": (["cond"] if cond else []),
                             "params": ({"obs": R, "state": "opt real", "decay": R, "amplitude": R, "scale": R, "matchfn": "fnb"} if scaled else
                                        {"obs": R, "state": "opt real", "decay": R, "amplitude": R, "target": R, "tolerance": "opt real"})}),
                   ("interpolate", {"method": "interpolate", "target": "body", "rename": {"self.time_constant": "time_constant"},
                                    "params": {"prev_data": R, "next_data": R, "sample_at": R, "step_time": R, "time_constant": R}}),
                   ("decay_init", {"method": "__init__", "target": "self.decay", "rename": {"self.dt": "dt", "self.time_constant": "time_constant"},
                                   "params": {"dt": R, "time_constant": R}}),
                   ("decay_dt", {"method": "dt", "target": "self.decay", "rename": {"self.dt": "dt", "self.time_constant": "time_constant"},
                                 "params": {"dt": R, "time_constant": R}}),
               )},
            "EventReducer_fold": {"file": "inferno/observe/reducers/general.py", "cls": "EventReducer", "method": "fold", "target": "body",
                                  "rename": {"self.criterion": "criterion", "self.__initial_value": "initial_value", "self.dt": "dt", "self.data.dtype": "dtype"},
                                  "params": {"obs": R, "state": "opt real", "criterion": "fnb", "initial_value": R, "dt": R}},
            "EventReducer_interpolate": {"file": "inferno/observe/reducers/general.py", "cls": "EventReducer", "method": "interpolate",
                                         "target": "body", "params": {"prev_data": R, "next_data": R, "sample_at": R, "step_time": R}},
            "PassthroughReducer_fold": {"file": "inferno/observe/reducers/general.py", "cls": "PassthroughReducer", "method": "fold",
                                        "target": "body", "params": {"obs": R, "state": "opt real"}},
            "PassthroughReducer_interpolate": {"file": "inferno/observe/reducers/general.py", "cls": "PassthroughReducer", "method": "interpolate",
                                               "target": "body", "params": {"prev_data": R, "next_data": R, "sample_at": R, "step_time": R}},
            "EMAReducer_fold": {"file": "inferno/observe/reducers/stats.py", "cls": "EMAReducer", "method": "fold", "target": "body",
                                "rename": {"self.alpha": "alpha"}, "params": {"obs": R, "state": "opt real", "alpha": R}},
            "EMAReducer_interpolate": {"file": "inferno/observe/reducers/stats.py", "cls": "EMAReducer", "method": "interpolate",
                                       "target": "body", "params": {"prev_data": R, "next_data": R, "sample_at": R, "step_time": R}},
            "CAReducer_fold_first": {"file": "inferno/observe/reducers/stats.py", "cls": "CAReducer", "method": "fold", "target": "return", "nth": 0,
                                     "rename": {"self.data.dtype": "dtype"}, "params": {"obs": R}},
            "CAReducer_fold_next": {"file": "inferno/observe/reducers/stats.py", "cls": "CAReducer", "method": "fold", "target": "return", "nth": 1,
                                    "rename": {"self._count": "count"}, "params": {"obs": R, "state": R, "count": R}},
            "CAReducer_interpolate": {"file": "inferno/observe/reducers/stats.py", "cls": "CAReducer", "method": "interpolate",
                                      "target": "body", "params": {"prev_data": R, "next_data": R, "sample_at": R, "step_time": R}},
        },
    },
    "NeuronSites": {
        "uses": ["NeuronDynamics", "NeuronAdaptation"],
        "sites": {
            **{f"{cls}__integrate_v": {
                "file": f"inferno/neural/neurons/{fl}.py", "cls": cls, "method": "_integrate_v", "target": "return",
                "rename": {f"nf.voltage_integration_{kern}": f"voltage_integration_{kern}", "self.voltage": "voltage",
                           "self.step_time": "step_time", f"self.{tc}": "time_constant", "self.rest_v": "rest_v",
                           "self.resistance": "resistance", **extra},
                "params": {"masked_inputs": R, "voltage": R, "step_time": R, "rest_v": R, **{v: R for v in extra.values()},
                           "time_constant": R, "resistance": R}}
               for fl, cls, kern, tc, extra in (
                   ("linear", "LIF", "linear", "time_constant", {}),
                   ("linear", "ALIF", "linear", "tc_membrane", {}),
                   ("linear", "GLIF2", "linear", "tc_membrane", {}),
                   ("nonlinear", "QIF", "quadratic", "time_constant", {"self.crit_v": "crit_v", "self.affinity": "affinity"}),
                   ("nonlinear", "Izhikevich", "quadratic", "tc_membrane", {"self.crit_v": "crit_v", "self.affinity": "affinity"}),
                   ("nonlinear", "EIF", "exponential", "time_constant", {"self.rheobase_v": "rheobase_v", "self.sharpness": "sharpness"}),
                   ("nonlinear", "AdEx", "exponential", "tc_membrane", {"self.rheobase_v": "rheobase_v", "self.sharpness": "sharpness"}))},
            **{f"{cls}_threshold": {
                "file": f"inferno/neural/neurons/{fl}.py", "cls": cls, "method": "forward", "target": "(spikes, voltages, refracs)",
                "rename": {f"nf.voltage_thresholding_{th}": f"voltage_thresholding_{th}", "self.refrac": "refrac",
                           "self._integrate_v": "dynamics", "self.voltage": "voltage", "self.step_time": "step_time",
                           "self.refrac_t": "refrac_t", **ren},
                "params": {"inputs": R, "refrac": R, "dynamics": "fn", "voltage": R, "refrac_lock": B, "step_time": R, **par, "refrac_t": R}}
               for fl, cls, th, ren, par in (
                   ("linear", "LIF", "constant", {"self.reset_v": "reset_v", "self.thresh_v": "thresh_v"}, {"reset_v": R, "thresh_v": R}),
                   ("linear", "ALIF", "constant", {"self.reset_v": "reset_v", "self.thresh_eq_v": "thresh_eq_v",
                                                   "nf.apply_adaptive_thresholds": "apply_adaptive_thresholds",
                                                   "self.threshold_adaptation": "threshold_adaptation"},
                    {"reset_v": R, "thresh_eq_v": R, "threshold_adaptation": V}),
                   ("linear", "GLIF2", "linear", {"self.rest_v": "rest_v", "self.reset_v_mul": "reset_v_mul", "self.reset_v_add": "reset_v_add",
                                                  "self.thresh_eq_v": "thresh_eq_v", "nf.apply_adaptive_thresholds": "apply_adaptive_thresholds",
                                                  "self.threshold_adaptation": "threshold_adaptation"},
                    {"rest_v": R, "reset_v_mul": R, "reset_v_add": R, "thresh_eq_v": R, "threshold_adaptation": V}),
                   ("nonlinear", "QIF", "constant", {"self.reset_v": "reset_v", "self.thresh_v": "thresh_v"}, {"reset_v": R, "thresh_v": R}),
                   ("nonlinear", "Izhikevich", "constant", {"self.reset_v": "reset_v", "self.thresh_v": "thresh_v",
                                                            "nf.apply_adaptive_currents": "apply_adaptive_currents",
                                                            "self.current_adaptation": "current_adaptation"},
                    {"reset_v": R, "thresh_v": R, "current_adaptation": V}),
                   ("nonlinear", "EIF", "constant", {"self.reset_v": "reset_v", "self.thresh_v": "thresh_v"}, {"reset_v": R, "thresh_v": R}),
                   ("nonlinear", "AdEx", "constant", {"self.reset_v": "reset_v", "self.thresh_v": "thresh_v",
                                                      "nf.apply_adaptive_currents": "apply_adaptive_currents",
                                                      "self.current_adaptation": "current_adaptation"},
                    {"reset_v": R, "thresh_v": R, "current_adaptation": V}))},
            **{f"{cls}_adaptation": {
                "file": f"inferno/neural/neurons/{fl}.py", "cls": cls, "method": "forward", "target": "adaptations",
                "rename": {f"nf.{fn}": fn, "self.refrac": "refracs", "self.step_time": "step_time", "self.adapt_increment": "adapt_increment", **ren},
                "params": par}
               for fl, cls, fn, ren, par in (
                   ("linear", "ALIF", "adaptive_thresholds_linear_spike",
                    {"self.threshold_adaptation": "threshold_adaptation", "self.tc_adaptation": "tc_adaptation"},
                    {"threshold_adaptation": V, "spikes": B, "step_time": R, "tc_adaptation": V, "adapt_increment": V, "refracs": R, "refrac_lock": B}),
                   ("linear", "GLIF2", "adaptive_thresholds_linear_spike",
                    {"self.threshold_adaptation": "threshold_adaptation", "self.rc_adaptation": "rc_adaptation"},
                    {"threshold_adaptation": V, "spikes": B, "step_time": R, "rc_adaptation": V, "adapt_increment": V, "refracs": R, "refrac_lock": B}),
                   ("nonlinear", "Izhikevich", "adaptive_currents_linear",
                    {"self.current_adaptation": "current_adaptation", "self.rest_v": "rest_v", "self.tc_adaptation": "tc_adaptation",
                     "self.adapt_vc_coupling": "adapt_vc_coupling"},
                    {"current_adaptation": V, "voltages": R, "spikes": B, "step_time": R, "rest_v": R, "tc_adaptation": V,
                     "adapt_vc_coupling": V, "adapt_increment": V, "refracs": R, "refrac_lock": B}),
                   ("nonlinear", "AdEx", "adaptive_currents_linear",
                    {"self.current_adaptation": "current_adaptation", "self.rest_v": "rest_v", "self.tc_adaptation": "tc_adaptation",
                     "self.adapt_vc_coupling": "adapt_vc_coupling"},
                    {"current_adaptation": V, "voltages": R, "spikes": B, "step_time": R, "rest_v": R, "tc_adaptation": V,
                     "adapt_vc_coupling": V, "adapt_increment": V, "refracs": R, "refrac_lock": B}))},
        },
    },
    "ConvSites": {
        "sites": {
            "Conv2D_outsize": {
                "file": "inferno/neural/connections/conv.py", "cls": "Conv2D", "method": "__init__",
                "target": "(self.outheight, self.outwidth)", "peel": ["genelt"],
                "rename": {"self.padding[d]": "padding", "self.dilation[d]": "dilation", "self.kernel[d]": "kernel", "self.stride[d]": "stride"},
                "params": {"size": "zint", "padding": "zint", "dilation": "zint", "kernel": "zint", "stride": "zint"}},
        },
    },
    "SelectSites": {
        "sites": {
            nm: dict(d, file="inferno/core/infrastructure.py", cls="RecordTensor", method="select")
            for nm, d in (
                # tensor-valued `time`
                ("sel_t_out_of_range", {"target": "iftest", "startswith": "tmin < -tolerance",
                                        "params": {"tmin": R, "tmax": R, "tolerance": R, "dt": R, "recordsz": "zint"}}),
                ("sel_t_shift_raw", {"target": "shift", "nth": 0, "params": {"time": R, "dt": R}}),
                ("sel_t_shiftr", {"target": "shiftr", "params": {"shift": R}}),
                ("sel_t_shift", {"target": "shift", "nth": 1, "peel": [("arg", "rearrange", 0)],
                                 "params": {"dt": R, "shiftr": R, "time": R, "tolerance": R, "shift": R}}),
                ("sel_t_sample_at", {"target": "res", "nth": 0, "peel": [("arg", "interp", 2)], "params": {"dt": R, "shift": R}}),
                ("sel_t_exact_overwrite", {"target": "res", "nth": 1, "peel": [("arg", "rearrange", 0)],
                                           "params": {"prev_idx": R, "next_idx": R, "prev_data": R, "res": R}}),
                # scalar `time`
                ("sel_s_out_of_range", {"target": "iftest", "startswith": "time < -tolerance",
                                        "params": {"time": R, "tolerance": R, "dt": R, "recordsz": "zint"}}),
                ("sel_s_shift", {"target": "shift", "nth": 2, "params": {"time": R, "dt": R}}),
                ("sel_s_on_grid", {"target": "iftest", "startswith": "abs(dt * round(shift) - time)",
                                   "params": {"dt": R, "shift": R, "time": R, "tolerance": R}}),
                ("sel_s_sample_at", {"target": "return", "nth": 2, "peel": [("arg", "interp", 2), ("arg", "fullc", 1)],
                                     "params": {"dt": R, "shift": R}}),
            )
        },
    },
}
