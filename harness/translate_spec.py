"""What `translate.py` translates: per generated Lean module, the source file and, per function,
the kind of every parameter (by *name*, never by line number).

kinds: real | bool | vec (the trailing adaptation axis) | int | opt <kind> | fn (ℝ→ℝ) | fnb (ℝ→Bool)
"""
R, B, V = "real", "bool", "vec"

SPEC = {
    "NeuronDynamics": {
        "file": "inferno/neural/functional/neuron_dynamics.py",
        "functions": {
            "voltage_thresholding_constant": {"params": {
                "inputs": R, "refracs": R, "dynamics": "fn", "voltages": "opt real",
                "step_time": R, "reset_v": R, "thresh_v": R, "refrac_t": R}},
            "voltage_thresholding_linear": {"params": {
                "inputs": R, "refracs": R, "dynamics": "fn", "voltages": "opt real",
                "step_time": R, "rest_v": R, "v_slope": R, "v_intercept": R, "thresh_v": R, "refrac_t": R}},
            "voltage_integration_linear": {"params": {
                "masked_inputs": R, "voltages": R, "step_time": R, "time_constant": R, "rest_v": R, "resistance": R}},
            "voltage_integration_quadratic": {"params": {
                "masked_inputs": R, "voltages": R, "step_time": R, "rest_v": R, "crit_v": R, "affinity": R,
                "time_constant": R, "resistance": R}},
            "voltage_integration_exponential": {"params": {
                "masked_inputs": R, "voltages": R, "step_time": R, "rest_v": R, "rheobase_v": R, "sharpness": R,
                "time_constant": R, "resistance": R}},
        },
    },
    "NeuronAdaptation": {
        "file": "inferno/neural/functional/neuron_adaptation.py",
        "functions": {
            "adaptive_currents_linear": {"params": {
                "adaptations": V, "voltages": R, "spikes": B, "step_time": R, "rest_v": R, "time_constant": V,
                "voltage_coupling": V, "spike_increment": V, "refracs": "opt real"}},
            "adaptive_thresholds_linear_voltage": {"params": {
                "adaptations": V, "voltages": R, "step_time": R, "rest_v": R, "adapt_rate": V, "rebound_rate": V,
                "adapt_reset_min": "opt vec", "spikes": "opt bool", "refracs": "opt real"}},
            "adaptive_thresholds_linear_spike": {"params": {
                "adaptations": V, "spikes": B, "step_time": R, "time_constant": V, "spike_increment": V,
                "refracs": "opt real"}},
            "apply_adaptive_currents": {"params": {"current": R, "adaptations": V}},
            "apply_adaptive_thresholds": {"params": {"threshold": R, "adaptations": V}},
        },
    },
    "Trace": {
        "file": "inferno/core/trace.py",
        "functions": {
            "trace_nearest": {"params": {"observation": R, "trace": "opt real", "decay": R, "amplitude": R,
                                         "target": R, "tolerance": "opt real"}},
            "trace_cumulative": {"params": {"observation": R, "trace": "opt real", "decay": R, "amplitude": R,
                                            "target": R, "tolerance": "opt real"}},
            "trace_nearest_scaled": {"params": {"observation": R, "trace": "opt real", "decay": R, "amplitude": R,
                                                "scale": R, "matchfn": "fnb"}},
            "trace_cumulative_scaled": {"params": {"observation": R, "trace": "opt real", "decay": R, "amplitude": R,
                                                   "scale": R, "matchfn": "fnb"}},
            "trace_cumulative_value": {"params": {"observation": R, "trace": "opt real", "decay": R, "scale": R}},
            "exp_trace_nearest": {"params": {"observation": R, "trace": "opt real", "step_time": R, "time_constant": R,
                                             "amplitude": R, "target": R, "tolerance": "opt real"}},
            "exprate_trace_nearest": {"params": {"observation": R, "trace": "opt real", "step_time": R, "rate_constant": R,
                                                 "amplitude": R, "target": R, "tolerance": "opt real"}},
            "exp_trace_cumulative": {"params": {"observation": R, "trace": "opt real", "step_time": R, "time_constant": R,
                                                "amplitude": R, "target": R, "tolerance": "opt real"}},
            "exprate_trace_cumulative": {"params": {"observation": R, "trace": "opt real", "step_time": R, "rate_constant": R,
                                                    "amplitude": R, "target": R, "tolerance": "opt real"}},
        },
    },
    "StdKernels": {
        "file": "inferno/functional/stdkernels.py",
        "functions": {
            "exp_stdp_post_kernel": {"params": {"diff": R, "learning_rate": R, "time_constant": R}},
            "exp_stdp_pre_kernel": {"params": {"diff": R, "learning_rate": R, "time_constant": R}},
        },
    },
    "Interpolation": {
        "file": "inferno/functional/interpolation.py",
        "functions": {
            "interp_previous": {"params": {"prev_data": R, "next_data": R, "sample_at": R, "step_time": R}},
            "interp_next": {"params": {"prev_data": R, "next_data": R, "sample_at": R, "step_time": R}},
            "interp_nearest": {"params": {"prev_data": R, "next_data": R, "sample_at": R, "step_time": R}},
            "interp_linear": {"params": {"prev_data": R, "next_data": R, "sample_at": R, "step_time": R}},
            "interp_expdecay": {"params": {"prev_data": R, "next_data": R, "sample_at": R, "step_time": R, "time_constant": R}},
            "interp_expratedecay": {"params": {"prev_data": R, "next_data": R, "sample_at": R, "step_time": R, "rate_constant": R}},
        },
    },
    "Extrapolation": {
        "file": "inferno/functional/extrapolation.py",
        "functions": {
            "extrap_previous": {"params": {"sample": R, "sample_at": R, "prev_data": R, "next_data": R, "step_time": R}},
            "extrap_next": {"params": {"sample": R, "sample_at": R, "prev_data": R, "next_data": R, "step_time": R}},
            "extrap_neighbors": {"params": {"sample": R, "sample_at": R, "prev_data": R, "next_data": R, "step_time": R}},
            "extrap_nearest": {"params": {"sample": R, "sample_at": R, "prev_data": R, "next_data": R, "step_time": R}},
            "extrap_linear_forward": {"params": {"sample": R, "sample_at": R, "prev_data": R, "next_data": R, "step_time": R, "adjust": "opt fn"}},
            "extrap_linear_backward": {"params": {"sample": R, "sample_at": R, "prev_data": R, "next_data": R, "step_time": R, "adjust": "opt fn"}},
            "extrap_expdecay": {"params": {"sample": R, "sample_at": R, "prev_data": R, "next_data": R, "step_time": R, "time_constant": R}},
            "extrap_expratedecay": {"params": {"sample": R, "sample_at": R, "prev_data": R, "next_data": R, "step_time": R, "rate_constant": R}},
        },
    },
    "Smoothing": {
        "file": "inferno/core/math.py",
        "functions": {
            "exponential_smoothing": {"params": {"obs": R, "level": "opt real", "alpha": R}},
        },
    },
    "Bounding": {
        "file": "inferno/functional/bounding.py",
        "functions": {
            "bound_upper_power": {"params": {"param": R, "update": R, "limit": R, "power": R}},
            "bound_lower_power": {"params": {"param": R, "update": R, "limit": R, "power": R}},
            "bound_power": {"params": {"param": R, "pos": R, "neg": R, "max": "opt real", "min": "opt real",
                                       "upper_power": R, "lower_power": R}},
            "bound_upper_scaled_power": {"params": {"param": R, "update": R, "limit": R, "power": R, "range": R}},
            "bound_lower_scaled_power": {"params": {"param": R, "update": R, "limit": R, "power": R, "range": R}},
            "bound_upper_multiplicative": {"params": {"param": R, "update": R, "limit": R}},
            "bound_lower_multiplicative": {"params": {"param": R, "update": R, "limit": R}},
            "bound_multiplicative": {"params": {"param": R, "pos": R, "neg": R, "max": "opt real", "min": "opt real"}},
            "bound_upper_scaled_multiplicative": {"params": {"param": R, "update": R, "limit": R, "range": R}},
            "bound_lower_scaled_multiplicative": {"params": {"param": R, "update": R, "limit": R, "range": R}},
            "bound_upper_sharp": {"params": {"param": R, "update": R, "limit": R}},
            "bound_lower_sharp": {"params": {"param": R, "update": R, "limit": R}},
            "bound_sharp": {"params": {"param": R, "pos": R, "neg": R, "max": "opt real", "min": "opt real"}},
        },
    },
}
