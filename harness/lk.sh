#!/bin/bash
# serialised lake wrapper: harness/lk.sh build <targets…> | harness/lk.sh env lean <file>
mkdir -p /verif/.locks
cd /verif/lean
if [ "$1" = "build" ]; then
  exec flock /verif/.locks/lake.lock lake "$@"
else
  exec lake "$@"
fi
