"""Translator validation (DESIGN §3a): execute the GENERATED Float definitions (via
`drivers/Gen.lean`) and the Python functions they were generated from on the same random and
boundary inputs, and compare — bit-for-bit where no transcendental is involved, 1e-12
relative otherwise.  Run on every check that relies on generated definitions.
"""
from __future__ import annotations

import importlib
import struct

import torch

import translate_spec
from runner import Exploration, Finding

TRANSC = ("exp", "log", "pow", "**", "sqrt")


def hx(x: float) -> str:
    return struct.pack(">d", float(x)).hex()


def unhx(s: str) -> float:
    return struct.unpack(">d", bytes.fromhex(s))[0]


def dy(rng, lo=-64, hi=64, den=8):
    return rng.randint(lo * den, hi * den) / den


def gen_value(rng, kind, name, k):
    """returns (wire, python value)"""
    t64 = torch.float64
    pos_names = ("scale", "variance", "step_time", "time_constant", "rate_constant", "range", "sharpness", "decay", "dt", "tc", "tc_decay", "tc_rise")
    if kind == "real":
        if name in pos_names or name.endswith("_constant"):
            v = rng.choice([0.25, 0.5, 1.0, 2.0, 3.5, 10.0, 20.0])
        elif name in ("power", "upper_power", "lower_power"):
            v = rng.choice([1.0, 2.0, 0.5, 3.0, 1.5])
        elif name in ("observation", "target") and rng.random() < 0.7:
            v = rng.choice([0.0, 1.0])
        elif name == "sample_at":
            v = rng.choice([0.0, 0.25, 0.5, 0.75, 1.0, 1.5, 2.0])
        elif name == "refracs" and rng.random() < 0.5:
            v = rng.choice([0.0, 1.0, 0.5, 2.0])
        else:
            v = dy(rng) if rng.random() < 0.85 else rng.choice([0.0, 1.0, -1.0])
        return hx(v), torch.tensor(v, dtype=t64)
    if kind == "zint":
        if name in ("stride", "dilation", "kernel"):
            v = rng.randint(1, 4)
        elif name == "padding":
            v = rng.randint(0, 3)
        else:
            v = rng.randint(1, 9) if name in ("size", "recordsz") else rng.randint(-12, 20)
        return str(v), v
    if kind == "bool":
        b = rng.random() < 0.5
        return ("T" if b else "F"), torch.tensor(b)
    if kind == "vec":
        if name in pos_names or name.endswith("_constant"):
            vs = [rng.choice([0.5, 1.0, 2.0, 10.0, 20.0]) for _ in range(k)]
        else:
            vs = [dy(rng, -8, 8) for _ in range(k)]
        return (",".join(hx(v) for v in vs) if vs else "-"), torch.tensor(vs, dtype=t64)
    if kind == "fn":
        a, b = rng.choice([1.0, 0.5, 2.0, -1.0]), dy(rng)
        return f"aff:{hx(a)}:{hx(b)}", (lambda x, a=a, b=b: a * x + b)
    if kind == "fn2":
        a, b, c = rng.choice([1.0, 0.5, -1.0]), rng.choice([1.0, 2.0, -0.5]), dy(rng, -4, 4)
        return f"aff2:{hx(a)}:{hx(b)}:{hx(c)}", (lambda x, y, a=a, b=b, c=c: a * x + b * y + c)
    if kind == "fnb":
        c = dy(rng, -4, 4)
        if rng.random() < 0.5:
            return f"gt:{hx(c)}", (lambda x, c=c: x > c)
        return f"ge:{hx(c)}", (lambda x, c=c: x >= c)
    if kind.startswith("opt "):
        if rng.random() < 0.35:
            return "N", None
        return gen_value(rng, kind[4:], name, k)
    raise AssertionError(kind)


def show(v) -> str:
    if isinstance(v, tuple):
        return " ".join(show(x) for x in v)
    if isinstance(v, torch.Tensor):
        if v.dtype == torch.bool:
            assert v.numel() == 1
            return "T" if bool(v) else "F"
        if not v.dtype.is_floating_point and v.numel() == 1:
            return str(int(v))
        v = v.to(torch.float64)
        if v.ndim == 0 or v.numel() == 1 and v.ndim <= 1 and False:
            return hx(float(v))
        if v.ndim == 0:
            return hx(float(v))
        return ",".join(hx(float(x)) for x in v.reshape(-1)) if v.numel() else "-"
    if isinstance(v, bool):
        return "T" if v else "F"
    if isinstance(v, int):
        return str(v)
    return hx(float(v))


def close(a: str, b: str, exact: bool) -> bool:
    ta, tb = a.split(), b.split()
    if len(ta) != len(tb):
        return False
    for x, y in zip(ta, tb):
        if x == y:
            continue
        if x in ("T", "F") or y in ("T", "F"):
            return False
        if (len(x) != 16 or len(y) != 16) and "," not in x and "," not in y:      # machine integers: exact
            return False
        xs, ys = x.split(","), y.split(",")
        if len(xs) != len(ys):
            return False
        for p, q in zip(xs, ys):
            if p == q:
                continue
            fp, fq = unhx(p), unhx(q)
            if fp != fp and fq != fq:
                continue
            if fp == fq:        # +0.0 / -0.0
                continue
            if exact:
                return False
            if abs(fp - fq) > 1e-12 * max(1.0, abs(fp), abs(fq)):
                return False
    return True


def validate(ctx, mods: list[str], ex: Exploration, per_fn: int = 60) -> None:
    """adds translator-validation evaluations and findings (kind 'model', key translator:<fn>) to ex"""
    rng = ctx.rng
    lines, meta = [], []
    for m in mods:
        if m not in translate_spec.SPEC:      # e.g. "Routes" (Gen/Routes.lean): tied by glue theorems, no Python callable
            continue
        item = translate_spec.SPEC[m]
        import ast
        entries = []          # (name, callable, parameter order, kinds, source segment)
        if item.get("functions"):
            pymod = importlib.import_module(item["file"][:-3].replace("/", "."))
            src = (translate_spec_path(item["file"])).read_text()
            for fn, d in item["functions"].items():
                fdef = next(n for n in ast.parse(src).body if isinstance(n, ast.FunctionDef) and n.name == fn)
                order = [a.arg for a in fdef.args.posonlyargs + fdef.args.args + fdef.args.kwonlyargs]
                entries.append((fn, getattr(pymod, fn), order, d["params"], ast.get_source_segment(src, fdef) or ""))
        senv = {}
        for sn, site in item.get("sites", {}).items():
            # the site expression, compiled from /repo's current source, is the Python original
            import sites as sitemod
            try:
                fd, seg = sitemod.build(translate_spec_path(site["file"]).read_text(), sn, site, f"{site['file']}::{sn}")
            except sitemod.SiteError as e:
                # the site no longer has the shape the extraction was written for: the tie is broken (already reported by
                # the regeneration step); nothing to execute for this site
                ex.findings.append(Finding(kind="model", key=f"translator:{m}.{sn}",
                                           what=f"site extraction failed: {e}", case={"module": m, "site": sn}))
                continue
            # names the source module itself can see (imported helpers such as `trace_nearest`, `interp_linear`, `exp`)
            pyvars = vars(importlib.import_module(site["file"][:-3].replace("/", ".")))
            for k_, v_ in pyvars.items():
                senv.setdefault(k_, v_)
            for k_, v_ in site.get("rename", {}).items():       # `nf.voltage_thresholding_constant` -> the function it names
                if v_ not in site["params"]:
                    try:
                        senv.setdefault(v_, eval(k_, dict(pyvars)))  # noqa: S307 - an attribute path of /repo's own module
                    except Exception:  # noqa: BLE001
                        pass
            fnp = tuple(p for p, k in site["params"].items() if k in ("fn", "fn2", "fnb"))
            entries.append((sn, sitemod.compile_site(fd, senv, fnp), list(site["params"]), site["params"], seg))
        for fn, f, order, params, seg in entries:
            if any(p not in params for p in order):
                # the signature no longer matches the declared kinds: the translator has already refused this function
                ex.findings.append(Finding(kind="model", key=f"translator:{m}.{fn}",
                                           what=f"parameters {[p for p in order if p not in params]} of {fn} have no declared kind",
                                           case={"module": m, "function": fn}))
                continue
            exact = not any(t in seg for t in TRANSC) and not item.get("uses")   # callees in other modules may use exp
            for _ in range(per_fn):
                k = rng.randint(1, 3)
                wire, kwargs = [], {}
                for p in order:
                    w, v = gen_value(rng, params[p], p, k)
                    wire.append(w)
                    kwargs[p] = v
                try:
                    with torch.no_grad():
                        try:
                            r = f(**kwargs)
                        except TypeError:           # Python-scalar code (`round(shift)` on a float): pass 0-dim tensors as floats
                            r = f(**{k: (float(v) if isinstance(v, torch.Tensor) and v.ndim == 0 and v.dtype.is_floating_point else v)
                                     for k, v in kwargs.items()})
                        except AttributeError:      # tensor-only methods (`.long()`): pass integers as 0-dim tensors
                            r = f(**{k: (torch.tensor(v) if isinstance(v, int) and not isinstance(v, bool) and k != "pointer" and k != "size" else v)
                                     for k, v in kwargs.items()})
                    py = show(r)
                except Exception as e:  # the Python original rejects this input: skip (domain)
                    ex.count("translator_validation", "python-raised")
                    ex.count("translator_validation_raised", f"{fn}:{type(e).__name__}")
                    continue
                lines.append(f"{m} {fn} " + " ".join(wire))
                meta.append((m, fn, wire, py, exact))
    resp = ctx.run_driver("drivers/Gen.lean", lines)
    bad = {}
    for (m, fn, wire, py, exact), r in zip(meta, resp):
        ex.evaluations += 1
        ex.count("translator_validation", fn)
        if r == "bad-op" or not close(r, py, exact):
            bad.setdefault(fn, (m, wire, py, r))
    ex.extra["translator_functions_validated"] = len({(m, fn) for m, fn, *_ in meta})
    for fn, (m, wire, py, r) in bad.items():
        ex.findings.append(Finding(
            kind="model", key=f"translator:{m}.{fn}",
            what=f"generated Float definition of {fn} disagrees with the Python original",
            case={"module": m, "function": fn, "args": wire, "python": py, "lean": r}))


def translate_spec_path(rel):
    import translate
    return translate.REPO / rel
