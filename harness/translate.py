"""Python-AST → Lean 4 translator for inferno's formula-level functions (DESIGN §3a, Appendix B).

Every function listed in `translate_spec.SPEC` is parsed from /repo's *current* source with `ast`
and emitted twice from the same AST, with the same operation order:

* `lean/InfernoVerif/Gen/<Mod>R.lean` over ℝ (noncomputable, Mathlib) — the theorems are about these;
* `lean/InfernoVerif/Gen/<Mod>F.lean` over Lean `Float` (core only) — executed by the drivers and
  compared with the Python originals on every run (translator validation).

Tensors are translated as scalars (every translated function is element-wise); the one trailing
"adaptation" axis is typed as `List`.  Anything outside the supported sub-language raises
`TranslateError` naming the offending node: the run reports a broken tie, never a guess.
"""
from __future__ import annotations

import ast
import hashlib
import json
import os
from pathlib import Path

VERIF = Path(__file__).resolve().parent.parent
GEN = Path(os.environ.get("VERIF_LEAN_DIR", VERIF / "lean")) / "InfernoVerif" / "Gen"
REPO = Path(os.environ.get("VERIF_REPO", "/repo")).resolve()

RESERVED = {"max", "min", "range", "at", "from", "end", "open", "in", "fun", "then", "else", "if",
            "match", "with", "do", "let", "have", "show", "by", "where", "instance", "class",
            "structure", "def", "theorem", "variable", "universe", "namespace", "section", "λ"}


class TranslateError(Exception):
    def __init__(self, where: str, msg: str):
        super().__init__(f"{where}: {msg}")
        self.where = where


def lname(n: str) -> str:
    return n + "_" if n in RESERVED else n


# kinds: 'real' 'bool' 'vec' 'int' ; 'opt <k>' ; 'fn' (real→real) 'fnb' (real→bool) ; ('tuple', [kinds])
def is_opt(k):
    return isinstance(k, str) and k.startswith("opt ")


class Flavour:
    def __init__(self, name):
        self.name = name
        self.R = name == "R"
        self.real = "ℝ" if self.R else "Float"

    def ty(self, k):
        if isinstance(k, tuple):
            return " × ".join(self.ty(x) if not isinstance(x, tuple) else "(" + self.ty(x) + ")" for x in k[1])
        if is_opt(k):
            inner = self.ty(k[4:])
            return f"Option ({inner})" if " " in inner else f"Option {inner}"
        return {"real": self.real, "bool": "Prop" if self.R else "Bool", "vec": f"List {self.real}",
                "int": "ℕ" if self.R else "Nat", "zint": "ℤ" if self.R else "Int",
                "fn": f"{self.real} → {self.real}", "fn2": f"{self.real} → {self.real} → {self.real}", "fnb": f"{self.real} → " + ("Prop" if self.R else "Bool")}[k]

    def lit(self, v):
        if isinstance(v, bool):
            return ("True" if v else "False") if self.R else ("true" if v else "false")
        if isinstance(v, int):
            return f"({v} : {self.real})" if v >= 0 else f"(-{-v} : {self.real})"
        s = repr(float(v))
        if "e" in s or "inf" in s or "nan" in s:
            raise TranslateError("literal", f"unsupported float literal {s}")
        return f"({s} : {self.real})" if v >= 0 else f"(-{s[1:]} : {self.real})"

    def exp(self, x):
        return f"(Real.exp {x})" if self.R else f"(Float.exp {x})"

    def log(self, x):
        return f"(Real.log {x})" if self.R else f"(Float.log {x})"

    def sqrt(self, x):
        return f"(Real.sqrt {x})" if self.R else f"(Float.sqrt {x})"

    def abs(self, x):
        return f"|{x}|" if self.R else f"(Float.abs {x})"

    def max(self, a, b):
        return f"(max {a} {b})" if self.R else f"(Gen.fmax {a} {b})"

    def min(self, a, b):
        return f"(min {a} {b})" if self.R else f"(Gen.fmin {a} {b})"

    def powi(self, x, n):
        return f"({x} ^ ({n} : ℕ))" if self.R else f"(Gen.fpowi {x} {n})"

    def powr(self, x, y):
        return f"({x} ^ {y})" if self.R else f"(Float.pow {x} {y})"

    def cmp(self, op, a, b):
        sym = {"Eq": "=" if self.R else "==", "NotEq": "≠" if self.R else "!=", "Lt": "<", "LtE": "≤", "Gt": ">", "GtE": "≥"}[op]
        if self.R or op in ("Eq", "NotEq"):
            return f"({a} {sym} {b})"
        return f"(decide ({a} {sym} {b}))"

    def and_(self, a, b):
        return f"({a} ∧ {b})" if self.R else f"({a} && {b})"

    def or_(self, a, b):
        return f"({a} ∨ {b})" if self.R else f"({a} || {b})"

    def not_(self, a):
        return f"(¬ {a})" if self.R else f"(!{a})"

    def ite(self, c, a, b):
        return f"(if {c} then {a} else {b})"

    def vsum(self, v):
        return f"({v}).sum" if self.R else f"(Gen.fsum {v})"


class FnTx:
    """Translates one Python function definition."""

    def __init__(self, fl: Flavour, fdef: ast.FunctionDef, kinds: dict, table: dict, where: str):
        self.fl, self.fdef, self.table, self.loc = fl, fdef, table, where
        self.env = dict(kinds["params"])
        self.ret = kinds.get("ret", "real")

    def err(self, node, msg):
        raise TranslateError(f"{self.loc}:{getattr(node, 'lineno', '?')}", f"{msg}: {ast.dump(node)[:160]}")

    # ---- expressions -------------------------------------------------------------------------
    def bcast(self, op, a, ka, b, kb, node):
        """binary arithmetic with the trailing-axis broadcasting rules"""
        fl = self.fl

        def scal(x, y):
            return f"({x} {op} {y})"
        if ka == "vec" and kb == "vec":
            return f"(List.zipWith (fun a_ b_ => {scal('a_', 'b_')}) {a} {b})", "vec"
        if ka == "vec" and kb in ("real",):
            return f"(List.map (fun a_ => {scal('a_', b)}) {a})", "vec"
        if ka in ("real",) and kb == "vec":
            return f"(List.map (fun b_ => {scal(a, 'b_')}) {b})", "vec"
        if ka == "real" and kb == "real":
            return scal(a, b), "real"
        if op == "*" and ka == "bool" and kb == "real":
            return fl.ite(a, b, fl.lit(0)), "real"
        if op == "*" and ka == "real" and kb == "bool":
            return fl.ite(b, a, fl.lit(0)), "real"
        if op == "*" and ka == "vec" and kb == "bool":
            return fl.ite(b, a, f"(List.map (fun _ => {fl.lit(0)}) {a})"), "vec"
        if op == "*" and ka == "bool" and kb == "vec":
            return fl.ite(a, b, f"(List.map (fun _ => {fl.lit(0)}) {b})"), "vec"
        self.err(node, f"unsupported operand kinds {ka} {op} {kb}")

    def tx(self, n) -> tuple[str, object]:
        fl = self.fl
        if isinstance(n, ast.Constant):
            if n.value is None:
                return "none", "none"
            if isinstance(n.value, (bool,)):
                return fl.lit(n.value), "bool"
            if isinstance(n.value, (int, float)):
                return fl.lit(n.value), "real"
            self.err(n, "constant")
        if isinstance(n, ast.Name):
            if n.id not in self.env:
                self.err(n, f"unknown name {n.id}")
            return lname(n.id), self.env[n.id]
        if isinstance(n, ast.Attribute) and isinstance(n.value, ast.Name) and n.value.id == "math" and n.attr in ("tau", "pi"):
            if fl.R:
                return ("(2 * Real.pi)" if n.attr == "tau" else "Real.pi"), "real"
            return ("(6.283185307179586 : Float)" if n.attr == "tau" else "(3.141592653589793 : Float)"), "real"
        if isinstance(n, ast.Tuple):
            parts = [self.tx(e) for e in n.elts]
            return "(" + ", ".join(p[0] for p in parts) + ")", ("tuple", [p[1] for p in parts])
        if isinstance(n, ast.UnaryOp):
            a, k = self.tx(n.operand)
            if isinstance(n.op, ast.USub):
                if k == "vec":
                    return f"(List.map (fun a_ => -a_) {a})", "vec"
                return f"(-{a})", k
            if isinstance(n.op, (ast.Invert, ast.Not)) and k == "bool":
                return fl.not_(a), "bool"
            self.err(n, "unary op")
        if isinstance(n, ast.BinOp):
            a, ka = self.tx(n.left)
            if isinstance(n.op, ast.Pow):
                if isinstance(n.right, ast.Constant) and isinstance(n.right.value, int) and n.right.value >= 0:
                    if ka != "real":
                        self.err(n, "power of non-scalar")
                    return fl.powi(a, n.right.value), "real"
                b, kb = self.tx(n.right)
                if ka == "real" and kb == "real":
                    return fl.powr(a, b), "real"
                if ka == "real" and kb == "int":
                    return (f"({a} ^ {b})" if fl.R else f"(Gen.fpowi {a} {b})"), "real"
                self.err(n, "power kinds")
            b, kb = self.tx(n.right)
            # machine integers (`zint`: pointer / size arithmetic): + - * with Python's floor `%` and `//`
            if "zint" in (ka, kb) and "real" not in (
                    ka if not (isinstance(n.left, ast.Constant) and isinstance(n.left.value, int)) else "lit",
                    kb if not (isinstance(n.right, ast.Constant) and isinstance(n.right.value, int)) else "lit"):
                a, ka = self.as_zint(n.left, a, ka)
                b, kb = self.as_zint(n.right, b, kb)
                if ka == "zint" and kb == "zint":
                    zop = {ast.Add: "+", ast.Sub: "-", ast.Mult: "*"}.get(type(n.op))
                    if zop:
                        return f"({a} {zop} {b})", "zint"
                    if isinstance(n.op, ast.Mod):
                        return f"(Int.fmod {a} {b})", "zint"
                    if isinstance(n.op, ast.FloorDiv):
                        return f"(Int.fdiv {a} {b})", "zint"
                    if isinstance(n.op, ast.Div):          # Python true division of two ints is a float
                        if self.fl.R:
                            return f"((({a} : ℤ) : ℝ) / (({b} : ℤ) : ℝ))", "real"
                        return f"((Float.ofInt {a}) / (Float.ofInt {b}))", "real"
                self.err(n, f"integer arithmetic on kinds {ka}, {kb}")
            if {ka, kb} == {"real", "zint"} or (ka == "real" and kb == "real" and isinstance(n.op, ast.Mod)):
                cast = (lambda t: f"(({t} : ℤ) : ℝ)") if fl.R else (lambda t: f"(Float.ofInt {t})")
                if ka == "zint":
                    a, ka = cast(a), "real"
                if kb == "zint":
                    b, kb = cast(b), "real"
                if isinstance(n.op, ast.Mod):       # Python float `%` (sign of the divisor): a - b * floor(a / b)
                    fl_ = (f"((⌊{a} / {b}⌋ : ℤ) : ℝ)" if fl.R else f"(Float.floor ({a} / {b}))")
                    return f"({a} - ({b} * {fl_}))", "real"
            if isinstance(n.op, ast.FloorDiv) and ka == "real" and kb == "real":
                return (f"((⌊{a} / {b}⌋ : ℤ) : ℝ)" if fl.R else f"(Float.floor ({a} / {b}))"), "real"
            op = {ast.Add: "+", ast.Sub: "-", ast.Mult: "*", ast.Div: "/"}.get(type(n.op))
            if op is None:
                self.err(n, "binary operator")
            return self.bcast(op, a, ka, b, kb, n)
        if isinstance(n, ast.Compare):
            if len(n.ops) != 1:
                self.err(n, "chained comparison")
            a, ka = self.tx(n.left)
            b, kb = self.tx(n.comparators[0])
            opn = type(n.ops[0]).__name__
            # bool == 0  →  not b
            if ka == "bool" and isinstance(n.comparators[0], ast.Constant) and n.comparators[0].value == 0 and opn == "Eq":
                return fl.not_(a), "bool"
            if ka == "real" and kb == "real" and opn in ("Eq", "NotEq", "Lt", "LtE", "Gt", "GtE"):
                return fl.cmp(opn, a, b), "bool"
            if {ka, kb} == {"real", "zint"} and not any(isinstance(x, ast.Constant) for x in (n.left, n.comparators[0])):
                cast = (lambda t: f"(({t} : ℤ) : ℝ)") if fl.R else (lambda t: f"(Float.ofInt {t})")
                a, b = (cast(a) if ka == "zint" else a), (cast(b) if kb == "zint" else b)
                return fl.cmp(opn, a, b), "bool"
            if "zint" in (ka, kb):
                a, ka = self.as_zint(n.left, a, ka)
                b, kb = self.as_zint(n.comparators[0], b, kb)
                if ka == "zint" and kb == "zint":
                    return fl.cmp(opn, a, b), "bool"
            self.err(n, f"comparison kinds {ka} {kb}")
        if isinstance(n, ast.BoolOp):
            parts = [self.tx(v) for v in n.values]
            if any(k != "bool" for _, k in parts):
                self.err(n, "boolean operator on non-bool")
            f = fl.and_ if isinstance(n.op, ast.And) else fl.or_
            out = parts[0][0]
            for p, _ in parts[1:]:
                out = f(out, p)
            return out, "bool"
        if isinstance(n, ast.IfExp):
            # `f(x) if f else x` with f an optional function
            if isinstance(n.test, ast.Name) and is_opt(self.env.get(n.test.id, "")):
                nm, k = n.test.id, self.env[n.test.id][4:]
                saved = self.env[nm]
                self.env[nm] = k
                a, ka = self.tx(n.body)
                self.env[nm] = saved
                b, kb = self.tx(n.orelse)
                if ka != kb:
                    self.err(n, "if-expression kinds differ")
                return f"(match {lname(nm)} with | some {lname(nm)} => {a} | none => {b})", ka
            nt = self.none_tests(n.test)
            if nt is not None and len(nt[0]) + len(nt[1]) == 1:
                # `a if x is None else b` / `a if x is not None else b` with x an optional parameter
                nm = (nt[0] or nt[1])[0]
                k = self.env[nm][4:]
                saved = self.env[nm]
                some_node, none_node = (n.orelse, n.body) if nt[0] else (n.body, n.orelse)
                b, kb = self.tx(none_node)
                self.env[nm] = k
                a, ka = self.tx(some_node)
                self.env[nm] = saved
                if ka != kb:
                    self.err(n, "if-expression kinds differ")
                return f"(match {lname(nm)} with | some {lname(nm)} => {a} | none => {b})", ka
            c, kc = self.tx(n.test)
            a, ka = self.tx(n.body)
            b, kb = self.tx(n.orelse)
            if kc == "bool" and kb == "none" and isinstance(ka, str) and ka != "none" and not is_opt(ka):
                return fl.ite(c, f"(some {a})", "none"), "opt " + ka      # `x if flag else None`
            if kc == "bool" and ka == "none" and isinstance(kb, str) and kb != "none" and not is_opt(kb):
                return fl.ite(c, "none", f"(some {b})"), "opt " + kb
            if kc != "bool" or ka != kb:
                self.err(n, "if-expression")
            return fl.ite(c, a, b), ka
        if isinstance(n, ast.Call):
            return self.call(n)
        self.err(n, "expression")

    def as_zint(self, node, text, kind):
        """integer literals and booleans take part in integer arithmetic (`x + bool(flag)`, `max(x, 1)`)"""
        zt = "ℤ" if self.fl.R else "Int"
        if kind == "zint":
            return text, kind
        if isinstance(node, ast.Constant) and isinstance(node.value, int) and not isinstance(node.value, bool):
            v = node.value
            return (f"({v} : {zt})" if v >= 0 else f"(-{-v} : {zt})"), "zint"
        if kind == "bool":
            return f"(if {text} then (1 : {zt}) else (0 : {zt}))", "zint"
        return text, kind

    def where(self, cond, a, b, node):
        (c, kc), (x, kx), (y, ky) = cond, a, b
        if kc != "bool":
            self.err(node, "where condition is not boolean")
        if kx == ky:
            return self.fl.ite(c, x, y), kx
        if kx == "vec" and ky == "real":
            return self.fl.ite(c, x, f"(List.map (fun _ => {y}) {x})"), "vec"
        if kx == "real" and ky == "vec":
            return self.fl.ite(c, f"(List.map (fun _ => {x}) {y})", y), "vec"
        self.err(node, f"where kinds {kx} {ky}")

    def call(self, n: ast.Call):
        fl = self.fl
        f = n.func
        kw = {k.arg: k.value for k in n.keywords}
        # module-level functions:  exp(x) torch.exp(x) math.exp(x) torch.abs torch.where torch.logical_and …
        fname = None
        if isinstance(f, ast.Name):
            fname = f.id
        elif isinstance(f, ast.Attribute) and isinstance(f.value, ast.Name) and f.value.id in ("torch", "math"):
            fname = f.attr
        if fname is not None:
            if fname in self.env and self.env[fname] == "fn2":
                (a, ka), (b, kb) = self.tx(n.args[0]), self.tx(n.args[1])
                if ka != "real" or kb != "real":
                    self.err(n, "binary function parameter applied to non-scalars")
                return f"({lname(fname)} {a} {b})", "real"
            if fname == "xlogy" and len(n.args) == 2:      # torch.special.xlogy: 0 where x == 0, else x * log(y)
                (a, ka), (b, kb) = self.tx(n.args[0]), self.tx(n.args[1])
                if ka != "real" or kb != "real":
                    self.err(n, "xlogy of non-scalars")
                return fl.ite(fl.cmp("Eq", a, fl.lit(0)), fl.lit(0), f"({a} * {fl.log(b)})"), "real"
            if fname == "floor" and isinstance(f, ast.Attribute) and f.value.id == "torch" and len(n.args) == 1:
                a, ka = self.tx(n.args[0])             # torch.floor keeps the dtype: a real-valued floor
                if ka != "real":
                    self.err(n, "torch.floor of non-scalar")
                return (f"((⌊{a}⌋ : ℤ) : ℝ)" if fl.R else f"(Float.floor {a})"), "real"
            if fname in self.env and self.env[fname] in ("fn", "fnb"):
                a, ka = self.tx(n.args[0])
                if ka != "real":
                    self.err(n, "function parameter applied to non-scalar")
                return f"({lname(fname)} {a})", ("real" if self.env[fname] == "fn" else "bool")
            if fname in ("exp", "log", "sqrt", "abs"):
                a, ka = self.tx(n.args[0])
                g = getattr(fl, fname)
                if ka == "vec":
                    return f"(List.map (fun a_ => {g('a_')}) {a})", "vec"
                if ka != "real":
                    self.err(n, f"{fname} of {ka}")
                return g(a), "real"
            if fname == "round" and len(n.args) == 1 and isinstance(f, ast.Name):     # Python round(): half to even, an int
                a, ka = self.tx(n.args[0])
                if ka != "real":
                    self.err(n, f"round() of {ka}")
                return (f"(Gen.roundHalfEven {a})" if fl.R else f"(Gen.froundHE {a})"), "zint"
            if fname == "int" and len(n.args) == 1:
                a, ka = self.tx(n.args[0])
                if ka == "zint":
                    return a, "zint"
                if ka == "real":      # truncation toward zero
                    return ((f"(if {a} ≥ 0 then ⌊{a}⌋ else ⌈{a}⌉)" if fl.R else f"(Gen.ftrunc {a})"), "zint")
                self.err(n, f"int() of {ka}")
            if fname == "bool" and len(n.args) == 1:
                a, ka = self.tx(n.args[0])
                if ka == "bool":
                    return a, "bool"
                self.err(n, f"bool() of {ka}")
            if fname in ("ceil", "floor") and len(n.args) == 1:
                a, ka = self.tx(n.args[0])
                if ka != "real":
                    self.err(n, f"{fname} of {ka}")
                if fl.R:
                    return (f"⌈{a}⌉" if fname == "ceil" else f"⌊{a}⌋"), "zint"
                return f"(Gen.f{fname} {a})", "zint"
            if fname in ("max", "min") and len(n.args) == 2 and isinstance(f, ast.Name):
                (a, ka), (b, kb) = self.tx(n.args[0]), self.tx(n.args[1])
                if "zint" in (ka, kb):
                    a, ka = self.as_zint(n.args[0], a, ka)
                    b, kb = self.as_zint(n.args[1], b, kb)
                    if ka == "zint" and kb == "zint":
                        return f"({fname} {a} {b})", "zint"
                if ka == "real" and kb == "real":
                    return (fl.max(a, b) if fname == "max" else fl.min(a, b)), "real"
                self.err(n, f"{fname} of kinds {ka}, {kb}")
            if fname == "where":
                return self.where(self.tx(n.args[0]), self.tx(n.args[1]), self.tx(n.args[2]), n)
            if fname in ("logical_and", "logical_or"):
                (a, ka), (b, kb) = self.tx(n.args[0]), self.tx(n.args[1])
                if ka != "bool" or kb != "bool":
                    self.err(n, "logical op on non-bool")
                return (fl.and_ if fname == "logical_and" else fl.or_)(a, b), "bool"
            if fname == "logical_not":
                a, ka = self.tx(n.args[0])
                return fl.not_(a), "bool"
            if fname == "sum":
                a, ka = self.tx(n.args[0])
                if ka != "vec":
                    self.err(n, "sum of non-vector")
                return fl.vsum(a), "real"
            if fname == "heaviside":
                (a, ka), (b, kb) = self.tx(n.args[0]), self.tx(n.args[1])
                return fl.ite(fl.cmp("Gt", a, fl.lit(0)), fl.lit(1), fl.ite(fl.cmp("Eq", a, fl.lit(0)), b, fl.lit(0))), "real"
            if fname == "zeros":
                return fl.lit(0), "real"
            if fname in self.table:
                return self.sibling(fname, n)
            self.err(n, f"unknown function {fname}")
        # methods on expressions
        if isinstance(f, ast.Attribute):
            obj, ko = self.tx(f.value)
            m = f.attr
            if m.endswith("_") and m[:-1] in ("clamp", "clamp_min", "clamp_max", "abs", "exp"):
                m = m[:-1]            # in-place variants compute the same value
            if m == "where":
                return self.where(self.tx(n.args[0]), (obj, ko), self.tx(n.args[1]), n)
            if m == "clamp":
                out = obj
                lo = kw.get("min", n.args[0] if len(n.args) > 0 else None)
                hi = kw.get("max", n.args[1] if len(n.args) > 1 else None)
                if ko != "real":
                    self.err(n, "clamp of non-scalar")
                if lo is not None and not (isinstance(lo, ast.Constant) and lo.value is None):
                    out = fl.max(out, self.tx(lo)[0])
                if hi is not None and not (isinstance(hi, ast.Constant) and hi.value is None):
                    out = fl.min(out, self.tx(hi)[0])
                return out, "real"
            if m in ("clamp_min", "clamp_max"):
                b, kb = self.tx(n.args[0])
                g = fl.max if m == "clamp_min" else fl.min
                if ko == "vec" and kb == "vec":
                    return f"(List.zipWith (fun a_ b_ => {g('a_', 'b_')}) {obj} {b})", "vec"
                if ko == "vec":
                    return f"(List.map (fun a_ => {g('a_', b)}) {obj})", "vec"
                return g(obj, b), "real"
            if m == "abs":
                return (fl.abs(obj), "real") if ko == "real" else self.err(n, "abs of non-scalar")
            if m == "exp":
                return fl.exp(obj), "real"
            if m == "unsqueeze":
                return obj, ko          # the trailing adaptation axis: scalars broadcast against `vec`
            if m == "to":
                if ko == "bool":
                    return fl.ite(obj, fl.lit(1), fl.lit(0)), "real"
                return obj, ko
            if m == "round" and not n.args and ko == "real":                       # torch.round: half to even, keeps the dtype
                return (f"((Gen.roundHalfEven {obj} : ℤ) : ℝ)" if fl.R else f"(Float.ofInt (Gen.froundHE {obj}))"), "real"
            if m == "long" and not n.args:
                if ko == "zint":
                    return obj, "zint"
                if ko == "real":
                    return ((f"(if {obj} ≥ 0 then ⌊{obj}⌋ else ⌈{obj}⌉)" if fl.R else f"(Gen.ftrunc {obj})"), "zint")
                self.err(n, f"long() of {ko}")
            if m in ("float", "double"):
                if ko == "bool":
                    return fl.ite(obj, fl.lit(1), fl.lit(0)), "real"
                return obj, ko
            self.err(n, f"unknown method {m}")
        self.err(n, "call")

    def sibling(self, fname, n: ast.Call):
        callee = self.table[fname]
        order = callee["order"]
        kinds = callee["kinds"]["params"]
        bound = {}
        for name, arg in zip(order, n.args):
            bound[name] = arg
        for k in n.keywords:
            if k.arg is None:
                continue
            bound[k.arg] = k.value
        args = []
        for name in order:
            if name not in bound:
                if kinds[name] in ("fn", "fn2", "fnb") and self.env.get(name) == kinds[name]:
                    args.append(lname(name))          # opaque primitive (erf, lgamma, …) threaded through to the callee
                    continue
                if is_opt(kinds[name]):
                    args.append("none")
                    continue
                self.err(n, f"argument {name} of {fname} not supplied")
            a, ka = self.tx(bound[name])
            want = kinds[name]
            if is_opt(want) and ka == want[4:]:
                a = f"(some {a})"
            elif is_opt(want) and ka == "none":
                a = "none"
            elif ka != want:
                self.err(n, f"argument {name} of {fname}: kind {ka}, expected {want}")
            args.append(a)
        head = fname
        if callee.get("mod"):           # a definition of ANOTHER generated module (e.g. a reducer calling `trace_nearest`)
            head = f"{callee['mod']}{self.fl.name}.{fname}"
            self.table.setdefault("__used_externals__", set()).add(callee["mod"])
        return "(" + " ".join([head] + args) + ")", callee["kinds"].get("ret", "real")

    # ---- statements --------------------------------------------------------------------------
    def none_tests(self, test):
        """returns ([names tested `is None`], [names tested `is not None`]) for a pure None-test condition, else None"""
        def one(t):
            if (isinstance(t, ast.Compare) and len(t.ops) == 1 and isinstance(t.left, ast.Name)
                    and isinstance(t.comparators[0], ast.Constant) and t.comparators[0].value is None
                    and is_opt(self.env.get(t.left.id, ""))):
                return (t.left.id, isinstance(t.ops[0], ast.Is))
            return None
        if isinstance(test, ast.BoolOp) and isinstance(test.op, ast.And):
            parts = [one(v) for v in test.values]
            if all(parts) and all(not p[1] for p in parts):
                return ([], [p[0] for p in parts])
            return None
        p = one(test)
        if p:
            return ([p[0]], []) if p[1] else ([], [p[0]])
        return None

    def assigned(self, stmts):
        out = []
        for s in stmts:
            if isinstance(s, ast.Assign):
                for t in s.targets:
                    if isinstance(t, ast.Name) and t.id not in out:
                        out.append(t.id)
            elif isinstance(s, ast.If):
                for x in self.assigned(s.body) + self.assigned(s.orelse):
                    if x not in out:
                        out.append(x)
            elif isinstance(s, ast.With):
                for x in self.assigned(s.body):
                    if x not in out:
                        out.append(x)
        return out

    def returns(self, stmts):
        return bool(stmts) and (isinstance(stmts[-1], ast.Return)
                                or (isinstance(stmts[-1], ast.If) and self.returns(stmts[-1].body) and self.returns(stmts[-1].orelse))
                                or (isinstance(stmts[-1], ast.With) and self.returns(stmts[-1].body)))

    def block(self, stmts, tail, ind):
        """translate statements; `tail` = None (must return) or list of names whose tuple ends the block"""
        pad = "  " * ind
        if not stmts:
            if tail is None:
                raise TranslateError(self.loc, "block does not return")
            vals = [lname(v) for v in tail]
            return pad + (vals[0] if len(vals) == 1 else "(" + ", ".join(vals) + ")")
        s, rest = stmts[0], stmts[1:]
        if isinstance(s, ast.Expr) and isinstance(s.value, ast.Constant) and isinstance(s.value.value, str):
            return self.block(rest, tail, ind)
        if isinstance(s, ast.With):
            return self.block(list(s.body) + rest, tail, ind)
        if isinstance(s, ast.Return):
            t, k = self.tx(s.value)
            self.retkind = k
            return pad + t
        if isinstance(s, ast.Assign):
            if len(s.targets) != 1 or not isinstance(s.targets[0], ast.Name):
                self.err(s, "assignment target")
            t, k = self.tx(s.value)
            nm = s.targets[0].id
            self.env[nm] = k
            ann = " : Prop" if (self.fl.R and k == "bool") else ""
            return f"{pad}let {lname(nm)}{ann} := {t}\n" + self.block(rest, tail, ind)
        if isinstance(s, ast.If):
            both_return = self.returns(s.body) and (self.returns(s.orelse) or (not s.orelse and self.returns(rest)))
            if both_return:
                orelse = s.orelse if s.orelse else rest
                return self.cond(s.test, s.body, orelse, None, ind, s)
            vs = self.assigned(s.body) + [v for v in self.assigned(s.orelse) if v not in self.assigned(s.body)]
            vs = [v for v in vs]
            for v in vs:
                if v not in self.env and not (v in self.assigned(s.body) and v in self.assigned(s.orelse)):
                    self.err(s, f"conditionally defined name {v}")
            env0 = dict(self.env)
            txt = self.cond(s.test, s.body, s.orelse, vs, ind + 1, s)
            # kinds after the join: opt kinds become their base when assigned in both branches
            for v in vs:
                k = self.env.get(v)
                if is_opt(env0.get(v, "")) and k == env0[v]:
                    pass
            pat = lname(vs[0]) if len(vs) == 1 else "(" + ", ".join(lname(v) for v in vs) + ")"
            return f"{pad}let {pat} :=\n{txt}\n" + self.block(rest, tail, ind)
        self.err(s, "statement")

    def cond(self, test, body, orelse, tail, ind, node):
        pad = "  " * ind
        nt = self.none_tests(test)
        if nt is not None:
            is_none, not_none = nt
            names = is_none + not_none
            env0 = dict(self.env)
            # branch where all tested names are `some`
            for nm in names:
                self.env[nm] = env0[nm][4:]
            some_branch = self.block(body if not_none else orelse, tail, ind + 2)
            env_some = dict(self.env)
            self.env = dict(env0)
            none_branch = self.block(orelse if not_none else body, tail, ind + 2)
            env_none = dict(self.env)
            # join kinds
            self.env = dict(env0)
            for v in (tail or []):
                ks, kn = env_some.get(v), env_none.get(v)
                if ks != kn:
                    self.err(node, f"kinds of {v} differ across branches: {ks} vs {kn}")
                self.env[v] = ks
            scrut = ", ".join(lname(nm) for nm in names)
            somes = ", ".join(f"some {lname(nm)}" for nm in names)
            wild = ", ".join("_" for _ in names)
            return (f"{pad}match {scrut} with\n{pad}| {somes} =>\n{some_branch}\n{pad}| {wild} =>\n{none_branch}")
        c, kc = self.tx(test)
        if kc != "bool":
            self.err(node, "if condition is not boolean")
        env0 = dict(self.env)
        a = self.block(body, tail, ind + 1)
        env_a = dict(self.env)
        self.env = dict(env0)
        b = self.block(orelse, tail, ind + 1)
        env_b = dict(self.env)
        self.env = dict(env0)
        for v in (tail or []):
            if env_a.get(v) != env_b.get(v):
                self.err(node, f"kinds of {v} differ across branches")
            self.env[v] = env_a[v]
        return f"{pad}if {c} then\n{a}\n{pad}else\n{b}"

    def emit(self) -> tuple[str, str]:
        fl = self.fl
        order = [a.arg for a in self.fdef.args.posonlyargs + self.fdef.args.args + self.fdef.args.kwonlyargs]
        kinds = self.env
        missing = [p for p in order if p not in kinds]
        if missing:
            raise TranslateError(self.loc, f"no kind declared for parameters {missing}")
        self.retkind = None
        body = self.block(list(self.fdef.body), None, 1)
        params = " ".join(f"({lname(p)} : {fl.ty(kinds_p)})" for p, kinds_p in ((p, self.table[self.fdef.name]['kinds']['params'][p]) for p in order))
        ret = fl.ty(self.retkind if self.retkind is not None else self.ret)
        head = ("noncomputable def" if fl.R else "def")
        return f"{head} {self.fdef.name} {params} : {ret} :=\n{body}\n", self.retkind


HEADER_R = """import Mathlib.Analysis.SpecialFunctions.Pow.Real
import Mathlib.Analysis.SpecialFunctions.Exp
/-! GENERATED by harness/translate.py from {src} — do not edit.  Flavour ℝ (theorems). -/
set_option linter.unusedVariables false
open Classical
namespace InfernoVerif.Gen.{mod}R
"""
HEADER_F = """import InfernoVerif.Gen.Prelude
/-! GENERATED by harness/translate.py from {src} — do not edit.  Flavour Float (executed). -/
set_option linter.unusedVariables false
namespace InfernoVerif.Gen.{mod}F
open InfernoVerif
"""


EXTERNAL: dict = {}      # function name -> {"mod", "order", "kinds"} of the modules generated so far (in SPEC order)


def translate_module(mod: str, item: dict) -> dict:
    """one generated module = module-level functions of ONE file (`file`, `functions`) and / or *sites*
    (`sites`: expressions inside methods, each with its own `file`; see harness/sites.py)"""
    import sites as sitemod
    fdefs, table, segs, srcfile = {}, {}, {}, {}
    for ext in item.get("uses", []):
        for fn, d in EXTERNAL.items():
            if d["mod"] == ext:
                table[fn] = {"order": d["order"], "kinds": d["kinds"], "mod": ext}
    names = []
    if item.get("functions"):
        src_path = REPO / item["file"]
        src = src_path.read_text()
        tree = ast.parse(src)
        top = {n.name: n for n in tree.body if isinstance(n, ast.FunctionDef)}
        for fn, kinds in item["functions"].items():
            if fn not in top:
                raise TranslateError(f"{item['file']}::{fn}", "function not found in source")
            fdefs[fn] = top[fn]
            segs[fn] = ast.get_source_segment(src, top[fn]) or ""
            srcfile[fn] = item["file"]
            table[fn] = {"order": [a.arg for a in top[fn].args.posonlyargs + top[fn].args.args + top[fn].args.kwonlyargs],
                         "kinds": kinds}
            names.append(fn)
    for sn, site in item.get("sites", {}).items():
        where = f"{site['file']}::{site.get('cls') or ''}.{site['method']}::{site['target']}"
        try:
            fd, seg = sitemod.build((REPO / site["file"]).read_text(), sn, site, where)
        except sitemod.SiteError as e:
            raise TranslateError(e.where, str(e)) from e
        fdefs[sn] = fd
        segs[sn] = seg
        srcfile[sn] = site["file"]
        table[sn] = {"order": list(site["params"]), "kinds": {"params": site["params"]}}
        names.append(sn)
    allkinds = {fn: (item["functions"][fn] if fn in item.get("functions", {}) else {"params": item["sites"][fn]["params"]})
                for fn in names}
    info = {}
    outs = {}
    srcdesc = item.get("file") or "several files (sites)"
    for flv in ("R", "F"):
        fl = Flavour(flv)
        text = (HEADER_R if flv == "R" else HEADER_F).format(src=srcdesc, mod=mod)
        for fn in names:
            where = f"{srcfile[fn]}::{fn}"
            tx = FnTx(fl, fdefs[fn], allkinds[fn], table, where)
            seg = segs[fn]
            d, rk = tx.emit()
            table[fn]["kinds"] = dict(allkinds[fn], ret=rk)
            sha = hashlib.sha256(seg.encode()).hexdigest()[:16]
            if fn in item.get("sites", {}):
                st = item["sites"][fn]
                origin = (f"site `{st.get('cls') or ''}.{st['method']}" + (f" / {st['nested']}" if st.get("nested") else "")
                          + f"` :: `{st['target']}`" + (f" #{st['nth']}" if st.get("nth") else ""))
                text += f"\n/-- from `{srcfile[fn]}` :: {origin} (sha256 of source segment {sha}) -/\n" + d
            else:
                text += f"\n/-- from `{srcfile[fn]}` :: `{fn}` (sha256 of source segment {sha}) -/\n" + d
            info[fn] = {"source_sha": sha, "ret": rk, "order": table[fn]["order"], "params": allkinds[fn]["params"],
                        "site": fn in item.get("sites", {})}
        text += f"\nend InfernoVerif.Gen.{mod}{flv}\n"
        for ext in sorted(table.get("__used_externals__", ())):
            text = f"import InfernoVerif.Gen.{ext}{flv}\n" + text
        if flv == "R" and ("⌈" in text or "⌊" in text):
            text = "import Mathlib.Algebra.Order.Floor.Ring\n" + text
        if flv == "R" and "Gen.roundHalfEven" in text:
            text = "import InfernoVerif.Gen.PreludeR\n" + text
        if flv == "R" and "Real.pi" in text:
            text = "import Mathlib.Analysis.SpecialFunctions.Trigonometric.Basic\n" + text
        outs[flv] = text
    for fn in names:
        EXTERNAL[fn] = {"mod": mod, "order": table[fn]["order"], "kinds": table[fn]["kinds"]}
    changed = False
    GEN.mkdir(parents=True, exist_ok=True)
    for flv, text in outs.items():
        p = GEN / f"{mod}{flv}.lean"
        if not p.exists() or p.read_text() != text:
            p.write_text(text)
            changed = True
    return {"functions": info, "rewritten": changed}


PARSE = {"fn2": "pFn2", "zint": "pInt", "real": "pReal", "bool": "pBool", "vec": "pVec", "fn": "pFn", "fnb": "pFnb",
         "opt real": "pOptReal", "opt bool": "pOptBool", "opt vec": "pOptVec", "opt fn": "pOptFn"}
SHOW = {"zint": "sInt", "real": "sReal", "bool": "sBool", "vec": "sVec"}


def emit_dispatch(all_info: dict) -> None:
    """`Gen/Dispatch.lean`: string-keyed entry points to every generated Float definition, used by
    `drivers/Gen.lean` for the per-run translator validation."""
    text = "".join(f"import InfernoVerif.Gen.{m}F\n" for m in all_info)
    text += "/-! GENERATED by harness/translate.py — do not edit. -/\nnamespace InfernoVerif.Gen\nopen InfernoVerif.Gen.Wire\n\n"
    text += "def dispatch (mod fn : String) (args : List String) : Option String :=\n  match mod, fn, args with\n"
    for m, info in all_info.items():
        for fn, d in info["functions"].items():
            names = [f"a{i}" for i in range(len(d["order"]))]
            text += f'  | "{m}", "{fn}", [{", ".join(names)}] => do\n'
            for nm, p in zip(names, d["order"]):
                text += f"      let {nm}v ← {PARSE[d['params'][p]]} {nm}\n"
            call = f"{m}F.{fn} " + " ".join(nm + "v" for nm in names)
            rk = d["ret"]
            if isinstance(rk, tuple):
                ks = rk[1]
                acc = []
                for i, k in enumerate(ks):
                    proj = "r" + ".2" * i + (".1" if i < len(ks) - 1 else "")
                    acc.append(f"{SHOW[k]} ({proj})")
                text += f"      let r := {call}\n      some (" + ' ++ " " ++ '.join(acc) + ")\n"
            else:
                text += f"      some ({SHOW[rk]} ({call}))\n"
    text += "  | _, _, _ => none\n\nend InfernoVerif.Gen\n"
    p = GEN / "Dispatch.lean"
    if not p.exists() or p.read_text() != text:
        p.write_text(text)


def regenerate_routes() -> dict:
    """`Gen/Routes.lean`: routing tables / clamp splits extracted from the trainers' `forward` methods"""
    import sites
    try:
        text, info = sites.extract_routes(REPO)
    except sites.SiteError as e:
        raise TranslateError(e.where, str(e)) from e
    p = GEN / "Routes.lean"
    changed = not p.exists() or p.read_text() != text
    if changed:
        p.write_text(text)
    return {"defs": info, "rewritten": changed}


# generated module name -> harness module with a `regenerate()` (statement-level translators); dependencies between them
PROG_MODULES = {"RingProg": "progtx", "RecordProg": "progtx_record", "HookProg": "progtx_hooks", "UpdaterProg": "progtx_updater", "ReducerProg": "progtx_reducer", "LayerProg": "progtx_layer",
                "EncoderProg": "progtx_encoder", "SelectProg": "progtx_select", "ConfigProg": "progtx_config", "ConnProg": "progtx_conn",
                "NeuronProg": "progtx_neuron", "MathProg": "progtx_math", "DelaySTDPProg": "progtx_delaystdp",
                "SynapseProg": "progtx_synapse", "LifecycleProg": "progtx_lifecycle", "STDPProg": "progtx_stdp", "PersistProg": "progtx_persist",
                "MonitorProg": "progtx_monitor", "NHookProg": "progtx_nhooks", "EncClsProg": "progtx_enccls"}
PROG_USES = {"RecordProg": ["RingProg"], "SelectProg": ["RingProg"], "ConfigProg": ["RecordProg", "RingProg"],
             "NeuronProg": ["NeuronDynamics", "NeuronAdaptation"], "PersistProg": [], "MonitorProg": ["HookProg"], "EncClsProg": ["EncoderProg"]}


def regenerate(mods: list[str] | None = None) -> dict:
    """Regenerates ALL modules of translate_spec (the dispatcher imports every one); returns the
    info of the requested ones.  A module that cannot be translated breaks the tie only of the checks
    that REQUEST it (directly or through `uses`): its error is raised when it is among `mods`; otherwise
    its previous text stays in place and the other modules are regenerated as usual."""
    import translate_spec
    out, failed = {}, {}
    for m in translate_spec.SPEC:
        try:
            out[m] = translate_module(m, translate_spec.SPEC[m])
        except TranslateError as e:
            failed[m] = e
    emit_dispatch(out)
    man = {m: {f: d["source_sha"] for f, d in o["functions"].items()} for m, o in out.items()}
    routes = None
    try:
        routes = regenerate_routes()
        man["Routes"] = {k: v["sha"] for k, v in routes["defs"].items()}
    except TranslateError as e:
        failed["Routes"] = e
    progs = {}
    for pname, pmod in PROG_MODULES.items():      # whole method bodies (statement-level translator, progtx*.py)
        try:
            progs[pname] = __import__(pmod).regenerate()
            man[pname] = progs[pname]["functions"]
        except TranslateError as e:
            failed[pname] = e
    (GEN / "MANIFEST.json").write_text(json.dumps(man, indent=1))
    wanted = list(mods) if mods else list(translate_spec.SPEC) + ["Routes"] + list(PROG_MODULES)
    k = 0
    while k < len(wanted):                     # closure under `uses`
        for u in translate_spec.SPEC.get(wanted[k], {}).get("uses", []) + PROG_USES.get(wanted[k], []):
            if u not in wanted:
                wanted.append(u)
        k += 1
    for m in wanted:
        if m in failed:
            raise failed[m]
    extra = {}
    if mods and "Routes" in mods:
        extra["Routes"] = {"functions": man["Routes"], "rewritten": routes["rewritten"]}
    for pname in PROG_MODULES:
        if mods and pname in mods:
            extra[pname] = progs[pname]
    sel = [m for m in (mods or out) if m != "Routes" and m not in PROG_MODULES]
    return extra | {m: {"functions": {f: d["source_sha"] for f, d in out[m]["functions"].items()}, "rewritten": out[m]["rewritten"]}
                    for m in sel}


if __name__ == "__main__":
    import sys
    import translate_spec
    mods = sys.argv[1:] or list(translate_spec.SPEC)
    print(json.dumps(regenerate(mods), indent=1))
