"""Statement-level translator, reducer classes (DESIGN §12.5, property C07): the state machine of
`inferno/observe/reducers/base.py` — `RecordReducer.__init__` / `add_record` / `dt`, `duration`, `inplace` (getters
and setters) and `FoldReducer.__init__` / `clear` / `view` / `dump` / `peek` / `push` / `forward` — → Lean programs
over the private state `FR` (`Gen/ReducerPrelude.lean`), regenerated on every run as `Gen/ReducerProg.lean`
(core Lean only).

What is kept from the source, statement by statement and in SOURCE ORDER: the `_initial` tests, which method of the
record `data_` is called with which arguments (`reset(self.__fill)` / `deinitialize(False)` of `clear`;
`select(time, self.interpolate, tolerance=tolerance)` of `view`; `align(0)` then `value.flip(0)` of `dump`; `peek()`;
`push(inputs, inplace=self.inplace)`), the two branches of `forward` (`push(fold(*inputs, peek()))`; first observation:
`fold(*inputs, None)`, `data_.ignored` → `initialize(res.shape, fill=self.__fill)` else `reset(self.__fill)`, `push(res)`,
`_initial = False`) with Python's evaluation order (arguments before the call, state threaded through every call),
the argument validation of the setters with its exception class, the `value != self.__step_time` test, the loop over
`self.__records`, the registration statements of the two constructors and the checks of `add_record`.

Not re-translated (ONE prelude primitive each): the methods / properties of the `RecordTensor` `data_` (their
parameter order and DEFAULTS are read from `inferno/core/infrastructure.py`, e.g. `offset=1` of `select`), and the
abstract callbacks `fold` / `interpolate` (fields of `PyEnv.K`).  `**kwargs` that a method only accepts are dropped
(a body that reads them is refused); `Reducer.__init__(self)` is accepted only while it is `Module.__init__(self)`.

Two classes are translated, so this module has its own `regenerate()` (same return shape as
`progtx.regenerate_class`); `self.<name>` is resolved along the base classes defined in the source file
(`FoldReducer → RecordReducer → Reducer`).  Exceptions keep Python's semantics: the programs live in
`Except (Err × FR α) _`.  `Props/C07GlueProg.lean` proves the generated programs equal to `Reducer.step`
(`Model/Reducer.lean`).  Anything outside this sub-language raises `TranslateError` naming the node.
"""
from __future__ import annotations

import ast
import hashlib
import json

import progtx
from progtx import Tx
from translate import GEN, REPO, TranslateError, lname

SRC = "inferno/observe/reducers/base.py"
INFRA = "inferno/core/infrastructure.py"

# kinds: bool unit float val optval hist opthist time inputs shape str strs rec interp int none
LEAN_TY = {"bool": "Bool", "unit": "Unit", "float": "α", "val": "α", "optval": "Option α", "hist": "List α",
           "opthist": "Option (List α)", "time": "Time α", "inputs": "ω", "strs": "List String", "str": "String",
           "fill": "α"}

# functions, in emission order (callees first).  key = name of the generated definition; `decorator` picks a property
# getter / setter; `vararg` = (name, kind) of a translated `*name` parameter; `kwarg` = name of a `**name` parameter
# the body must not read
METHODS = {
    "RecordReducer___init__": {"cls": "RecordReducer", "py": "__init__",
                               "params": {"step_time": "float", "duration": "float", "inclusive": "bool", "inplace": "bool"},
                               "ret": "unit"},
    "RecordReducer_add_record": {"cls": "RecordReducer", "py": "add_record", "params": {}, "vararg": ("attr", "strs"),
                                 "ret": "unit"},
    "RecordReducer_dt": {"cls": "RecordReducer", "py": "dt", "decorator": "property", "params": {}, "ret": "float"},
    "RecordReducer_dt_setter": {"cls": "RecordReducer", "py": "dt", "decorator": "dt.setter",
                                "params": {"value": "float"}, "ret": "unit"},
    "RecordReducer_duration": {"cls": "RecordReducer", "py": "duration", "decorator": "property", "params": {},
                               "ret": "float"},
    "RecordReducer_duration_setter": {"cls": "RecordReducer", "py": "duration", "decorator": "duration.setter",
                                      "params": {"value": "float"}, "ret": "unit"},
    "RecordReducer_inplace": {"cls": "RecordReducer", "py": "inplace", "decorator": "property", "params": {},
                              "ret": "bool"},
    "RecordReducer_inplace_setter": {"cls": "RecordReducer", "py": "inplace", "decorator": "inplace.setter",
                                     "params": {"value": "bool"}, "ret": "unit"},
    "FoldReducer___init__": {"cls": "FoldReducer", "py": "__init__",
                             "params": {"step_time": "float", "duration": "float", "inclusive": "bool", "inplace": "bool",
                                        "fill": "fill"}, "ret": "unit"},
    "FoldReducer_clear": {"cls": "FoldReducer", "py": "clear", "params": {"keepshape": "bool"}, "kwarg": "kwargs",
                          "ret": "unit"},
    "FoldReducer_view": {"cls": "FoldReducer", "py": "view", "params": {"time": "time", "tolerance": "float"},
                         "ret": "optval"},
    "FoldReducer_dump": {"cls": "FoldReducer", "py": "dump", "params": {}, "kwarg": "kwargs", "ret": "opthist"},
    "FoldReducer_peek": {"cls": "FoldReducer", "py": "peek", "params": {}, "kwarg": "kwargs", "ret": "optval"},
    "FoldReducer_push": {"cls": "FoldReducer", "py": "push", "params": {"inputs": "val"}, "kwarg": "kwargs",
                         "ret": "unit"},
    "FoldReducer_forward": {"cls": "FoldReducer", "py": "forward", "params": {}, "vararg": ("inputs", "inputs"),
                            "kwarg": "kwargs", "ret": "unit"},
}

# private fields: (class, attribute) -> (field of `FR`, kind)
FIELDS = {
    ("RecordReducer", "__step_time"): ("step_time", "float"), ("RecordReducer", "__duration"): ("duration", "float"),
    ("RecordReducer", "__inclusive"): ("inclusive", "bool"), ("RecordReducer", "__inplace"): ("inplace", "bool"),
    ("RecordReducer", "__records"): ("records", "strs"), ("FoldReducer", "__fill"): ("fill", "fill"),
}
# public data attributes (not properties): attribute -> (field, kind)
PUBLIC = {"_initial": ("initial", "bool"), "data_": ("data_", "rec")}
# attributes created by `register_extra(name, value)` / `RecordTensor.create(self, name, …)`
EXTRAS = {"_initial": ("initial", "bool")}
RECORDS = {"data_": "data_"}
# abstract callbacks
CALLBACK_ATTR = {"interpolate": ("P.K.interp", "interp")}

# the `RecordTensor` primitives of Gen/ReducerPrelude.lean.  `params`: parameter -> kind, in the order the primitive
# takes them; `dropped`: parameters of the real method that must be absent or `None`; `mut`: the record object is
# written back; `fails`: the primitive is `Except Err`; `env`: it takes `P`; `ret`: kind of the value
EXTERN = {
    "reset": {"params": {"fill": "optfill"}, "dropped": [], "mut": True, "fails": True, "env": False, "ret": None},
    "deinitialize": {"params": {"use_uninitialized": "bool"}, "dropped": [], "mut": True, "fails": False, "env": False,
                     "ret": None},
    "initialize": {"params": {"shape": "shape", "fill": "fill"}, "dropped": ["device", "dtype"], "mut": True,
                   "fails": False, "env": False, "ret": None},
    "align": {"params": {"index": "nat"}, "dropped": [], "mut": True, "fails": True, "env": False, "ret": None},
    "push": {"params": {"obs": "val", "inplace": "bool"}, "dropped": [], "mut": True, "fails": False, "env": True,
             "ret": None},
    "peek": {"params": {}, "dropped": [], "mut": False, "fails": True, "env": False, "ret": "optval"},
    "select": {"params": {"time": "time", "interp": "interp", "tolerance": "float", "offset": "int"},
               "dropped": ["interp_kwargs"], "mut": False, "fails": True, "env": True, "ret": "val"},
}
# properties of the record object read here: name -> (primitive, kind, class that must define it as a property)
EXTERN_PROPS = {"ignored": ("RecordTensor_ignored", "bool"), "value": ("RecordTensor_value", "hist")}
# property setters of the record object assigned here: name -> (primitive, kind of the value)
EXTERN_SETTERS = {"dt": ("RecordTensor_set_dt", "float"), "duration": ("RecordTensor_set_duration", "float"),
                  "inclusive": ("RecordTensor_set_inclusive", "bool")}
# `RecordTensor.create(owner, name, step_time, duration, value, …)`: translated parameters / accepted-and-dropped ones
CREATE_PARAMS = ["step_time", "duration", "value", "inclusive"]
CREATE_DROPPED = ["constraints", "persist_data", "persist_constraints", "persist_temporal", "strict", "live"]

HEADER = """import InfernoVerif.Gen.ReducerPrelude
/-! GENERATED by harness/progtx_reducer.py from inferno/observe/reducers/base.py (classes `RecordReducer`,
`FoldReducer`) — do not edit.
Whole method bodies as programs over the private state `FR`; an exception carries the state at the raise.
Vocabulary: Gen/ReducerPrelude.lean (the `RecordTensor` methods of `data_` are primitives; their defaults are read
from inferno/core/infrastructure.py). -/
set_option linter.unusedVariables false
namespace InfernoVerif.Gen.ReducerProg
open InfernoVerif.Ring InfernoVerif.Reducer InfernoVerif.Gen.ReducerPrelude

variable {α ω : Type}
"""

MONAD = "Except (Err × FR α)"


def class_map(tree) -> dict:
    return {n.name: n for n in tree.body if isinstance(n, ast.ClassDef)}


def mro(classes: dict, cls: str) -> list[str]:
    """base classes defined in the source file, depth first, left to right"""
    out = [cls]
    for b in classes[cls].bases:
        if isinstance(b, ast.Name) and b.id in classes:
            for c in mro(classes, b.id):
                if c not in out:
                    out.append(c)
    return out


def decorators(f: ast.FunctionDef) -> list[str]:
    return [ast.unparse(d) for d in f.decorator_list]


def strip_doc(body):
    return [s for s in body if not (isinstance(s, ast.Expr) and isinstance(s.value, ast.Constant)
                                    and isinstance(s.value.value, str))]


class ReducerTx(Tx):
    SRC = SRC
    CLS = "FoldReducer"           # per instance: the class of the method being translated
    METHODS = METHODS
    LEAN_TY = LEAN_TY
    STATE_TY = "FR α"
    DROPPED_PARAMS: set = set()
    OUT = "ReducerProg.lean"
    NAMESPACE = "InfernoVerif.Gen.ReducerProg"
    HEADER = HEADER
    CLASSES: dict = {}            # filled by `regenerate`: class name -> ast.ClassDef (base.py)
    EXTERN_SIGS: dict = {}        # filled by `regenerate` from infrastructure.py

    def __init__(self, name: str, fdef: ast.FunctionDef, sigs: dict):
        super().__init__(name, fdef, sigs)
        self.CLS = self.spec["cls"]
        self.pending: list[str] = []        # hoisted effectful sub-expressions of the statement being translated

    def err(self, node, msg):
        where = f"{self.SRC}::{self.CLS}.{self.spec['py']}:{getattr(node, 'lineno', '?')}"
        raise TranslateError(where, f"{msg}: {ast.unparse(node)[:140] if isinstance(node, ast.AST) else node}")

    # ------------------------------------------------------------------ helpers
    def tmp(self) -> str:
        self.fresh += 1
        return f"t{self.fresh}_"

    def flush(self, d) -> str:
        out = "".join(f"{self.ind(d)}{line}\n" for line in self.pending)
        self.pending = []
        return out

    def self_attr(self, n) -> str | None:
        if isinstance(n, ast.Attribute) and isinstance(n.value, ast.Name) and n.value.id == "self":
            return n.attr
        return None

    def is_private(self, attr: str) -> bool:
        return attr.startswith("__") and not attr.endswith("__")

    def find_defs(self, attr: str, start: str | None = None):
        """first class along the bases (of the source file) that defines `attr` -> (class, [FunctionDef])"""
        for c in mro(self.CLASSES, start or self.CLS):
            defs = [f for f in self.CLASSES[c].body if isinstance(f, ast.FunctionDef) and f.name == attr]
            if defs:
                return c, defs
            if any(isinstance(t, ast.Name) and t.id == attr for s in self.CLASSES[c].body
                   if isinstance(s, (ast.Assign, ast.AnnAssign)) for t in (s.targets if isinstance(s, ast.Assign) else [s.target])):
                return c, []
        return None, []

    def resolve(self, node, attr: str, role: str, start: str | None = None) -> str:
        """generated definition that `self.<attr>` means; role: 'getter' | 'setter' | 'method'"""
        c, defs = self.find_defs(attr, start)
        if c is None:
            self.err(node, f"{attr} is not defined by a class of the source file")
        if not defs:
            self.err(node, f"{attr} is a class attribute of {c}")
        has_getter = any(decorators(f) == ["property"] for f in defs)
        if (role == "method") == has_getter:
            self.err(node, f"{c}.{attr}: property / method mismatch")
        want = {"getter": "property", "setter": f"{attr}.setter", "method": None}[role]
        for key, spec in self.METHODS.items():
            if spec["cls"] == c and spec["py"] == attr and spec.get("decorator") == want:
                if role == "setter" and not any(decorators(f) == [want] for f in defs):
                    self.err(node, f"{c}.{attr} has no setter")
                return key
        self.err(node, f"{attr} resolves to {c}.{attr} ({role}), which is not translated")

    def is_data_attr(self, node, attr: str) -> bool:
        """`self.<attr>` is a plain data attribute (no class of the file defines it as a method / property)"""
        c, _ = self.find_defs(attr)
        if c is not None:
            self.err(node, f"{attr} is defined by class {c}, not a data attribute")
        return True

    def record_of(self, n) -> str | None:
        """`self.data_` -> field name of the record object"""
        a = self.self_attr(n)
        if a in RECORDS and self.is_data_attr(n, a):
            return RECORDS[a]
        return None

    # ------------------------------------------------------------------ expressions
    def ex(self, n, env):
        """-> (lean text, kind).  Effectful sub-expressions (calls of translated methods, failing primitives, the
        `fold` callback) are hoisted, in evaluation order, into `self.pending` (each rebinding `self`)."""
        a = self.self_attr(n)
        if a is not None:
            if self.is_private(a):
                f = FIELDS.get((self.CLS, a))
                if f is None:
                    self.err(n, f"unknown private attribute of class {self.CLS}")
                return f"self.{f[0]}", f[1]
            if a in PUBLIC:
                self.is_data_attr(n, a)
                return f"self.{PUBLIC[a][0]}", PUBLIC[a][1]
            if a in CALLBACK_ATTR:
                self.check_abstract(n, a)
                return CALLBACK_ATTR[a]
            key = self.resolve(n, a, "getter")
            t = self.tmp()
            self.pending += [f"let {t} ← {key} P self", f"let self := {t}.1"]
            return f"{t}.2", self.METHODS[key]["ret"]
        if isinstance(n, ast.Name) and n.id == "self":
            self.err(n, "`self` used as a value")
        if isinstance(n, ast.Constant):
            if isinstance(n.value, bool):
                return ("true" if n.value else "false"), "bool"
            if n.value is None:
                return "none", "none"
            if isinstance(n.value, str):
                return json.dumps(n.value), "str"
            if type(n.value) is int:
                return str(n.value), "intlit"
            self.err(n, "unsupported constant")
        if isinstance(n, ast.Name):
            if n.id not in env:
                self.err(n, "unknown name")
            return env[n.id]
        if isinstance(n, ast.UnaryOp) and isinstance(n.op, ast.Not):
            v, k = self.ex(n.operand, env)
            if k != "bool":
                self.err(n, f"`not` on kind {k}")
            return f"(!{v})", "bool"
        if isinstance(n, ast.Compare) and len(n.ops) == 1 and isinstance(n.ops[0], ast.NotEq):
            a_, ka = self.ex(n.left, env)
            b_, kb = self.ex(n.comparators[0], env)
            if ka == "float" and kb == "float":
                return f"(P.ne {a_} {b_})", "bool"
            self.err(n, f"unsupported comparison on kinds {ka}, {kb}")
        if isinstance(n, ast.Attribute):
            rec = self.record_of(n.value)
            if rec is not None and n.attr in EXTERN_PROPS:
                self.check_extern_prop(n, n.attr)
                prim, kind = EXTERN_PROPS[n.attr]
                return f"({prim} self.{rec})", kind
            if n.attr == "shape":
                v, k = self.ex(n.value, env)
                if k == "val":
                    return f"(shapeOf {v})", "shape"
            self.err(n, "unsupported attribute")
        if isinstance(n, ast.Call):
            return self.call(n, env)
        self.err(n, "unsupported expression")

    def check_abstract(self, node, attr: str):
        """`self.<attr>` must resolve to an @abstractmethod of the source file (a callback of the subclass)"""
        c, defs = self.find_defs(attr)
        if c is None or len(defs) != 1 or "abstractmethod" not in decorators(defs[0]):
            self.err(node, f"{attr} is not an abstract method of the source file")

    def check_extern_prop(self, node, prop: str):
        if prop not in self.EXTERN_SIGS.get("__props__", ()):
            self.err(node, f"RecordTensor.{prop} is not a property in {INFRA}")

    def bind_args(self, c: ast.Call, order: list[str], defaults: dict, args=None) -> dict:
        """argument nodes by parameter name (positional, keyword, then the default read from the source)"""
        args = list(c.args) if args is None else args
        bound = {}
        for i, x in enumerate(args):
            if isinstance(x, ast.Starred) or i >= len(order):
                self.err(c, "unsupported positional arguments")
            bound[order[i]] = x
        for kw in c.keywords:
            if kw.arg is None or kw.arg not in order or kw.arg in bound:
                self.err(c, "unsupported keyword arguments")
            bound[kw.arg] = kw.value
        for p in order:
            if p not in bound:
                if p not in defaults:
                    self.err(c, f"missing argument {p}")
                bound[p] = defaults[p]
        return bound

    def coerce(self, node, v: str, k: str, want: str) -> str:
        """argument of kind `k` handed to a parameter of kind `want`"""
        if k == want or (want == "float" and k == "fill") or (want == "fill" and k == "float"):
            return v
        if want == "optfill" and k in ("fill", "float"):
            return f"(some {v})"
        if want == "optfill" and k == "none":
            return "none"
        if want == "optval" and k == "none":
            return "none"
        if want == "nat" and k == "intlit" and int(v) >= 0:
            return v
        if want == "int" and k == "intlit":
            return f"({v} : Int)" if int(v) >= 0 else f"(-{-int(v)} : Int)"
        if want == "fill" and k == "intlit":
            self.err(node, "integer literal as a fill value")
        self.err(node, f"argument of kind {k}, expected {want}")

    def extern_call(self, c: ast.Call, rec: str, meth: str, env):
        """`self.data_.<meth>(…)` -> (value text or None, kind or None); hoists the call"""
        spec, sig = EXTERN[meth], self.EXTERN_SIGS.get(meth)
        if sig is None:
            self.err(c, f"signature of RecordTensor.{meth} not read")
        bound = self.bind_args(c, sig["order"], sig["defaults"])
        for p in spec["dropped"]:
            if not (isinstance(bound[p], ast.Constant) and bound[p].value is None):
                self.err(bound[p], f"argument {p} of RecordTensor.{meth} is not None")
        args = []
        for p, want in spec["params"].items():
            v, k = self.ex(bound[p], env)
            args.append(self.coerce(bound[p], v, k, want))
        call = f"RecordTensor_{meth}{' P' if spec['env'] else ''} self.{rec}{''.join(' ' + a for a in args)}"
        if spec["fails"]:
            t = self.tmp()
            self.pending.append(f"let {t} ← raising self ({call})")
            val = t
        else:
            val = f"({call})"
        if spec["mut"]:
            self.pending.append(f"let self := {{ self with {rec} := {val} }}")
            return None, None
        return val, spec["ret"]

    def callee(self, c: ast.Call):
        """`self.m(…)` or `<Class>.m(self, …)` among the translated methods -> (key, argument nodes) or None"""
        f = c.func
        if not isinstance(f, ast.Attribute) or not isinstance(f.value, ast.Name):
            return None
        if f.value.id == "self":
            if f.attr in ("fold", "register_extra") or f.attr in CALLBACK_ATTR:
                return None
            return self.resolve(c, f.attr, "method"), list(c.args)
        if f.value.id in self.CLASSES and c.args and ast.unparse(c.args[0]) == "self":
            if f.value.id not in mro(self.CLASSES, self.CLS):
                self.err(c, f"{f.value.id} is not a base of {self.CLS}")
            c0, defs = self.find_defs(f.attr, f.value.id)
            for key, spec in self.METHODS.items():
                if spec["cls"] == c0 and spec["py"] == f.attr and spec.get("decorator") is None:
                    return key, list(c.args[1:])
            return None
        return None

    def method_call(self, c: ast.Call, key: str, args, env) -> str:
        """hoists `let t ← <key> P self args; let self := t.1`; returns `t`"""
        spec, sig = self.METHODS[key], self.sigs[key]
        va = spec.get("vararg")
        out = []
        if va:
            # every positional argument goes to `*name`
            if sig["order"] or c.keywords:
                self.err(c, "unsupported call of a variadic method")
            if va[1] == "strs":
                items = []
                for x in args:
                    v, k = self.ex(x, env)
                    if k != "str":
                        self.err(x, f"argument of kind {k}, expected str")
                    items.append(v)
                out.append(f"[{', '.join(items)}]")
            else:
                self.err(c, f"call of a method with *{va[0]}")
        else:
            bound = self.bind_args(c, sig["order"], sig["defaults"], args)
            for p in sig["order"]:
                v, k = self.ex(bound[p], env)
                out.append(self.coerce(bound[p], v, k, spec["params"][p]))
        t = self.tmp()
        self.pending += [f"let {t} ← {key} P self{''.join(' ' + a for a in out)}", f"let self := {t}.1"]
        return t

    def call(self, n: ast.Call, env):
        f = n.func
        ftxt = ast.unparse(f)
        if ftxt in ("argtest.gt", "argtest.gte") and len(n.args) == 4 and not n.keywords:
            nm, val, lim, cast = n.args
            if isinstance(nm, ast.Constant) and isinstance(nm.value, str) and isinstance(lim, ast.Constant) \
                    and type(lim.value) is int and lim.value == 0 and isinstance(cast, ast.Name) and cast.id == "float":
                v, k = self.ex(val, env)
                if k == "float":
                    t = self.tmp()
                    self.pending.append(f"let {t} ← raising self ({ftxt.replace('.', '_')} P {v})")
                    return t, "float"
        if ftxt == "bool" and len(n.args) == 1 and not n.keywords:
            v, k = self.ex(n.args[0], env)
            if k == "bool":
                return v, "bool"
        if ftxt == "set" and not n.args and not n.keywords:
            return "[]", "strs"
        if ftxt == "torch.empty" and len(n.args) == 1 and not n.keywords and isinstance(n.args[0], ast.Constant) \
                and type(n.args[0].value) is int and n.args[0].value == 0:
            return "torch_empty0", "storage"
        if ftxt == "hasattr" and len(n.args) == 2 and not n.keywords and ast.unparse(n.args[0]) == "self":
            v, k = self.ex(n.args[1], env)
            if k == "str":
                return f"(hasattr self {v})", "bool"
        if ftxt == "isinstance" and len(n.args) == 2 and not n.keywords and ast.unparse(n.args[1]) == "RecordTensor":
            g = n.args[0]
            if isinstance(g, ast.Call) and ast.unparse(g.func) == "getattr" and len(g.args) == 2 and not g.keywords \
                    and ast.unparse(g.args[0]) == "self":
                v, k = self.ex(g.args[1], env)
                if k == "str":
                    return f"(isinstance_RecordTensor self {v})", "bool"
        # self.fold(*inputs, state): the subclass callback
        if ftxt == "self.fold" and not n.keywords and len(n.args) == 2 and isinstance(n.args[0], ast.Starred):
            self.check_abstract(n, "fold")
            i, ki = self.ex(n.args[0].value, env)
            if ki != "inputs":
                self.err(n, f"fold called on *{ki}")
            s, ks = self.ex(n.args[1], env)
            s = self.coerce(n.args[1], s, ks, "optval")
            t = self.tmp()
            self.pending += [f"let {t} := (FoldReducer_fold P self {i} {s})", f"let self := {t}.1"]
            return f"{t}.2", "val"
        # t.flip(0)
        if isinstance(f, ast.Attribute) and f.attr == "flip" and len(n.args) == 1 and not n.keywords \
                and isinstance(n.args[0], ast.Constant) and type(n.args[0].value) is int and n.args[0].value == 0:
            v, k = self.ex(f.value, env)
            if k == "hist":
                return f"(flip0 {v})", "hist"
        # self.data_.<method>(…)
        if isinstance(f, ast.Attribute) and f.attr in EXTERN:
            rec = self.record_of(f.value)
            if rec is not None:
                v, k = self.extern_call(n, rec, f.attr, env)
                if v is None:
                    self.err(n, f"RecordTensor.{f.attr} used as a value")
                return v, k
        tgt = self.callee(n)
        if tgt is not None:
            t = self.method_call(n, tgt[0], tgt[1], env)
            return f"{t}.2", self.METHODS[tgt[0]]["ret"]
        self.err(n, "unsupported call")

    # ------------------------------------------------------------------ statements
    def block(self, stmts, env, alias, d, cont) -> str:
        if not stmts:
            return cont(env, alias, d)
        s, rest = stmts[0], stmts[1:]
        I = self.ind(d)
        if self.pending:
            self.err(s, "internal: pending statements not flushed")
        if isinstance(s, ast.Expr) and isinstance(s.value, ast.Constant) and isinstance(s.value.value, str):
            return self.block(rest, env, alias, d, cont)
        if isinstance(s, ast.Raise):
            exc = s.exc.func.id if isinstance(s.exc, ast.Call) and isinstance(s.exc.func, ast.Name) else None
            if exc not in progtx.ERRS:
                self.err(s, "unsupported exception")
            return f"{I}throw (Err.{exc}, self)\n"
        if isinstance(s, ast.Return):
            want = self.spec["ret"]
            if s.value is None:
                return self.fall_off(env, d)
            v, k = self.ex(s.value, env)
            pre = self.flush(d)
            if k == want:
                return pre + f"{I}pure (self, {v})\n"
            if (want, k) in (("optval", "val"), ("opthist", "hist")):
                return pre + f"{I}pure (self, some {v})\n"
            if want in ("optval", "opthist") and k == "none":
                return pre + f"{I}pure (self, none)\n"
            self.err(s, f"returns kind {k}, expected {want}")
        if isinstance(s, ast.For):
            return self.for_stmt(s, rest, env, alias, d, cont)
        if isinstance(s, (ast.With, ast.Assert, ast.While, ast.Try)):
            self.err(s, "unsupported statement")
        return super().block(stmts, env, alias, d, cont)

    def fall_off(self, env, d) -> str:
        """falling off the end / a bare `return`: Python returns `None`"""
        ret = self.spec["ret"]
        if ret == "unit":
            return f"{self.ind(d)}pure (self, ())\n"
        if ret in ("optval", "opthist"):
            return f"{self.ind(d)}pure (self, none)\n"
        self.err(self.fdef, "falls off the end without returning")

    def for_stmt(self, s: ast.For, rest, env, alias, d, cont) -> str:
        """`for x in xs: body` over a list of names, the body falling through and rebinding nothing but the state"""
        I = self.ind(d)
        if s.orelse or not isinstance(s.target, ast.Name):
            self.err(s, "unsupported loop")
        for x in ast.walk(s):
            if isinstance(x, (ast.Break, ast.Continue, ast.Return)):
                self.err(x, "break / continue / return inside a loop")
        it, kit = self.ex(s.iter, env)
        pre = self.flush(d)
        if kit != "strs":
            self.err(s.iter, f"loop over kind {kit}")
        if [x for x in self.assigned(list(s.body)) if x in env] or s.target.id in env:
            self.err(s, "loop rebinding a local")
        v = lname(s.target.id)
        env_b = dict(env)
        env_b[s.target.id] = (v, "str")
        leaf = lambda e, a, dd: f"{self.ind(dd)}pure self\n"   # noqa: E731
        body = self.block(list(s.body), env_b, alias, d + 2, leaf)
        out = pre + f"{I}let self ← {it}.foldlM (fun self {v} => (do\n{body}{I}    : {MONAD} _)) self\n"
        return out + self.block(rest, env, alias, d, cont)

    def call_stmt(self, c: ast.Call, env, alias, d, nxt) -> str:
        I = self.ind(d)
        f = c.func
        ftxt = ast.unparse(f)
        # Reducer.__init__(self): accepted only while it does nothing but Module.__init__(self)
        if ftxt == "Reducer.__init__" and [ast.unparse(x) for x in c.args] == ["self"] and not c.keywords:
            self.check_reducer_init(c)
            return nxt(env, alias, d)
        # self.register_extra("<name>", <bool>)
        if ftxt == "self.register_extra" and len(c.args) == 2 and not c.keywords and isinstance(c.args[0], ast.Constant) \
                and c.args[0].value in EXTRAS:
            fld, kind = EXTRAS[c.args[0].value]
            self.is_data_attr(c, c.args[0].value)
            v, k = self.ex(c.args[1], env)
            if k != kind:
                self.err(c, f"extra {c.args[0].value} registered with a value of kind {k}")
            return self.flush(d) + f"{I}let self := {{ self with {fld} := {v} }}\n" + nxt(env, alias, d)
        # RecordTensor.create(self, "<name>", step_time, duration, value, …, inclusive=…)
        if ftxt == "RecordTensor.create":
            return self.create_stmt(c, env, d) + nxt(env, alias, d)
        # self.__records.add(a)
        if isinstance(f, ast.Attribute) and f.attr == "add" and len(c.args) == 1 and not c.keywords:
            a = self.self_attr(f.value)
            fld = FIELDS.get((self.CLS, a)) if a else None
            if fld is not None and fld[1] == "strs":
                v, k = self.ex(c.args[0], env)
                if k == "str":
                    return self.flush(d) + f"{I}let self := {{ self with {fld[0]} := (set_add self.{fld[0]} {v}) }}\n" \
                        + nxt(env, alias, d)
        # self.data_.<method>(…) as a statement
        if isinstance(f, ast.Attribute) and f.attr in EXTERN:
            rec = self.record_of(f.value)
            if rec is not None:
                v, _ = self.extern_call(c, rec, f.attr, env)
                if v is not None:
                    self.err(c, f"value of RecordTensor.{f.attr} dropped")
                return self.flush(d) + nxt(env, alias, d)
        tgt = self.callee(c)
        if tgt is not None:
            self.method_call(c, tgt[0], tgt[1], env)
            return self.flush(d) + nxt(env, alias, d)
        self.err(c, "unsupported call statement")

    def check_reducer_init(self, node):
        if "Reducer" not in mro(self.CLASSES, self.CLS):
            self.err(node, "Reducer is not a base class")
        defs = [f for f in self.CLASSES["Reducer"].body if isinstance(f, ast.FunctionDef) and f.name == "__init__"]
        if len(defs) != 1 or [ast.unparse(s) for s in strip_doc(defs[0].body)] != ["Module.__init__(self)"] \
                or [a.arg for a in defs[0].args.args] != ["self"]:
            self.err(node, "Reducer.__init__ is no longer just `Module.__init__(self)`")

    def create_stmt(self, c: ast.Call, env, d) -> str:
        I = self.ind(d)
        sig = self.EXTERN_SIGS.get("create")
        if sig is None:
            self.err(c, "signature of RecordTensor.create not read")
        bound = self.bind_args(c, sig["order"], sig["defaults"])
        if ast.unparse(bound["owner"]) != "self":
            self.err(c, "record created on another owner")
        nm = bound["name"]
        if not (isinstance(nm, ast.Constant) and nm.value in RECORDS):
            self.err(c, "record created under an unknown attribute name")
        self.is_data_attr(c, nm.value)
        for p in CREATE_DROPPED:
            if not isinstance(bound[p], ast.Constant):
                self.err(bound[p], f"argument {p} of RecordTensor.create is not a constant")
        args = []
        for p, want in zip(CREATE_PARAMS, ["float", "float", "storage", "bool"]):
            v, k = self.ex(bound[p], env)
            if k != want:
                self.err(bound[p], f"argument {p} of RecordTensor.create: kind {k}, expected {want}")
            args.append(v)
        t = self.tmp()
        self.pending.append(f"let {t} ← raising self (RecordTensor_create P {' '.join(args)})")
        return self.flush(d) + f"{I}let self := {{ self with {RECORDS[nm.value]} := {t} }}\n"

    def assign(self, s: ast.Assign, env, alias, d, nxt) -> str:
        I = self.ind(d)
        t = s.targets[0]
        a = self.self_attr(t)
        if a is not None:
            if self.is_private(a):
                f = FIELDS.get((self.CLS, a))
                if f is None:
                    self.err(s, f"unknown private attribute of class {self.CLS}")
                fld, kind = f
            elif a in EXTRAS:
                self.is_data_attr(s, a)
                fld, kind = EXTRAS[a]
            else:
                self.err(s, "assignment to an attribute that is not a field of the state")
            v, k = self.ex(s.value, env)
            v = self.coerce(s.value, v, k, kind)
            return self.flush(d) + f"{I}let self := {{ self with {fld} := {v} }}\n" + nxt(env, alias, d)
        # getattr(self, name).<property> = v   on a record object
        if isinstance(t, ast.Attribute) and t.attr in EXTERN_SETTERS and isinstance(t.value, ast.Call) \
                and ast.unparse(t.value.func) == "getattr" and len(t.value.args) == 2 and not t.value.keywords \
                and ast.unparse(t.value.args[0]) == "self":
            if t.attr not in self.EXTERN_SIGS.get("__setters__", ()):
                self.err(s, f"RecordTensor.{t.attr} has no setter in {INFRA}")
            prim, kind = EXTERN_SETTERS[t.attr]
            # Python evaluates the right-hand side first, then the target's object
            v, k = self.ex(s.value, env)
            if k != kind:
                self.err(s, f"RecordTensor.{t.attr} assigned a value of kind {k}")
            nm, kn = self.ex(t.value.args[1], env)
            if kn != "str":
                self.err(s, f"getattr with a name of kind {kn}")
            t1, t2 = self.tmp(), self.tmp()
            self.pending += [f"let {t1} ← raising self (getattr_record self {nm})",
                             f"let {t2} ← raising self ({prim} P {t1} {v})",
                             f"let self := (setattr_record self {nm} {t2})"]
            return self.flush(d) + nxt(env, alias, d)
        if isinstance(t, ast.Name):
            v, k = self.ex(s.value, env)
            if k in ("none", "intlit", "storage", "interp"):
                self.err(s, f"local bound to a value of kind {k}")
            if t.id in env and env[t.id][1] != k:
                self.err(s, "local rebound with another kind")
            env = dict(env)
            env[t.id] = (lname(t.id), k)
            return self.flush(d) + f"{I}let {lname(t.id)} := {v}\n" + nxt(env, alias, d)
        self.err(s, "unsupported assignment")

    def if_stmt(self, s: ast.If, rest, env, alias, d, cont) -> str:
        body, orelse = list(s.body), list(s.orelse)
        if not orelse and len(body) == 1 and isinstance(body[0], ast.Assign) and isinstance(body[0].targets[0], ast.Name):
            self.err(s, "conditional rebinding of a local")
        return super().if_stmt(s, rest, env, alias, d, cont)

    def branch(self, test, body, orelse, env, alias, d, cont) -> str:
        I = self.ind(d)
        c, kc = self.ex(test, env)
        pre = self.flush(d)
        if kc != "bool":
            self.err(test, f"condition of kind {kc}")
        return (pre + f"{I}if {c} then\n" + self.block(body, env, alias, d + 1, cont)
                + f"{I}else\n" + self.block(orelse, env, alias, d + 1, cont))

    def join_if(self, s, body, orelse, rest, env, alias, d, cont) -> str:
        """a conditional that falls through into `rest`: its branches return the state, then `rest` continues"""
        I = self.ind(d)
        names = [x for x in self.assigned(body + orelse) if x in env]
        if names:
            self.err(s, "conditional rebinding a local")
        # the condition is evaluated BEFORE the joined block (its hoisted statements must not end up inside it)
        c, kc = self.ex(s.test, env)
        pre = self.flush(d)
        if kc != "bool":
            self.err(s.test, f"condition of kind {kc}")
        leaf = lambda e, a, dd: f"{self.ind(dd)}pure self\n"   # noqa: E731
        I2 = self.ind(d + 1)
        inner = (f"{I2}if {c} then\n" + self.block(body, env, alias, d + 2, leaf)
                 + f"{I2}else\n" + self.block(orelse, env, alias, d + 2, leaf))
        return pre + f"{I}let self ← (do\n{inner}{I}  : {MONAD} _)\n" + self.block(rest, env, alias, d, cont)

    # ------------------------------------------------------------------ whole method
    def emit(self) -> str:
        spec, sig = self.spec, self.sigs[self.name]
        where = f"{self.SRC}::{self.CLS}.{spec['py']}"
        if sig["order"] != list(spec["params"]):
            raise TranslateError(where, f"signature changed: {sig['order']} (expected {list(spec['params'])})")
        va = spec.get("vararg", (None,))[0]
        kw = spec.get("kwarg")
        if (sig["vararg"], sig["kwarg"]) != (va, kw):
            raise TranslateError(where, f"signature changed: *{sig['vararg']}, **{sig['kwarg']}")
        if kw is not None and any(isinstance(x, ast.Name) and x.id == kw for x in ast.walk(self.fdef)):
            raise TranslateError(where, f"the body reads **{kw}")
        env = {p: (lname(p), k) for p, k in spec["params"].items()}
        plist = [(lname(p), self.LEAN_TY[k]) for p, k in spec["params"].items()]
        if spec.get("vararg"):
            env[spec["vararg"][0]] = (lname(spec["vararg"][0]), spec["vararg"][1])
            plist.append((lname(spec["vararg"][0]), self.LEAN_TY[spec["vararg"][1]]))
        tail = lambda e, a, dd: self.fall_off(e, dd)   # noqa: E731
        body = self.block(strip_doc(list(self.fdef.body)), env, {}, 1, tail)
        ptxt = "".join(f" ({p} : {t})" for p, t in plist)
        return (f"def {self.name} (P : PyEnv α ω) (self : {self.STATE_TY}){ptxt} : "
                f"{MONAD} ({self.STATE_TY} × {self.LEAN_TY[spec['ret']]}) := do\n" + body)


def locate(classes: dict, key: str, spec: dict) -> ast.FunctionDef:
    where = f"{SRC}::{spec['cls']}.{spec['py']}"
    if spec["cls"] not in classes:
        raise TranslateError(SRC, f"class {spec['cls']} not found")
    want = [spec["decorator"]] if spec.get("decorator") else []
    found = [n for n in classes[spec["cls"]].body if isinstance(n, ast.FunctionDef) and n.name == spec["py"]
             and decorators(n) == want]
    if len(found) != 1:
        raise TranslateError(where, f"{len(found)} definitions with decorators {want}")
    return found[0]


def signature(f: ast.FunctionDef, where: str, drop_first: str | None = "self") -> dict:
    a = f.args
    pos = [x.arg for x in a.posonlyargs + a.args]
    if drop_first is not None:
        if not pos or pos[0] != drop_first:
            raise TranslateError(where, f"first parameter is not {drop_first}")
        pos = pos[1:]
    order = pos + [x.arg for x in a.kwonlyargs]
    defaults = dict(zip(pos[len(pos) - len(a.defaults):], a.defaults))
    defaults.update({x.arg: dflt for x, dflt in zip(a.kwonlyargs, a.kw_defaults) if dflt is not None})
    return {"order": order, "defaults": defaults, "vararg": a.vararg.arg if a.vararg else None,
            "kwarg": a.kwarg.arg if a.kwarg else None}


def extern_sigs() -> dict:
    """signatures (parameter order, defaults) of the `RecordTensor` methods the translated bodies call, and the
    existence of the properties / property setters they use — read from inferno/core/infrastructure.py"""
    tree = ast.parse((REPO / INFRA).read_text())
    classes = class_map(tree)
    if "RecordTensor" not in classes:
        raise TranslateError(INFRA, "class RecordTensor not found")
    chain = mro(classes, "RecordTensor")

    def find(name, decs):
        for c in chain:
            fs = [n for n in classes[c].body if isinstance(n, ast.FunctionDef) and n.name == name]
            if fs:
                fs = [n for n in fs if decorators(n) == decs]
                if len(fs) != 1:
                    raise TranslateError(f"{INFRA}::{c}.{name}", f"{len(fs)} definitions with decorators {decs}")
                return fs[0]
        raise TranslateError(f"{INFRA}::RecordTensor", f"method not found: {name}")

    out = {}
    for m, spec in EXTERN.items():
        sig = signature(find(m, []), f"{INFRA}::RecordTensor.{m}")
        if sig["vararg"] or sig["kwarg"]:
            raise TranslateError(f"{INFRA}::RecordTensor.{m}", "unsupported signature")
        want = set(spec["params"]) | set(spec["dropped"])
        if set(sig["order"]) != want:
            raise TranslateError(f"{INFRA}::RecordTensor.{m}", f"signature changed: {sig['order']}")
        out[m] = sig
    sig = signature(find("create", ["classmethod"]), f"{INFRA}::RecordTensor.create", drop_first="cls")
    if sig["vararg"] or sig["kwarg"] or set(sig["order"]) != {"owner", "name"} | set(CREATE_PARAMS) | set(CREATE_DROPPED):
        raise TranslateError(f"{INFRA}::RecordTensor.create", f"signature changed: {sig['order']}")
    out["create"] = sig
    for p in EXTERN_PROPS:
        find(p, ["property"])
    for p in EXTERN_SETTERS:
        find(p, [f"{p}.setter"])
    out["__props__"] = tuple(EXTERN_PROPS)
    out["__setters__"] = tuple(EXTERN_SETTERS)
    return out


def regenerate() -> dict:
    """regenerates Gen/ReducerProg.lean; same return shape as `progtx.regenerate_class`"""
    T = ReducerTx
    src = (REPO / T.SRC).read_text()
    tree = ast.parse(src)
    classes = class_map(tree)
    T.CLASSES = classes
    T.EXTERN_SIGS = extern_sigs()
    fdefs = {k: locate(classes, k, s) for k, s in T.METHODS.items()}
    sigs = {k: signature(f, f"{T.SRC}::{T.METHODS[k]['cls']}.{f.name}") for k, f in fdefs.items()}
    text = T.HEADER
    info = {}
    for k, s in T.METHODS.items():
        seg = ast.get_source_segment(src, fdefs[k]) or ""
        sha = hashlib.sha256(seg.encode()).hexdigest()[:16]
        dec = f" (`@{s['decorator']}`)" if s.get("decorator") else ""
        text += (f"\n/-- from `{T.SRC}` :: `{s['cls']}.{s['py']}`{dec} (sha256 of source segment {sha}) -/\n"
                 + T(k, fdefs[k], sigs).emit())
        info[k] = sha
    text += f"\nend {T.NAMESPACE}\n"
    p = GEN / T.OUT
    changed = not p.exists() or p.read_text() != text
    if changed:
        p.write_text(text)
    return {"functions": info, "rewritten": changed}


if __name__ == "__main__":
    print(json.dumps(regenerate(), indent=1))
