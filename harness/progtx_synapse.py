"""Statement-level translator, synapse classes (DESIGN §12.5, property C04): the record plumbing and control flow of
inferno's four shipped synapses —

* `inferno/neural/synapses/mixins.py`: the WHOLE module-level function `_synparam_at`; `CurrentMixin.current` (getter,
  setter) / `current_at`; `SpikeMixin.spike` (getter, setter) / `spike_at`; `SpikeDerivedCurrentMixin._derived_current`
  / `current` (getter) / `current_at`;
* `inferno/neural/synapses/current.py`: the closure `spike_to_current` of `DeltaCurrent.__init__`, `DeltaCurrent.clear` /
  `forward`, `DeltaPlusCurrent.clear` / `forward`;
* `inferno/neural/synapses/expcurrent.py`: `SingleExponentialCurrent.clear` / `forward`, `DoubleExponentialCurrent.clear`
  / `current` / `pos_current` / `neg_current` (getters and setters) / `current_at` / `forward`

— → Lean `Except Err` programs over the state `SynT` (`Gen/SynapsePrelude.lean`), regenerated on every run as
`Gen/SynapseProg.lean` (core Lean only).

What is kept from the source, statement by statement and in SOURCE ORDER: which record is pushed with what and with
which `inplace` flag, the `.bool()` conversions, the right-hand sides of the recurrences with Python's evaluation order,
what `clear` resets and to which fill, the property plumbing (`self.spike = …` runs the setter the class inherits,
`self.current` the getter — resolved along the C3 linearisation of the classes of the three files, and checked to
resolve identically from each of the four concrete classes), the `VirtualTensor` indirection of `DeltaCurrent.current`
(its materializer name is read from `VirtualTensor.create(self, "current_", "_derived_current", …)`), and for the delayed
reads: the `recordsz == 1` branch with its trailing-dimension `expand`, the clamp of the selector to `[0, duration]`,
the `select` call with its keyword arguments, the overbound `where`, the POSITIONAL argument order of every
`_synparam_at(...)` call (bound to the parameters of `_synparam_at` as read from its signature), the `transform` lambda
and the final `.to(dtype=…)`.

Not re-translated (ONE prelude primitive each): the methods / properties of `RecordTensor` (`peek`, `push`, `reset`,
`select`, `recordsz`, `duration`, `value`; their parameter order and DEFAULTS — e.g. `offset=1` of `select` — are read
from `inferno/core/infrastructure.py`) and `VirtualTensor.value` / `.dtype`.  Everything is seen from ONE element of the
batched tensor, as in `Model/Synapse.lean` (a tensor is a `Ten α`: value, `ndim`, dtype class).  `device` arguments are
dropped (CPU only); `**kwargs` that a method only accepts are dropped (a body that reads them is refused).

Constructor facts the abstraction of `Props/C04GlueProg.lean` relies on are CHECKED syntactically here (a change raises
`TranslateError`): every `RecordTensor.create(self, "<name>", self.dt, self.delay, <data>, …, inclusive=True)` of the
classes' `__init__`, and the `VirtualTensor.create` above.  What the constructors store into the private fields
(`__interp`, `__overbound`, `__tolerance`, `__to_current`, …) is NOT translated: these are fields of `SynT` / a
parameter (`to_current`) of the generated definitions, instantiated by the glue file's `ofM`.

Several classes of several files, a module-level function and a closure are translated, so this module has its own
`regenerate()` (same return shape as `progtx.regenerate_class`).  Anything outside this sub-language raises
`TranslateError` naming the node — never a guess.
"""
from __future__ import annotations

import ast
import hashlib
import json

import progtx
from progtx import Tx
from translate import GEN, REPO, TranslateError, lname

MIX = "inferno/neural/synapses/mixins.py"
CUR = "inferno/neural/synapses/current.py"
EXP = "inferno/neural/synapses/expcurrent.py"
INFRA = "inferno/core/infrastructure.py"
SOURCES = (MIX, CUR, EXP)

# kinds -> Lean types
LEAN_TY = {
    "ten": "Ten α", "float": "α", "int": "Int", "bool": "Bool", "dtype": "DT", "rec": "Rec α", "unit": "Unit",
    "kwinterp": "KwInterp α", "kwargs": "Kwargs α", "optfloat": "Option α", "optbool": "Option Bool",
    "optpyval": "Option (PyVal α)", "pyval": "PyVal α", "opttransform": "Option (Ten α → Except Err (Ten α))",
    "transform": "Ten α → Except Err (Ten α)", "tens": "List (Ten α)", "mask": "Mask", "tshape": "TShape",
    "tocurrent": "ToCurrent α",
}

# functions, in emission order (callees first).  key = name of the generated definition; `cls` None = module level;
# `decorator` picks a property getter / setter; `nested` = a closure defined inside the method; `state` = name of the
# parameter that is the synapse object (default `self`; None: a stateless function); `vararg` = (name, kind) of a
# translated `*name` parameter; `kwarg` = name of a `**name` parameter the body must not read
METHODS = {
    "_synparam_at": {"src": MIX, "cls": None, "py": "_synparam_at", "state": None,
                     "params": {"value": "rec", "selector": "ten", "interpolation": "kwinterp", "interp_kwargs": "kwargs",
                                "tolerance": "float", "overbound": "optpyval", "transform": "opttransform"},
                     "ret": "ten"},
    "CurrentMixin_current": {"src": MIX, "cls": "CurrentMixin", "py": "current", "decorator": "property", "params": {},
                             "ret": "ten"},
    "CurrentMixin_current_setter": {"src": MIX, "cls": "CurrentMixin", "py": "current", "decorator": "current.setter",
                                    "params": {"value": "ten"}, "ret": "unit"},
    "CurrentMixin_current_at": {"src": MIX, "cls": "CurrentMixin", "py": "current_at", "params": {"selector": "ten"},
                                "ret": "ten"},
    "SpikeMixin_spike": {"src": MIX, "cls": "SpikeMixin", "py": "spike", "decorator": "property", "params": {},
                         "ret": "ten"},
    "SpikeMixin_spike_setter": {"src": MIX, "cls": "SpikeMixin", "py": "spike", "decorator": "spike.setter",
                                "params": {"value": "ten"}, "ret": "unit"},
    "SpikeMixin_spike_at": {"src": MIX, "cls": "SpikeMixin", "py": "spike_at", "params": {"selector": "ten"},
                            "ret": "ten"},
    "DeltaCurrent_spike_to_current": {"src": CUR, "cls": "DeltaCurrent", "py": "__init__", "nested": "spike_to_current",
                                      "state": "synapse", "params": {"dtype": "dtype", "spikes": "ten"}, "ret": "ten"},
    "SpikeDerivedCurrentMixin__derived_current": {"src": MIX, "cls": "SpikeDerivedCurrentMixin", "py": "_derived_current",
                                                  "params": {"dtype": "dtype"}, "ret": "ten"},
    "SpikeDerivedCurrentMixin_current": {"src": MIX, "cls": "SpikeDerivedCurrentMixin", "py": "current",
                                         "decorator": "property", "params": {}, "ret": "ten"},
    "SpikeDerivedCurrentMixin_current_at": {"src": MIX, "cls": "SpikeDerivedCurrentMixin", "py": "current_at",
                                            "params": {"selector": "ten"}, "ret": "ten"},
    "DeltaCurrent_clear": {"src": CUR, "cls": "DeltaCurrent", "py": "clear", "params": {}, "kwarg": "kwargs", "ret": "unit"},
    "DeltaCurrent_forward": {"src": CUR, "cls": "DeltaCurrent", "py": "forward", "params": {}, "vararg": ("inputs", "tens"),
                             "kwarg": "kwargs", "ret": "ten"},
    "DeltaPlusCurrent_clear": {"src": CUR, "cls": "DeltaPlusCurrent", "py": "clear", "params": {}, "kwarg": "kwargs",
                               "ret": "unit"},
    "DeltaPlusCurrent_forward": {"src": CUR, "cls": "DeltaPlusCurrent", "py": "forward", "params": {},
                                 "vararg": ("inputs", "tens"), "kwarg": "kwargs", "ret": "ten"},
    "SingleExponentialCurrent_clear": {"src": EXP, "cls": "SingleExponentialCurrent", "py": "clear", "params": {},
                                       "kwarg": "kwargs", "ret": "unit"},
    "SingleExponentialCurrent_forward": {"src": EXP, "cls": "SingleExponentialCurrent", "py": "forward", "params": {},
                                         "vararg": ("inputs", "tens"), "kwarg": "kwargs", "ret": "ten"},
    "DoubleExponentialCurrent_clear": {"src": EXP, "cls": "DoubleExponentialCurrent", "py": "clear", "params": {},
                                       "kwarg": "kwargs", "ret": "unit"},
    "DoubleExponentialCurrent_current": {"src": EXP, "cls": "DoubleExponentialCurrent", "py": "current",
                                         "decorator": "property", "params": {}, "ret": "ten"},
    "DoubleExponentialCurrent_pos_current": {"src": EXP, "cls": "DoubleExponentialCurrent", "py": "pos_current",
                                             "decorator": "property", "params": {}, "ret": "ten"},
    "DoubleExponentialCurrent_pos_current_setter": {"src": EXP, "cls": "DoubleExponentialCurrent", "py": "pos_current",
                                                    "decorator": "pos_current.setter", "params": {"value": "ten"},
                                                    "ret": "unit"},
    "DoubleExponentialCurrent_neg_current": {"src": EXP, "cls": "DoubleExponentialCurrent", "py": "neg_current",
                                             "decorator": "property", "params": {}, "ret": "ten"},
    "DoubleExponentialCurrent_neg_current_setter": {"src": EXP, "cls": "DoubleExponentialCurrent", "py": "neg_current",
                                                    "decorator": "neg_current.setter", "params": {"value": "ten"},
                                                    "ret": "unit"},
    "DoubleExponentialCurrent_current_at": {"src": EXP, "cls": "DoubleExponentialCurrent", "py": "current_at",
                                            "params": {"selector": "ten"}, "ret": "ten"},
    "DoubleExponentialCurrent_forward": {"src": EXP, "cls": "DoubleExponentialCurrent", "py": "forward", "params": {},
                                         "vararg": ("inputs", "tens"), "kwarg": "kwargs", "ret": "ten"},
}
DROPPED_PARAMS = {"device"}
# the classes users instantiate: name resolution from a mixin must agree with the resolution from each of them
CONCRETE = ("DeltaCurrent", "DeltaPlusCurrent", "SingleExponentialCurrent", "DoubleExponentialCurrent")

# private fields: (class, attribute) -> (field of `SynT`, kind); kind `tocurrent` = a callable, passed as a parameter
FIELDS = {
    ("CurrentMixin", "__interp"): ("CurrentMixin__interp", "kwinterp"),
    ("CurrentMixin", "__interp_kwargs"): ("CurrentMixin__interp_kwargs", "kwargs"),
    ("CurrentMixin", "__overbound"): ("CurrentMixin__overbound", "optfloat"),
    ("CurrentMixin", "__tolerance"): ("CurrentMixin__tolerance", "float"),
    ("SpikeMixin", "__interp"): ("SpikeMixin__interp", "kwinterp"),
    ("SpikeMixin", "__interp_kwargs"): ("SpikeMixin__interp_kwargs", "kwargs"),
    ("SpikeMixin", "__overbound"): ("SpikeMixin__overbound", "optbool"),
    ("SpikeMixin", "__tolerance"): ("SpikeMixin__tolerance", "float"),
    ("SpikeDerivedCurrentMixin", "__interp"): ("SpikeDerivedCurrentMixin__interp", "kwinterp"),
    ("SpikeDerivedCurrentMixin", "__interp_kwargs"): ("SpikeDerivedCurrentMixin__interp_kwargs", "kwargs"),
    ("SpikeDerivedCurrentMixin", "__current_overbound"): ("SpikeDerivedCurrentMixin__current_overbound", "optfloat"),
    ("SpikeDerivedCurrentMixin", "__tolerance"): ("SpikeDerivedCurrentMixin__tolerance", "float"),
    ("SpikeDerivedCurrentMixin", "__to_current"): ("to_current", "tocurrent"),
    ("DoubleExponentialCurrent", "__current_overbound"): ("DoubleExponentialCurrent__current_overbound", "optfloat"),
    ("DoubleExponentialCurrent", "__tolerance"): ("DoubleExponentialCurrent__tolerance", "float"),
}
# public data attributes (set by constructors of the classes / of `InfernoSynapse`): attribute -> (field, kind)
PUBLIC = {"dt": ("dt", "float"), "delay": ("delay", "float"), "inplace": ("inplace", "bool"),
          "spike_charge": ("spike_charge", "float"), "time_constant": ("time_constant", "float"),
          "tc_decay": ("tc_decay", "float"), "tc_rise": ("tc_rise", "float")}
# attributes created by `RecordTensor.create(self, name, …)` / `VirtualTensor.create(self, name, …)`: name -> field
RECORD_FIELDS = {"spike_": "spike_", "current_": "current_", "pos_current_": "pos_current_", "neg_current_": "neg_current_"}
VIRTUAL_FIELDS = {"current_": "vcurrent_"}
# module-level interpolation functions a body may mention (parameters of the generated definition)
GLOBAL_KERNELS = {"interp_expdecay": "kwinterp"}
EXTRA_TY = {"to_current": "ToCurrent α", "interp_expdecay": "KwInterp α"}
EXTRA_ORDER = ("to_current", "interp_expdecay")

# the `RecordTensor` primitives of Gen/SynapsePrelude.lean.  `params`: parameter -> kind, in the order the primitive takes
# them; `mut`: the record object is written back (statement only); `K`: the primitive takes `S.K`; `ret`: kind of the value
EXTERN = {
    "peek": {"params": {}, "mut": False, "K": False, "ret": "ten"},
    "push": {"params": {"obs": "ten", "inplace": "bool"}, "mut": True, "K": True, "ret": None},
    "reset": {"params": {"fill": "optpyval"}, "mut": True, "K": True, "ret": None},
    "select": {"params": {"time": "ten", "interp": "kwinterp", "tolerance": "float", "offset": "int",
                          "interp_kwargs": "kwargs"}, "mut": False, "K": True, "ret": "ten"},
}
# properties of a record object read here: name -> (primitive, kind)
EXTERN_PROPS = {"recordsz": ("RecordTensor_recordsz", "int"), "duration": ("RecordTensor_duration", "float"),
                "value": ("RecordTensor_value", "storeview")}
# `RecordTensor.create(owner, name, step_time, duration, value, …)`: what the glue's abstraction assumes of each record
CREATE_EXPECT = {"owner": "self", "step_time": "self.dt", "duration": "self.delay", "inclusive": "True"}

HEADER = """import InfernoVerif.Gen.SynapsePrelude
/-! GENERATED by harness/progtx_synapse.py from inferno/neural/synapses/mixins.py (`_synparam_at`, `CurrentMixin`,
`SpikeMixin`, `SpikeDerivedCurrentMixin`), inferno/neural/synapses/current.py (`DeltaCurrent`, `DeltaPlusCurrent`) and
inferno/neural/synapses/expcurrent.py (`SingleExponentialCurrent`, `DoubleExponentialCurrent`) — do not edit.
Whole bodies as `Except Err` programs over the synapse state `SynT`, seen from one element of the batched tensor.
Vocabulary: Gen/SynapsePrelude.lean (the `RecordTensor` / `VirtualTensor` methods are primitives; their parameter
order and defaults are read from inferno/core/infrastructure.py). -/
set_option linter.unusedVariables false
namespace InfernoVerif.Gen.SynapseProg
open InfernoVerif.Ring InfernoVerif.Select InfernoVerif.Synapse InfernoVerif.Gen.SynapsePrelude

variable {α : Type}
"""

ARITH = {ast.Add: "add", ast.Sub: "sub", ast.Mult: "mul", ast.Div: "div"}


def decorators(f: ast.FunctionDef) -> list[str]:
    return [ast.unparse(d) for d in f.decorator_list]


def strip_doc(body):
    return [s for s in body if not (isinstance(s, ast.Expr) and isinstance(s.value, ast.Constant)
                                    and isinstance(s.value.value, str))]


def base_names(cdef: ast.ClassDef) -> list[str]:
    return [b.id if isinstance(b, ast.Name) else ast.unparse(b) for b in cdef.bases]


def c3(classes: dict, name: str) -> list[str]:
    """C3 linearisation over the classes of the translated files; a base defined elsewhere is a leaf"""
    if name not in classes:
        return [name]
    bases = base_names(classes[name][0])
    seqs = [c3(classes, b) for b in bases] + [list(bases)]
    out = [name]
    while True:
        seqs = [s for s in seqs if s]
        if not seqs:
            return out
        for s in seqs:
            h = s[0]
            if not any(h in t[1:] for t in seqs):
                break
        else:
            raise TranslateError(f"class {name}", "inconsistent method resolution order")
        out.append(h)
        seqs = [[x for x in s if x != h] for s in seqs]


class SynTx(Tx):
    SRC = MIX
    CLS = None                   # per instance: the class of the method being translated (None: module level)
    METHODS = METHODS
    LEAN_TY = LEAN_TY
    STATE_TY = "SynT α"
    DROPPED_PARAMS = DROPPED_PARAMS
    OUT = "SynapseProg.lean"
    NAMESPACE = "InfernoVerif.Gen.SynapseProg"
    HEADER = HEADER
    CLASSES: dict = {}           # filled by `regenerate`: class name -> (ast.ClassDef, source file)
    CREATED: dict = {}           # (class, attribute) -> {"kind": "rec"} | {"kind": "virtual", "materializer": name}
    IMPORTS: dict = {}           # source file -> set of names imported from `...functional`
    EXTERN_SIGS: dict = {}       # filled by `regenerate` from infrastructure.py
    PURE: dict = {}              # key -> the generated definition never changes the state
    EXTRAS: dict = {}            # key -> extra parameters of the generated definition (`to_current`, kernels)

    def __init__(self, name: str, fdef: ast.FunctionDef, sigs: dict):
        super().__init__(name, fdef, sigs)
        self.SRC = self.spec["src"]
        self.CLS = self.spec["cls"]
        st = self.spec.get("state", "self")
        self.stateless = st is None
        self.state_names = set() if st is None else {st}
        self.extras: list[str] = []
        self.impure = False

    def err(self, node, msg):
        qual = f"{self.CLS}.{self.spec['py']}" if self.CLS else self.spec["py"]
        if self.spec.get("nested"):
            qual += f".{self.spec['nested']}"
        raise TranslateError(f"{self.SRC}::{qual}:{getattr(node, 'lineno', '?')}",
                             f"{msg}: {ast.unparse(node)[:140] if isinstance(node, ast.AST) else node}")

    # ------------------------------------------------------------------ helpers
    def need(self, extra: str):
        if extra not in self.extras:
            self.extras.append(extra)

    def extra_args(self, key: str) -> str:
        for e in self.EXTRAS[key]:
            self.need(e)
        return "".join(" " + e for e in self.EXTRAS[key])

    def is_state(self, n) -> bool:
        return isinstance(n, ast.Name) and n.id in self.state_names

    def state_attr(self, n) -> str | None:
        if isinstance(n, ast.Attribute) and self.is_state(n.value):
            return n.attr
        return None

    def is_private(self, attr: str) -> bool:
        return attr.startswith("__") and not attr.endswith("__")

    def mro(self, cls: str | None = None) -> list[str]:
        return c3({k: v for k, v in self.CLASSES.items()}, cls or self.CLS)

    def find_defs(self, node, attr: str, start: str):
        """first class along the linearisation of `start` that defines `attr` as a function -> (class, [FunctionDef]);
        (None, []) when no class of the translated files defines it"""
        external = None
        for c in self.mro(start):
            if c not in self.CLASSES:
                external = external or c      # defined elsewhere (`InfernoSynapse`): may define anything
                continue
            body = self.CLASSES[c][0].body
            defs = [f for f in body if isinstance(f, ast.FunctionDef) and f.name == attr]
            if defs:
                if external is not None:
                    self.err(node, f"{attr}: class {external} (not translated) precedes {c} in the linearisation of {start}")
                return c, defs
            if any(isinstance(t, ast.Name) and t.id == attr for s in body if isinstance(s, (ast.Assign, ast.AnnAssign))
                   for t in (s.targets if isinstance(s, ast.Assign) else [s.target])):
                self.err(node, f"{attr} is a class attribute of {c}")
        return None, []

    def dynamic_classes(self) -> list[str]:
        """the concrete classes an object running this method can have"""
        return [k for k in CONCRETE if k in self.CLASSES and self.CLS in self.mro(k)]

    def resolve(self, node, attr: str, role: str) -> str:
        """generated definition that `self.<attr>` means; role: 'getter' | 'setter' | 'method'"""
        if self.CLS is None:
            self.err(node, "attribute of the object in a module-level function")
        c, defs = self.find_defs(node, attr, self.CLS)
        if c is None:
            self.err(node, f"{attr} is not defined by a class of the translated files")
        for k in self.dynamic_classes():
            ck, _ = self.find_defs(node, attr, k)
            if ck != c:
                self.err(node, f"{attr} resolves to {c}.{attr} from {self.CLS} but to {ck}.{attr} from {k}")
        has_getter = any(decorators(f) == ["property"] for f in defs)
        if (role == "method") == has_getter:
            self.err(node, f"{c}.{attr}: property / method mismatch")
        want = {"getter": "property", "setter": f"{attr}.setter", "method": None}[role]
        if role == "setter" and not any(decorators(f) == [want] for f in defs):
            self.err(node, f"{c}.{attr} has no setter")
        for key, spec in self.METHODS.items():
            if spec["cls"] == c and spec["py"] == attr and spec.get("decorator") == want and not spec.get("nested"):
                if key not in self.PURE:
                    self.err(node, f"{key} is used before it is generated")
                return key
        self.err(node, f"{attr} resolves to {c}.{attr} ({role}), which is not translated")

    def created(self, node, attr: str) -> tuple[str, dict] | None:
        """`self.<attr>` as an attribute created by a constructor of the classes -> (creating class, facts)"""
        if self.CLS is None:
            return None
        mine = [c for c in self.mro() if (c, attr) in self.CREATED]
        if not mine:
            return None
        if len(mine) != 1:
            self.err(node, f"{attr} is created by several constructors: {mine}")
        for k in self.dynamic_classes():
            ks = [c for c in self.mro(k) if (c, attr) in self.CREATED]
            if ks != mine:
                self.err(node, f"{attr} is created by {mine} seen from {self.CLS} but by {ks} seen from {k}")
        return mine[0], self.CREATED[(mine[0], attr)]

    def is_data_attr(self, node, attr: str):
        c, _ = self.find_defs(node, attr, self.CLS) if self.CLS else (None, [])
        if c is not None:
            self.err(node, f"{attr} is defined by class {c}, not a data attribute")

    def record_of(self, n, env=None) -> str | None:
        """`self.spike_` …, or a local / parameter holding a record -> text of the record object"""
        if isinstance(n, ast.Name) and env is not None and env.get(n.id, ("", ""))[1] == "rec" \
                and n.id not in self.state_names:
            return env[n.id][0]
        a = self.state_attr(n)
        if a is None:
            return None
        cr = self.created(n, a)
        if cr is not None and cr[1]["kind"] == "rec":
            if a not in RECORD_FIELDS:
                self.err(n, f"record {a} is not a field of the state")
            self.is_data_attr(n, a)
            return f"self.{RECORD_FIELDS[a]}"
        return None

    def virtual_of(self, n) -> tuple[str, str] | None:
        """`self.current_` where it is a VirtualTensor -> (text, key of its materializer)"""
        a = self.state_attr(n)
        if a is None:
            return None
        cr = self.created(n, a)
        if cr is not None and cr[1]["kind"] == "virtual":
            if a not in VIRTUAL_FIELDS:
                self.err(n, f"virtual tensor {a} is not a field of the state")
            self.is_data_attr(n, a)
            return f"self.{VIRTUAL_FIELDS[a]}", self.resolve(n, cr[1]["materializer"], "method")
        return None

    def as_float(self, node, v: str, k: str) -> str:
        if k == "float":
            return v
        if k == "int" and isinstance(node, ast.Constant):
            return f"(S.K.ofInt {node.value})" if node.value >= 0 else f"(S.K.ofInt ({node.value}))"
        self.err(node, f"value of kind {k} where a float is expected")

    def coerce(self, node, v: str, k: str, want: str) -> str:
        """argument of kind `k` handed to a parameter of kind `want`"""
        if k == want:
            return v
        if want == "pyval" and k == "float":
            return f"(PyVal.f {v})"
        if want == "pyval" and k == "bool":
            return f"(PyVal.b {v})"
        if want == "optpyval":
            if k == "none":
                return "none"
            if k == "optfloat":
                return f"({v}.map PyVal.f)"
            if k == "optbool":
                return f"({v}.map PyVal.b)"
            if k == "optpyval":
                return v
            if k in ("float", "bool", "pyval"):
                return f"(some {self.coerce(node, v, k, 'pyval')})"
        if want == "opttransform":
            if k == "none":
                return "none"
            if k == "transform":
                return f"(some {v})"
        if want == "float" and k == "int":
            return self.as_float(node, v, k)
        if want == "kwargs" and k == "none":
            return "[]"
        self.err(node, f"argument of kind {k}, expected {want}")

    # ------------------------------------------------------------------ expressions
    def ex(self, n, env):
        """-> (lean text, kind); monadic sub-terms are written `(← …)` (Lean evaluates them left to right, as Python
        evaluates the operands)"""
        key = "@" + ast.unparse(n) if isinstance(n, ast.Attribute) else None
        if key is not None and key in env:
            return env[key]                              # an optional attribute refined by `is not None`
        if isinstance(n, ast.Constant):
            if isinstance(n.value, bool):
                return ("true" if n.value else "false"), "bool"
            if n.value is None:
                return "none", "none"
            if type(n.value) is int:
                return (f"({n.value} : Int)" if n.value >= 0 else f"(-{-n.value} : Int)"), "int"
            if type(n.value) is float and n.value == int(n.value) and abs(n.value) < 2 ** 31:
                i = int(n.value)
                return (f"(S.K.ofInt {i})" if i >= 0 else f"(S.K.ofInt ({i}))"), "float"
            if isinstance(n.value, str):
                return json.dumps(n.value), "str"
            self.err(n, "unsupported constant")
        if isinstance(n, ast.Name):
            if n.id in self.state_names:
                return "self", "state"
            if n.id in env:
                return env[n.id]
            if n.id in GLOBAL_KERNELS:
                if n.id not in self.IMPORTS.get(self.SRC, ()):
                    self.err(n, "name is not imported from the functional module")
                self.need(n.id)
                return n.id, GLOBAL_KERNELS[n.id]
            self.err(n, "unknown name")
        a = self.state_attr(n)
        if a is not None:
            if self.is_private(a):
                f = FIELDS.get((self.CLS, a))
                if f is None:
                    self.err(n, f"unknown private attribute of class {self.CLS}")
                if f[1] == "tocurrent":
                    self.need(f[0])
                    return f[0], "tocurrent"
                return f"self.{f[0]}", f[1]
            rec = self.record_of(n)
            if rec is not None:
                return rec, "rec"
            vt = self.virtual_of(n)
            if vt is not None:
                return vt[0], "vten"
            if a in PUBLIC:
                self.is_data_attr(n, a)
                return f"self.{PUBLIC[a][0]}", PUBLIC[a][1]
            k = self.resolve(n, a, "getter")
            if not self.PURE[k]:
                self.err(n, f"{k} changes the state and is used inside an expression")
            return f"(← {k} S{self.extra_args(k)} self).2", self.METHODS[k]["ret"]
        if isinstance(n, ast.Attribute):
            return self.attribute(n, env)
        if isinstance(n, ast.UnaryOp):
            v, k = self.ex(n.operand, env)
            if isinstance(n.op, ast.USub) and k == "float":
                return f"(S.K.neg {v})", "float"
            if isinstance(n.op, ast.USub) and k == "int" and isinstance(n.operand, ast.Constant):
                return f"(-{n.operand.value} : Int)", "int"
            if isinstance(n.op, ast.Not) and k == "bool":
                return f"(!{v})", "bool"
            self.err(n, f"unsupported unary operation on kind {k}")
        if isinstance(n, ast.BinOp):
            return self.arith(n, env)
        if isinstance(n, ast.Compare) and len(n.ops) == 1:
            return self.compare(n, env)
        if isinstance(n, ast.Subscript):
            return self.subscript(n, env)
        if isinstance(n, ast.Tuple):
            return self.tuple_of_tensors(n, env)
        if isinstance(n, ast.Dict):
            items = []
            for kk, vv in zip(n.keys, n.values):
                if not (isinstance(kk, ast.Constant) and isinstance(kk.value, str)):
                    self.err(n, "dictionary key is not a string literal")
                v, k = self.ex(vv, env)
                if k != "float" or "←" in v:
                    self.err(vv, f"keyword argument value of kind {k}")
                items.append(f"({json.dumps(kk.value)}, {v})")
            return "[" + ", ".join(items) + "]", "kwargs"
        if isinstance(n, ast.Lambda):
            return self.lambda_(n, env)
        if isinstance(n, ast.Call):
            return self.call(n, env)
        self.err(n, "unsupported expression")

    def attribute(self, n: ast.Attribute, env):
        # properties of a record object
        rec = self.record_of(n.value, env)
        if rec is not None:
            if n.attr in EXTERN_PROPS:
                if n.attr not in self.EXTERN_SIGS.get("__props__", ()):
                    self.err(n, f"RecordTensor.{n.attr} is not a property in {INFRA}")
                prim, kind = EXTERN_PROPS[n.attr]
                return f"({prim} {rec})", kind
            self.err(n, "unsupported attribute of a RecordTensor")
        vt = self.virtual_of(n.value)
        if vt is not None:
            if n.attr in ("dtype", "device"):
                if n.attr not in self.EXTERN_SIGS.get("__vprops__", ()):
                    self.err(n, f"VirtualTensor.{n.attr} is not a property in {INFRA}")
                return (f"{vt[0]}.dtype", "dtype") if n.attr == "dtype" else ("()", "device")
            if n.attr == "value":
                if "value" not in self.EXTERN_SIGS.get("__vprops__", ()):
                    self.err(n, f"VirtualTensor.value is not a property in {INFRA}")
                k = vt[1]
                spec = self.METHODS[k]
                if list(spec["params"].values()) != ["dtype"] or spec["ret"] != "ten" or not self.PURE[k]:
                    self.err(n, f"materializer {k} does not have the shape (dtype, device) -> tensor")
                return (f"(← VirtualTensor_value S.K {vt[0]} (fun dtype_ => do pure "
                        f"(← {k} S{self.extra_args(k)} self dtype_).2))"), "ten"
            self.err(n, "unsupported attribute of a VirtualTensor")
        v, k = self.ex(n.value, env)
        if k == "ten" and n.attr == "ndim":
            return f"{v}.ndim", "int"
        if k == "ten" and n.attr == "shape":
            return f"{v}.shape", "tshape"
        if k == "storeview" and n.attr == "dtype":
            return f"{v}.dtype", "dtype"
        if k in ("storeview", "ten") and n.attr == "device":
            return "()", "device"
        self.err(n, f"unsupported attribute of kind {k}")

    def arith(self, n: ast.BinOp, env):
        a, ka = self.ex(n.left, env)
        b, kb = self.ex(n.right, env)
        op = ARITH.get(type(n.op))
        if op is None:
            self.err(n, "unsupported operator")
        if ka == "float" and kb == "float":
            return f"(S.K.{op} {a} {b})", "float"
        if ka == "int" and kb == "int" and op in ("add", "sub"):
            return f"({a} {'+' if op == 'add' else '-'} {b})", "int"
        if ka == "ten" and kb == "ten" and op in ("add", "sub"):
            return f"({a}.{op} S.K {b})", "ten"
        if ka == "ten" and kb == "float" and op == "mul":
            return f"({a}.mulF S.K {b})", "ten"
        if ka == "float" and kb == "ten" and op == "mul":
            return f"(Ten.fmul S.K {a} {b})", "ten"
        self.err(n, f"unsupported arithmetic on kinds {ka}, {kb}")

    def compare(self, n: ast.Compare, env):
        a, ka = self.ex(n.left, env)
        b, kb = self.ex(n.comparators[0], env)
        op = n.ops[0]
        if ka == "int" and kb == "int" and isinstance(op, (ast.Eq, ast.NotEq)):
            return f"(decide ({a} {'=' if isinstance(op, ast.Eq) else '≠'} {b}))", "bool"
        if ka == "ten" and kb == "float" and isinstance(op, ast.LtE):
            return f"({a}.le S.K {b})", "mask"
        if isinstance(op, (ast.Is, ast.IsNot)) and kb == "none" and ka.startswith("opt"):
            return (f"{a}.isNone" if isinstance(op, ast.Is) else f"{a}.isSome"), "bool"
        self.err(n, f"unsupported comparison on kinds {ka}, {kb}")

    def subscript(self, n, env):
        v, k = self.ex(n.value, env)
        sl = n.slice
        if k == "tens":
            if isinstance(sl, ast.Constant) and type(sl.value) is int:
                i = f"({sl.value} : Int)" if sl.value >= 0 else f"(-{-sl.value} : Int)"
                return f"(← pyGetItem {v} {i})", "ten"
            if isinstance(sl, ast.Slice) and sl.upper is None and sl.step is None and isinstance(sl.lower, ast.Constant) \
                    and type(sl.lower.value) is int and sl.lower.value >= 0:
                return f"({v}.drop {sl.lower.value})", "tens"
        self.err(n, f"unsupported subscript on kind {k}")

    def tuple_of_tensors(self, n: ast.Tuple, env):
        """`(x, y, *rest)` as a list of tensors"""
        parts = []
        for e in n.elts:
            if isinstance(e, ast.Starred):
                v, k = self.ex(e.value, env)
                if k != "tens":
                    self.err(e, f"starred element of kind {k}")
                parts.append((v, True))
            else:
                v, k = self.ex(e, env)
                if k != "ten":
                    self.err(e, f"tuple element of kind {k}")
                parts.append((v, False))
        acc = "[]"
        for v, star in reversed(parts):
            if star:
                acc = v if acc == "[]" else f"({v} ++ {acc})"
            else:
                acc = f"({v} :: {acc})"
        return acc, "tens"

    def lambda_(self, n: ast.Lambda, env):
        """`lambda x: <tensor expression>`; further parameters must default to the object itself (`m=self`)"""
        a = n.args
        if a.vararg or a.kwarg or a.kwonlyargs or a.posonlyargs or not a.args:
            self.err(n, "unsupported lambda signature")
        names = [x.arg for x in a.args]
        if len(a.defaults) != len(names) - 1 or not all(self.is_state(d) for d in a.defaults):
            self.err(n, "lambda parameters after the first must default to the object")
        x = names[0]
        if x in env or x in self.state_names or any(m in env for m in names[1:]):
            self.err(n, "lambda parameter shadows a name")
        saved = set(self.state_names)
        self.state_names |= set(names[1:])
        env_b = dict(env)
        env_b[x] = (lname(x), "ten")
        try:
            v, k = self.ex(n.body, env_b)
        finally:
            self.state_names = saved
        if k != "ten":
            self.err(n, f"lambda returns kind {k}")
        if "←" in v:
            return f"(fun {lname(x)} => do pure {v})", "transform"
        return f"(fun {lname(x)} => pure {v})", "transform"

    def dropped_device(self, node, env):
        v, k = self.ex(node, env)
        if k != "device":
            self.err(node, f"device argument of kind {k}")

    def call(self, n: ast.Call, env):
        f = n.func
        ftxt = ast.unparse(f)
        kws = {kw.arg: kw.value for kw in n.keywords}
        if None in kws:
            self.err(n, "**kwargs in a call")
        # callables held in local names / private fields
        if isinstance(f, ast.Name) and env.get(f.id, ("", ""))[1] == "transform" and len(n.args) == 1 and not kws:
            v, k = self.ex(n.args[0], env)
            if k != "ten":
                self.err(n, f"transform applied to kind {k}")
            return f"(← {env[f.id][0]} {v})", "ten"
        fa = self.state_attr(f)
        if fa is not None and self.is_private(fa) and FIELDS.get((self.CLS, fa), ("", ""))[1] == "tocurrent":
            if kws or len(n.args) != 4 or not self.is_state(n.args[0]):
                self.err(n, "unsupported call of the stored conversion function")
            d, kd = self.ex(n.args[1], env)
            self.dropped_device(n.args[2], env)
            x, kx = self.ex(n.args[3], env)
            if kd != "dtype" or kx != "ten":
                self.err(n, f"conversion function called on kinds {kd}, {kx}")
            self.need("to_current")
            return f"(← to_current self {d} {x}).2", "ten"
        # builtins / math / torch
        if ftxt == "math.exp" and len(n.args) == 1 and not kws:
            v, k = self.ex(n.args[0], env)
            if k == "float":
                return f"(S.exp {v})", "float"
        if ftxt == "sum" and len(n.args) == 1 and not kws:
            v, k = self.ex(n.args[0], env)
            if k == "tens":
                return f"(pySum S.K {v})", "ten"
        if ftxt == "torch.where" and len(n.args) == 3 and not kws:
            m, km = self.ex(n.args[0], env)
            x, kx = self.ex(n.args[1], env)
            o, ko = self.ex(n.args[2], env)
            if km == "mask" and kx == "ten" and ko in ("float", "bool", "pyval"):
                return f"(torch_where S.K {m} {x} {self.coerce(n.args[2], o, ko, 'pyval')})", "ten"
            self.err(n, f"torch.where on kinds {km}, {kx}, {ko}")
        # tensor methods
        if isinstance(f, ast.Attribute) and fa is None:
            recv = f.value
            rec = self.record_of(recv, env)
            if rec is not None and f.attr in EXTERN:
                v, k = self.extern_call(n, rec, f.attr, env)
                if v is None:
                    self.err(n, f"RecordTensor.{f.attr} used as a value")
                return v, k
            if rec is None and self.virtual_of(recv) is None:
                v, k = self.ex(recv, env)
                if k == "ten":
                    if f.attr == "bool" and not n.args and not kws:
                        return f"({v}.bool S.K)", "ten"
                    if f.attr == "abs" and not n.args and not kws:
                        return f"({v}.abs S.K)", "ten"
                    if f.attr == "to" and not n.args and set(kws) <= {"dtype", "device"} and "dtype" in kws:
                        d, kd = self.ex(kws["dtype"], env)
                        if "device" in kws:
                            self.dropped_device(kws["device"], env)
                        if kd == "dtype":
                            return f"({v}.to S.K {d})", "ten"
                    if f.attr == "clamp" and not n.args and set(kws) == {"min", "max"}:
                        lo, klo = self.ex(kws["min"], env)
                        hi, khi = self.ex(kws["max"], env)
                        return (f"({v}.clamp S.K {self.as_float(kws['min'], lo, klo)} "
                                f"{self.as_float(kws['max'], hi, khi)})"), "ten"
                    if f.attr == "unsqueeze" and len(n.args) == 1 and not kws:
                        d, kd = self.ex(n.args[0], env)
                        if kd == "int":
                            return f"({v}.unsqueeze {d})", "ten"
                    if f.attr == "expand" and len(n.args) == 1 and not kws and isinstance(n.args[0], ast.Starred):
                        s, ks = self.ex(n.args[0].value, env)
                        if ks == "tshape":
                            return f"({v}.expand {s})", "ten"
                self.err(n, f"unsupported method {f.attr} on kind {k}")
        # module-level functions among the translated ones
        if isinstance(f, ast.Name) and f.id in self.METHODS and self.METHODS[f.id]["cls"] is None:
            return self.function_call(n, f.id, env)
        self.err(n, "unsupported call")

    def bind_args(self, c: ast.Call, order: list[str], defaults: dict, args=None) -> dict:
        """argument nodes by parameter name (positional, keyword, then the default read from the source)"""
        args = list(c.args) if args is None else args
        bound = {}
        for i, x in enumerate(args):
            if isinstance(x, ast.Starred) or i >= len(order):
                self.err(c, "unsupported positional arguments")
            bound[order[i]] = x
        for kw in c.keywords:
            if kw.arg is None or kw.arg not in order or kw.arg in bound:
                self.err(c, "unsupported keyword arguments")
            bound[kw.arg] = kw.value
        for p in order:
            if p not in bound:
                if p not in defaults:
                    self.err(c, f"missing argument {p}")
                bound[p] = defaults[p]
        return bound

    def function_call(self, c: ast.Call, key: str, env):
        """a translated module-level function (stateless): positional arguments are bound by ITS signature"""
        spec, sig = self.METHODS[key], self.sigs[key]
        if key not in self.PURE:
            self.err(c, f"{key} is used before it is generated")
        bound = self.bind_args(c, sig["order"], sig["defaults"])
        out = []
        for p in sig["order"]:
            if p in self.DROPPED_PARAMS:
                continue
            v, k = self.ex(bound[p], env)
            out.append(self.coerce(bound[p], v, k, spec["params"][p]))
        return f"(← {key} S{self.extra_args(key)}{''.join(' ' + a for a in out)})", spec["ret"]

    def extern_call(self, c: ast.Call, rec: str, meth: str, env):
        """`<record>.<meth>(…)` -> (value text, kind), or (text of the new record object, None) for a mutator"""
        spec, sig = EXTERN[meth], self.EXTERN_SIGS.get(meth)
        if sig is None:
            self.err(c, f"signature of RecordTensor.{meth} not read")
        bound = self.bind_args(c, sig["order"], sig["defaults"])
        args = []
        for p, want in spec["params"].items():
            v, k = self.ex(bound[p], env)
            if meth == "select" and p == "tolerance" and isinstance(bound[p], ast.Constant):
                self.err(c, "tolerance of `select` left at its default")
            if meth == "select" and p == "interp" and k == "none":
                self.err(c, "`select` called without an interpolation function")
            args.append(self.coerce(bound[p], v, k, want))
        call = f"RecordTensor_{meth}{' S.K' if spec['K'] else ''} {rec}{''.join(' ' + a for a in args)}"
        if spec["mut"]:
            return None, f"(← {call})"
        return f"(← {call})", spec["ret"]

    # ------------------------------------------------------------------ statements
    def carry(self, names, env):
        items = ([] if self.stateless else ["self"]) + [env[x][0] for x in names]
        if not items:
            return "()"
        return f"({', '.join(items)})" if len(items) > 1 else items[0]

    def ret_text(self, v: str, d) -> str:
        I = self.ind(d)
        return f"{I}pure {v}\n" if self.stateless else f"{I}pure (self, {v})\n"

    def fall_off(self, d) -> str:
        if self.spec["ret"] == "unit":
            return self.ret_text("()", d)
        self.err(self.fdef, "falls off the end without returning")

    def block(self, stmts, env, alias, d, cont) -> str:
        if not stmts:
            return cont(env, alias, d)
        s, rest = stmts[0], stmts[1:]
        I = self.ind(d)
        if isinstance(s, ast.Pass):
            return self.block(rest, env, alias, d, cont)
        if isinstance(s, ast.Raise):
            exc = s.exc.func.id if isinstance(s.exc, ast.Call) and isinstance(s.exc.func, ast.Name) else None
            if exc not in progtx.ERRS:
                self.err(s, "unsupported exception")
            return f"{I}throw Err.{exc}\n"
        if isinstance(s, ast.Return):
            if s.value is None:
                return self.fall_off(d)
            v, k = self.ex(s.value, env)
            if k != self.spec["ret"]:
                self.err(s, f"returns kind {k}, expected {self.spec['ret']}")
            return self.ret_text(v, d)
        if isinstance(s, (ast.With, ast.Assert, ast.For, ast.While, ast.Try, ast.AugAssign, ast.FunctionDef)):
            self.err(s, "unsupported statement")
        return super().block(stmts, env, alias, d, cont)

    def set_state(self, text: str, d) -> str:
        if self.stateless:
            self.err(self.fdef, "state changed in a stateless function")
        self.impure = True
        return f"{self.ind(d)}let self := {text}\n"

    def call_stmt(self, c: ast.Call, env, alias, d, nxt) -> str:
        f = c.func
        if isinstance(f, ast.Attribute):
            rec = self.record_of(f.value)
            if rec is not None and f.attr in EXTERN:
                v, new = self.extern_call(c, rec, f.attr, env)
                if v is not None:
                    self.err(c, f"value of RecordTensor.{f.attr} dropped")
                if not rec.startswith("self."):
                    self.err(c, "record held in a local is mutated")
                return self.set_state(f"{{ self with {rec[len('self.'):]} := {new} }}", d) + nxt(env, alias, d)
        self.err(c, "unsupported call statement")

    def assign(self, s: ast.Assign, env, alias, d, nxt) -> str:
        I = self.ind(d)
        t = s.targets[0]
        a = self.state_attr(t)
        if a is not None:
            # self.<property> = v : the setter the class inherits
            if self.is_private(a) or a in PUBLIC or self.created(t, a) is not None:
                self.err(s, "assignment to a data attribute")
            key = self.resolve(t, a, "setter")
            (kind,) = self.METHODS[key]["params"].values()
            v, k = self.ex(s.value, env)
            if k != kind:
                self.err(s, f"property {a} assigned a value of kind {k}")
            return self.set_state(f"(← {key} S{self.extra_args(key)} self {v}).1", d) + nxt(env, alias, d)
        if isinstance(t, ast.Name):
            if t.id in self.state_names or t.id in GLOBAL_KERNELS:
                self.err(s, "assignment to a reserved name")
            v, k = self.ex(s.value, env)
            if k in ("none", "state", "device", "str", "storeview", "tocurrent", "vten"):
                self.err(s, f"local bound to a value of kind {k}")
            if t.id in env and env[t.id][1] != k:
                self.err(s, f"local rebound with another kind ({env[t.id][1]}, {k})")
            env = dict(env)
            env[t.id] = (lname(t.id), k)
            return f"{I}let {lname(t.id)} := {v}\n" + nxt(env, alias, d)
        self.err(s, "unsupported assignment")

    def opt_test(self, test, env):
        """`X is not None` / `X is None` on an optional local or attribute -> (text, key in env, refined kind, positive)"""
        if isinstance(test, ast.Compare) and len(test.ops) == 1 and isinstance(test.ops[0], (ast.Is, ast.IsNot)) \
                and isinstance(test.comparators[0], ast.Constant) and test.comparators[0].value is None:
            x = test.left
            if isinstance(x, ast.Name) and x.id in env and env[x.id][1].startswith("opt"):
                return env[x.id][0], x.id, env[x.id][1][3:], isinstance(test.ops[0], ast.IsNot)
            if isinstance(x, ast.Attribute) and self.state_attr(x) is not None:
                v, k = self.ex(x, env)
                if k.startswith("opt") and "←" not in v:
                    return v, "@" + ast.unparse(x), k[3:], isinstance(test.ops[0], ast.IsNot)
        return None

    def if_stmt(self, s: ast.If, rest, env, alias, d, cont) -> str:
        t = s.test
        body, orelse = list(s.body), list(s.orelse)
        # `if not f: f = lambda x: x` for an optional callable
        if not orelse and len(body) == 1 and isinstance(t, ast.UnaryOp) and isinstance(t.op, ast.Not) \
                and isinstance(t.operand, ast.Name) and env.get(t.operand.id, ("", ""))[1] == "opttransform":
            nm = t.operand.id
            a = body[0]
            if isinstance(a, ast.Assign) and len(a.targets) == 1 and isinstance(a.targets[0], ast.Name) \
                    and a.targets[0].id == nm:
                v, k = self.ex(a.value, env)
                if k == "transform" and "←" not in v:
                    env = dict(env)
                    old = env[nm][0]
                    env[nm] = (lname(nm), "transform")
                    return f"{self.ind(d)}let {lname(nm)} := ({old}.getD {v})\n" + self.block(rest, env, alias, d, cont)
            self.err(s, "unsupported default of an optional callable")
        # `if c: x = e` with a boolean test: the conditional rebinding of `Tx` (no effects inside)
        if not orelse and len(body) == 1 and isinstance(body[0], ast.Assign) and isinstance(body[0].targets[0], ast.Name) \
                and self.opt_test(t, env) is None:
            nm = body[0].targets[0].id
            if nm not in env:
                self.err(s, "conditional binding of a new local")
            c, kc = self.ex(t, env)
            v, k = self.ex(body[0].value, env)
            if kc != "bool" or k != env[nm][1] or "←" in c + v:
                self.err(s, "unsupported conditional rebinding")
            return f"{self.ind(d)}let {env[nm][0]} := if {c} then {v} else {env[nm][0]}\n" + self.block(rest, env, alias, d, cont)
        if not rest and (not orelse or (self.terminates(body) and self.terminates(orelse))):
            return self.branch(t, body, orelse, env, alias, d, cont)
        if self.terminates(body) or (orelse and self.terminates(orelse)):
            self.err(s, "conditional with a returning branch followed by statements")
        return self.join_if(s, body, orelse, rest, env, alias, d, cont)

    def branch(self, test, body, orelse, env, alias, d, cont) -> str:
        I = self.ind(d)
        ot = self.opt_test(test, env)
        if ot is not None:
            v, key, kind, positive = ot
            some_b, none_b = (body, orelse) if positive else (orelse, body)
            nm = lname(key) if not key.startswith("@") else "ov_"
            env_s = dict(env)
            env_s[key] = (nm, kind)
            return (f"{I}match {v} with\n{I}| some {nm} =>\n" + self.block(some_b, env_s, alias, d + 1, cont)
                    + f"{I}| none =>\n" + self.block(none_b, env, alias, d + 1, cont))
        c, kc = self.ex(test, env)
        if kc != "bool":
            self.err(test, f"condition of kind {kc}")
        return (f"{I}if {c} then\n" + self.block(body, env, alias, d + 1, cont)
                + f"{I}else\n" + self.block(orelse, env, alias, d + 1, cont))

    def join_if(self, s, body, orelse, rest, env, alias, d, cont) -> str:
        """a conditional that falls through into `rest`: its branches return the state (unless stateless) and the
        locals they bind, then `rest` continues.  A name bound to a Python int on one path and to a tensor on another
        is carried as a tensor (`Ten.ofInt`: the int as a 0-dim operand)."""
        I = self.ind(d)
        names = list(self.assigned(body + orelse))
        kinds: dict = {}

        def probe(e, a, dd):
            for x in names:
                if x not in e:
                    self.err(s, f"{x} is not bound on every path that falls through")
                kinds.setdefault(x, set()).add(e[x][1])
            return ""

        saved = (self.fresh, list(self.extras), self.impure)
        self.branch(s.test, body, orelse, env, alias, d + 1, probe)
        self.fresh, self.extras, self.impure = saved[0], saved[1], saved[2]
        final = {}
        for x in names:
            ks = kinds.get(x)
            if not ks:
                self.err(s, "no path falls through")
            if len(ks) == 1:
                (final[x],) = ks
            elif ks == {"int", "ten"}:
                final[x] = "ten"
            else:
                self.err(s, f"{x} is bound to different kinds {sorted(ks)}")
            if x in env and env[x][1] != final[x]:
                self.err(s, f"{x} is rebound with another kind")

        def leaf(e, a, dd):
            e2 = dict(e)
            for x in names:
                v, k = e[x]
                if k != final[x]:
                    e2[x] = (f"(Ten.ofInt S.K {v})", final[x])
            return f"{self.ind(dd)}pure {self.carry(names, e2)}\n"

        inner = self.branch(s.test, body, orelse, env, alias, d + 1, leaf)
        env = dict(env)
        for x in names:
            env[x] = (lname(x), final[x])
        return f"{I}let {self.carry(names, env)} ← (do\n{inner}{I}  : Except Err _)\n" + self.block(rest, env, alias, d, cont)

    # ------------------------------------------------------------------ whole function
    def emit(self) -> str:
        spec, sig = self.spec, self.sigs[self.name]
        qual = f"{self.CLS}.{spec['py']}" if self.CLS else spec["py"]
        where = f"{self.SRC}::{qual}" + (f".{spec['nested']}" if spec.get("nested") else "")
        params = [p for p in sig["order"] if p not in self.DROPPED_PARAMS]
        if params != list(spec["params"]):
            raise TranslateError(where, f"signature changed: {params} (expected {list(spec['params'])})")
        va = spec.get("vararg", (None,))[0]
        kw = spec.get("kwarg")
        if (sig["vararg"], sig["kwarg"]) != (va, kw):
            raise TranslateError(where, f"signature changed: *{sig['vararg']}, **{sig['kwarg']}")
        if kw is not None and any(isinstance(x, ast.Name) and x.id == kw for x in ast.walk(self.fdef)):
            raise TranslateError(where, f"the body reads **{kw}")
        for x in ast.walk(self.fdef):
            if isinstance(x, ast.Name) and x.id in DROPPED_PARAMS and isinstance(x.ctx, ast.Store):
                raise TranslateError(where, "a dropped parameter is assigned")
        env = {p: (lname(p), k) for p, k in spec["params"].items()}
        for p in sig["order"]:
            if p in self.DROPPED_PARAMS:
                env[p] = ("()", "device")
        plist = [(lname(p), self.LEAN_TY[k]) for p, k in spec["params"].items()]
        if spec.get("vararg"):
            env[spec["vararg"][0]] = (lname(spec["vararg"][0]), spec["vararg"][1])
            plist.append((lname(spec["vararg"][0]), self.LEAN_TY[spec["vararg"][1]]))
        tail = lambda e, a, dd: self.fall_off(dd)   # noqa: E731
        body = self.block(strip_doc(list(self.fdef.body)), env, {}, 1, tail)
        extras = [e for e in EXTRA_ORDER if e in self.extras]
        if sorted(extras) != sorted(self.extras):
            raise TranslateError(where, f"unknown extra parameters {self.extras}")
        etxt = "".join(f" ({e} : {EXTRA_TY[e]})" for e in extras)
        ptxt = "".join(f" ({p} : {t})" for p, t in plist)
        ret = self.LEAN_TY[spec["ret"]]
        self.EXTRAS[self.name] = extras
        self.PURE[self.name] = not self.impure
        if self.stateless:
            return f"def {self.name} (S : SOps α){etxt}{ptxt} : Except Err ({ret}) := do\n" + body
        return (f"def {self.name} (S : SOps α){etxt} (self : {self.STATE_TY}){ptxt} : "
                f"Except Err ({self.STATE_TY} × {ret}) := do\n" + body)


# ---------------------------------------------------------------------- reading the sources
def locate(trees: dict, classes: dict, key: str, spec: dict) -> ast.FunctionDef:
    qual = f"{spec['cls']}.{spec['py']}" if spec["cls"] else spec["py"]
    where = f"{spec['src']}::{qual}"
    if spec["cls"] is None:
        body = trees[spec["src"]].body
    else:
        if spec["cls"] not in classes or classes[spec["cls"]][1] != spec["src"]:
            raise TranslateError(spec["src"], f"class {spec['cls']} not found")
        body = classes[spec["cls"]][0].body
    want = [spec["decorator"]] if spec.get("decorator") else []
    found = [n for n in body if isinstance(n, ast.FunctionDef) and n.name == spec["py"] and decorators(n) == want]
    if len(found) != 1:
        raise TranslateError(where, f"{len(found)} definitions with decorators {want}")
    f = found[0]
    if spec.get("nested"):
        inner = [n for n in ast.walk(f) if isinstance(n, ast.FunctionDef) and n.name == spec["nested"] and n is not f]
        if len(inner) != 1:
            raise TranslateError(where, f"{len(inner)} closures named {spec['nested']}")
        # the closure must not capture anything of the enclosing scope but module-level names
        bound = {a.arg for a in inner[0].args.args} | {x.id for x in ast.walk(inner[0]) if isinstance(x, ast.Name)
                                                        and isinstance(x.ctx, ast.Store)}
        outer = {a.arg for a in f.args.args + f.args.kwonlyargs} | \
                {x.id for x in ast.walk(f) if isinstance(x, ast.Name) and isinstance(x.ctx, ast.Store)}
        free = {x.id for x in ast.walk(inner[0]) if isinstance(x, ast.Name) and isinstance(x.ctx, ast.Load)} - bound
        if free & outer:
            raise TranslateError(where, f"closure {spec['nested']} captures {sorted(free & outer)}")
        return inner[0]
    return f


def signature(f: ast.FunctionDef, where: str, drop_first: str | None) -> dict:
    a = f.args
    pos = [x.arg for x in a.posonlyargs + a.args]
    if drop_first is not None:
        if not pos or pos[0] != drop_first:
            raise TranslateError(where, f"first parameter is not {drop_first}")
        pos = pos[1:]
    order = pos + [x.arg for x in a.kwonlyargs]
    defaults = dict(zip(pos[len(pos) - len(a.defaults):], a.defaults))
    defaults.update({x.arg: dflt for x, dflt in zip(a.kwonlyargs, a.kw_defaults) if dflt is not None})
    return {"order": order, "defaults": defaults, "vararg": a.vararg.arg if a.vararg else None,
            "kwarg": a.kwarg.arg if a.kwarg else None}


def extern_sigs() -> dict:
    """signatures (parameter order, defaults) of the `RecordTensor` methods the translated bodies call, of
    `RecordTensor.create` / `VirtualTensor.create`, and the existence of the properties they read — from
    inferno/core/infrastructure.py"""
    tree = ast.parse((REPO / INFRA).read_text())
    classes = {n.name: (n, INFRA) for n in tree.body if isinstance(n, ast.ClassDef)}
    for c in ("RecordTensor", "VirtualTensor"):
        if c not in classes:
            raise TranslateError(INFRA, f"class {c} not found")

    def find(cls, name, decs):
        for c in c3(classes, cls):
            if c not in classes:
                continue
            fs = [n for n in classes[c][0].body if isinstance(n, ast.FunctionDef) and n.name == name]
            if fs:
                fs = [n for n in fs if decorators(n) == decs]
                if len(fs) != 1:
                    raise TranslateError(f"{INFRA}::{c}.{name}", f"{len(fs)} definitions with decorators {decs}")
                return fs[0]
        raise TranslateError(f"{INFRA}::{cls}", f"not found: {name}")

    out = {}
    for m, spec in EXTERN.items():
        sig = signature(find("RecordTensor", m, []), f"{INFRA}::RecordTensor.{m}", "self")
        if sig["vararg"] or sig["kwarg"] or set(sig["order"]) != set(spec["params"]):
            raise TranslateError(f"{INFRA}::RecordTensor.{m}", f"signature changed: {sig['order']}")
        out[m] = sig
    for cls in ("RecordTensor", "VirtualTensor"):
        sig = signature(find(cls, "create", ["classmethod"]), f"{INFRA}::{cls}.create", "cls")
        if sig["vararg"] or sig["kwarg"]:
            raise TranslateError(f"{INFRA}::{cls}.create", "unsupported signature")
        out[f"{cls}.create"] = sig
    for p in EXTERN_PROPS:
        find("RecordTensor", p, ["property"])
    for p in ("dtype", "device", "value"):
        find("VirtualTensor", p, ["property"])
    out["__props__"] = tuple(EXTERN_PROPS)
    out["__vprops__"] = ("dtype", "device", "value")
    return out


def bind_create(c: ast.Call, sig: dict, where: str) -> dict:
    bound = {}
    for i, x in enumerate(c.args):
        if isinstance(x, ast.Starred) or i >= len(sig["order"]):
            raise TranslateError(where, f"unsupported arguments: {ast.unparse(c)[:120]}")
        bound[sig["order"][i]] = x
    for kw in c.keywords:
        if kw.arg is None or kw.arg not in sig["order"] or kw.arg in bound:
            raise TranslateError(where, f"unsupported arguments: {ast.unparse(c)[:120]}")
        bound[kw.arg] = kw.value
    for p in sig["order"]:
        if p not in bound and p in sig["defaults"]:
            bound[p] = sig["defaults"][p]
    return bound


def scan_constructors(classes: dict, sigs: dict) -> dict:
    """attributes the constructors create: (class, name) -> facts.  Every record must be created with
    `(self, name, self.dt, self.delay, <data>, …, inclusive=True)` — what `ofM` of the glue file assumes"""
    out = {}
    for cname, (cdef, src) in classes.items():
        inits = [f for f in cdef.body if isinstance(f, ast.FunctionDef) and f.name == "__init__"]
        for f in inits:
            for n in ast.walk(f):
                if not isinstance(n, ast.Call):
                    continue
                ftxt = ast.unparse(n.func)
                where = f"{src}::{cname}.__init__:{n.lineno}"
                if ftxt == "RecordTensor.create":
                    b = bind_create(n, sigs["RecordTensor.create"], where)
                    nm = b.get("name")
                    if not (isinstance(nm, ast.Constant) and isinstance(nm.value, str)):
                        raise TranslateError(where, "record created under a computed name")
                    for p, want in CREATE_EXPECT.items():
                        if p not in b or ast.unparse(b[p]) != want:
                            raise TranslateError(where, f"record {nm.value}: argument {p} is "
                                                        f"{ast.unparse(b[p]) if p in b else 'missing'}, expected {want}")
                    if (cname, nm.value) in out:
                        raise TranslateError(where, f"{nm.value} created twice")
                    out[(cname, nm.value)] = {"kind": "rec"}
                elif ftxt == "VirtualTensor.create":
                    b = bind_create(n, sigs["VirtualTensor.create"], where)
                    nm, mat = b.get("name"), b.get("materializer")
                    if not (isinstance(nm, ast.Constant) and isinstance(nm.value, str)
                            and isinstance(mat, ast.Constant) and isinstance(mat.value, str)):
                        raise TranslateError(where, "virtual tensor created with a computed name / materializer")
                    if ast.unparse(b.get("owner")) != "self":
                        raise TranslateError(where, "virtual tensor created on another owner")
                    if (cname, nm.value) in out:
                        raise TranslateError(where, f"{nm.value} created twice")
                    out[(cname, nm.value)] = {"kind": "virtual", "materializer": mat.value}
    return out


def regenerate() -> dict:
    """regenerates Gen/SynapseProg.lean; same return shape as `progtx.regenerate_class`"""
    T = SynTx
    srcs = {p: (REPO / p).read_text() for p in SOURCES}
    trees = {p: ast.parse(t) for p, t in srcs.items()}
    classes: dict = {}
    imports: dict = {}
    for p, tree in trees.items():
        imports[p] = set()
        for n in tree.body:
            if isinstance(n, ast.ClassDef):
                if n.name in classes:
                    raise TranslateError(p, f"class {n.name} defined twice")
                classes[n.name] = (n, p)
            if isinstance(n, ast.ImportFrom) and n.module == "functional" and n.level == 3:
                imports[p] |= {a.name for a in n.names if a.asname is None}
    # base classes named in current.py / expcurrent.py must be the mixins of mixins.py (imported from `.mixins`)
    for p, tree in trees.items():
        if p == MIX:
            continue
        from_mix = {a.name for n in tree.body if isinstance(n, ast.ImportFrom) and n.module == "mixins" and n.level == 1
                    for a in n.names if a.asname is None}
        for n in tree.body:
            if isinstance(n, ast.ClassDef):
                for b in base_names(n):
                    if b in classes and classes[b][1] == MIX and b not in from_mix:
                        raise TranslateError(f"{p}::{n.name}", f"base {b} is not imported from .mixins")
        if "_synparam_at" in {x.id for x in ast.walk(tree) if isinstance(x, ast.Name)} and "_synparam_at" not in from_mix:
            raise TranslateError(p, "_synparam_at is not imported from .mixins")
    T.CLASSES = classes
    T.IMPORTS = imports
    T.EXTERN_SIGS = extern_sigs()
    T.CREATED = scan_constructors(classes, T.EXTERN_SIGS)
    T.PURE, T.EXTRAS = {}, {}
    fdefs = {k: locate(trees, classes, k, s) for k, s in T.METHODS.items()}
    sigs = {}
    for k, f in fdefs.items():
        s = T.METHODS[k]
        st = s.get("state", "self")
        qual = f"{s['cls']}.{s['py']}" if s["cls"] else s["py"]
        sigs[k] = signature(f, f"{s['src']}::{qual}", st)
    text = T.HEADER
    info = {}
    for k, s in T.METHODS.items():
        seg = ast.get_source_segment(srcs[s["src"]], fdefs[k]) or ""
        sha = hashlib.sha256(seg.encode()).hexdigest()[:16]
        dec = f" (`@{s['decorator']}`)" if s.get("decorator") else ""
        qual = f"{s['cls']}.{s['py']}" if s["cls"] else s["py"]
        if s.get("nested"):
            qual += f" / {s['nested']}"
        text += f"\n/-- from `{s['src']}` :: `{qual}`{dec} (sha256 of source segment {sha}) -/\n" + T(k, fdefs[k], sigs).emit()
        info[k] = sha
    text += f"\nend {T.NAMESPACE}\n"
    p = GEN / T.OUT
    changed = not p.exists() or p.read_text() != text
    if changed:
        p.write_text(text)
    return {"functions": info, "rewritten": changed}


if __name__ == "__main__":
    print(json.dumps(regenerate(), indent=1))
